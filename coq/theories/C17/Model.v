(* C17 — executable models of esutil.integrate (gauleg, QGauss, qgauss, QGauss2) and of
   esutil.stat.interplin as used by QGauss.integrate_data.  No proofs here.

   (F) bit-exact PrimFloat models of the C Newton iteration (cgauleg_pywrap.c:39-80), of
       numpy's pairwise float summation and of the float formula chains of the integrators;
   (S) the QGauss.setup cache as a state machine (integrate/util.py:64-77);
   (R) the same formula chains over Coq's reals (the objects of the for-all theorems).

   The C extension is compiled with -O3 and without -march/-ffast-math: + - * / are IEEE-754
   binary64 operations in source order, no FMA.  libm's cos (Newton start value) is NOT
   modelled: its values are inputs of the model ([coss]), measured by the harness. *)
From Coq Require Import PrimFloat Uint63 FloatOps SpecFloat.
From Coq Require Import Reals.
From EsVerif.Common Require Import Base.

(* ------------------------------------------------------------------ generic list helpers *)
Fixpoint map2 {A B C} (f : A -> B -> C) (l1 : list A) (l2 : list B) : list C :=
  match l1, l2 with
  | a :: t1, b :: t2 => f a b :: map2 f t1 t2
  | _, _ => []
  end.

(* cgauleg_pywrap.c:74-77  x[i-1] = lo_i; x[npts+1-i-1] = hi_i  for i = 1..m, m = (npts+1)/2:
   the first npts-m entries come from lo (for odd npts the middle entry is written twice and
   the second write, hi_m, wins), the last m entries are hi reversed. *)
Definition mirror_fill {A} (n : nat) (lo hi : list A) : list A :=
  firstn (n - length hi) lo ++ rev hi.

(* numpy's pairwise summation (numpy/_core/src/umath/loops_utils.h.src), generic in the addition: n < 8 plain
   loop; n <= 128 eight accumulators combined as ((r0+r1)+(r2+r3))+((r4+r5)+(r6+r7)) and a plain tail;
   otherwise split at n/2 rounded down to a multiple of 8.  Instantiated with PrimFloat.add below (module F)
   and with Rplus in SumProofs.v, where it is proved to be the exact sum. *)
Section PairwiseG.
  Context {A : Type} (add : A -> A -> A) (zero : A).
  Fixpoint pw_block_g (r0 r1 r2 r3 r4 r5 r6 r7 : A) (l : list A) : A :=
    match l with
    | a0 :: a1 :: a2 :: a3 :: a4 :: a5 :: a6 :: a7 :: t =>
      pw_block_g (add r0 a0) (add r1 a1) (add r2 a2) (add r3 a3) (add r4 a4) (add r5 a5) (add r6 a6) (add r7 a7) t
    | _ => fold_left add l (add (add (add r0 r1) (add r2 r3)) (add (add r4 r5) (add r6 r7)))
    end.
  Fixpoint pairwise_g (fuel : nat) (l : list A) : option A :=
    let n := length l in
    if (n <? 8)%nat then Some (fold_left add l zero)
    else if (n <=? 128)%nat then
      match l with
      | a0 :: a1 :: a2 :: a3 :: a4 :: a5 :: a6 :: a7 :: t => Some (pw_block_g a0 a1 a2 a3 a4 a5 a6 a7 t)
      | _ => None
      end
    else
      match fuel with
      | O => None
      | S f =>
        let h := (n / 2)%nat in
        let n2 := (h - h mod 8)%nat in
        match pairwise_g f (firstn n2 l), pairwise_g f (skipn n2 l) with
        | Some a, Some b => Some (add a b)
        | _, _ => None
        end
      end.
End PairwiseG.

(* ============================================================== (F) PrimFloat models *)
Module F.
Local Open Scope float_scope.

Definition EPS : float := 0x1.5fd7fe1796495p-35.    (* EPS = 4.e-11;           line 39 *)
Definition PI_C : float := 0x1.921fb54442d18p+1.    (* pi = 3.141592653589793;  line 40 *)

Definition of_Z (z : Z) : float := of_uint63 (Uint63.of_Z z).

(* ---- the float statements of cgauleg_pywrap.c, one definition per C assignment.  The int
   variables i, j, npts occur in them only converted to double (exact below 2^53): they are float
   arguments here ([nf] = (double) npts).  harness/props/c17_translate.py re-translates the C
   statements on every run and checks  translated = these definitions  by [reflexivity]. *)
Definition xm_of (x1 x2 : float) : float := (x1 + x2) / 2.           (* xm = (x1 + x2)/2.0;              *)
Definition xl_of (x1 x2 : float) : float := (x2 - x1) / 2.           (* xl = (x2 - x1)/2.0;              *)
Definition Z1_INIT : float := 0.                                     (* z1 = 0.0;                        *)
Definition PP_INIT : float := 0.                                     (* double ... pp=0 ...              *)
Definition P1_INIT : float := 1.                                     (* p1 = 1.0;                        *)
Definition P2_INIT : float := 0.                                     (* p2 = 0.0;                        *)
Definition leg_step (j z p2 p3 : float) : float :=                   (* p1 = ((2.0*j-1.0)*z*p2-(j-1.0)*p3)/j; *)
  ((2 * j - 1) * z * p2 - (j - 1) * p3) / j.
Definition pp_of (nf z p1 p2 : float) : float :=                     (* pp = npts*(z*p1 - p2)/(z*z -1.); *)
  nf * (z * p1 - p2) / (z * z - 1).
Definition z_next (z1 p1 pp : float) : float := z1 - p1 / pp.        (* z=z1 - p1/pp;                    *)
Definition absdiff (z z1 : float) : float := abs (z - z1).           (* abszdiff = fabs(z-z1);           *)
Definition x_lo (xm xl z : float) : float := xm - xl * z.            (* x[i-1] = xm - xl*z;              *)
Definition x_hi (xm xl z : float) : float := xm + xl * z.            (* x[npts+1-i-1] = xm + xl*z;       *)
Definition w_of (xl z pp : float) : float :=                         (* w[i-1] = 2.0*xl/((1.-z*z)*pp*pp); *)
  2 * xl / ((1 - z * z) * pp * pp).
Definition m_of (npts : Z) : Z := ((npts + 1) / 2)%Z.                (* m = (npts + 1)/2;                *)
(* loop control, re-translated from the loop headers on every run:
   for (i=1; i<= m; ++i)      -> first value I_FIRST, outer_trips passes
   for (j=1; j <= npts;++j)   -> first value J_FIRST, inner_trips passes
   do { .. } while (abszdiff > EPS);  -> continue_newton abszdiff *)
Definition I_FIRST : float := 1.
Definition J_FIRST : float := 1.
Definition outer_trips (npts : Z) : Z := m_of npts.
Definition inner_trips (npts : Z) : Z := npts.
Definition REJECT_ERR : err := EValue.                                (* util.py: raise ValueError(...)   *)
Definition STD_A : float := (-1)%float.                               (* QGauss.setup: gauleg(-1.0, 1.0, self.npts) *)
Definition STD_B : float := 1.
Definition reject_npts (npts : Z) : bool := (npts <=? 0)%Z.           (* util.py: if npts <= 0: raise ValueError *)
(* the array positions written for root i (1-based): x[i-1], x[npts+1-i-1] *)
Definition idx_lo (i : Z) : Z := (i - 1)%Z.
Definition idx_hi (npts i : Z) : Z := (npts + 1 - i - 1)%Z.

(* lines 74-77 as what they are: writes into the arrays PyArray_ZEROS allocated.
   for (i = i0; ...; ++i) { a[i-1] = lo_i; a[npts+1-i-1] = hi_i; }   ([los], [his]: the values of the
   remaining passes).  FillProofs.fill_loop_is_mirror_fill: for m = (npts+1)/2 passes from i = 1 on
   an array of length npts this is [mirror_fill] (for odd npts the middle entry is written twice). *)
Fixpoint upd {A} (l : list A) (k : nat) (v : A) : list A :=
  match l, k with
  | [], _ => []
  | _ :: t, O => v :: t
  | a :: t, S k' => a :: upd t k' v
  end.
Fixpoint fill_loop {A} (npts i : Z) (los his arr : list A) : list A :=
  match los, his with
  | lo :: lt, hi :: ht =>
    fill_loop npts (i + 1) lt ht (upd (upd arr (Z.to_nat (idx_lo i)) lo) (Z.to_nat (idx_hi npts i)) hi)
  | _, _ => arr
  end.

(* lines 59-66: p1=1; p2=0; for j=1..npts { p3=p2; p2=p1; p1=((2.0*j-1.0)*z*p2-(j-1.0)*p3)/j; }
   [j] is the int loop counter converted to double (exact) *)
Fixpoint legendre (cnt : nat) (j z p1 p2 : float) : float * float :=
  match cnt with
  | O => (p1, p2)
  | S c =>
    let p3 := p2 in
    let p2' := p1 in
    let p1' := leg_step j z p2' p3 in
    legendre c (j + 1) z p1' p2'
  end.

(* lines 59-71, one pass of the loop body: returns (z, z1, pp) after the pass *)
Definition newton_step (n : nat) (nf z : float) : float * float * float :=
  let '(p1, p2) := legendre n J_FIRST z P1_INIT P2_INIT in
  let pp := pp_of nf z p1 p2 in
  (z_next z p1 pp, z, pp).

Definition continue_newton (abszdiff : float) : bool := EPS <? abszdiff.   (* while (abszdiff > EPS) *)

(* repaired code:  do { body } while (fabs(z-z1) > EPS);   explicit fuel *)
Fixpoint newton_do (fuel n : nat) (nf z : float) : option (float * float * float) :=
  match fuel with
  | O => None
  | S f =>
    let '(z', z1', pp') := newton_step n nf z in
    if continue_newton (absdiff z' z1') then newton_do f n nf z' else Some (z', z1', pp')
  end.

(* unchanged code:  abszdiff = fabs(z-z1); while (abszdiff > EPS) { body } *)
Definition newton_while (fuel n : nat) (nf z z1 pp : float) : option (float * float * float) :=
  if continue_newton (absdiff z z1) then newton_do fuel n nf z else Some (z, z1, pp).

Definition newton (orig : bool) (fuel n : nat) (nf z z1 pp : float) :=
  if orig then newton_while fuel n nf z z1 pp else newton_do fuel n nf z.

(* outer loop i = 1..m over the start values; z1 and pp are carried from root to root as in C.
   Result: (z_i, pp_i) per root. *)
Fixpoint roots (orig : bool) (fuel n : nat) (nf : float) (coss : list float) (z1 pp : float)
  : option (list (float * float)) :=
  match coss with
  | [] => Some []
  | c :: t =>
    match newton orig fuel n nf c z1 pp with
    | None => None
    | Some (z, z1', pp') =>
      match roots orig fuel n nf t z1' pp' with
      | None => None
      | Some r => Some ((z, pp') :: r)
      end
    end
  end.

(* line 53: the argument of cos for i = 1..m:  pi*(i-0.25)/(npts+.5) *)
Definition cos_arg (i nf : float) : float := PI_C * (i - 0.25) / (nf + 0.5).
Fixpoint cos_args_from (cnt : nat) (i nf : float) : list float :=
  match cnt with
  | O => []
  | S c => cos_arg i nf :: cos_args_from c (i + 1) nf
  end.
Definition cos_args (npts : Z) : list float :=
  cos_args_from (Z.to_nat (outer_trips npts)) I_FIRST (of_Z npts).

Definition NEWTON_FUEL : nat := 100.

(* esutil.integrate.gauleg(x1,x2,npts): util.py:277-306 (npts <= 0 -> ValueError) and
   cgauleg_pywrap.c.  [coss] are the measured values of cos at [cos_args npts]. *)
Definition gauleg_gen (orig : bool) (x1 x2 : float) (npts : Z) (coss : list float)
  : result (list float * list float) :=
  if reject_npts npts then Err REJECT_ERR
  else
    let n := Z.to_nat (inner_trips npts) in
    let m := Z.to_nat (outer_trips npts) in
    if negb (Nat.eqb (length coss) m) then Err EOther
    else
      let nf := of_Z npts in
      let xm := xm_of x1 x2 in
      let xl := xl_of x1 x2 in
      match roots orig NEWTON_FUEL n nf coss Z1_INIT PP_INIT with
      | None => Err EFuel
      | Some r =>
        let lo := map (fun zp => x_lo xm xl (fst zp)) r in
        let hi := map (fun zp => x_hi xm xl (fst zp)) r in
        let w := map (fun zp => w_of xl (fst zp) (snd zp)) r in
        Ok (mirror_fill n lo hi, mirror_fill n w w)
      end.

(* the same function with the two output arrays produced the way the C code produces them:
   zero-initialised arrays (PyArray_ZEROS) and the writes of lines 74-77 in loop order.
   FillProofs.gauleg_writes_eq:  gauleg_gen_w = gauleg_gen. *)
Definition gauleg_gen_w (orig : bool) (x1 x2 : float) (npts : Z) (coss : list float)
  : result (list float * list float) :=
  if reject_npts npts then Err REJECT_ERR
  else
    let n := Z.to_nat (inner_trips npts) in
    let m := Z.to_nat (outer_trips npts) in
    if negb (Nat.eqb (length coss) m) then Err EOther
    else
      let nf := of_Z npts in
      let xm := xm_of x1 x2 in
      let xl := xl_of x1 x2 in
      match roots orig NEWTON_FUEL n nf coss Z1_INIT PP_INIT with
      | None => Err EFuel
      | Some r =>
        let lo := map (fun zp => x_lo xm xl (fst zp)) r in
        let hi := map (fun zp => x_hi xm xl (fst zp)) r in
        let w := map (fun zp => w_of xl (fst zp) (snd zp)) r in
        Ok (fill_loop npts 1 lo hi (repeat zero n), fill_loop npts 1 w w (repeat zero n))
      end.

Definition gauleg := gauleg_gen false.        (* repaired code (do-while) *)
Definition gauleg_orig := gauleg_gen true.    (* unchanged code (while)   *)

(* ---- numpy's float64 add.reduce on a contiguous buffer: 0.0 + pairwise_sum(a, n)
   (numpy/_core/src/umath/loops_utils.h.src: n < 8 plain loop; n <= 128 eight accumulators;
   otherwise split at n/2 rounded down to a multiple of 8).  Modelled, not verified: tied to
   numpy by the bit-exact correspondence of the integrators. *)
Definition pw_block : float -> float -> float -> float -> float -> float -> float -> float -> list float -> float :=
  pw_block_g PrimFloat.add.
Definition pairwise : nat -> list float -> option float := pairwise_g PrimFloat.add 0.

Definition np_sum (l : list float) : option float :=
  match pairwise 64 l with Some s => Some (0 + s) | None => None end.

(* ---- QGauss.integrate_func  (util.py:89-113)
   f1=(x2-x1)/2.0; f2=(x2+x1)/2.0; xi = xxi*f1+f2; yvals=func(xi);
   integrand = yvals*wii; return f1*integrand.sum()
   [ys] are the values the user function returned on [func_abscissae] (an input: the function
   is arbitrary user code) *)
(* the float statements of QGauss.integrate_func / integrate_data (re-translated from util.py
   by c17_translate.py on every run; numpy arrays are applied elementwise) *)
Definition f1_of (x1 x2 : float) : float := (x2 - x1) / 2.           (* f1 = (x2 - x1) / 2.0        *)
Definition f2_of (x1 x2 : float) : float := (x2 + x1) / 2.           (* f2 = (x2 + x1) / 2.0        *)
Definition xi_of (xxi f1 f2 : float) : float := xxi * f1 + f2.       (* xi = self.xxi * f1 + f2     *)
Definition integrand_of (yvals wii : float) : float := yvals * wii.  (* integrand = yvals * self.wii *)
Definition result_of (f1 isum : float) : float := f1 * isum.         (* return f1 * isum            *)

Definition func_abscissae (xxi : list float) (x1 x2 : float) : list float :=
  let f1 := f1_of x1 x2 in
  let f2 := f2_of x1 x2 in
  map (fun z => xi_of z f1 f2) xxi.

Definition integrate_func (wii : list float) (x1 x2 : float) (ys : list float) : option float :=
  let f1 := f1_of x1 x2 in
  match np_sum (map2 integrand_of ys wii) with
  | Some s => Some (result_of f1 s)
  | None => None
  end.

(* ---- esutil.stat.interplin(v, x, u)  (stat/util.py:1217-1259), one abscissa u.
   x.searchsorted(u) on ascending x = number of entries < u. *)
Definition fnth (l : list float) (i : Z) : float := nth (Z.to_nat i) l nan.

Definition searchsorted (x : list float) (u : float) : Z :=
  Z.of_nat (length (filter (fun xi => xi <? u) x)).

(* interplin's index selection as a function of searchsorted's answer [ss] and the table size (re-translated from
   stat/util.py on every run):  xm = ss - 1;  xm[xm >= size-1] = size-2;  xm[xm < 0] = 0 *)
Definition interp_index_of (ss size : Z) : Z :=
  let xm := (ss - 1)%Z in
  let xm := if (size - 1 <=? xm)%Z then (size - 2)%Z else xm in
  if (xm <? 0)%Z then 0%Z else xm.
Definition interp_index (x : list float) (u : float) : Z :=
  interp_index_of (searchsorted x u) (Z.of_nat (length x)).

(* return (u - x[xm]) * (v[xmp1] - v[xm]) / (x[xmp1] - x[xm]) + v[xm]   (stat/util.py) *)
Definition interp_formula (u x_m x_p v_m v_p : float) : float :=
  (u - x_m) * (v_p - v_m) / (x_p - x_m) + v_m.

Definition interplin1 (v x : list float) (u : float) : float :=
  let xm := interp_index x u in
  let xmp1 := (xm + 1)%Z in
  interp_formula u (fnth x xm) (fnth x xmp1) (fnth v xm) (fnth v xmp1).

Definition fmin_list (l : list float) : float :=
  match l with [] => nan | a :: t => fold_left (fun m x => if x <? m then x else m) t a end.
Definition fmax_list (l : list float) : float :=
  match l with [] => nan | a :: t => fold_left (fun m x => if m <? x then x else m) t a end.

(* ---- QGauss.integrate_data (util.py:115-141); needs >= 2 tabulated points *)
Definition integrate_data (xxi wii xv yv : list float) : option float :=
  if (length xv <? 2)%nat then None
  else
    let x1 := fmin_list xv in
    let x2 := fmax_list xv in
    let xi := func_abscissae xxi x1 x2 in
    let yi := map (interplin1 yv xv) xi in
    integrate_func wii x1 x2 yi.

(* ---- QGauss2 (util.py:206-250, repaired _setup: weight grids have the mesh's shape (ny,nx)).
   Row-major flattening of the (ny, nx) arrays: row i (over y), column j (over x). *)
Definition grid_x (x y : list float) : list float := flat_map (fun _ => x) y.
Definition grid_y (x y : list float) : list float := flat_map (fun yi => map (fun _ => yi) x) y.
(* the float statements of QGauss2._setup / integrate_func (re-translated from util.py) *)
Definition wgrid_of (wxj wyi : float) : float := (1 * wxj) * (1 * wyi).  (* ones(..)*wx[newaxis,:] * (ones(..)*wy[:,newaxis]) *)
Definition xf1_of (x1 x2 : float) : float := (x2 - x1) / 2.
Definition xf2_of (x1 x2 : float) : float := (x2 + x1) / 2.
Definition grid_of (g f1 f2 : float) : float := g * f1 + f2.            (* xgrid = self.xgrid * xf1 + xf2 *)
Definition result2_of (xf1 yf1 isum : float) : float := xf1 * yf1 * isum.  (* return xf1 * yf1 * isum *)

Definition grid_w (wx wy : list float) : list float :=
  flat_map (fun wyi => map (fun wxj => wgrid_of wxj wyi) wx) wy.

Definition func2_abscissae (x y : list float) (x1 x2 y1 y2 : float) : list float * list float :=
  let xf1 := xf1_of x1 x2 in let xf2 := xf2_of x1 x2 in
  let yf1 := xf1_of y1 y2 in let yf2 := xf2_of y1 y2 in
  (map (fun g => grid_of g xf1 xf2) (grid_x x y), map (fun g => grid_of g yf1 yf2) (grid_y x y)).

Definition integrate_func2 (wx wy : list float) (x1 x2 y1 y2 : float) (zs : list float) : option float :=
  let xf1 := xf1_of x1 x2 in
  let yf1 := xf1_of y1 y2 in
  match np_sum (map2 integrand_of zs (grid_w wx wy)) with
  | Some s => Some (result2_of xf1 yf1 s)
  | None => None
  end.

(* ---- array shapes in QGauss2 (numpy broadcasting of 2-d shapes; None = ValueError "operands could
   not be broadcast together").  _setup: mesh = meshgrid(x, y) has shape (ny, nx);
   wxgrid = ones(S) * wx[newaxis, :]  (1, nx);  wygrid = ones(S) * wy[:, newaxis]  (ny, 1);
   wgrid = wxgrid * wygrid;  integrate_func: integrand = zvals (mesh shape) * wgrid.
   S = (ny, nx) in the repaired code, (nx, ny) in the unchanged code ([orig]). *)
Definition bdim (a b : Z) : option Z :=
  if (a =? b)%Z then Some a else if (a =? 1)%Z then Some b else if (b =? 1)%Z then Some a else None.
Definition bshape (s t : Z * Z) : option (Z * Z) :=
  match bdim (fst s) (fst t), bdim (snd s) (snd t) with
  | Some a, Some b => Some (a, b)
  | _, _ => None
  end.
Definition wgrid_shape (orig : bool) (nx ny : Z) : option (Z * Z) :=
  let S := if orig then (nx, ny) else (ny, nx) in
  match bshape S (1%Z, nx), bshape S (ny, 1%Z) with
  | Some a, Some b => bshape a b
  | _, _ => None
  end.
Definition mesh_shape (nx ny : Z) : Z * Z := (ny, nx).
Definition integrand_shape (orig : bool) (nx ny : Z) : option (Z * Z) :=
  match wgrid_shape orig nx ny with
  | Some w => bshape (mesh_shape nx ny) w
  | None => None
  end.

(* bit-for-bit equality of floats (all NaNs identified) *)
Definition sf_eqb (a b : spec_float) : bool :=
  match a, b with
  | S754_zero s, S754_zero t => Bool.eqb s t
  | S754_infinity s, S754_infinity t => Bool.eqb s t
  | S754_nan, S754_nan => true
  | S754_finite s m e, S754_finite t m' e' => Bool.eqb s t && Pos.eqb m m' && Z.eqb e e'
  | _, _ => false
  end.
Definition feqb (a b : float) : bool := sf_eqb (Prim2SF a) (Prim2SF b).
Definition flist_eqb := list_eqb feqb.

End F.

(* ============================================================== (S) QGauss.setup cache *)
(* class QGauss: state (self.npts, (self.xxi, self.wii)).  [G n] is gauleg(-1.0, 1.0, n);
   [I rule arg] is the integration proper once the rule is fixed (integrate_func or
   integrate_data on some arguments).  setup (lines 72-76) assigns self.npts BEFORE calling
   gauleg, so a raising gauleg leaves npts updated and the old rule in place. *)
Section Cache.
  Context {T Arg Out : Type}.
  Variable G : Z -> result T.
  Variable I : T -> Arg -> result Out.

  Record qstate := { st_npts : option Z; st_rule : option T }.

  Definition q_none : qstate := {| st_npts := None; st_rule := None |}.

  Definition same_npts (s : option Z) (n : Z) : bool :=
    match s with Some k => k =? n | None => false end.

  (* returns the new state and the exception, if one was raised *)
  Definition setup (st : qstate) (npts : option Z) : qstate * option err :=
    match npts with
    | None => (st, None)
    | Some n =>
      if same_npts (st_npts st) n then (st, None)
      else match G n with
           | Ok r => ({| st_npts := Some n; st_rule := Some r |}, None)
           | Err e => ({| st_npts := Some n; st_rule := st_rule st |}, Some e)
           end
    end.

  (* QGauss(npts) *)
  Definition q_init (npts : option Z) : qstate * option err := setup q_none npts.

  (* qg.integrate(x, y_or_func, npts=...) *)
  Definition q_integrate (st : qstate) (npts : option Z) (a : Arg) : qstate * result Out :=
    match setup st npts with
    | (st', Some e) => (st', Err e)
    | (st', None) =>
      match st_npts st', st_rule st' with
      | None, _ => (st', Err EValue)         (* "Set npts on construction or in this call" *)
      | Some _, Some r => (st', I r a)
      | Some _, None => (st', Err EType)     (* self.xxi is None: None * f1 *)
      end
    end.

  (* the common prologue of integrate_func / integrate_data:  self.setup(npts=npts);
     if self.npts is None: raise ValueError(...) *)
  Definition q_prologue (st : qstate) (npts : option Z) : qstate * option err :=
    match setup st npts with
    | (st', Some e) => (st', Some e)
    | (st', None) => match st_npts st' with None => (st', Some EValue) | Some _ => (st', None) end
    end.

  (* a whole history on one object; outputs in call order *)
  Fixpoint q_run (st : qstate) (ops : list (option Z * Arg)) : qstate * list (result Out) :=
    match ops with
    | [] => (st, [])
    | (n, a) :: t =>
      let '(st', o) := q_integrate st n a in
      let '(st'', os) := q_run st' t in
      (st'', o :: os)
    end.

  (* qgauss(x, y, npts) = QGauss(npts).integrate(x, y) *)
  Definition qgauss_fn (npts : option Z) (a : Arg) : result Out :=
    match q_init npts with
    | (_, Some e) => Err e
    | (st, None) => snd (q_integrate st None a)
    end.
End Cache.

(* ============================================================== (D) QGauss.integrate dispatch *)
(* def integrate(self, xvals, yvals_or_func, npts=None): which integrator the second argument is
   sent to.  Repaired code: callable(yvals_or_func); unchanged code ([orig]): isinstance(..,
   (FunctionType, MethodType)).  [ykind]: what python object the caller passed. *)
Inductive ykind :=
  | YFunction | YLambda | YMethod                         (* FunctionType / MethodType *)
  | YUfunc | YPartial | YBuiltin | YVectorize | YCallableObject   (* callable, not FunctionType *)
  | YArray | YList | YTuple.                               (* tabulated y values: not callable *)
Inductive route := RFunc | RData.

Definition is_callable (k : ykind) : bool :=
  match k with YArray | YList | YTuple => false | _ => true end.
Definition is_plain_function (k : ykind) : bool :=
  match k with YFunction | YLambda | YMethod => true | _ => false end.
Definition dispatch (orig : bool) (k : ykind) : route :=
  if (if orig then is_plain_function k else is_callable k) then RFunc else RData.
Definition route_eqb (a b : route) : bool :=
  match a, b with RFunc, RFunc | RData, RData => true | _, _ => false end.
(* known class of the unchanged dispatch: a function integrand that is not FunctionType/MethodType *)
Definition kf_callable_not_function (k : ykind) : bool := is_callable k && negb (is_plain_function k).

(* ============================================================== (R) real-number models *)
Module RM.
Local Open Scope R_scope.

(* a rule = abscissae xs and weights ws;  Qrule f = sum_i w_i f(x_i) *)
Fixpoint Qrule (xs ws : list R) (f : R -> R) : R :=
  match xs, ws with
  | x :: xt, w :: wt => w * f x + Qrule xt wt f
  | _, _ => 0
  end.

Definition Rsum (l : list R) : R := fold_right Rplus 0 l.

(* affine map of a rule on [-1,1] to [a,b]: nodes xm + xl z, weights xl w *)
Definition map_nodes (a b : R) (zs : list R) : list R := map (fun z => (a + b) / 2 + (b - a) / 2 * z) zs.
Definition map_weights (a b : R) (ws : list R) : list R := map (fun w => (b - a) / 2 * w) ws.

(* QGauss.integrate_func over the reals: f1 * sum (f(xxi*f1+f2) * wii) *)
Definition integrate_func (zs ws : list R) (x1 x2 : R) (f : R -> R) : R :=
  let f1 := (x2 - x1) / 2 in
  let f2 := (x2 + x1) / 2 in
  f1 * Rsum (map2 (fun z w => f (z * f1 + f2) * w) zs ws).

(* interplin over the reals, the code's index selection *)
Definition Rltb (a b : R) : bool := if Rlt_dec a b then true else false.
Definition searchsorted (x : list R) (u : R) : Z := Z.of_nat (length (filter (fun xi => Rltb xi u) x)).
Definition interp_index (x : list R) (u : R) : Z :=
  let size := Z.of_nat (length x) in
  let xm := (searchsorted x u - 1)%Z in
  let xm := if (size - 1 <=? xm)%Z then (size - 2)%Z else xm in
  if (xm <? 0)%Z then 0%Z else xm.
Definition rnth (l : list R) (i : Z) : R := nth (Z.to_nat i) l 0.
Definition interplin (v x : list R) (u : R) : R :=
  let xm := interp_index x u in
  let xmp1 := (xm + 1)%Z in
  (u - rnth x xm) * (rnth v xmp1 - rnth v xm) / (rnth x xmp1 - rnth x xm) + rnth v xm.

Definition Rmin_list (l : list R) : R := match l with [] => 0 | a :: t => fold_left Rmin t a end.
Definition Rmax_list (l : list R) : R := match l with [] => 0 | a :: t => fold_left Rmax t a end.

Definition integrate_data (zs ws xv yv : list R) : R :=
  integrate_func zs ws (Rmin_list xv) (Rmax_list xv) (interplin yv xv).

(* QGauss2.integrate_func over the reals: xf1*yf1 * sum_{i<ny, j<nx} f(x_j', y_i') * (wx_j*wy_i) *)
Definition integrate_func2 (x wx y wy : list R) (x1 x2 y1 y2 : R) (f : R -> R -> R) : R :=
  let xf1 := (x2 - x1) / 2 in let xf2 := (x2 + x1) / 2 in
  let yf1 := (y2 - y1) / 2 in let yf2 := (y2 + y1) / 2 in
  xf1 * yf1 *
  Rsum (flat_map (fun yw => map2 (fun xj wxj => f (xj * xf1 + xf2) (fst yw * yf1 + yf2) * (wxj * snd yw)) x wx)
                 (combine y wy)).

(* ---- the Newton pass of cgauleg_pywrap.c over the reals: the same statements as F.legendre /
   F.pp_of / F.z_next / F.w_of with exact arithmetic (the loop counter j as a real).  Legendre.v proves
   that this IS Bonnet's recursion for the Legendre polynomials, that pp is P_n'(z) and hence that the
   update is Newton's method on P_n. *)
Fixpoint legendre_R (cnt : nat) (j z p1 p2 : R) : R * R :=
  match cnt with
  | O => (p1, p2)
  | S c => legendre_R c (j + 1) z (((2 * j - 1) * z * p1 - (j - 1) * p2) / j) p1
  end.
Definition pp_R (nf z p1 p2 : R) : R := nf * (z * p1 - p2) / (z * z - 1).
Definition newton_step_R (n : nat) (z : R) : R * R :=        (* (next z, pp) *)
  let '(p1, p2) := legendre_R n 1 z 1 0 in
  let pp := pp_R (INR n) z p1 p2 in
  (z - p1 / pp, pp).
Definition weight_R (xl z pp : R) : R := 2 * xl / ((1 - z * z) * pp * pp).

(* polynomials as coefficient lists, lowest degree first *)
Fixpoint peval (p : list R) (x : R) : R :=
  match p with
  | [] => 0
  | c :: t => c + x * peval t x
  end.

Definition norm1 (p : list R) : R := Rsum (map Rabs p).

(* coefficient list of  t |-> p(xm + xl t)  (same length as p) *)
Fixpoint padd (p q : list R) : list R :=
  match p, q with
  | [], _ => q
  | _, [] => p
  | a :: p', b :: q' => (a + b) :: padd p' q'
  end.
Definition pscale (c : R) (p : list R) : list R := map (Rmult c) p.
Fixpoint pcomp (p : list R) (xm xl : R) : list R :=
  match p with
  | [] => []
  | c :: t => let r := pcomp t xm xl in padd [c] (padd (pscale xm r) (0 :: pscale xl r))
  end.

(* mirrored fill over the reals: the same [mirror_fill] as in the float model *)
Definition mirror_nodes (n : nat) (xm xl : R) (zs : list R) : list R :=
  mirror_fill n (map (fun z => xm - xl * z) zs) (map (fun z => xm + xl * z) zs).
Definition mirror_weights (n : nat) (wl : list R) : list R := mirror_fill n wl wl.

End RM.

(* C12 -- hypothesis H_cover (completeness half) derived from a contract of the JHU library stated
   in geometric terms: `lookupID` returns a triangle that contains the point, and
   `SpatialDomain::intersect` lists every triangle that contains a point of the cap
   { v | v . c >= d }.  The cap is the one the source builds (GenR.src_cover_cosine). *)
From Coq Require Import Reals Lra ZArith List.
From EsVerif.C12 Require Import Model Proofs SepModel SepCert GenR SepProofs.
Open Scope R_scope.

Section Library.
  Variables (n1 n2 : nat).
  Variables (ra1 dec1 : nat -> R) (ra2 dec2 : nat -> R).   (* the two point sets, degrees *)
  Variable radR : nat -> R.                                  (* search radius of first-set point i, degrees *)
  Variable dis : nat -> nat -> Z.                            (* the model's distance and radius, in its integer unit *)
  Variable radZ : nat -> Z.
  Variable tri : nat -> Z.
  Variable cover : nat -> list Z.
  Variable inside : R -> R -> Z -> Prop.                     (* point (ra, dec) lies in triangle id *)

  (* contract of lookupID *)
  Hypothesis lookup_contract : forall j, (j < n2)%nat -> inside (ra2 j) (dec2 j) (tri j).
  (* contract of SpatialDomain::intersect for the cap the source hands to it *)
  Hypothesis intersect_contract : forall i, (i < n1)%nat -> forall ra dec id,
    src_cover_cosine (radR i) <= dot (point (rad (ra1 i)) (rad (dec1 i))) (point (rad ra) (rad dec)) ->
    inside ra dec id -> In id (cover i).
  (* the integer distances order pairs as the true separations do (exact arithmetic) *)
  Hypothesis units : forall i j, (i < n1)%nat -> (j < n2)%nat -> (dis i j <= radZ i)%Z ->
    true_sep (ra1 i) (dec1 i) (ra2 j) (dec2 j) <= radR i.
  Hypothesis radius_range : forall i, (i < n1)%nat -> 0 <= radR i <= 180.

  Lemma cover_complete_from_library i : (i < n1)%nat -> cover_complete tri n2 dis cover i (radZ i).
  Proof.
    intros Hi j Hj Hd. apply (intersect_contract i Hi (ra2 j) (dec2 j)).
    - apply (within_radius_in_cap (radR i) (ra1 i) (dec1 i) (ra2 j) (dec2 j) (radius_range i Hi)).
      apply units; assumption.
    - apply lookup_contract. exact Hj.
  Qed.
End Library.

(* C12 -- the decisions, loop headers, size checks and file format translated from the source
   (C12/Gen.v, regenerated on every run) are the ones the hand model C12/Model.v contains.
   If a comparison operator, a loop bound, an index, the maxmatch logic, a size check or the row
   format changes in esutil/htm/htmc.cc, htmc.h or htm.py, Gen.v changes and one of these
   lemmas no longer holds. *)
From Coq Require Import Sorting.Permutation Sorting.Sorted.
From Coq Require Strings.String Strings.Ascii.
From EsVerif.Common Require Import Base.
From EsVerif.C12 Require Import Model Spec Proofs Gen.

(* case analysis on every boolean test, then linear arithmetic: robust against equivalent
   rewrites of the source's comparisons (a > b for b < a, >= for >, reordered tests) *)
Ltac cases_lia :=
  repeat match goal with
         | |- context [if ?b then _ else _] => destruct b eqn:?
         end; cbn [negb andb orb] in *; try reflexivity; try lia.

(* ---- Matcher::match *)
Lemma tie_keep dis i rad v :
  leaf_pairs dis i rad v = flat_map (fun j => if src_keep (dis i j) rad then [(j, dis i j)] else []) v.
Proof. reflexivity. Qed.

Lemma tie_nkeep k n :
  Z.of_nat (nkeep k n) = if src_emit_guard (Z.of_nat n) then src_truncate (Z.of_nat n) k else 0.
Proof.
  unfold nkeep, src_emit_guard, src_truncate. cases_lia.
Qed.

Lemma tie_match_one dis cover sorter h k i rad :
  match_one dis cover sorter h k i rad
  = let p := pair_info dis cover h i rad in
    if src_emit_guard (Z.of_nat (length p))
    then map (fun c => (i, fst c, snd c)) (firstn (Z.to_nat (src_truncate (Z.of_nat (length p)) k)) (sorter p))
    else [].
Proof.
  unfold match_one. cbv zeta. destruct (pair_info dis cover h i rad) as [|c p] eqn:E.
  - reflexivity.
  - pose proof (tie_nkeep k (length (c :: p))) as T.
    assert (G : src_emit_guard (Z.of_nat (length (c :: p))) = true) by (unfold src_emit_guard; cbn [length]; lia).
    rewrite G in T |- *. rewrite <- T, Nat2Z.id. reflexivity.
Qed.

(* the comparator: "sorted" for std::sort means that no later element is before an earlier one *)
Lemma tie_before_by_dist (a b : cnd) : by_dist a b <-> src_before (snd b) (snd a) = false.
Proof. unfold by_dist, src_before. lia. Qed.

Lemma tie_insert x y t :
  insert_c x (y :: t) = if src_before (snd x) (snd y) then x :: y :: t else y :: insert_c x t.
Proof. reflexivity. Qed.

(* radius selection: `double rad=0`; `if (nrad == 1) rad = radius[0]` before the loop;
   `if (nrad > 1) rad = radius[i_input]` inside it *)
Lemma tie_rad rads i :
  rad_of rads i
  = let nrad := Z.of_nat (length rads) in
    if src_rad_each nrad then nth (Z.to_nat (src_rad_each_index (Z.of_nat i))) rads 0
    else if src_rad_once nrad then nth (Z.to_nat src_rad_once_index) rads 0
    else 0.
Proof.
  unfold src_rad_each, src_rad_once, src_rad_each_index, src_rad_once_index. cbv zeta.
  destruct rads as [|r [|r' t]]; cbn [length rad_of].
  - destruct i; cases_lia.
  - cases_lia.
  - rewrite ?Nat2Z.id. cases_lia.
Qed.

(* every for loop runs over 0 <= v < bound (the model's [seq 0 n], whole-list traversals and [firstn]) *)
Definition full_range (p : Z * (Z -> Z -> bool)) : Prop := fst p = 0 /\ forall v b, snd p v b = (v <? b).
Lemma tie_loops : Forall full_range src_loops /\ length src_loops = 8%nat.
Proof. split; [|reflexivity]. repeat constructor. Qed.

(* ---- python wrappers: exactly the rejected sizes raise ValueError *)
Lemma tie_matcher_init tri n2 n2dec :
  matcher_init tri n2 n2dec
  = if src_matcher_init_rejects (Z.of_nat n2) (Z.of_nat n2dec) then Err EValue else Ok (matcher_new tri n2).
Proof. unfold matcher_init, src_matcher_init_rejects. cases_lia. Qed.

Lemma tie_matcher_match dis cover sorter m n1 n1dec rads k :
  matcher_match dis cover sorter m n1 n1dec rads k
  = if src_matcher_match_rejects (Z.of_nat n1) (Z.of_nat n1dec) (Z.of_nat (length rads)) then Err EValue
    else Ok (match_loop dis cover sorter (m_hmap m) k rads n1).
Proof. unfold matcher_match, src_matcher_match_rejects. cases_lia. Qed.

Lemma tie_htm_match dis cover sorter tri n2 n2dec n1 n1dec rads k :
  htm_match dis cover sorter tri n2 n2dec n1 n1dec rads k
  = if src_htm_match_rejects (Z.of_nat n1) (Z.of_nat n1dec) (Z.of_nat n2) (Z.of_nat n2dec) (Z.of_nat (length rads))
    then Err EValue
    else do m <- matcher_init tri n2 n2dec; matcher_match dis cover sorter m n1 n1dec rads k.
Proof. unfold htm_match, src_htm_match_rejects. cases_lia. Qed.

(* ---- read_pairs: only the empty file (a match without pairs) bypasses the record reader *)
Lemma tie_empty_file size : 0 <= size -> (src_read_pairs_shortcut size = true <-> size = 0).
Proof. unfold src_read_pairs_shortcut. lia. Qed.

(* ---- the pair file: one row "i1 i2 d12" per pair, read back with the matching dtype *)
(* ---- one candidate row, the error class of the size checks, the defaults of the optional arguments *)
Lemma tie_row i (c : cnd) : src_row i (fst c) (snd c) = (i, fst c, snd c).
Proof. reflexivity. Qed.

Lemma tie_error_classes :
  src_matcher_init_error = EValue /\ src_matcher_match_error = EValue /\ src_htm_match_error = EValue.
Proof. repeat split; reflexivity. Qed.

Lemma tie_sizes_with_class dis cover sorter tri m n2 n2dec n1 n1dec rads k :
  matcher_init tri n2 n2dec
    = (if src_matcher_init_rejects (Z.of_nat n2) (Z.of_nat n2dec) then Err src_matcher_init_error else Ok (matcher_new tri n2))
  /\ matcher_match dis cover sorter m n1 n1dec rads k
    = (if src_matcher_match_rejects (Z.of_nat n1) (Z.of_nat n1dec) (Z.of_nat (length rads)) then Err src_matcher_match_error
       else Ok (match_loop dis cover sorter (m_hmap m) k rads n1))
  /\ htm_match dis cover sorter tri n2 n2dec n1 n1dec rads k
    = (if src_htm_match_rejects (Z.of_nat n1) (Z.of_nat n1dec) (Z.of_nat n2) (Z.of_nat n2dec) (Z.of_nat (length rads))
       then Err src_htm_match_error
       else do m <- matcher_init tri n2 n2dec; matcher_match dis cover sorter m n1 n1dec rads k).
Proof.
  destruct tie_error_classes as [E1 [E2 E3]]. rewrite E1, E2, E3.
  split; [apply tie_matcher_init|]. split; [apply tie_matcher_match|apply tie_htm_match].
Qed.

Lemma tie_defaults :
  src_matcher_match_default_maxmatch = default_maxmatch /\ src_htm_match_default_maxmatch = default_maxmatch
  /\ src_default_file_is_none = (true, true).
Proof. repeat split; reflexivity. Qed.

Import Coq.Strings.String.
(* ---- calls and columns, argument by argument *)
Definition expected_dis_call : list string * bool := (["ra"; "dec"; "tra"; "tdec"], true)%string.
Definition expected_file_columns : list string := ["i1"; "i2"; "d12"]%string.
Definition expected_memory_columns : list (string * string) := [("m1", "i1"); ("m2", "i2"); ("d12", "d12")]%string.
Definition expected_idlist_order : list string := ["flist"; "plist"]%string.
Definition expected_htm_builds : list string * list (string * string) := (["depth"; "ra2"; "dec2"], [])%string.
Definition expected_htm_calls : list string * list (string * string) :=
  (["ra1"; "dec1"; "radius"], [("maxmatch", "maxmatch"); ("file", "filename")])%string.
Definition expected_matcher_calls : list string * list (string * string) :=
  (["ra"; "dec"; "radius"; "maxmatch"; "filename"], [])%string.
Lemma tie_calls_and_columns :
  src_dis_call = expected_dis_call /\ src_file_columns = expected_file_columns
  /\ src_memory_columns = expected_memory_columns /\ src_idlist_order = expected_idlist_order
  /\ src_htm_builds = expected_htm_builds /\ src_htm_calls = expected_htm_calls
  /\ src_matcher_calls = expected_matcher_calls.
Proof. repeat split; reflexivity. Qed.

Definition expected_pair_format : string := ("%ld %ld %.16g" ++ String (Ascii.ascii_of_nat 10) EmptyString)%string.
Definition expected_pair_dtype : list (string * string) := [("i1", "i8"); ("i2", "i8"); ("d12", "f8")]%string.
Definition expected_pair_delim : string := " "%string.
Lemma tie_file_format :
  src_pair_format = expected_pair_format /\ src_pair_dtype = expected_pair_dtype /\ src_pair_delim = expected_pair_delim.
Proof. repeat split; reflexivity. Qed.

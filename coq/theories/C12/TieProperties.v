(* C12 -- tie of the hand model to the source text (DESIGN 4.1).  Property theorems only. *)
From Coq Require Import Sorting.Permutation Sorting.Sorted.
From EsVerif.Common Require Import Base.
From EsVerif.C12 Require Import Model Spec Proofs Gen TieProofs.

(* ---- Tie of the hand model to the source text.  C12/Gen.v is regenerated from
   esutil/htm/htmc.cc, htmc.h and htm.py on every run (harness/props/c12_translate.py); the
   theorems below say that the decisions, loop headers, size checks and row format found in the
   source are the ones Model.v contains, so a changed operator, bound, index or format changes a
   statement that is re-proved.  (The real-number theorems about gcirc are in SepProperties.v.) *)

(* Matcher::match: distance filter, emit guard and maxmatch truncation, comparator of the sort,
   radius selection. *)
Theorem C12_source_decisions_are_the_models : forall dis cover sorter h k i rad v rads (a b x y : cnd) t,
  leaf_pairs dis i rad v = flat_map (fun j => if src_keep (dis i j) rad then [(j, dis i j)] else []) v
  /\ match_one dis cover sorter h k i rad
     = (let p := pair_info dis cover h i rad in
        if src_emit_guard (Z.of_nat (length p))
        then map (fun c => (i, fst c, snd c)) (firstn (Z.to_nat (src_truncate (Z.of_nat (length p)) k)) (sorter p))
        else [])
  /\ (by_dist a b <-> src_before (snd b) (snd a) = false)
  /\ insert_c x (y :: t) = (if src_before (snd x) (snd y) then x :: y :: t else y :: insert_c x t)
  /\ rad_of rads i
     = (let nrad := Z.of_nat (length rads) in
        if src_rad_each nrad then nth (Z.to_nat (src_rad_each_index (Z.of_nat i))) rads 0
        else if src_rad_once nrad then nth (Z.to_nat src_rad_once_index) rads 0 else 0).
Proof.
  intros. split; [apply tie_keep|]. split; [apply tie_match_one|]. split; [apply tie_before_by_dist|].
  split; [apply tie_insert|apply tie_rad].
Qed.

(* Every for loop of Matcher::init_hmap and Matcher::match starts at 0 and runs while v < bound. *)
Theorem C12_source_loops_are_full_ranges : Forall full_range src_loops /\ length src_loops = 8%nat.
Proof. exact tie_loops. Qed.

(* htm.py: exactly the sizes the source tests for raise ValueError. *)
Theorem C12_source_size_checks_are_the_models : forall dis cover sorter tri m n2 n2dec n1 n1dec rads k,
  matcher_init tri n2 n2dec
    = (if src_matcher_init_rejects (Z.of_nat n2) (Z.of_nat n2dec) then Err EValue else Ok (matcher_new tri n2))
  /\ matcher_match dis cover sorter m n1 n1dec rads k
    = (if src_matcher_match_rejects (Z.of_nat n1) (Z.of_nat n1dec) (Z.of_nat (length rads)) then Err EValue
       else Ok (match_loop dis cover sorter (m_hmap m) k rads n1))
  /\ htm_match dis cover sorter tri n2 n2dec n1 n1dec rads k
    = (if src_htm_match_rejects (Z.of_nat n1) (Z.of_nat n1dec) (Z.of_nat n2) (Z.of_nat n2dec) (Z.of_nat (length rads))
       then Err EValue
       else do m <- matcher_init tri n2 n2dec; matcher_match dis cover sorter m n1 n1dec rads k).
Proof.
  intros. split; [apply tie_matcher_init|]. split; [apply tie_matcher_match|apply tie_htm_match].
Qed.

(* The pair file: rows "i1 i2 d12" printed with %ld %ld %.16g, read back as (i8, i8, f8) split at blanks. *)
Theorem C12_source_pair_file_format :
  src_pair_format = expected_pair_format /\ src_pair_dtype = expected_pair_dtype /\ src_pair_delim = expected_pair_delim.
Proof. exact tie_file_format. Qed.

(* read_pairs hands every file to the record reader except the empty one (written by a match
   that found no pair), for which it returns the empty table. *)
Theorem C12_source_only_empty_file_bypasses_reader : forall size, 0 <= size ->
  (src_read_pairs_shortcut size = true <-> size = 0).
Proof. exact tie_empty_file. Qed.

(* One candidate row is (input index, stored index, distance) as assigned in the source; the size
   checks raise the class the model returns; an omitted maxmatch is the model's default_maxmatch and
   an omitted file is None. *)
Theorem C12_source_rows_errors_defaults : forall dis cover sorter tri m n2 n2dec n1 n1dec rads k i (c : cnd),
  src_row i (fst c) (snd c) = (i, fst c, snd c)
  /\ (matcher_init tri n2 n2dec
       = (if src_matcher_init_rejects (Z.of_nat n2) (Z.of_nat n2dec) then Err src_matcher_init_error else Ok (matcher_new tri n2))
     /\ matcher_match dis cover sorter m n1 n1dec rads k
       = (if src_matcher_match_rejects (Z.of_nat n1) (Z.of_nat n1dec) (Z.of_nat (length rads)) then Err src_matcher_match_error
          else Ok (match_loop dis cover sorter (m_hmap m) k rads n1))
     /\ htm_match dis cover sorter tri n2 n2dec n1 n1dec rads k
       = (if src_htm_match_rejects (Z.of_nat n1) (Z.of_nat n1dec) (Z.of_nat n2) (Z.of_nat n2dec) (Z.of_nat (length rads))
          then Err src_htm_match_error
          else do m <- matcher_init tri n2 n2dec; matcher_match dis cover sorter m n1 n1dec rads k))
  /\ (src_matcher_match_default_maxmatch = default_maxmatch /\ src_htm_match_default_maxmatch = default_maxmatch
      /\ src_default_file_is_none = (true, true)).
Proof. intros. split; [apply tie_row|]. split; [apply tie_sizes_with_class|apply tie_defaults]. Qed.

(* Argument by argument: the distance is gcirc(ra, dec, tra, tdec, degrees = true) of the input point and
   the stored point; file rows are (i1, i2, d12) and the result vectors (m1, m2, d12) receive (i1, i2, d12);
   idlist is flist then plist; HTM.match is Matcher(depth, ra2, dec2).match(ra1, dec1, radius,
   maxmatch=maxmatch, file=filename); Matcher.match hands (ra, dec, radius, maxmatch, filename) to the C++ method. *)
Theorem C12_source_calls_and_columns :
  src_dis_call = expected_dis_call /\ src_file_columns = expected_file_columns
  /\ src_memory_columns = expected_memory_columns /\ src_idlist_order = expected_idlist_order
  /\ src_htm_builds = expected_htm_builds /\ src_htm_calls = expected_htm_calls
  /\ src_matcher_calls = expected_matcher_calls.
Proof. exact tie_calls_and_columns. Qed.

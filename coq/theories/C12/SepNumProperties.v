(* C12 -- real-number theorems of the proof-deepening round with numeric content (two constants are
   bounded by Interval, hence the primitive-float specifications among the assumptions).
   Property theorems only; bodies in SepRobust.v / SepCond.v. *)
From Coq Require Import Reals Lra.
From EsVerif.C12 Require Import SepModel SepCert GenR SepProofs SepRobust SepCond.
Open Scope R_scope.

(* The searched cap with room for floating-point error.  Let d' be ANY number within 1e-13 (about
   450 ulp) of the cosine the source computes for the padded cap -- in particular the binary64 value
   the real code obtains.  Every point whose true separation from the centre is within the search
   radius r satisfies  u.c >= d' + 1.4e-12 : it lies inside the cap { v | v.c >= d' } handed to
   SpatialDomain::setRaDecD with a margin 1400 times the library's own tolerance gEpsilon = 1e-15.
   The statement uses the value of MATCH_COVER_PAD_DEGREES regenerated from the source: a pad below
   about 9.6e-5 degree no longer proves. *)
Theorem C12_searched_cap_robust_to_rounding : forall r d' ra1 dec1 ra2 dec2,
  0 <= r -> r + src_cover_pad <= 180 ->
  Rabs (d' - src_cover_cosine r) <= 1 / 10 ^ 13 ->
  true_sep ra1 dec1 ra2 dec2 <= r ->
  d' + 14 / 10 ^ 13 <= dot (point (rad ra1) (rad dec1)) (point (rad ra2) (rad dec2)).
Proof. exact cap_robust. Qed.

(* Beyond 180 - pad the source asks for cosine exactly -1: the whole sphere. *)
Theorem C12_searched_cap_whole_sphere_beyond : forall r, 180 <= r + src_cover_pad -> src_cover_cosine r = -1.
Proof. exact cap_whole_sphere. Qed.

(* Conditioning of the atan2 form of gcirc (the repair of defect 1).  If the two arguments handed
   to atan2 are within eps <= 0.01 (absolutely) of the sine and cosine of the true separation t
   -- whatever rounding and libm did before --, the angle atan2 denotes is within 3 eps of t, for
   EVERY t in [0, PI] (acos(cos t), the as-found formula, amplifies eps to sqrt(2 eps) near 0 and PI).
   With eps = 1e-13 the reported separation is within 1.8e-11 degree of the true one. *)
Theorem C12_atan2_form_well_conditioned : forall ra1 dec1 ra2 dec2 s c eps,
  0 <= s -> 0 <= eps <= 1 / 100 ->
  Rabs (s - sin (true_sep_rad ra1 dec1 ra2 dec2)) <= eps ->
  Rabs (c - cos (true_sep_rad ra1 dec1 ra2 dec2)) <= eps ->
  Rabs (atan2u s c - true_sep_rad ra1 dec1 ra2 dec2) <= 3 * eps
  /\ Rabs (atan2u s c * (180 / PI) - true_sep ra1 dec1 ra2 dec2) <= 3 * eps * (180 / PI).
Proof.
  intros ra1 dec1 ra2 dec2 s c eps Hs He Es Ec.
  pose proof (atan2_conditioning _ s c eps (true_sep_rad_range ra1 dec1 ra2 dec2) Hs He Es Ec) as H.
  split; [exact H|]. unfold true_sep. rewrite <- Rmult_minus_distr_r, Rabs_mult.
  assert (P : 0 < 180 / PI) by (apply Rdiv_lt_0_compat; [lra|apply PI_RGT_0]).
  rewrite (Rabs_right (180 / PI)) by lra. apply Rmult_le_compat_r; lra.
Qed.

(* Non-vacuity: radius 1 degree, a point at separation 0 -- the hypotheses hold with d' = the exact
   cosine; and exact arguments (eps = 0) give the exact angle. *)
Example C12_num_nonvacuous :
  14 / 10 ^ 13 <= 1 - src_cover_cosine 1
  /\ atan2u (sin (true_sep_rad 0 0 90 0)) (cos (true_sep_rad 0 0 90 0)) = true_sep_rad 0 0 90 0.
Proof.
  split.
  - pose proof (cap_robust 1 (src_cover_cosine 1) 10 20 10 20 ltac:(lra) ltac:(unfold src_cover_pad; lra)) as H.
    rewrite Rminus_diag_eq, Rabs_R0 in H by reflexivity.
    assert (T : true_sep 10 20 10 20 <= 1).
    { unfold true_sep. rewrite true_sep_same. lra. }
    assert (Q : 0 <= 1 / 10 ^ 13) by (apply Rlt_le, Rdiv_lt_0_compat; [lra|apply pow_lt; lra]).
    specialize (H Q T).
    assert (D1 : dot (point (rad 10) (rad 20)) (point (rad 10) (rad 20)) = 1).
    { pose proof (true_sep_same 10 20) as Z. unfold true_sep_rad in Z.
      pose proof (C_bound 10 20 10 20) as B. rewrite <- (cos_acos _ B), Z. apply cos_0. }
    rewrite D1 in H. lra.
  - apply atan2u_polar, true_sep_rad_range.
Qed.

(* C12 -- first-set points with the same neighbourhood (same distances to every second-set point,
   same circle cover) and the same radius get the same group of matches.  This is the relation
   the `long` entry of the harness checks on the real code when it repeats a small first set to
   10^3..10^5 points. *)
From EsVerif.Common Require Import Base.
From EsVerif.C12 Require Import Model Spec.

Lemma leaf_pairs_ext dis i i' rad v :
  (forall j, dis i j = dis i' j) -> leaf_pairs dis i rad v = leaf_pairs dis i' rad v.
Proof.
  intros H. unfold leaf_pairs. induction v as [|j v IH]; [reflexivity|].
  cbn [flat_map]. rewrite IH, (H j). reflexivity.
Qed.

Lemma pair_info_ext dis cover h i i' rad :
  (forall j, dis i j = dis i' j) -> cover i = cover i' ->
  pair_info dis cover h i rad = pair_info dis cover h i' rad.
Proof.
  intros H C. unfold pair_info. rewrite <- C. clear C. generalize (cover i) as l.
  induction l as [|id l IH]; [reflexivity|].
  cbn [flat_map]. rewrite IH. destruct (hmap_find h id) as [v|]; [|reflexivity].
  rewrite (leaf_pairs_ext dis i i' rad v H). reflexivity.
Qed.

Lemma same_neighbourhood_same_group dis cover sorter h k i i' rad :
  (forall j, dis i j = dis i' j) -> cover i = cover i' ->
  map (fun t => (t_i2 t, t_d t)) (match_one dis cover sorter h k i rad)
  = map (fun t => (t_i2 t, t_d t)) (match_one dis cover sorter h k i' rad).
Proof.
  intros H C. unfold match_one. rewrite (pair_info_ext dis cover h i i' rad H C).
  destruct (pair_info dis cover h i' rad) as [|c p]; [reflexivity|].
  rewrite !map_map. apply map_ext. intros a. reflexivity.
Qed.

Lemma same_neighbourhood_rows_tagged dis cover sorter h k i rad :
  forall t, In t (match_one dis cover sorter h k i rad) -> t_i1 t = i.
Proof.
  unfold match_one. destruct (pair_info dis cover h i rad) as [|c p]; [intros t []|].
  intros t Ht. apply in_map_iff in Ht as [a [E _]]. subst t. reflexivity.
Qed.

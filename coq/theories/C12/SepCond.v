(* C12 -- conditioning of the atan2 form of gcirc: if the two arguments handed to atan2 are within
   eps (absolutely) of (sin t, cos t) of the true separation t, the angle atan2 denotes is within
   3 eps of t -- for every t in [0, PI], also near 0 and PI where acos(cos t) loses half the digits. *)
From Coq Require Import Reals Lra.
From Interval Require Import Tactic.
From EsVerif.C12 Require Import SepModel SepCert.
Open Scope R_scope.

Lemma atan2u_scale rho s c : 0 < rho -> atan2u (rho * s) (rho * c) = atan2u s c.
Proof.
  intro Hr. unfold atan2u.
  destruct (Rlt_dec 0 (rho * c)) as [A|A]; destruct (Rlt_dec 0 c) as [B|B]; try (exfalso; nra).
  - f_equal. field. lra.
  - destruct (Rlt_dec (rho * c) 0) as [A'|A']; destruct (Rlt_dec c 0) as [B'|B']; try (exfalso; nra); try reflexivity.
    f_equal. f_equal. field. lra.
Qed.

(* the angle atan2 denotes, in polar form *)
Lemma atan2u_polar_form s c : 0 <= s -> 0 < s * s + c * c ->
  exists rho phi, 0 < rho /\ rho * rho = s * s + c * c /\ 0 <= phi <= PI
                  /\ s = rho * sin phi /\ c = rho * cos phi /\ atan2u s c = phi.
Proof.
  intros Hs Hn. set (rho := sqrt (s * s + c * c)).
  assert (Hr : 0 < rho) by (apply sqrt_lt_R0; exact Hn).
  assert (Hr2 : rho * rho = s * s + c * c) by (apply sqrt_sqrt; lra).
  assert (Hunit : s / rho * (s / rho) + c / rho * (c / rho) = 1).
  { replace (s / rho * (s / rho) + c / rho * (c / rho)) with ((s * s + c * c) / (rho * rho)) by (field; lra).
    rewrite <- Hr2. field. lra. }
  assert (Hb : -1 <= c / rho <= 1) by nra.
  pose proof (acos_bound (c / rho)) as Hphi.
  assert (Ec : cos (acos (c / rho)) = c / rho) by (apply cos_acos; exact Hb).
  assert (Es : sin (acos (c / rho)) = s / rho).
  { rewrite sin_acos by exact Hb.
    replace (1 - (c / rho)²) with ((s / rho)²) by (unfold Rsqr; lra).
    apply sqrt_Rsqr. apply Rmult_le_pos; [exact Hs|apply Rlt_le, Rinv_0_lt_compat; exact Hr]. }
  exists rho, (acos (c / rho)). split; [exact Hr|]. split; [exact Hr2|]. split; [exact Hphi|].
  assert (E1 : s = rho * sin (acos (c / rho))) by (rewrite Es; field; lra).
  assert (E2 : c = rho * cos (acos (c / rho))) by (rewrite Ec; field; lra).
  split; [exact E1|]. split; [exact E2|].
  transitivity (atan2u (rho * sin (acos (c / rho))) (rho * cos (acos (c / rho)))).
  - f_equal; assumption.
  - rewrite atan2u_scale by exact Hr. apply atan2u_polar. exact Hphi.
Qed.

Lemma small_angle_by_sine x : 0 <= x <= 2 / 5 -> x <= 11 / 10 * sin x.
Proof.
  intro H. apply Rminus_le. interval with (i_autodiff x, i_prec 40).
Qed.

Lemma angle_from_sine d eta : - (PI / 2) < d < PI / 2 -> Rabs (sin d) <= eta -> eta <= 1 / 4 ->
  Rabs d <= 11 / 10 * eta.
Proof.
  intros Hd Hs He.
  assert (S25 : 3 / 10 <= sin (2 / 5)) by interval.
  assert (P : 2 / 5 < PI / 2) by interval.
  destruct (Rle_lt_dec 0 d) as [H0|H0].
  - rewrite Rabs_right by lra. rewrite Rabs_right in Hs by (apply Rle_ge, sin_ge_0; lra).
    assert (d <= 2 / 5).
    { destruct (Rle_lt_dec d (2 / 5)) as [H|H]; [exact H|exfalso].
      assert (sin (2 / 5) < sin d) by (apply sin_increasing_1; lra). lra. }
    pose proof (small_angle_by_sine d ltac:(lra)). lra.
  - rewrite Rabs_left by lra. assert (Hn : sin d < 0) by (apply sin_lt_0_var; lra).
    rewrite Rabs_left in Hs by exact Hn. rewrite <- sin_neg in Hs.
    assert (- d <= 2 / 5).
    { destruct (Rle_lt_dec (- d) (2 / 5)) as [H|H]; [exact H|exfalso].
      assert (sin (2 / 5) < sin (- d)) by (apply sin_increasing_1; lra). lra. }
    pose proof (small_angle_by_sine (- d) ltac:(lra)). lra.
Qed.

(* the conditioning statement *)
Lemma atan2_conditioning t s c eps :
  0 <= t <= PI -> 0 <= s -> 0 <= eps <= 1 / 100 ->
  Rabs (s - sin t) <= eps -> Rabs (c - cos t) <= eps ->
  Rabs (atan2u s c - t) <= 3 * eps.
Proof.
  intros Ht Hs He Es Ec.
  assert (Es' : - eps <= s - sin t <= eps) by (unfold Rabs in Es; destruct (Rcase_abs (s - sin t)); lra).
  assert (Ec' : - eps <= c - cos t <= eps) by (unfold Rabs in Ec; destruct (Rcase_abs (c - cos t)); lra).
  pose proof (sin2_cos2 t) as U. unfold Rsqr in U.
  pose proof (SIN_bound t) as Bs. pose proof (COS_bound t) as Bc.
  set (es := s - sin t) in *. set (ec := c - cos t) in *.
  assert (Hs_eq : s = sin t + es) by (unfold es; ring). assert (Hc_eq : c = cos t + ec) by (unfold ec; ring).
  (* s^2 + c^2 is close to 1 *)
  assert (N : 1 - 4 * eps <= s * s + c * c).
  { rewrite Hs_eq, Hc_eq.
    assert (X : Rabs (es * sin t + ec * cos t) <= 2 * eps).
    { eapply Rle_trans; [apply Rabs_triang|]. rewrite !Rabs_mult.
      assert (Rabs es <= eps) by (unfold Rabs; destruct (Rcase_abs es); lra).
      assert (Rabs ec <= eps) by (unfold Rabs; destruct (Rcase_abs ec); lra).
      assert (Rabs (sin t) <= 1) by (unfold Rabs; destruct (Rcase_abs (sin t)); lra).
      assert (Rabs (cos t) <= 1) by (unfold Rabs; destruct (Rcase_abs (cos t)); lra).
      pose proof (Rabs_pos es). pose proof (Rabs_pos ec). pose proof (Rabs_pos (sin t)). pose proof (Rabs_pos (cos t)). nra. }
    assert (X' : - (2 * eps) <= es * sin t + ec * cos t <= 2 * eps)
      by (unfold Rabs in X; destruct (Rcase_abs (es * sin t + ec * cos t)); lra).
    assert (0 <= es * es + ec * ec <= 2 * eps * eps) by nra.
    replace ((sin t + es) * (sin t + es) + (cos t + ec) * (cos t + ec))
      with (1 + 2 * (es * sin t + ec * cos t) + (es * es + ec * ec)) by (rewrite <- U; ring).
    nra. }
  assert (Hn : 0 < s * s + c * c) by nra.
  destruct (atan2u_polar_form s c Hs Hn) as [rho [phi [Hr [Hr2 [Hphi [E1 [E2 E3]]]]]]].
  rewrite E3.
  assert (Rlo : 1 - 3 * eps <= rho) by nra.
  (* sine and cosine of the difference *)
  assert (Sd : rho * sin (phi - t) = es * cos t - ec * sin t).
  { rewrite sin_minus. replace (rho * (sin phi * cos t - cos phi * sin t)) with ((rho * sin phi) * cos t - (rho * cos phi) * sin t) by ring.
    rewrite <- E1, <- E2, Hs_eq, Hc_eq. ring. }
  assert (Cd : rho * cos (phi - t) = 1 + es * sin t + ec * cos t).
  { rewrite cos_minus. replace (rho * (cos phi * cos t + sin phi * sin t)) with ((rho * cos phi) * cos t + (rho * sin phi) * sin t) by ring.
    rewrite <- E1, <- E2, Hs_eq, Hc_eq. rewrite <- U. ring. }
  assert (Xs : - (2 * eps) <= es * cos t - ec * sin t <= 2 * eps) by nra.
  assert (Xc : 1 - 2 * eps <= 1 + es * sin t + ec * cos t) by nra.
  assert (Cpos : 0 < cos (phi - t)) by nra.
  assert (Dr : - PI <= phi - t <= PI) by lra.
  assert (Dh : - (PI / 2) < phi - t < PI / 2).
  { split.
    - destruct (Rlt_le_dec (- (PI / 2)) (phi - t)) as [H|H]; [exact H|exfalso].
      assert (cos (phi - t) <= 0).
      { rewrite <- cos_neg. apply cos_le_0; lra. }
      lra.
    - destruct (Rlt_le_dec (phi - t) (PI / 2)) as [H|H]; [exact H|exfalso].
      assert (cos (phi - t) <= 0) by (apply cos_le_0; lra). lra. }
  assert (Sb : Rabs (sin (phi - t)) <= 2 * eps / (1 - 3 * eps)).
  { assert (Q : Rabs (rho * sin (phi - t)) <= 2 * eps) by (rewrite Sd; unfold Rabs; destruct (Rcase_abs (es * cos t - ec * sin t)); lra).
    rewrite Rabs_mult, (Rabs_right rho) in Q by lra.
    apply Rmult_le_reg_l with (1 - 3 * eps); [lra|].
    replace ((1 - 3 * eps) * (2 * eps / (1 - 3 * eps))) with (2 * eps) by (field; lra).
    pose proof (Rabs_pos (sin (phi - t))). nra. }
  assert (Eta : 2 * eps / (1 - 3 * eps) <= 1 / 4).
  { apply Rmult_le_reg_l with (1 - 3 * eps); [lra|].
    replace ((1 - 3 * eps) * (2 * eps / (1 - 3 * eps))) with (2 * eps) by (field; lra). lra. }
  pose proof (angle_from_sine (phi - t) _ Dh Sb Eta) as F.
  eapply Rle_trans; [exact F|].
  apply Rmult_le_reg_l with (1 - 3 * eps); [lra|].
  replace ((1 - 3 * eps) * (11 / 10 * (2 * eps / (1 - 3 * eps)))) with (11 / 10 * (2 * eps)) by (field; lra).
  nra.
Qed.

(* C12 — the property as Props, and the boolean checker evaluated on the implementation's
   output by the correspondence run (soundness: Proofs.v / Properties.v).

   Two levels:
   * the EXACT statements about the model's own distance [dis] are in Properties.v
     (C12_exact, C12_kclosest, ...);
   * [match_spec] is the statement of the property about an OUTPUT, relative to the TRUE
     separations D (supplied by an independent high-precision oracle) and the tolerance the
     property grants: pairs with |D - rad| <= tol are unconstrained, reported separations are
     within tol of D.  All quantities are integers in one common unit. *)
From Coq Require Import Sorting.Sorted.
From EsVerif.Common Require Import Base.
From EsVerif.C12 Require Import Model.

(* the rows of first-set index i, as (i2, d12), in output order *)
Definition group (i : nat) (out : list triple) : list cnd :=
  map (fun t => (t_i2 t, t_d t)) (filter (fun t => (t_i1 t =? i)%nat) out).

Section Spec.
  Variables (n1 n2 : nat).
  Variable D : nat -> nat -> Z.          (* true great-circle separation of (first i, second j) *)
  Variable rad : nat -> Z.               (* search radius of first-set point i *)
  Variable tol : Z.
  Variable k : Z.                        (* maxmatch *)
  Variable same : nat -> nat -> bool.    (* identical coordinates *)

  (* why a pair that has to match may be absent: the group was cut to k rows, none of which is
     farther than the absent pair (up to the tolerance) *)
  Definition cut_and_no_farther (i j : nat) (out : list triple) : Prop :=
    0 < k /\ Z.of_nat (length (group i out)) = k /\
    forall c, In c (group i out) -> snd c <= D i j + tol.

  Record match_spec (out : list triple) : Prop := {
    (* indices are valid *)
    ms_range : forall t, In t out -> (t_i1 t < n1)%nat /\ (t_i2 t < n2)%nat;
    (* grouped by first-set index, groups in input order *)
    ms_grouped : StronglySorted le (map t_i1 out);
    (* each pair at most once *)
    ms_once : forall i, NoDup (map fst (group i out));
    (* increasing (reported) separation within a group *)
    ms_sorted : forall i, StronglySorted Z.le (map snd (group i out));
    (* none extra; reported separation = true separation *)
    ms_sound : forall t, In t out ->
        D (t_i1 t) (t_i2 t) <= rad (t_i1 t) + tol /\ Z.abs (t_d t - D (t_i1 t) (t_i2 t)) <= tol;
    (* a positive limit bounds every group *)
    ms_limit : 0 < k -> forall i, Z.of_nat (length (group i out)) <= k;
    (* none missing: a pair inside the radius (beyond the tolerance), or a pair of identical
       points with a non-negative radius, is present -- unless the group was cut to the k
       closest and this pair is not among them *)
    ms_complete : forall i j, (i < n1)%nat -> (j < n2)%nat ->
        (D i j < rad i - tol \/ (same i j = true /\ 0 <= rad i)) ->
        In j (map fst (group i out)) \/ cut_and_no_farther i j out;
    (* identical points are reported at distance exactly zero *)
    ms_self : forall t, In t out -> same (t_i1 t) (t_i2 t) = true -> t_d t = 0
  }.

  (* a pair is constrained by the statement iff its separation is farther than tol from the radius *)
  Definition constrained (i j : nat) : Prop := D i j < rad i - tol \/ rad i + tol < D i j.

  (* ---- boolean checker *)
  Fixpoint sorted_nat_b (l : list nat) : bool :=
    match l with
    | [] => true
    | x :: t => match t with [] => true | y :: _ => (x <=? y)%nat end && sorted_nat_b t
    end.
  Fixpoint sorted_z_b (l : list Z) : bool :=
    match l with
    | [] => true
    | x :: t => match t with [] => true | y :: _ => x <=? y end && sorted_z_b t
    end.
  Fixpoint nodup_nat_b (l : list nat) : bool :=
    match l with
    | [] => true
    | x :: t => negb (existsb (Nat.eqb x) t) && nodup_nat_b t
    end.

  Definition check_row (t : triple) : bool :=
    (t_i1 t <? n1)%nat && (t_i2 t <? n2)%nat
    && (D (t_i1 t) (t_i2 t) <=? rad (t_i1 t) + tol)
    && (Z.abs (t_d t - D (t_i1 t) (t_i2 t)) <=? tol)
    && (if same (t_i1 t) (t_i2 t) then t_d t =? 0 else true).

  Definition check_group (i : nat) (g : list cnd) : bool :=
    nodup_nat_b (map fst g) && sorted_z_b (map snd g)
    && (if 0 <? k then Z.of_nat (length g) <=? k else true)
    && forallb (fun j =>
         if (D i j <? rad i - tol) || (same i j && (0 <=? rad i))
         then existsb (Nat.eqb j) (map fst g)
              || ((0 <? k) && (Z.of_nat (length g) =? k) && forallb (fun c => snd c <=? D i j + tol) g)
         else true) (seq 0 n2).

  Definition check_match (out : list triple) : bool :=
    forallb check_row out && sorted_nat_b (map t_i1 out)
    && forallb (fun i => check_group i (group i out)) (seq 0 n1).
End Spec.

(* ---- file round trip: the rows read back are the rows of the in-memory call *)
Definition same_pairs (a b : list triple) : Prop := map t_ij a = map t_ij b.
Definition nat_pair_eqb (p q : nat * nat) : bool := (fst p =? fst q)%nat && (snd p =? snd q)%nat.
Definition same_pairs_b (a b : list triple) : bool := list_eqb nat_pair_eqb (map t_ij a) (map t_ij b).

(* ---- contract of the circle cover (hypothesis H_cover of the theorems), decidable form
        used by the run-time monitor: every second-set point within the radius (beyond the
        tolerance) lies in a listed triangle; listed occupied triangles are listed once *)
Definition cover_contract_b (n1 n2 : nat) (D : nat -> nat -> Z) (rad : nat -> Z) (tol : Z)
           (tri : nat -> Z) (cover : nat -> list Z) : bool :=
  forallb (fun i =>
    forallb (fun j => if D i j <? rad i - tol then existsb (Z.eqb (tri j)) (cover i) else true) (seq 0 n2))
    (seq 0 n1).

(* C12 — the statements exported by Properties.v, proved from the facts of Proofs.v *)
From Coq Require Import Sorting.Permutation Sorting.Sorted ZifyBool ZifyNat.
From EsVerif.Common Require Import Base.
From EsVerif.C12 Require Import Model Spec ListLemmas Proofs.

Section Main.
  Variable tri : nat -> Z.
  Variable n2 : nat.
  Variable dis : nat -> nat -> Z.
  Variable cover : nat -> list Z.
  Variable sorter : list cnd -> list cnd.
  Variable rads : list Z.
  Variable n1 : nat.

  Notation h := (init_hmap tri n2).
  Notation rad := (rad_of rads).
  Notation out k := (match_loop dis cover sorter h k rads n1).

  (* H_cover: every second-set point within the radius of input point i lies in a listed
     triangle, and the listed ids are duplicate-free *)
  Definition H_cover : Prop :=
    forall i, (i < n1)%nat -> cover_complete tri n2 dis cover i (rad i) /\ NoDup (cover i).

  Hypothesis Hsort : sort_contract sorter.
  Hypothesis Hcov : H_cover.

  Lemma exact_in k t : k <= 0 ->
    (In t (out k) <->
     (t_i1 t < n1)%nat /\ (t_i2 t < n2)%nat /\ t_d t = dis (t_i1 t) (t_i2 t)
     /\ dis (t_i1 t) (t_i2 t) <= rad (t_i1 t)).
  Proof.
    intro Hk. rewrite (in_match_loop tri n2 dis cover sorter Hsort). split.
    - intros [Hi Hr]. apply (rows_sound tri n2 dis cover sorter Hsort) in Hr. simpl in Hr. tauto.
    - intros [Hi [Hj [Hd Hr]]]. split; [exact Hi|]. destruct (Hcov _ Hi) as [Hc Hn].
      destruct (rows_complete tri n2 dis cover sorter Hsort k _ _ _ Hc Hn Hj Hr) as [I|[L _]]; [|lia].
      rewrite Hd. exact I.
  Qed.

  Lemma once k : NoDup (map t_ij (out k)).
  Proof.
    unfold match_loop. rewrite map_flat_map. apply NoDup_flat_map.
    - apply seq_NoDup.
    - intros i Hi. apply in_seq in Hi. rewrite (match_one_rows tri n2 dis cover sorter Hsort), map_map.
      change (NoDup (map (fun x : nat * Z => (fun j => (i, j)) (fst x)) (rows tri n2 dis cover sorter k i (rad i)))).
      rewrite <- (map_map fst (fun j => (i, j))). apply FinFun.Injective_map_NoDup.
      + intros a b Hab. congruence.
      + apply (rows_nodup tri n2 dis cover sorter Hsort). apply Hcov. lia.
    - intros a b x _ _ Hab Ha Hb. apply in_map_iff in Ha as [ta [Ea Ha]], Hb as [tb [Eb Hb]].
      apply (match_one_i1 tri n2 dis cover sorter Hsort) in Ha, Hb. apply Hab.
      unfold t_ij, t_i1 in *. subst x. rewrite <- Ha, <- Hb, Eb. reflexivity.
  Qed.

  Lemma grouped k : StronglySorted le (map t_i1 (out k)).
  Proof. apply (loop_grouped tri n2 dis cover sorter Hsort). Qed.

  Lemma group_eq k i : (i < n1)%nat -> group i (out k) = rows tri n2 dis cover sorter k i (rad i).
  Proof.
    intro Hi. rewrite (group_loop tri n2 dis cover sorter Hsort).
    assert ((i <? n1)%nat = true) as -> by lia. reflexivity.
  Qed.

  Lemma group_out_of_range k i : (n1 <= i)%nat -> group i (out k) = [].
  Proof.
    intro Hi. rewrite (group_loop tri n2 dis cover sorter Hsort).
    assert ((i <? n1)%nat = false) as -> by lia. reflexivity.
  Qed.

  Lemma sorted_within k i : StronglySorted Z.le (map snd (group i (out k))).
  Proof.
    destruct (Nat.lt_ge_cases i n1) as [Hi|Hi].
    - rewrite group_eq by exact Hi. apply SSorted_map. apply (rows_sorted tri n2 dis cover sorter Hsort).
    - rewrite group_out_of_range by exact Hi. constructor.
  Qed.

  Lemma kclosest k i : 0 < k -> (i < n1)%nat ->
    exists l, Permutation l (brute n2 dis i (rad i)) /\ StronglySorted by_dist l
              /\ group i (out k) = firstn (Z.to_nat k) l.
  Proof.
    intros Hk Hi. exists (sorter (pair_info dis cover h i (rad i))). destruct (Hcov _ Hi) as [Hc Hn].
    split; [apply (sorter_perm_brute tri n2 dis cover sorter Hsort); assumption|].
    split; [apply Hsort|]. rewrite group_eq by exact Hi.
    apply (rows_limited tri n2 dis cover sorter Hsort). exact Hk.
  Qed.

  Lemma unlimited_group k i : k <= 0 -> (i < n1)%nat ->
    Permutation (group i (out k)) (brute n2 dis i (rad i)).
  Proof.
    intros Hk Hi. destruct (Hcov _ Hi) as [Hc Hn]. rewrite group_eq by exact Hi.
    rewrite (rows_unlimited tri n2 dis cover sorter Hsort) by exact Hk.
    apply (sorter_perm_brute tri n2 dis cover sorter Hsort); assumption.
  Qed.

  Lemma nonpositive_same k k' : k <= 0 -> k' <= 0 -> out k = out k'.
  Proof.
    intros Hk Hk'. unfold match_loop. apply flat_map_ext. intro i.
    rewrite !(match_one_eq tri n2 dis cover sorter Hsort), !(nkeep_all) by assumption. reflexivity.
  Qed.

  Lemma large_limit_same k :
    (forall i, (i < n1)%nat -> Z.of_nat (length (brute n2 dis i (rad i))) <= k) -> out k = out 0.
  Proof.
    intro Hb. unfold match_loop. apply flat_map_ext_in'. intros i Hi. apply in_seq in Hi.
    rewrite !(match_one_eq tri n2 dis cover sorter Hsort). f_equal. f_equal.
    destruct (Hcov i ltac:(lia)) as [Hc Hn].
    pose proof (Permutation_length (pair_info_perm tri n2 dis cover i (rad i) Hc Hn)) as L.
    specialize (Hb i ltac:(lia)). rewrite <- L in Hb.
    unfold nkeep. destruct (0 <? k) eqn:E1; destruct (k <? Z.of_nat (length (pair_info dis cover h i (rad i)))) eqn:E2;
      simpl; try reflexivity; lia.
  Qed.

  (* identical points: gcirc returns exactly 0 for them *)
  Variable same : nat -> nat -> bool.
  Hypothesis Hsame : forall i j, same i j = true -> dis i j = 0.

  Lemma self_zero_unlimited k i j : k <= 0 -> (i < n1)%nat -> (j < n2)%nat -> same i j = true -> 0 <= rad i ->
    In (i, j, 0) (out k).
  Proof.
    intros Hk Hi Hj Hs Hr. apply exact_in; [exact Hk|]. unfold t_i1, t_i2, t_d. simpl. rewrite (Hsame _ _ Hs). lia.
  Qed.

  Lemma self_zero_row k t : In t (out k) -> same (t_i1 t) (t_i2 t) = true -> t_d t = 0.
  Proof.
    intros Ht Hs. apply (in_match_loop tri n2 dis cover sorter Hsort) in Ht as [Hi Hr].
    apply (rows_sound tri n2 dis cover sorter Hsort) in Hr. simpl in Hr. rewrite <- (Hsame _ _ Hs). tauto.
  Qed.

  (* with a limit: the identical point is a row, or k rows at distance <= 0 fill the group *)
  Lemma self_zero_limited k i j : (i < n1)%nat -> (j < n2)%nat -> same i j = true -> 0 <= rad i ->
    In (j, 0) (group i (out k))
    \/ (0 < k /\ Z.of_nat (length (group i (out k))) = k /\ forall c, In c (group i (out k)) -> snd c <= 0).
  Proof.
    intros Hi Hj Hs Hr. destruct (Hcov _ Hi) as [Hc Hn]. rewrite group_eq by exact Hi.
    pose proof (Hsame _ _ Hs) as E.
    destruct (rows_complete tri n2 dis cover sorter Hsort k i (rad i) j Hc Hn Hj ltac:(lia)) as [I|[L1 [L2 L3]]].
    - left. rewrite E in I. exact I.
    - right. split; [exact L1|]. split; [lia|]. intros c Hc'. rewrite <- E. apply L3. exact Hc'.
  Qed.

  (* ------------------------------------------ the model meets the statement about outputs *)
  Variable D : nat -> nat -> Z.
  Variable tol : Z.
  Hypothesis Hacc : forall i j, (i < n1)%nat -> (j < n2)%nat -> Z.abs (dis i j - D i j) <= tol.

  Lemma model_meets_spec k : match_spec n1 n2 D rad tol k same (out k).
  Proof.
    constructor.
    - intros t Ht. apply (in_match_loop tri n2 dis cover sorter Hsort) in Ht as [Hi Hr].
      apply (rows_sound tri n2 dis cover sorter Hsort) in Hr. simpl in Hr. tauto.
    - apply grouped.
    - intro i. destruct (Nat.lt_ge_cases i n1) as [Hi|Hi].
      + rewrite group_eq by exact Hi. apply (rows_nodup tri n2 dis cover sorter Hsort). apply Hcov. exact Hi.
      + rewrite group_out_of_range by exact Hi. constructor.
    - apply sorted_within.
    - intros t Ht. apply (in_match_loop tri n2 dis cover sorter Hsort) in Ht as [Hi Hr].
      apply (rows_sound tri n2 dis cover sorter Hsort) in Hr. simpl in Hr. destruct Hr as [Hj [Hd Hr]].
      specialize (Hacc _ _ Hi Hj). rewrite Hd. lia.
    - intros Hk i. destruct (Nat.lt_ge_cases i n1) as [Hi|Hi].
      + rewrite group_eq by exact Hi. rewrite (rows_limited tri n2 dis cover sorter Hsort) by exact Hk.
        rewrite firstn_length. lia.
      + rewrite group_out_of_range by exact Hi. simpl. lia.
    - intros i j Hi Hj Hin. destruct (Hcov _ Hi) as [Hc Hn]. specialize (Hacc _ _ Hi Hj).
      assert (Hd : dis i j <= rad i).
      { destruct Hin as [Hin|[Hs Hr]]; [lia|]. rewrite (Hsame _ _ Hs). exact Hr. }
      destruct (rows_complete tri n2 dis cover sorter Hsort k i (rad i) j Hc Hn Hj Hd) as [I|[L1 [L2 L3]]].
      + left. rewrite group_eq by exact Hi. apply in_map_iff. exists (j, dis i j). split; [reflexivity|exact I].
      + right. unfold cut_and_no_farther. rewrite group_eq by exact Hi. split; [exact L1|]. split; [lia|].
        intros c Hc'. specialize (L3 c Hc'). lia.
    - intros t Ht Hs. eapply self_zero_row; eassumption.
  Qed.
End Main.

(* ---------------------------------------------------------------- independence of the index:
   two matchers (different depth, hence different triangle ids and covers; different objects;
   different tie-breaking of the sort) return the same pairs *)
Section Independence.
  Variables (tri tri' : nat -> Z) (n2 : nat) (dis : nat -> nat -> Z).
  Variables (cover cover' : nat -> list Z) (sorter sorter' : list cnd -> list cnd).
  Variables (rads : list Z) (n1 : nat).
  Hypothesis Hsort : sort_contract sorter.
  Hypothesis Hsort' : sort_contract sorter'.
  Hypothesis Hcov : H_cover tri n2 dis cover rads n1.
  Hypothesis Hcov' : H_cover tri' n2 dis cover' rads n1.

  Notation out k := (match_loop dis cover sorter (init_hmap tri n2) k rads n1).
  Notation out' k := (match_loop dis cover' sorter' (init_hmap tri' n2) k rads n1).

  Lemma independent_unlimited k t : k <= 0 -> (In t (out k) <-> In t (out' k)).
  Proof.
    intro Hk. rewrite (exact_in tri n2 dis cover sorter rads n1 Hsort Hcov k t Hk).
    rewrite (exact_in tri' n2 dis cover' sorter' rads n1 Hsort' Hcov' k t Hk). reflexivity.
  Qed.

  (* with a limit the two groups have the same sequence of distances (the members can differ
     only among equal distances) *)
  Lemma independent_limited k i : (i < n1)%nat ->
    map snd (group i (out k)) = map snd (group i (out' k)).
  Proof.
    intro Hi. destruct (Z.le_gt_cases k 0) as [Hk|Hk].
    - apply sorted_perm_eq.
      + apply (sorted_within tri n2 dis cover sorter rads n1 Hsort).
      + apply (sorted_within tri' n2 dis cover' sorter' rads n1 Hsort').
      + apply Permutation_map. eapply Permutation_trans.
        * apply (unlimited_group tri n2 dis cover sorter rads n1 Hsort Hcov k i Hk Hi).
        * apply Permutation_sym. apply (unlimited_group tri' n2 dis cover' sorter' rads n1 Hsort' Hcov' k i Hk Hi).
    - destruct (kclosest tri n2 dis cover sorter rads n1 Hsort Hcov k i Hk Hi) as [l [P [S E]]].
      destruct (kclosest tri' n2 dis cover' sorter' rads n1 Hsort' Hcov' k i Hk Hi) as [l' [P' [S' E']]].
      rewrite E, E', <- !firstn_map. f_equal. apply sorted_perm_eq.
      + apply SSorted_map. exact S.
      + apply SSorted_map. exact S'.
      + apply Permutation_map. eapply Permutation_trans; [exact P|apply Permutation_sym; exact P'].
  Qed.
End Independence.

(* ---------------------------------------------------------------- python wrappers *)
Lemma matcher_match_ok dis cover sorter m n1 rads k :
  (length rads = 1 \/ length rads = n1)%nat ->
  matcher_match dis cover sorter m n1 n1 rads k = Ok (match_loop dis cover sorter (m_hmap m) k rads n1).
Proof.
  intro H. unfold matcher_match. rewrite Nat.eqb_refl. simpl.
  destruct H as [H|H]; rewrite H; rewrite ?Nat.eqb_refl; simpl; rewrite ?andb_false_r; reflexivity.
Qed.

Lemma matcher_match_rejects dis cover sorter m n1 n1dec rads k :
  (n1 <> n1dec \/ (length rads <> 1 /\ length rads <> n1))%nat ->
  matcher_match dis cover sorter m n1 n1dec rads k = Err EValue.
Proof.
  intro H. unfold matcher_match. destruct (n1 =? n1dec)%nat eqn:E; simpl; [|reflexivity].
  destruct H as [H|[H1 H2]]; [apply Nat.eqb_eq in E; contradiction|].
  apply Nat.eqb_neq in H1, H2. rewrite H1, H2. reflexivity.
Qed.

(* the one-shot method IS a fresh Matcher followed by its match method *)
Lemma htm_match_is_matcher dis cover sorter tri n2 n1 rads k :
  (length rads = 1 \/ length rads = n1)%nat ->
  htm_match dis cover sorter tri n2 n2 n1 n1 rads k
  = matcher_match dis cover sorter (matcher_new tri n2) n1 n1 rads k.
Proof.
  intro H. unfold htm_match, matcher_init. rewrite !Nat.eqb_refl. simpl.
  destruct H as [H|H]; rewrite H; rewrite ?Nat.eqb_refl; simpl; rewrite ?andb_false_r; reflexivity.
Qed.

(* a Matcher is not changed by matching: any sequence of queries is answered as by fresh objects *)
Lemma matcher_reusable dis cover sorter tri n2 (queries : list (nat * list Z * Z)) :
  map (fun q => matcher_match dis cover sorter (matcher_new tri n2) (fst (fst q)) (fst (fst q)) (snd (fst q)) (snd q)) queries
  = map (fun q => htm_match dis cover sorter tri n2 n2 (fst (fst q)) (fst (fst q)) (snd (fst q)) (snd q)) queries.
Proof.
  apply map_ext. intros [[n1 rads] k]. simpl. unfold htm_match, matcher_init, matcher_match.
  rewrite !Nat.eqb_refl. simpl. destruct (negb (length rads =? 1)%nat && negb (length rads =? n1)%nat); reflexivity.
Qed.

(* ---------------------------------------------------------------- file round trip *)
Lemma file_roundtrip rt rows :
  let f := write_pairs rt rows in
  same_pairs (read_pairs (fst f)) rows
  /\ snd f = Z.of_nat (length rows)
  /\ map t_d (read_pairs (fst f)) = map rt (map t_d rows).
Proof.
  simpl. unfold same_pairs, read_pairs. rewrite !map_map. split; [|split].
  - apply map_ext. intros [[a b] c]. reflexivity.
  - reflexivity.
  - apply map_ext. intros [[a b] c]. reflexivity.
Qed.

(* ---------------------------------------------------------------- corollaries in the shape of
   the python entry points *)
Section EntryPoints.
  Variables (tri tri' : nat -> Z) (n2 : nat) (dis : nat -> nat -> Z).
  Variables (cover cover' : nat -> list Z) (sorter sorter' : list cnd -> list cnd).
  Variables (rads : list Z) (n1 : nat).
  Hypothesis Hsort : sort_contract sorter.
  Hypothesis Hsort' : sort_contract sorter'.
  Hypothesis Hcov : H_cover tri n2 dis cover rads n1.
  Hypothesis Hcov' : H_cover tri' n2 dis cover' rads n1.
  Hypothesis Hrads : (length rads = 1 \/ length rads = n1)%nat.

  Lemma two_calls_agree k o o' :
    htm_match dis cover sorter tri n2 n2 n1 n1 rads k = Ok o ->
    htm_match dis cover' sorter' tri' n2 n2 n1 n1 rads k = Ok o' ->
    (k <= 0 -> forall t, In t o <-> In t o')
    /\ (forall i, (i < n1)%nat -> map snd (group i o) = map snd (group i o')).
  Proof.
    rewrite !htm_match_is_matcher, !matcher_match_ok by exact Hrads. simpl.
    intros E E'. inversion E; inversion E'; subst. split.
    - intros Hk t. apply (independent_unlimited tri tri' n2 dis cover cover' sorter sorter' rads n1); assumption.
    - intros i Hi. apply (independent_limited tri tri' n2 dis cover cover' sorter sorter' rads n1); assumption.
  Qed.

  Lemma matcher_vs_oneshot k o o' :
    matcher_match dis cover sorter (matcher_new tri n2) n1 n1 rads k = Ok o ->
    htm_match dis cover' sorter' tri' n2 n2 n1 n1 rads k = Ok o' ->
    (k <= 0 -> forall t, In t o <-> In t o')
    /\ (forall i, (i < n1)%nat -> map snd (group i o) = map snd (group i o')).
  Proof.
    intro E. apply two_calls_agree. rewrite htm_match_is_matcher by exact Hrads. exact E.
  Qed.
End EntryPoints.

(* dropping from a cover the ids under which no second-set point is stored changes nothing
   (the harness passes only the occupied part of the often huge id lists to Coq) *)
Lemma pair_info_occupied dis cover h i rad :
  pair_info dis (fun i => filter (fun id => match hmap_find h id with None => false | Some _ => true end) (cover i)) h i rad
  = pair_info dis cover h i rad.
Proof.
  unfold pair_info. induction (cover i) as [|id t IH]; simpl; [reflexivity|].
  destruct (hmap_find h id) eqn:E; simpl; [rewrite E, IH; reflexivity|exact IH].
Qed.

(* C12 -- completeness of the boolean checker: every output that satisfies the statement
   (match_spec) is accepted.  With soundness (CheckProofs.check_match_sound) the checker DECIDES
   the statement: it never demands more than the property states. *)
From Coq Require Import Sorting.Permutation Sorting.Sorted ZifyBool ZifyNat.
From EsVerif.Common Require Import Base.
From EsVerif.C12 Require Import Model Spec ListLemmas Proofs CheckProofs.

Lemma sorted_nat_b_complete l : StronglySorted le l -> sorted_nat_b l = true.
Proof.
  induction 1 as [|x t St IH Fa]; [reflexivity|]. cbn [sorted_nat_b]. rewrite IH, andb_true_r.
  destruct t as [|y t']; [reflexivity|]. inversion Fa; subst. lia.
Qed.

Lemma sorted_z_b_complete l : StronglySorted Z.le l -> sorted_z_b l = true.
Proof.
  induction 1 as [|x t St IH Fa]; [reflexivity|]. cbn [sorted_z_b]. rewrite IH, andb_true_r.
  destruct t as [|y t']; [reflexivity|]. inversion Fa; subst. lia.
Qed.

Lemma nodup_nat_b_complete l : NoDup l -> nodup_nat_b l = true.
Proof.
  induction 1 as [|x t Hn Hd IH]; [reflexivity|]. cbn [nodup_nat_b]. rewrite IH, andb_true_r.
  apply negb_true_iff. destruct (existsb (Nat.eqb x) t) eqn:E; [|reflexivity].
  exfalso. apply Hn. apply existsb_eqb_in. exact E.
Qed.

Lemma in_existsb_eqb j l : In j l -> existsb (Nat.eqb j) l = true.
Proof. intro H. apply existsb_exists. exists j. split; [exact H|apply Nat.eqb_refl]. Qed.

Section Complete.
  Variables (n1 n2 : nat) (D : nat -> nat -> Z) (rad : nat -> Z) (tol k : Z) (same : nat -> nat -> bool).

  Lemma check_match_complete out :
    match_spec n1 n2 D rad tol k same out -> check_match n1 n2 D rad tol k same out = true.
  Proof.
    intros M. destruct M as [Mrange Mgrouped Monce Msorted Msound Mlimit Mcomplete Mself].
    unfold check_match. apply andb_true_iff. split; [apply andb_true_iff; split|].
    - apply forallb_forall. intros t Ht. unfold check_row.
      destruct (Mrange t Ht) as [R1 R2]. destruct (Msound t Ht) as [S1 S2].
      assert (E : (if same (t_i1 t) (t_i2 t) then t_d t =? 0 else true) = true).
      { destruct (same (t_i1 t) (t_i2 t)) eqn:Es; [|reflexivity]. rewrite (Mself t Ht Es). reflexivity. }
      rewrite E. repeat (apply andb_true_iff; split); try reflexivity; lia.
    - apply sorted_nat_b_complete. exact Mgrouped.
    - apply forallb_forall. intros i Hi. apply in_seq in Hi. unfold check_group.
      repeat (apply andb_true_iff; split).
      + apply nodup_nat_b_complete, Monce.
      + apply sorted_z_b_complete, Msorted.
      + destruct (0 <? k) eqn:E; [|reflexivity]. specialize (Mlimit ltac:(lia) i). lia.
      + apply forallb_forall. intros j Hj. apply in_seq in Hj.
        destruct ((D i j <? rad i - tol) || (same i j && (0 <=? rad i))) eqn:E; [|reflexivity].
        assert (P : D i j < rad i - tol \/ (same i j = true /\ 0 <= rad i)).
        { apply orb_true_iff in E as [E|E]; [left; lia|right]. apply andb_true_iff in E as [E1 E2]. split; [exact E1|lia]. }
        destruct (Mcomplete i j ltac:(lia) ltac:(lia) P) as [I|[C1 [C2 C3]]].
        * rewrite (in_existsb_eqb _ _ I). reflexivity.
        * apply orb_true_iff. right. repeat (apply andb_true_iff; split); try lia.
          apply forallb_forall. intros c Hc. specialize (C3 c Hc). lia.
  Qed.

  Lemma check_match_decides out :
    check_match n1 n2 D rad tol k same out = true <-> match_spec n1 n2 D rad tol k same out.
  Proof. split; [apply check_match_sound|apply check_match_complete]. Qed.
End Complete.

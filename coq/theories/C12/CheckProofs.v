(* C12 — soundness of the boolean checker, consequences of match_spec, the executable sort *)
From Coq Require Import Sorting.Permutation Sorting.Sorted ZifyBool ZifyNat.
From EsVerif.Common Require Import Base.
From EsVerif.C12 Require Import Model Spec ListLemmas Proofs.

Lemma sorted_nat_b_sound l : sorted_nat_b l = true -> StronglySorted le l.
Proof.
  induction l as [|x t IH]; intro H; [constructor|]. simpl in H. apply andb_true_iff in H as [H1 H2].
  specialize (IH H2). constructor; [exact IH|]. destruct t as [|y t']; [constructor|].
  inversion IH as [|? ? St Fa]; subst. constructor; [lia|].
  rewrite Forall_forall in *. intros z Hz. specialize (Fa z Hz). lia.
Qed.

Lemma sorted_z_b_sound l : sorted_z_b l = true -> StronglySorted Z.le l.
Proof.
  induction l as [|x t IH]; intro H; [constructor|]. simpl in H. apply andb_true_iff in H as [H1 H2].
  specialize (IH H2). constructor; [exact IH|]. destruct t as [|y t']; [constructor|].
  inversion IH as [|? ? St Fa]; subst. constructor; [lia|].
  rewrite Forall_forall in *. intros z Hz. specialize (Fa z Hz). lia.
Qed.

Lemma nodup_nat_b_sound l : nodup_nat_b l = true -> NoDup l.
Proof.
  induction l as [|x t IH]; intro H; [constructor|]. simpl in H. apply andb_true_iff in H as [H1 H2].
  constructor; [|apply IH; exact H2]. intro Hin. apply negb_true_iff in H1.
  assert (existsb (Nat.eqb x) t = true); [|congruence].
  apply existsb_exists. exists x. split; [exact Hin|apply Nat.eqb_refl].
Qed.

Lemma existsb_eqb_in j l : existsb (Nat.eqb j) l = true -> In j l.
Proof. intro H. apply existsb_exists in H as [x [Hx E]]. apply Nat.eqb_eq in E. subst x. exact Hx. Qed.

Section Sound.
  Variables (n1 n2 : nat) (D : nat -> nat -> Z) (rad : nat -> Z) (tol k : Z) (same : nat -> nat -> bool).

  Lemma check_match_sound out :
    check_match n1 n2 D rad tol k same out = true -> match_spec n1 n2 D rad tol k same out.
  Proof.
    unfold check_match. intro C. apply andb_true_iff in C as [C G]. apply andb_true_iff in C as [R S].
    rewrite forallb_forall in R, G.
    assert (Hrow : forall t, In t out ->
              (t_i1 t < n1)%nat /\ (t_i2 t < n2)%nat
              /\ D (t_i1 t) (t_i2 t) <= rad (t_i1 t) + tol
              /\ Z.abs (t_d t - D (t_i1 t) (t_i2 t)) <= tol
              /\ (same (t_i1 t) (t_i2 t) = true -> t_d t = 0)).
    { intros t Ht. specialize (R t Ht). unfold check_row in R.
      apply andb_true_iff in R as [R R5]. apply andb_true_iff in R as [R R4].
      apply andb_true_iff in R as [R R3]. apply andb_true_iff in R as [R1 R2].
      split; [lia|]. split; [lia|]. split; [lia|]. split; [lia|]. intro Hs. rewrite Hs in R5. lia. }
    assert (Hout : forall i, (n1 <= i)%nat -> group i out = []).
    { intros i Hi. unfold group. rewrite filter_all_false; [reflexivity|].
      intros t Ht. destruct (Hrow t Ht) as [H1 _]. apply Nat.eqb_neq. lia. }
    assert (Hgrp : forall i, (i < n1)%nat -> check_group n2 D rad tol k same i (group i out) = true).
    { intros i Hi. apply G. apply in_seq. lia. }
    constructor.
    - intros t Ht. destruct (Hrow t Ht) as [H1 [H2 _]]. split; assumption.
    - apply sorted_nat_b_sound. exact S.
    - intro i. destruct (Nat.lt_ge_cases i n1) as [Hi|Hi]; [|rewrite Hout by exact Hi; constructor].
      specialize (Hgrp i Hi). unfold check_group in Hgrp.
      apply andb_true_iff in Hgrp as [Hg _]. apply andb_true_iff in Hg as [Hg _].
      apply andb_true_iff in Hg as [Hg _]. apply nodup_nat_b_sound. exact Hg.
    - intro i. destruct (Nat.lt_ge_cases i n1) as [Hi|Hi]; [|rewrite Hout by exact Hi; constructor].
      specialize (Hgrp i Hi). unfold check_group in Hgrp.
      apply andb_true_iff in Hgrp as [Hg _]. apply andb_true_iff in Hg as [Hg _].
      apply andb_true_iff in Hg as [_ Hg]. apply sorted_z_b_sound. exact Hg.
    - intros t Ht. destruct (Hrow t Ht) as [_ [_ [H3 [H4 _]]]]. split; assumption.
    - intros Hk i. destruct (Nat.lt_ge_cases i n1) as [Hi|Hi]; [|rewrite Hout by exact Hi; simpl; lia].
      specialize (Hgrp i Hi). unfold check_group in Hgrp.
      apply andb_true_iff in Hgrp as [Hg _]. apply andb_true_iff in Hg as [_ Hg].
      destruct (0 <? k) eqn:E; lia.
    - intros i j Hi Hj Hin. specialize (Hgrp i Hi). unfold check_group in Hgrp.
      apply andb_true_iff in Hgrp as [_ Hg]. rewrite forallb_forall in Hg.
      specialize (Hg j ltac:(apply in_seq; lia)).
      assert (E : (D i j <? rad i - tol) || (same i j && (0 <=? rad i)) = true).
      { destruct Hin as [Hin|[Hs Hr]]; [|rewrite Hs]; lia. }
      rewrite E in Hg. apply orb_true_iff in Hg as [Hg|Hg].
      + left. apply existsb_eqb_in. exact Hg.
      + right. apply andb_true_iff in Hg as [Hg H3]. apply andb_true_iff in Hg as [H1 H2].
        rewrite forallb_forall in H3. unfold cut_and_no_farther. split; [lia|]. split; [lia|].
        intros c Hc. specialize (H3 c Hc). lia.
    - intros t Ht Hs. destruct (Hrow t Ht) as [_ [_ [_ [_ H5]]]]. apply H5. exact Hs.
  Qed.

  (* Two outputs that both satisfy the statement contain the same constrained pairs when no
     limit is in force: this is the tolerant form of "the pair set does not depend on the tree
     depth, nor on Matcher object vs one-shot call, nor on file vs memory". *)
  Lemma in_group_in_out i j out : In j (map fst (group i out)) -> exists c, In (i, j, c) out.
  Proof.
    unfold group. rewrite map_map. simpl. intro H. apply in_map_iff in H as [t [E Ht]].
    apply filter_In in Ht as [Ht Ei]. apply Nat.eqb_eq in Ei. exists (t_d t).
    destruct t as [[a b] c]. unfold t_i1, t_i2, t_d in *. simpl in *. subst. exact Ht.
  Qed.

  Lemma in_out_in_group i j c out : In (i, j, c) out -> In j (map fst (group i out)).
  Proof.
    intro H. unfold group. rewrite map_map. simpl. apply in_map_iff. exists (i, j, c). split; [reflexivity|].
    apply filter_In. split; [exact H|]. unfold t_i1. simpl. apply Nat.eqb_refl.
  Qed.

  Lemma spec_fixes_constrained_pairs out out' :
    k <= 0 -> match_spec n1 n2 D rad tol k same out -> match_spec n1 n2 D rad tol k same out' ->
    forall i j, constrained D rad tol i j ->
      ((exists c, In (i, j, c) out) <-> (exists c, In (i, j, c) out')).
  Proof.
    intros Hk M M' i j Hc.
    assert (one : forall o o', match_spec n1 n2 D rad tol k same o -> match_spec n1 n2 D rad tol k same o' ->
                   (exists c, In (i, j, c) o) -> exists c, In (i, j, c) o').
    { intros o o' Mo Mo' [c Hin]. destruct (ms_range _ _ _ _ _ _ _ _ Mo _ Hin) as [Hi Hj].
      destruct (ms_sound _ _ _ _ _ _ _ _ Mo _ Hin) as [Hs _]. unfold t_i1, t_i2 in *. simpl in *.
      destruct Hc as [Hc|Hc]; [|lia].
      destruct (ms_complete _ _ _ _ _ _ _ _ Mo' i j Hi Hj (or_introl Hc)) as [I|[L _]]; [|lia].
      apply in_group_in_out. exact I. }
    split; apply one; assumption.
  Qed.
End Sound.

(* ---------------------------------------------------------------- the executable sort meets
   the contract assumed of std::sort *)
Lemma insert_c_perm x l : Permutation (x :: l) (insert_c x l).
Proof.
  induction l as [|y t IH]; simpl; [apply Permutation_refl|].
  destruct (snd x <? snd y); [apply Permutation_refl|].
  eapply Permutation_trans; [apply perm_swap|]. apply perm_skip. exact IH.
Qed.

Lemma insert_c_sorted x l : StronglySorted by_dist l -> StronglySorted by_dist (insert_c x l).
Proof.
  induction 1 as [|y t St IH Fa]; simpl; [repeat constructor|].
  destruct (snd x <? snd y) eqn:E.
  - constructor; [constructor; assumption|]. constructor; [unfold by_dist; lia|].
    rewrite Forall_forall in *. intros z Hz. specialize (Fa z Hz). unfold by_dist in *. lia.
  - constructor; [exact IH|]. apply Forall_forall. intros z Hz.
    apply (Permutation_in _ (Permutation_sym (insert_c_perm x t))) in Hz. destruct Hz as [Hz|Hz].
    + subst z. unfold by_dist. lia.
    + rewrite Forall_forall in Fa. apply Fa. exact Hz.
Qed.

Lemma isort_c_gen l acc :
  StronglySorted by_dist acc ->
  Permutation (acc ++ l) (fold_left (fun a x => insert_c x a) l acc)
  /\ StronglySorted by_dist (fold_left (fun a x => insert_c x a) l acc).
Proof.
  revert acc. induction l as [|x t IH]; intros acc S; simpl.
  - rewrite app_nil_r. split; [apply Permutation_refl|exact S].
  - destruct (IH (insert_c x acc) (insert_c_sorted x acc S)) as [P S']. split; [|exact S'].
    eapply Permutation_trans; [|exact P].
    eapply Permutation_trans; [apply Permutation_sym, Permutation_middle|].
    change (x :: acc ++ t) with ((x :: acc) ++ t). apply Permutation_app_tail, insert_c_perm.
Qed.

Lemma isort_c_contract : sort_contract isort_c.
Proof.
  intro l. unfold isort_c. destruct (isort_c_gen l [] (SSorted_nil _)) as [P S]. split; assumption.
Qed.

(* C12 -- proofs over the reals about the distance function translated from the source
   (C12/GenR.v): gcirc is the true great-circle separation; the cap handed to the triangle search
   contains the search cap. *)
From Coq Require Import Reals Lra Bool.
From EsVerif.C12 Require Import SepModel SepCert GenR.
Open Scope R_scope.

(* ---- gcirc of the source is the true separation *)
Lemma gcirc_radians ra1 dec1 ra2 dec2 : src_gcirc ra1 dec1 ra2 dec2 false = true_sep_rad ra1 dec1 ra2 dec2.
Proof.
  unfold src_gcirc.
  destruct (Reqb ra1 ra2 && Reqb dec1 dec2) eqn:Es.
  - apply andb_prop in Es as [E1 E2]. apply Reqb_true in E1. apply Reqb_true in E2. subst.
    symmetry. apply true_sep_same.
  - cbv zeta. unfold src_D2R. change (PI / 180) with (PI / 180).
    assert (R1 : forall x, x * (PI / 180) = rad x) by reflexivity.
    rewrite !R1.
    replace (sin (rad (dec2 - dec1)) + 2 * sin (rad dec1) * cos (rad dec2) * sin (1 / 2 * rad (ra1 - ra2)) * sin (1 / 2 * rad (ra1 - ra2)))
      with (cos (rad dec1) * sin (rad dec2) - sin (rad dec1) * cos (rad dec2) * cos (rad (ra1 - ra2)))
      by (symmetry; apply b_formula).
    rewrite <- sin_true_sep, <- cos_true_sep.
    apply atan2u_polar, true_sep_rad_range.
Qed.

Lemma gcirc_degrees ra1 dec1 ra2 dec2 : src_gcirc ra1 dec1 ra2 dec2 true = true_sep ra1 dec1 ra2 dec2.
Proof.
  unfold true_sep. rewrite <- gcirc_radians. unfold src_gcirc.
  destruct (Reqb ra1 ra2 && Reqb dec1 dec2); [ring|]. cbv zeta. unfold src_R2D. reflexivity.
Qed.

Lemma gcirc_identical ra dec degrees : src_gcirc ra dec ra dec degrees = 0.
Proof.
  unfold src_gcirc, Reqb. destruct (Req_EM_T ra ra); [|congruence]. destruct (Req_EM_T dec dec); [|congruence]. reflexivity.
Qed.

(* ---- the cap searched by Matcher::match contains the search cap, with a margin *)
Lemma cover_cap r : 0 <= r <= 180 ->
  0 < src_cover_pad /\ src_cover_cosine r <= cos (rad r) /\ (r < 180 -> src_cover_cosine r < cos (rad r)).
Proof.
  intros Hr. pose proof PI_RGT_0 as P.
  assert (Hp : 0 < src_cover_pad) by (unfold src_cover_pad; lra).
  split; [exact Hp|].
  unfold src_cover_cosine, src_D2R, Rleb. set (p := src_cover_pad) in *.
  assert (R0 : 0 <= rad r <= PI).
  { unfold rad. split; [apply Rmult_le_pos; [lra|apply Rlt_le, Rdiv_lt_0_compat; lra]|].
    replace PI with (180 * (PI / 180)) at 2 by field. apply Rmult_le_compat_r; [apply Rlt_le, Rdiv_lt_0_compat; lra|lra]. }
  cbv zeta.
  destruct (Rle_dec 180 (r + p)) as [H|H].
  - replace (180 * (PI / 180)) with PI by field. rewrite cos_PI. split.
    + pose proof (COS_bound (rad r)). lra.
    + intros Hlt. assert (rad r < PI).
      { unfold rad. replace PI with (180 * (PI / 180)) at 2 by field. apply Rmult_lt_compat_r; [apply Rdiv_lt_0_compat; lra|lra]. }
      rewrite <- cos_PI. apply cos_decreasing_1; lra.
  - assert (rad r < (r + p) * (PI / 180) <= PI).
    { unfold rad. split.
      - apply Rmult_lt_compat_r; [apply Rdiv_lt_0_compat; lra|lra].
      - replace PI with (180 * (PI / 180)) at 2 by field. apply Rmult_le_compat_r; [apply Rlt_le, Rdiv_lt_0_compat; lra|lra]. }
    assert (cos ((r + p) * (PI / 180)) < cos (rad r)) by (apply cos_decreasing_1; lra).
    split; [lra|intros _; lra].
Qed.

(* ---- every point within the search radius lies inside the cap handed to the triangle search:
        SpatialDomain::setRaDecD(ra, dec, d) describes the cap { v | v . c >= d } *)
Lemma within_radius_in_cap r ra1 dec1 ra2 dec2 : 0 <= r <= 180 ->
  true_sep ra1 dec1 ra2 dec2 <= r ->
  src_cover_cosine r <= dot (point (rad ra1) (rad dec1)) (point (rad ra2) (rad dec2))
  /\ (r < 180 -> src_cover_cosine r < dot (point (rad ra1) (rad dec1)) (point (rad ra2) (rad dec2))).
Proof.
  intros Hr Hs. pose proof PI_RGT_0 as P.
  destruct (cover_cap r Hr) as [_ [C1 C2]].
  pose proof (true_sep_rad_range ra1 dec1 ra2 dec2) as [T0 T1].
  assert (E : dot (point (rad ra1) (rad dec1)) (point (rad ra2) (rad dec2)) = cos (true_sep_rad ra1 dec1 ra2 dec2)).
  { unfold true_sep_rad. symmetry. apply cos_acos. apply C_bound. }
  assert (Hle : true_sep_rad ra1 dec1 ra2 dec2 <= rad r).
  { unfold true_sep in Hs. unfold rad.
    replace (true_sep_rad ra1 dec1 ra2 dec2) with (true_sep_rad ra1 dec1 ra2 dec2 * (180 / PI) * (PI / 180)) by (field; lra).
    apply Rmult_le_compat_r; [apply Rlt_le, Rdiv_lt_0_compat; lra|exact Hs]. }
  assert (R1 : rad r <= PI).
  { unfold rad. replace PI with (180 * (PI / 180)) at 2 by field. apply Rmult_le_compat_r; [apply Rlt_le, Rdiv_lt_0_compat; lra|lra]. }
  assert (Hc : cos (rad r) <= cos (true_sep_rad ra1 dec1 ra2 dec2)).
  { destruct (Rle_lt_or_eq_dec _ _ Hle) as [Hlt|Heq].
    - apply Rlt_le. apply cos_decreasing_1; lra.
    - rewrite Heq. lra. }
  rewrite E. split; [lra|]. intros Hlt. specialize (C2 Hlt). lra.
Qed.

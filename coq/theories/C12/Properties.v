(* C12 — HTM matching returns exactly the pairs within the search radius.
   Property theorems only; bodies live in Proofs.v / MainProofs.v / CheckProofs.v.

   Reading guide.  [match_loop dis cover sorter (init_hmap tri n2) k rads n1] is the list of rows
   (i1, i2, d12) produced by Matcher::match for n1 input points against a Matcher built from n2
   points, where
     tri j = triangle id of second-set point j,  cover i = id list of the cap around input point i,
     dis i j = the distance the code computes,   sorter = std::sort,   k = maxmatch,
     rad_of rads i = the search radius of input point i (one value or one per point).
   The circle cover of the JHU library is NOT modelled: it enters through hypothesis [H_cover]
   (every point within the radius lies in a listed triangle; listed ids are duplicate-free),
   which the correspondence run monitors on every case; std::sort enters through
   [sort_contract] (a permutation, sorted by d12). *)
From Coq Require Import Sorting.Permutation Sorting.Sorted.
From EsVerif.Common Require Import Base.
From EsVerif.C12 Require Import Model Spec ListLemmas Proofs MainProofs CheckProofs RepeatProofs.

(* No limit (maxmatch <= 0): the rows are exactly the index pairs within the radius of the
   first-set point, with the code's distance -- none missing, none extra ... *)
Theorem C12_exact : forall tri n2 dis cover sorter rads n1 k,
  sort_contract sorter -> H_cover tri n2 dis cover rads n1 -> k <= 0 ->
  forall t, In t (match_loop dis cover sorter (init_hmap tri n2) k rads n1) <->
            (t_i1 t < n1)%nat /\ (t_i2 t < n2)%nat /\ t_d t = dis (t_i1 t) (t_i2 t)
            /\ dis (t_i1 t) (t_i2 t) <= rad_of rads (t_i1 t).
Proof. intros. apply exact_in; assumption. Qed.

(* ... and each once (for every maxmatch). *)
Theorem C12_each_pair_once : forall tri n2 dis cover sorter rads n1 k,
  sort_contract sorter -> H_cover tri n2 dis cover rads n1 ->
  NoDup (map t_ij (match_loop dis cover sorter (init_hmap tri n2) k rads n1)).
Proof. intros. apply once; assumption. Qed.

(* Rows are grouped by first-set index, groups in input order ... *)
Theorem C12_grouped_in_input_order : forall tri n2 dis cover sorter rads n1 k,
  sort_contract sorter ->
  StronglySorted le (map t_i1 (match_loop dis cover sorter (init_hmap tri n2) k rads n1)).
Proof. intros. apply grouped; assumption. Qed.

(* ... and sorted by increasing separation within a group. *)
Theorem C12_sorted_within_group : forall tri n2 dis cover sorter rads n1 k i,
  sort_contract sorter ->
  StronglySorted Z.le (map snd (group i (match_loop dis cover sorter (init_hmap tri n2) k rads n1))).
Proof. intros. apply sorted_within; assumption. Qed.

(* Positive limit k: group i is the first k of ALL matches of i (brute force over the second
   set) in some order sorted by distance -- whatever the tie-breaking of the sort. *)
Theorem C12_kclosest : forall tri n2 dis cover sorter rads n1 k i,
  sort_contract sorter -> H_cover tri n2 dis cover rads n1 -> 0 < k -> (i < n1)%nat ->
  exists l, Permutation l (brute n2 dis i (rad_of rads i)) /\ StronglySorted by_dist l
            /\ group i (match_loop dis cover sorter (init_hmap tri n2) k rads n1) = firstn (Z.to_nat k) l.
Proof. intros. apply kclosest; assumption. Qed.

(* maxmatch 0 and every negative maxmatch mean "keep all" (the C++ tests maxmatch > 0), and so
   does every limit that no group exceeds. *)
Theorem C12_maxmatch_nonpositive_keeps_all : forall tri n2 dis cover sorter rads n1 k k',
  sort_contract sorter -> k <= 0 -> k' <= 0 ->
  match_loop dis cover sorter (init_hmap tri n2) k rads n1
  = match_loop dis cover sorter (init_hmap tri n2) k' rads n1.
Proof. intros. apply nonpositive_same; assumption. Qed.

Theorem C12_limit_above_group_size_keeps_all : forall tri n2 dis cover sorter rads n1 k,
  sort_contract sorter -> H_cover tri n2 dis cover rads n1 ->
  (forall i, (i < n1)%nat -> Z.of_nat (length (brute n2 dis i (rad_of rads i))) <= k) ->
  match_loop dis cover sorter (init_hmap tri n2) k rads n1
  = match_loop dis cover sorter (init_hmap tri n2) 0 rads n1.
Proof. intros. apply large_limit_same; assumption. Qed.

(* Identical points (gcirc returns exactly 0 for them) match at zero distance for every radius
   >= 0: without limit the row (i, j, 0) is present; with a limit it is present unless k rows at
   distance <= 0 fill the group; a row of identical points always carries distance 0. *)
Theorem C12_self_match_zero : forall tri n2 dis cover sorter rads n1 (same : nat -> nat -> bool),
  sort_contract sorter -> H_cover tri n2 dis cover rads n1 ->
  (forall i j, same i j = true -> dis i j = 0) ->
  forall k i j, (i < n1)%nat -> (j < n2)%nat -> same i j = true -> 0 <= rad_of rads i ->
  let out := match_loop dis cover sorter (init_hmap tri n2) k rads n1 in
  (k <= 0 -> In (i, j, 0) out)
  /\ (In (j, 0) (group i out)
      \/ (0 < k /\ Z.of_nat (length (group i out)) = k /\ forall c, In c (group i out) -> snd c <= 0))
  /\ (forall t, In t out -> same (t_i1 t) (t_i2 t) = true -> t_d t = 0).
Proof.
  intros tri n2 dis cover sorter rads n1 same Hs Hc Hsame k i j Hi Hj Hij Hr. split; [|split].
  - intro Hk. eapply self_zero_unlimited; eassumption.
  - eapply self_zero_limited; eassumption.
  - intros t. eapply self_zero_row; eassumption.
Qed.

(* The result does not depend on the tree depth: two indexes (triangle ids and covers of two
   depths, each meeting H_cover; possibly different tie-breaking) give the same rows without
   limit, and the same distance sequence in every group with a limit.  The right-hand side of
   C12_exact does not mention the index at all. *)
Theorem C12_depth_independent : forall tri tri' n2 dis cover cover' sorter sorter' rads n1 k,
  sort_contract sorter -> sort_contract sorter' ->
  H_cover tri n2 dis cover rads n1 -> H_cover tri' n2 dis cover' rads n1 ->
  let out := match_loop dis cover sorter (init_hmap tri n2) k rads n1 in
  let out' := match_loop dis cover' sorter' (init_hmap tri' n2) k rads n1 in
  (k <= 0 -> forall t, In t out <-> In t out')
  /\ (forall i, (i < n1)%nat -> map snd (group i out) = map snd (group i out')).
Proof.
  intros tri tri' n2 dis cover cover' sorter sorter' rads n1 k H1 H2 H3 H4. split.
  - intros Hk t. eapply independent_unlimited; eassumption.
  - intros i Hi. eapply independent_limited; eassumption.
Qed.

(* The reusable Matcher object and the one-shot HTM.match (which builds a fresh Matcher, of any
   depth) give the same pairs; a Matcher is not modified by matching. *)
Theorem C12_matcher_vs_oneshot : forall tri tri' n2 dis cover cover' sorter sorter' rads n1 k o o',
  sort_contract sorter -> sort_contract sorter' ->
  H_cover tri n2 dis cover rads n1 -> H_cover tri' n2 dis cover' rads n1 ->
  (length rads = 1 \/ length rads = n1)%nat ->
  matcher_match dis cover sorter (matcher_new tri n2) n1 n1 rads k = Ok o ->
  htm_match dis cover' sorter' tri' n2 n2 n1 n1 rads k = Ok o' ->
  (k <= 0 -> forall t, In t o <-> In t o')
  /\ (forall i, (i < n1)%nat -> map snd (group i o) = map snd (group i o')).
Proof.
  intros tri tri' n2 dis cover cover' sorter sorter' rads n1 k o o' H1 H2 H3 H4 H5 E E'.
  exact (matcher_vs_oneshot tri tri' n2 dis cover cover' sorter sorter' rads n1 H1 H2 H3 H4 H5 k o o' E E').
Qed.

Theorem C12_matcher_reusable : forall dis cover sorter tri n2 (queries : list (nat * list Z * Z)),
  map (fun q => matcher_match dis cover sorter (matcher_new tri n2) (fst (fst q)) (fst (fst q)) (snd (fst q)) (snd q)) queries
  = map (fun q => htm_match dis cover sorter tri n2 n2 (fst (fst q)) (fst (fst q)) (snd (fst q)) (snd q)) queries.
Proof. exact matcher_reusable. Qed.

(* Argument normalisation of the python wrappers: sizes are accepted iff ra/dec sizes agree and
   the radius is one value or one per point; otherwise ValueError. *)
Theorem C12_sizes : forall dis cover sorter m n1 n1dec rads k,
  ((length rads = 1 \/ length rads = n1)%nat ->
     matcher_match dis cover sorter m n1 n1 rads k = Ok (match_loop dis cover sorter (m_hmap m) k rads n1))
  /\ ((n1 <> n1dec \/ (length rads <> 1 /\ length rads <> n1))%nat ->
     matcher_match dis cover sorter m n1 n1dec rads k = Err EValue).
Proof. intros. split; [apply matcher_match_ok|apply matcher_match_rejects]. Qed.

(* File output: the rows read back are the rows of the in-memory call, in the same order; the
   returned count is their number; each distance is the printed-and-parsed in-memory one. *)
Theorem C12_file_roundtrip : forall rt rows,
  let f := write_pairs rt rows in
  same_pairs (read_pairs (fst f)) rows
  /\ snd f = Z.of_nat (length rows)
  /\ map t_d (read_pairs (fst f)) = map rt (map t_d rows).
Proof. exact file_roundtrip. Qed.

(* The statement of the property about an output, relative to TRUE separations D and the
   tolerance tol granted by the property: if the code's distance is within tol of the true one
   (and exactly 0 for identical points), the model's output satisfies it for every maxmatch. *)
Theorem C12_model_meets_statement : forall tri n2 dis cover sorter rads n1 same D tol k,
  sort_contract sorter -> H_cover tri n2 dis cover rads n1 ->
  (forall i j, same i j = true -> dis i j = 0) ->
  (forall i j, (i < n1)%nat -> (j < n2)%nat -> Z.abs (dis i j - D i j) <= tol) ->
  match_spec n1 n2 D (rad_of rads) tol k same (match_loop dis cover sorter (init_hmap tri n2) k rads n1).
Proof. intros. apply model_meets_spec; assumption. Qed.

(* Soundness of the checker that the correspondence run evaluates on the implementation's output. *)
Theorem C12_checker_sound : forall n1 n2 D rad tol k same out,
  check_match n1 n2 D rad tol k same out = true -> match_spec n1 n2 D rad tol k same out.
Proof. exact check_match_sound. Qed.

(* Any two outputs meeting the statement (e.g. two depths, object vs one-shot, file vs memory,
   another input layout) contain the same pairs, as far as the statement constrains them. *)
Theorem C12_statement_fixes_constrained_pairs : forall n1 n2 D rad tol k same out out',
  k <= 0 -> match_spec n1 n2 D rad tol k same out -> match_spec n1 n2 D rad tol k same out' ->
  forall i j, constrained D rad tol i j ->
    ((exists c, In (i, j, c) out) <-> (exists c, In (i, j, c) out')).
Proof. exact spec_fixes_constrained_pairs. Qed.

(* The sort with which the model is executed meets the contract assumed of std::sort; dropping
   unoccupied ids from a cover (done by the harness before printing) changes nothing. *)
Theorem C12_executable_sort_meets_contract : sort_contract isort_c.
Proof. exact isort_c_contract. Qed.

Theorem C12_unoccupied_ids_irrelevant : forall dis cover h i rad,
  pair_info dis (fun i => filter (fun id => match hmap_find h id with None => false | Some _ => true end) (cover i)) h i rad
  = pair_info dis cover h i rad.
Proof. exact pair_info_occupied. Qed.

(* Two first-set points with the same neighbourhood (same distance to every stored point, same
   circle cover) and the same radius get the same group (same second-set indices, same distances,
   same order), each tagged with its own index.  This is the relation the harness checks on the
   real code when it repeats a small first set to 10^3..10^5 points (entry `long`). *)
Theorem C12_same_neighbourhood_same_group : forall dis cover sorter h k i i' rad,
  (forall j, dis i j = dis i' j) -> cover i = cover i' ->
  map (fun t => (t_i2 t, t_d t)) (match_one dis cover sorter h k i rad)
  = map (fun t => (t_i2 t, t_d t)) (match_one dis cover sorter h k i' rad)
  /\ (forall t, In t (match_one dis cover sorter h k i rad) -> t_i1 t = i).
Proof.
  intros. split; [apply same_neighbourhood_same_group; assumption|apply same_neighbourhood_rows_tagged].
Qed.

(* Non-vacuity: a concrete instance (2 input points, 4 stored points in 3 triangles, a tie)
   meets every hypothesis, and the conclusions compute. *)
Definition ex_tri (j : nat) : Z := nth j [10; 11; 10; 12] 0.
Definition ex_cover (i : nat) : list Z := nth i [[10; 11]; [12; 10]] [].
Definition ex_dis (i j : nat) : Z := nth j (nth i [[5; 1; 5; 9]; [7; 7; 0; 2]] []) 0.

Example C12_nonvacuous :
  sort_contract isort_c
  /\ H_cover ex_tri 4 ex_dis ex_cover [6] 2
  /\ match_loop ex_dis ex_cover isort_c (init_hmap ex_tri 4) 0 [6] 2
     = [row 0 1 1; row 0 0 5; row 0 2 5; row 1 2 0; row 1 3 2]
  /\ match_loop ex_dis ex_cover isort_c (init_hmap ex_tri 4) 1 [6] 2 = [row 0 1 1; row 1 2 0]
  /\ check_match 2 4 ex_dis (rad_of [6]) 0 1 (fun _ _ => false) [row 0 1 1; row 1 2 0] = true
  /\ check_match 2 4 ex_dis (rad_of [6]) 0 0 (fun _ _ => false) [row 0 1 1; row 0 0 5; row 1 2 0; row 1 3 2] = false.
Proof.
  split; [exact isort_c_contract|]. split.
  - intros i Hi. split.
    + intros j Hj Hd. destruct i as [|[|i]]; [| |lia];
        (destruct j as [|[|[|[|j]]]]; [| | | |lia]); vm_compute in Hd |- *; try tauto;
        exfalso; apply Hd; reflexivity.
    + destruct i as [|[|i]]; [| |lia]; unfold ex_cover; simpl;
        repeat (constructor; [simpl; intuition lia|]); constructor.
  - repeat split; vm_compute; reflexivity.
Qed.

(* C12 -- real-number vocabulary for the distance function gcirc of esutil/htm/htmc.cc.
   No proofs.  The source text of gcirc itself is translated into C12/Gen.v on every run
   (harness/props/c12_translate.py); this file only supplies the meaning of the C library
   calls that occur in it, over R (DESIGN 3.3 style R: rounding is not modelled). *)
From Coq Require Import Reals.
Open Scope R_scope.

(* atan2(y, x) of C for y >= 0 and (x, y) <> (0, 0) -- the only way gcirc calls it (y is a sqrt):
   the angle in [0, PI] of the point (x, y) of the upper half plane *)
Definition atan2u (y x : R) : R :=
  if Rlt_dec 0 x then atan (y / x)
  else if Rlt_dec x 0 then PI + atan (y / x)
  else PI / 2.

(* == < <= on doubles, read over R *)
Definition Reqb (a b : R) : bool := if Req_EM_T a b then true else false.
Definition Rltb (a b : R) : bool := if Rlt_dec a b then true else false.
Definition Rleb (a b : R) : bool := if Rle_dec a b then true else false.

(* ---- independent specification: the great-circle separation, in degrees, of two points given
        by longitude/latitude in degrees *)
Definition vec3 : Type := (R * R * R)%type.
Definition point (lon lat : R) : vec3 := (cos lat * cos lon, cos lat * sin lon, sin lat).
Definition dot (u v : vec3) : R :=
  let '(x1, y1, z1) := u in let '(x2, y2, z2) := v in x1 * x2 + y1 * y2 + z1 * z2.
Definition rad (deg : R) : R := deg * (PI / 180).
Definition true_sep_rad (ra1 dec1 ra2 dec2 : R) : R :=
  acos (dot (point (rad ra1) (rad dec1)) (point (rad ra2) (rad dec2))).
Definition true_sep (ra1 dec1 ra2 dec2 : R) : R := true_sep_rad ra1 dec1 ra2 dec2 * (180 / PI).

(* haversine of the separation; certificates about true_sep are stated through it because it
   consists of sin/cos of exactly representable differences only (Interval has no acos/atan2) *)
Definition hav (ra1 dec1 ra2 dec2 : R) : R :=
  sin (rad (dec2 - dec1) / 2) ^ 2 + cos (rad dec1) * cos (rad dec2) * sin (rad (ra2 - ra1) / 2) ^ 2.
Definition havs (deg : R) : R := sin (rad deg / 2) ^ 2.

(* C12 — glue evaluated by generated case files.
   verdict = (model = implementation ? 0 : 1) + (verified checker accepts the implementation's output ? 0 : 2)

   Units: every distance is an integer multiple of 1e-9 * 2^-e degree (e is chosen per case so
   that all float64 of the case are exact); the tolerance 1e-9 degree is therefore 2^e.

   "model = implementation" is equality up to the order of rows with EQUAL distance inside a
   group: the C++ code sorts with std::sort, which does not specify that order (the model is
   run with a stable insertion sort). *)
From Coq Require Import Uint63.
From EsVerif.Common Require Import Base.
From EsVerif.C12 Require Import Model Spec.

(* Literals: Coq parses a 40-digit Z literal in ~4 ms, a primitive integer in microseconds, so
   case files carry every large non-negative integer as its little-endian limbs in base 2^62. *)
Definition zl (l : list int) : Z := fold_right (fun x acc => Uint63.to_Z x + 4611686018427387904 * acc) 0 l.
Definition zls (l : list (list int)) : list Z := map zl l.
Definition zmat (m : list (list (list int))) : list (list Z) := map zls m.
Definition rowl (i j : nat) (d : list int) : triple := (i, j, zl d).

Definition mat (M : list (list Z)) (i j : nat) : Z := nth j (nth i M []) 0.
Definition lfun {A} (d : A) (l : list A) (i : nat) : A := nth i l d.
Definition same_of (l : list (nat * nat)) (i j : nat) : bool := existsb (nat_pair_eqb (i, j)) l.
Definition cnd_eqb (a b : cnd) : bool := (fst a =? fst b)%nat && (snd a =? snd b).
Definition triple_eqb (a b : triple) : bool :=
  (t_i1 a =? t_i1 b)%nat && (t_i2 a =? t_i2 b)%nat && (t_d a =? t_d b).

(* one group of the implementation against the model's sorted, uncut candidate list [full] of
   which the model keeps the first m: same distance sequence, every row is a candidate, no
   candidate twice.  (Hence: same rows except possibly among distances equal to the last kept.) *)
Definition agree_group (full : list cnd) (m : nat) (g : list cnd) : bool :=
  zlist_eqb (map snd g) (map snd (firstn m full))
  && nodup_nat_b (map fst g)
  && forallb (fun c => existsb (cnd_eqb c) full) g.

Definition agree_rows (n1 : nat) (model_k model_all out : list triple) : bool :=
  forallb (fun t => (t_i1 t <? n1)%nat) out && sorted_nat_b (map t_i1 out)
  && forallb (fun i => agree_group (group i model_all) (length (group i model_k)) (group i out)) (seq 0 n1).

(* one call of HTM(depth).match / Matcher(depth,..).match with valid or invalid sizes *)
Definition v_match (n1 n1dec n2 n2dec : nat) (tri : list Z) (cover : list (list Z))
           (dcode dtrue : list (list Z)) (rads : list Z) (k e : Z) (same : list (nat * nat))
           (out : result (list triple)) : Z :=
  let run kk := htm_match (mat dcode) (lfun [] cover) isort_c (lfun 0 tri) n2 n2dec n1 n1dec rads kk in
  verdict (match run k, run 0, out with
           | Ok mk, Ok m0, Ok o => agree_rows n1 mk m0 o
           | Err a, _, Err b => err_eqb a b
           | _, _, _ => false
           end)
          (match run k with
           | Ok _ => match out with
                     | Ok o => check_match n1 n2 (mat dtrue) (rad_of rads) (2 ^ e) k (same_of same) o
                     | Err _ => false
                     end
           | Err _ => true      (* sizes the documented interface rejects: the property is silent *)
           end).

(* two outputs of the same problem (other depth / Matcher object / input layout): identical
   up to rows with the distance of a cut *)
Definition last_d (g : list cnd) : Z := snd (last g (0%nat, 0)).
Definition sub_mod_ties (k : Z) (ga gb : list cnd) : bool :=
  forallb (fun c => existsb (cnd_eqb c) gb
                    || ((0 <? k) && (Z.of_nat (length ga) =? k) && (snd c =? last_d ga))) ga.
Definition equiv_mod_ties (k : Z) (n1 : nat) (a b : list triple) : bool :=
  list_eqb Nat.eqb (map t_i1 a) (map t_i1 b)
  && forallb (fun i => let ga := group i a in let gb := group i b in
                       zlist_eqb (map snd ga) (map snd gb)
                       && sub_mod_ties k ga gb && sub_mod_ties k gb ga) (seq 0 n1).

Definition v_variants (n1 n2 : nat) (dtrue : list (list Z)) (rads : list Z) (k e : Z)
           (same : list (nat * nat)) (outs : list (list triple)) : Z :=
  verdict (match outs with [] => true | o :: rest => forallb (equiv_mod_ties k n1 o) rest end)
          (forallb (check_match n1 n2 (mat dtrue) (rad_of rads) (2 ^ e) k (same_of same)) outs).

(* file= : rows read back by read_pairs against the rows of the in-memory call; rtmap lists the
   value denoted by the "%.16g" text of each in-memory distance *)
Definition rt_of (m : list (Z * Z)) (d : Z) : Z :=
  match find (fun p => fst p =? d) m with Some p => snd p | None => d end.
Definition v_file (n1 n2 : nat) (dtrue : list (list Z)) (rads : list Z) (k e : Z)
           (same : list (nat * nat)) (mem file : list triple) (count : Z) (rtmap : list (Z * Z)) : Z :=
  let w := write_pairs (rt_of rtmap) mem in
  verdict (list_eqb triple_eqb (read_pairs (fst w)) file && (snd w =? count))
          (check_match n1 n2 (mat dtrue) (rad_of rads) (2 ^ e) k (same_of same) file
           && same_pairs_b file mem && (count =? Z.of_nat (length mem))).

(* run-time monitor of hypothesis H_cover on the real intersect/lookup_id *)
Fixpoint nodup_z_b (l : list Z) : bool :=
  match l with [] => true | x :: t => negb (existsb (Z.eqb x) t) && nodup_z_b t end.
Definition v_cover (n1 n2 : nat) (dtrue : list (list Z)) (rads : list Z) (e : Z)
           (tri : list Z) (cover : list (list Z)) (dupfree : bool) : Z :=
  verdict true
          (cover_contract_b n1 n2 (mat dtrue) (rad_of rads) (2 ^ e) (lfun 0 tri) (lfun [] cover)
           && forallb nodup_z_b cover && dupfree).

(* long pair files (more rows than any reader buffer): rows read back against the rows of the
   in-memory call, with the printed-and-parsed distance listed per row; linear time, no
   comparison with true separations (those are checked on the small problems) *)
(* a row with its indices as primitive integers (a nat literal costs its value in parsing time) *)
Definition rowi (i j : int) (d : list int) : triple :=
  (Z.to_nat (Uint63.to_Z i), Z.to_nat (Uint63.to_Z j), zl d).
Fixpoint write_rows (mem : list triple) (rts : list Z) : list triple :=
  match mem, rts with
  | t :: m, d :: r => (t_i1 t, t_i2 t, d) :: write_rows m r
  | _, _ => []
  end.
Definition v_file_long (mem file : list triple) (rts : list (list int)) (count : Z) : Z :=
  verdict (list_eqb triple_eqb (read_pairs (write_rows mem (zls rts))) file
           && (Z.of_nat (length mem) =? count) && (length rts =? length mem)%nat)
          (same_pairs_b file mem && (count =? Z.of_nat (length mem))).

(* a sequence of calls in one process: the verdicts of its steps combined bit by bit *)
Definition vseq (l : list Z) : Z := verdict (forallb Z.even l) (forallb (fun v => v <? 2) l).

(* very long pair files (several blocks of 64 KiB .. 16 MiB): the complete comparison of the rows read
   back with the rows of the in-memory call is decided in the harness on exact values; Coq judges the
   first and last rows and the rows around every block boundary (lists at the same positions), the
   number of rows of the in-memory call against the count returned by the file call *)
Definition v_file_sampled (mem file : list triple) (rts : list (list int)) (nrows count : Z) : Z :=
  verdict (list_eqb triple_eqb (read_pairs (write_rows mem (zls rts))) file
           && (nrows =? count) && (length rts =? length mem)%nat)
          (same_pairs_b file mem && (count =? nrows)).

(* C12 — generic list lemmas (sortedness, permutations, flat_map) used by Proofs.v *)
From Coq Require Import Sorting.Permutation Sorting.Sorted ZifyBool ZifyNat.
From EsVerif.Common Require Import Base.

Lemma SSorted_app {A} (R : A -> A -> Prop) l1 l2 :
  StronglySorted R l1 -> StronglySorted R l2 ->
  (forall x y, In x l1 -> In y l2 -> R x y) -> StronglySorted R (l1 ++ l2).
Proof.
  intros S1 S2 H. induction l1 as [|a t IH]; simpl; [exact S2|].
  inversion S1 as [|? ? St Fa]; subst. constructor.
  - apply IH; [exact St|]. intros x y Hx Hy. apply H; [right; exact Hx|exact Hy].
  - apply Forall_app; split; [exact Fa|].
    apply Forall_forall. intros y Hy. apply H; [left; reflexivity|exact Hy].
Qed.

Lemma SSorted_app_inv {A} (R : A -> A -> Prop) l1 l2 :
  StronglySorted R (l1 ++ l2) ->
  StronglySorted R l1 /\ StronglySorted R l2 /\ (forall x y, In x l1 -> In y l2 -> R x y).
Proof.
  induction l1 as [|a t IH]; simpl; intro S.
  - split; [constructor|]. split; [exact S|]. intros x y [].
  - inversion S as [|? ? St Fa]; subst. destruct (IH St) as [S1 [S2 H]].
    apply Forall_app in Fa as [Fa1 Fa2]. split; [constructor; assumption|]. split; [exact S2|].
    intros x y [Hx|Hx] Hy.
    + subst x. rewrite Forall_forall in Fa2. apply Fa2; exact Hy.
    + apply H; assumption.
Qed.

Lemma SSorted_firstn {A} (R : A -> A -> Prop) n l : StronglySorted R l -> StronglySorted R (firstn n l).
Proof.
  intro S. rewrite <- (firstn_skipn n l) in S. apply SSorted_app_inv in S. tauto.
Qed.

Lemma SSorted_map {A B} (f : A -> B) (R : B -> B -> Prop) l :
  StronglySorted (fun a b => R (f a) (f b)) l -> StronglySorted R (map f l).
Proof.
  induction 1 as [|a t St IH Fa]; simpl; constructor; [exact IH|].
  apply Forall_forall. intros y Hy. apply in_map_iff in Hy as [x [E Hx]]. subst y.
  rewrite Forall_forall in Fa. apply Fa; exact Hx.
Qed.

Lemma SSorted_const (l : list nat) s : (forall x, In x l -> x = s) -> StronglySorted le l.
Proof.
  induction l as [|a t IH]; intro H; constructor.
  - apply IH. intros x Hx. apply H. right; exact Hx.
  - apply Forall_forall. intros y Hy. rewrite (H a (or_introl eq_refl)), (H y (or_intror Hy)). lia.
Qed.

(* a sorted list of integers is determined by its multiset *)
Lemma sorted_perm_eq (l1 l2 : list Z) :
  StronglySorted Z.le l1 -> StronglySorted Z.le l2 -> Permutation l1 l2 -> l1 = l2.
Proof.
  revert l2. induction l1 as [|a t1 IH]; intros l2 S1 S2 P.
  - apply Permutation_nil in P. symmetry; exact P.
  - destruct l2 as [|b t2]; [apply Permutation_sym, Permutation_nil in P; discriminate|].
    inversion S1 as [|? ? St1 Fa1]; subst. inversion S2 as [|? ? St2 Fa2]; subst.
    rewrite Forall_forall in Fa1, Fa2.
    assert (Hab : a = b).
    { assert (Ha : In a (b :: t2)) by (eapply Permutation_in; [exact P|left; reflexivity]).
      assert (Hb : In b (a :: t1)) by (eapply Permutation_in; [apply Permutation_sym; exact P|left; reflexivity]).
      destruct Ha as [Ha|Ha]; [congruence|]. destruct Hb as [Hb|Hb]; [congruence|].
      specialize (Fa1 _ Hb). specialize (Fa2 _ Ha). lia. }
    subst b. f_equal. apply IH; [exact St1|exact St2|]. eapply Permutation_cons_inv; exact P.
Qed.

Lemma in_flat_map_iff {A B} (f : A -> list B) l y : In y (flat_map f l) <-> exists x, In x l /\ In y (f x).
Proof. apply in_flat_map. Qed.

Lemma NoDup_app_intro {A} (l1 l2 : list A) :
  NoDup l1 -> NoDup l2 -> (forall x, In x l1 -> In x l2 -> False) -> NoDup (l1 ++ l2).
Proof.
  intros N1 N2 H. induction l1 as [|a t IH]; simpl; [exact N2|].
  inversion N1 as [|? ? Ha Nt]; subst. constructor.
  - intro Hin. apply in_app_or in Hin as [Hin|Hin]; [exact (Ha Hin)|].
    exact (H a (or_introl eq_refl) Hin).
  - apply IH; [exact Nt|]. intros x Hx. apply H. right; exact Hx.
Qed.

Lemma NoDup_flat_map {A B} (f : A -> list B) (l : list A) :
  NoDup l -> (forall a, In a l -> NoDup (f a)) ->
  (forall a b x, In a l -> In b l -> a <> b -> In x (f a) -> In x (f b) -> False) ->
  NoDup (flat_map f l).
Proof.
  induction l as [|a t IH]; intros N Hf Hd; simpl; [constructor|].
  inversion N as [|? ? Ha Nt]; subst. apply NoDup_app_intro.
  - apply Hf. left; reflexivity.
  - apply IH; [exact Nt| |].
    + intros b Hb. apply Hf. right; exact Hb.
    + intros b c x Hb Hc. apply Hd; right; assumption.
  - intros x Hx Hx'. apply in_flat_map in Hx' as [b [Hb Hxb]].
    apply (Hd a b x); [left; reflexivity|right; exact Hb| |exact Hx|exact Hxb].
    intro E. subst b. exact (Ha Hb).
Qed.

Lemma map_flat_map {A B C} (g : B -> C) (f : A -> list B) l :
  map g (flat_map f l) = flat_map (fun a => map g (f a)) l.
Proof. induction l as [|a t IH]; simpl; [reflexivity|]. rewrite map_app, IH. reflexivity. Qed.

Lemma filter_flat_map {A B} (p : B -> bool) (f : A -> list B) l :
  filter p (flat_map f l) = flat_map (fun a => filter p (f a)) l.
Proof. induction l as [|a t IH]; simpl; [reflexivity|]. rewrite filter_app, IH. reflexivity. Qed.

Lemma filter_all_true {A} (p : A -> bool) l : (forall x, In x l -> p x = true) -> filter p l = l.
Proof.
  induction l as [|a t IH]; intro H; simpl; [reflexivity|].
  rewrite (H a (or_introl eq_refl)). f_equal. apply IH. intros x Hx. apply H. right; exact Hx.
Qed.

Lemma filter_all_false {A} (p : A -> bool) l : (forall x, In x l -> p x = false) -> filter p l = [].
Proof.
  induction l as [|a t IH]; intro H; simpl; [reflexivity|].
  rewrite (H a (or_introl eq_refl)). apply IH. intros x Hx. apply H. right; exact Hx.
Qed.

Lemma firstn_sublist_in {A} n (l : list A) x : In x (firstn n l) -> In x l.
Proof. intro H. rewrite <- (firstn_skipn n l). apply in_or_app. left; exact H. Qed.

Lemma NoDup_firstn {A} n (l : list A) : NoDup l -> NoDup (firstn n l).
Proof.
  intro N.
  revert n. induction l as [|a t IH]; intros [|n]; simpl; try constructor.
  - inversion N; subst. intro H. apply firstn_sublist_in in H. contradiction.
  - inversion N; subst. apply IH. assumption.
Qed.

Lemma NoDup_map_firstn {A B} (f : A -> B) n (l : list A) : NoDup (map f l) -> NoDup (map f (firstn n l)).
Proof. intro N. rewrite <- firstn_map. apply NoDup_firstn. exact N. Qed.

(* in a sorted list, whatever is cut off by firstn is no smaller than whatever is kept *)
Lemma firstn_sorted_cut {A} (R : A -> A -> Prop) n (l : list A) x :
  StronglySorted R l -> In x l -> ~ In x (firstn n l) ->
  length (firstn n l) = n /\ forall y, In y (firstn n l) -> R y x.
Proof.
  intros S Hx Hn. rewrite <- (firstn_skipn n l) in S, Hx.
  apply in_app_or in Hx as [Hx|Hx]; [contradiction|].
  apply SSorted_app_inv in S as [_ [_ H]]. split.
  - apply firstn_length_le. destruct (Nat.le_gt_cases n (length l)) as [L|L]; [exact L|].
    rewrite skipn_all2 in Hx by lia. destruct Hx.
  - intros y Hy. apply H; assumption.
Qed.

Lemma flat_map_ext_in' {A B} (f g : A -> list B) l :
  (forall a, In a l -> f a = g a) -> flat_map f l = flat_map g l.
Proof.
  induction l as [|a t IH]; intro H; simpl; [reflexivity|].
  rewrite (H a (or_introl eq_refl)), IH; [reflexivity|]. intros b Hb. apply H. right; exact Hb.
Qed.

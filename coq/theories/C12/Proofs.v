(* C12 — proofs about the matcher model (exact statements over the model's distance [dis]) *)
From Coq Require Import Sorting.Permutation Sorting.Sorted ZifyBool ZifyNat.
From EsVerif.Common Require Import Base.
From EsVerif.C12 Require Import Model Spec ListLemmas.

(* ------------------------------------------------------------------ hmap = partition by id *)
Definition find_or_nil (h : hmap) (id : Z) : list nat :=
  match hmap_find h id with None => [] | Some v => v end.

Lemma find_push h id' i id :
  find_or_nil (hmap_push h id' i) id = if id' =? id then find_or_nil h id ++ [i] else find_or_nil h id.
Proof.
  unfold find_or_nil. induction h as [|[k v] t IH]; simpl.
  - destruct (id' =? id) eqn:E; reflexivity.
  - destruct (k =? id') eqn:E1; simpl.
    + destruct (k =? id) eqn:E2.
      * assert (id' =? id = true) as -> by lia. reflexivity.
      * assert (id' =? id = false) as -> by lia. reflexivity.
    + destruct (k =? id) eqn:E2.
      * assert (id' =? id = false) as -> by lia. reflexivity.
      * exact IH.
Qed.

Lemma find_fold tri l h id :
  find_or_nil (fold_left (fun h i => hmap_push h (tri i) i) l h) id
  = find_or_nil h id ++ filter (fun j => tri j =? id) l.
Proof.
  revert h. induction l as [|a t IH]; intro h; simpl; [rewrite app_nil_r; reflexivity|].
  rewrite IH, find_push. destruct (tri a =? id); [rewrite <- app_assoc|]; reflexivity.
Qed.

Definition members (tri : nat -> Z) (n2 : nat) (id : Z) : list nat :=
  filter (fun j => tri j =? id) (seq 0 n2).

Lemma find_init_hmap tri n2 id : find_or_nil (init_hmap tri n2) id = members tri n2 id.
Proof. unfold init_hmap. rewrite find_fold. reflexivity. Qed.

Lemma in_members tri n2 id j : In j (members tri n2 id) <-> (j < n2)%nat /\ tri j = id.
Proof. unfold members. rewrite filter_In, in_seq. lia. Qed.

Lemma NoDup_members tri n2 id : NoDup (members tri n2 id).
Proof. apply NoDup_filter, seq_NoDup. Qed.

Section Facts.
  Variable tri : nat -> Z.
  Variable n2 : nat.
  Variable dis : nat -> nat -> Z.
  Variable cover : nat -> list Z.
  Variable sorter : list cnd -> list cnd.

  Definition by_dist (a b : cnd) : Prop := snd a <= snd b.

  (* contract of std::sort with the comparator d12 < d12 (a strict weak order on numbers) *)
  Definition sort_contract : Prop :=
    forall l, Permutation l (sorter l) /\ StronglySorted by_dist (sorter l).

  Notation h := (init_hmap tri n2).

  (* all second-set points within rad of first-set point i, by brute force *)
  Definition brute (i : nat) (rad : Z) : list cnd :=
    map (fun j => (j, dis i j)) (filter (fun j => dis i j <=? rad) (seq 0 n2)).

  Lemma in_brute i rad c :
    In c (brute i rad) <-> (fst c < n2)%nat /\ snd c = dis i (fst c) /\ dis i (fst c) <= rad.
  Proof.
    unfold brute. rewrite in_map_iff. split.
    - intros [j [E Hj]]. subst c. apply filter_In in Hj as [Hj1 Hj2]. apply in_seq in Hj1. simpl. lia.
    - intros [H1 [H2 H3]]. exists (fst c). split; [destruct c; simpl in *; congruence|].
      apply filter_In. split; [apply in_seq; lia|lia].
  Qed.

  Lemma leaf_pairs_spec i rad v :
    leaf_pairs dis i rad v = map (fun j => (j, dis i j)) (filter (fun j => dis i j <=? rad) v).
  Proof.
    unfold leaf_pairs. induction v as [|a t IH]; simpl; [reflexivity|].
    destruct (dis i a <=? rad); simpl; rewrite IH; reflexivity.
  Qed.

  Lemma pair_info_spec i rad :
    pair_info dis cover h i rad
    = map (fun j => (j, dis i j))
          (filter (fun j => dis i j <=? rad) (flat_map (members tri n2) (cover i))).
  Proof.
    unfold pair_info. induction (cover i) as [|id t IH]; simpl; [reflexivity|].
    rewrite filter_app, map_app, <- IH. f_equal.
    rewrite <- find_init_hmap, <- leaf_pairs_spec. unfold find_or_nil.
    destruct (hmap_find h id); reflexivity.
  Qed.

  Lemma NoDup_flat_members ids : NoDup ids -> NoDup (flat_map (members tri n2) ids).
  Proof.
    intro N. apply NoDup_flat_map; [exact N| |].
    - intros a _. apply NoDup_members.
    - intros a b x _ _ Hab Ha Hb. apply in_members in Ha, Hb. apply Hab. lia.
  Qed.

  (* hypotheses on the cover of input point i, relative to the model's own distance *)
  Definition cover_complete (i : nat) (rad : Z) : Prop :=
    forall j, (j < n2)%nat -> dis i j <= rad -> In (tri j) (cover i).

  Lemma pair_info_perm i rad :
    cover_complete i rad -> NoDup (cover i) ->
    Permutation (pair_info dis cover h i rad) (brute i rad).
  Proof.
    intros Hc Hn. rewrite pair_info_spec. unfold brute. apply Permutation_map.
    apply NoDup_Permutation.
    - apply NoDup_filter, NoDup_flat_members, Hn.
    - apply NoDup_filter, seq_NoDup.
    - intro j. rewrite !filter_In, in_seq, in_flat_map. split.
      + intros [[id [Hid Hj]] Hd]. apply in_members in Hj. lia.
      + intros [Hj Hd]. split; [|exact Hd]. exists (tri j). split.
        * apply Hc; lia.
        * apply in_members. lia.
  Qed.

  Lemma in_pair_info_sound i rad c :
    In c (pair_info dis cover h i rad) -> (fst c < n2)%nat /\ snd c = dis i (fst c) /\ dis i (fst c) <= rad.
  Proof.
    rewrite pair_info_spec, in_map_iff. intros [j [E Hj]]. subst c. simpl.
    apply filter_In in Hj as [Hj Hd]. apply in_flat_map in Hj as [id [_ Hj]].
    apply in_members in Hj. lia.
  Qed.

  Hypothesis Hsort : sort_contract.

  Lemma sorter_length l : length (sorter l) = length l.
  Proof. symmetry. apply Permutation_length, Hsort. Qed.

  Lemma match_one_eq maxmatch i rad :
    match_one dis cover sorter h maxmatch i rad
    = map (fun c => (i, fst c, snd c))
          (firstn (nkeep maxmatch (length (pair_info dis cover h i rad)))
                  (sorter (pair_info dis cover h i rad))).
  Proof.
    unfold match_one. destruct (pair_info dis cover h i rad) as [|a t] eqn:E; [|reflexivity].
    assert (sorter [] = []) as ->.
    { apply length_zero_iff_nil. rewrite sorter_length. reflexivity. }
    rewrite firstn_nil. reflexivity.
  Qed.

  (* the rows of input point i, as (i2, d12) *)
  Definition rows (maxmatch : Z) (i : nat) (rad : Z) : list cnd :=
    firstn (nkeep maxmatch (length (pair_info dis cover h i rad))) (sorter (pair_info dis cover h i rad)).

  Lemma match_one_rows maxmatch i rad :
    match_one dis cover sorter h maxmatch i rad = map (fun c => (i, fst c, snd c)) (rows maxmatch i rad).
  Proof. apply match_one_eq. Qed.

  Lemma match_one_i1 maxmatch i rad t : In t (match_one dis cover sorter h maxmatch i rad) -> t_i1 t = i.
  Proof. rewrite match_one_rows, in_map_iff. intros [c [E _]]. subst t. reflexivity. Qed.

  Lemma nkeep_all maxmatch n : maxmatch <= 0 -> nkeep maxmatch n = n.
  Proof. intro H. unfold nkeep. destruct (0 <? maxmatch) eqn:E; [lia|reflexivity]. Qed.

  Lemma nkeep_pos maxmatch n : 0 < maxmatch -> nkeep maxmatch n = Nat.min (Z.to_nat maxmatch) n.
  Proof.
    intro H. unfold nkeep. destruct (0 <? maxmatch) eqn:E; [|lia].
    destruct (maxmatch <? Z.of_nat n) eqn:E2; simpl; lia.
  Qed.

  Lemma rows_unlimited maxmatch i rad :
    maxmatch <= 0 -> rows maxmatch i rad = sorter (pair_info dis cover h i rad).
  Proof.
    intro H. unfold rows. rewrite nkeep_all by exact H. rewrite <- sorter_length. apply firstn_all.
  Qed.

  Lemma rows_limited maxmatch i rad :
    0 < maxmatch -> rows maxmatch i rad = firstn (Z.to_nat maxmatch) (sorter (pair_info dis cover h i rad)).
  Proof.
    intro H. unfold rows. rewrite nkeep_pos by exact H. rewrite <- sorter_length.
    destruct (Nat.le_gt_cases (Z.to_nat maxmatch) (length (sorter (pair_info dis cover h i rad)))) as [L|L].
    - rewrite Nat.min_l by exact L. reflexivity.
    - rewrite Nat.min_r by lia. rewrite firstn_all. symmetry. apply firstn_all2. lia.
  Qed.

  Lemma rows_sorted maxmatch i rad : StronglySorted by_dist (rows maxmatch i rad).
  Proof. apply SSorted_firstn, Hsort. Qed.

  Lemma rows_in_sorter maxmatch i rad c :
    In c (rows maxmatch i rad) -> In c (pair_info dis cover h i rad).
  Proof.
    intro H. apply firstn_sublist_in in H. eapply Permutation_in; [apply Permutation_sym, Hsort|exact H].
  Qed.

  Lemma rows_sound maxmatch i rad c :
    In c (rows maxmatch i rad) -> (fst c < n2)%nat /\ snd c = dis i (fst c) /\ dis i (fst c) <= rad.
  Proof. intro H. apply in_pair_info_sound. eapply rows_in_sorter; exact H. Qed.

  Lemma rows_nodup maxmatch i rad : NoDup (cover i) -> NoDup (map fst (rows maxmatch i rad)).
  Proof.
    intro Hn. apply NoDup_map_firstn.
    eapply Permutation_NoDup; [apply Permutation_map, Hsort|].
    rewrite pair_info_spec, map_map. simpl. rewrite map_id.
    apply NoDup_filter, NoDup_flat_members, Hn.
  Qed.

  Lemma sorter_perm_brute i rad :
    cover_complete i rad -> NoDup (cover i) ->
    Permutation (sorter (pair_info dis cover h i rad)) (brute i rad).
  Proof.
    intros Hc Hn. eapply Permutation_trans; [apply Permutation_sym, Hsort|]. apply pair_info_perm; assumption.
  Qed.

  (* a pair within the radius is a row, or the group was cut to k rows none of which is farther *)
  Lemma rows_complete maxmatch i rad j :
    cover_complete i rad -> NoDup (cover i) -> (j < n2)%nat -> dis i j <= rad ->
    In (j, dis i j) (rows maxmatch i rad)
    \/ (0 < maxmatch /\ length (rows maxmatch i rad) = Z.to_nat maxmatch
        /\ forall c, In c (rows maxmatch i rad) -> snd c <= dis i j).
  Proof.
    intros Hc Hn Hj Hd.
    assert (Hin : In (j, dis i j) (sorter (pair_info dis cover h i rad))).
    { eapply Permutation_in; [apply Permutation_sym, sorter_perm_brute; assumption|].
      apply in_brute. simpl. lia. }
    destruct (Z.le_gt_cases maxmatch 0) as [L|L].
    - left. rewrite rows_unlimited by exact L. exact Hin.
    - rewrite rows_limited by lia.
      destruct (in_dec (fun a b : cnd => ltac:(decide equality; [apply Z.eq_dec|apply Nat.eq_dec]))
                       (j, dis i j) (firstn (Z.to_nat maxmatch) (sorter (pair_info dis cover h i rad)))) as [I|I].
      + left; exact I.
      + right. split; [lia|].
        destruct (firstn_sorted_cut by_dist (Z.to_nat maxmatch) _ (j, dis i j) (proj2 (Hsort _)) Hin I) as [E F].
        split; [exact E|]. intros c Hc'. apply (F c Hc').
  Qed.

  (* ------------------------------------------------------------ the whole loop *)
  Variable rads : list Z.
  Notation rad := (rad_of rads).
  Notation out k n1 := (match_loop dis cover sorter h k rads n1).

  Lemma in_match_loop k n1 t :
    In t (out k n1) <-> (t_i1 t < n1)%nat /\ In (t_i2 t, t_d t) (rows k (t_i1 t) (rad (t_i1 t))).
  Proof.
    unfold match_loop. rewrite in_flat_map. split.
    - intros [i [Hi Ht]]. apply in_seq in Hi. pose proof (match_one_i1 _ _ _ _ Ht) as E.
      rewrite match_one_rows, in_map_iff in Ht. destruct Ht as [c [Ec Hc]]. subst t. simpl in *.
      split; [lia|]. destruct c; exact Hc.
    - intros [Hi Ht]. exists (t_i1 t). split; [apply in_seq; lia|].
      rewrite match_one_rows, in_map_iff. exists (t_i2 t, t_d t). split; [|exact Ht].
      destruct t as [[a b] c]; reflexivity.
  Qed.

  Lemma loop_grouped_gen k s n :
    StronglySorted le (map t_i1 (flat_map (fun i => match_one dis cover sorter h k i (rad i)) (seq s n)))
    /\ forall x, In x (map t_i1 (flat_map (fun i => match_one dis cover sorter h k i (rad i)) (seq s n))) -> (s <= x)%nat.
  Proof.
    revert s. induction n as [|n IH]; intro s; simpl.
    - split; [constructor|intros x []].
    - destruct (IH (S s)) as [S1 B1]. rewrite map_app. split.
      + apply SSorted_app; [|exact S1|].
        * apply SSorted_const with (s := s). intros x Hx. apply in_map_iff in Hx as [t [E Ht]].
          subst x. eapply match_one_i1; exact Ht.
        * intros x y Hx Hy. apply in_map_iff in Hx as [t [E Ht]]. subst x.
          rewrite (match_one_i1 _ _ _ _ Ht). specialize (B1 y Hy). lia.
      + intros x Hx. apply in_app_or in Hx as [Hx|Hx].
        * apply in_map_iff in Hx as [t [E Ht]]. subst x. rewrite (match_one_i1 _ _ _ _ Ht). lia.
        * specialize (B1 x Hx). lia.
  Qed.

  Lemma loop_grouped k n1 : StronglySorted le (map t_i1 (out k n1)).
  Proof. apply (loop_grouped_gen k 0 n1). Qed.

  Lemma group_loop_gen k i s n :
    filter (fun t => (t_i1 t =? i)%nat) (flat_map (fun i => match_one dis cover sorter h k i (rad i)) (seq s n))
    = if ((s <=? i) && (i <? s + n))%nat then match_one dis cover sorter h k i (rad i) else [].
  Proof.
    revert s. induction n as [|n IH]; intro s; simpl.
    - destruct ((s <=? i)%nat && (i <? s + 0)%nat) eqn:E; [lia|reflexivity].
    - rewrite filter_app, IH. destruct (Nat.eq_dec s i) as [E|E].
      + subst s. rewrite filter_all_true.
        2:{ intros t Ht. rewrite (match_one_i1 _ _ _ _ Ht). apply Nat.eqb_refl. }
        assert ((S i <=? i)%nat && (i <? S i + n)%nat = false) as -> by lia.
        assert ((i <=? i)%nat && (i <? i + S n)%nat = true) as -> by lia.
        apply app_nil_r.
      + rewrite filter_all_false.
        2:{ intros t Ht. rewrite (match_one_i1 _ _ _ _ Ht). apply Nat.eqb_neq. exact E. }
        cbn [app]. destruct ((S s <=? i)%nat && (i <? S s + n)%nat) eqn:E1;
          destruct ((s <=? i)%nat && (i <? s + S n)%nat) eqn:E2; try reflexivity; lia.
  Qed.

  Lemma group_loop k n1 i :
    group i (out k n1) = if (i <? n1)%nat then rows k i (rad i) else [].
  Proof.
    unfold group, match_loop. rewrite group_loop_gen. simpl.
    destruct (i <? n1)%nat; [|reflexivity].
    rewrite match_one_rows, map_map. simpl.
    rewrite <- (map_id (rows k i (rad i))) at 2. apply map_ext. intros [a b]; reflexivity.
  Qed.
End Facts.

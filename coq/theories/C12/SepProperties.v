(* C12 -- real-number theorems about the distance function of the matcher (style R, DESIGN 3.3).
   [src_gcirc], [src_cover_cosine], [src_cover_pad] are translated from esutil/htm/htmc.cc on
   every run (C12/GenR.v); [true_sep] is the independent definition of the great-circle
   separation (acos of the dot product of the two unit vectors, in degrees).  Rounding is not
   modelled: these are statements about the formulas the code evaluates in binary64; the gap is
   measured on every case by the correspondence run. *)
From Coq Require Import Reals.
From Coq Require Import ZArith List.
Import ListNotations.
From EsVerif.C12 Require Import Model Proofs SepModel SepCert GenR SepProofs SepCover.
Open Scope R_scope.

(* The reported separation: the formula of gcirc IS the true separation, for all inputs
   (degrees = true is how Matcher::match calls it) ... *)
Theorem C12_gcirc_is_true_separation : forall ra1 dec1 ra2 dec2,
  src_gcirc ra1 dec1 ra2 dec2 true = true_sep ra1 dec1 ra2 dec2
  /\ src_gcirc ra1 dec1 ra2 dec2 false = true_sep_rad ra1 dec1 ra2 dec2
  /\ 0 <= true_sep ra1 dec1 ra2 dec2 <= 180.
Proof.
  intros. split; [apply gcirc_degrees|]. split; [apply gcirc_radians|apply true_sep_range].
Qed.

(* ... and identical points are at distance exactly zero (the early return of gcirc). *)
Theorem C12_gcirc_identical_points_zero : forall ra dec degrees,
  src_gcirc ra dec ra dec degrees = 0 /\ true_sep ra dec ra dec = 0.
Proof.
  intros. split; [apply gcirc_identical|]. unfold true_sep. rewrite true_sep_same. apply Rmult_0_l.
Qed.

(* The cap handed to the triangle search contains the search cap with a positive margin: its
   cosine is below cos(radius), strictly unless the radius is 180 degrees (whole sphere). *)
Theorem C12_searched_cap_contains_search_cap : forall r, 0 <= r <= 180 ->
  0 < src_cover_pad /\ src_cover_cosine r <= cos (rad r) /\ (r < 180 -> src_cover_cosine r < cos (rad r)).
Proof. exact cover_cap. Qed.

(* Hence every point whose true separation from the centre is within the search radius lies
   inside the cap { v | v . c >= d } that Matcher::match hands to the triangle search
   (SpatialDomain::setRaDecD(ra, dec, d)), strictly inside unless the radius is 180 degrees.  This
   reduces hypothesis H_cover of the discrete theorems to the contract of the JHU library
   ("every triangle that contains a point of the cap is listed", "lookupID returns a triangle
   containing the point"). *)
Theorem C12_points_within_radius_lie_in_searched_cap : forall r ra1 dec1 ra2 dec2, 0 <= r <= 180 ->
  true_sep ra1 dec1 ra2 dec2 <= r ->
  src_cover_cosine r <= dot (point (rad ra1) (rad dec1)) (point (rad ra2) (rad dec2))
  /\ (r < 180 -> src_cover_cosine r < dot (point (rad ra1) (rad dec1)) (point (rad ra2) (rad dec2))).
Proof. exact within_radius_in_cap. Qed.

(* ... formally: from a geometric contract of the JHU library -- lookupID returns a triangle that
   contains the point; SpatialDomain::intersect lists every triangle containing a point of the cap
   the source hands to it -- and exact distances, the completeness half of H_cover follows for every
   first-set point.  (The other half, duplicate-free id lists, and the contract itself stay monitored.) *)
Theorem C12_H_cover_from_library_contract :
  forall (n1 n2 : nat) (ra1 dec1 ra2 dec2 radR : nat -> R) (dis : nat -> nat -> Z) (radZ : nat -> Z)
         (tri : nat -> Z) (cover : nat -> list Z) (inside : R -> R -> Z -> Prop),
  (forall j, (j < n2)%nat -> inside (ra2 j) (dec2 j) (tri j)) ->
  (forall i, (i < n1)%nat -> forall ra dec id,
     src_cover_cosine (radR i) <= dot (point (rad (ra1 i)) (rad (dec1 i))) (point (rad ra) (rad dec)) ->
     inside ra dec id -> In id (cover i)) ->
  (forall i j, (i < n1)%nat -> (j < n2)%nat -> (dis i j <= radZ i)%Z ->
     true_sep (ra1 i) (dec1 i) (ra2 j) (dec2 j) <= radR i) ->
  (forall i, (i < n1)%nat -> 0 <= radR i <= 180) ->
  forall i, (i < n1)%nat -> cover_complete tri n2 dis cover i (radZ i).
Proof. exact cover_complete_from_library. Qed.

(* Soundness of the per-case certificates (closed by Interval in generated files): bounds on the
   haversine give bounds on the true separation. *)
Theorem C12_separation_certificate_sound : forall ra1 dec1 ra2 dec2 lo hi,
  (lo <= 0 \/ (0 <= lo <= 180 /\ havs lo <= hav ra1 dec1 ra2 dec2)) ->
  (180 <= hi \/ (0 <= hi <= 180 /\ hav ra1 dec1 ra2 dec2 <= havs hi)) ->
  lo <= true_sep ra1 dec1 ra2 dec2 <= hi.
Proof. exact sep_between_intro. Qed.

(* Non-vacuity: the equator points (0,0) and (90,0) are 90 degrees apart. *)
Example C12_sep_nonvacuous : true_sep 0 0 90 0 = 90.
Proof.
  unfold true_sep, true_sep_rad, dot, point, rad.
  replace (0 * (PI / 180)) with 0 by ring. replace (90 * (PI / 180)) with (PI / 2) by field.
  rewrite cos_0, sin_0, cos_PI2, sin_PI2.
  replace (1 * 1 * (1 * 0) + 1 * 0 * (1 * 1) + 0 * 0) with 0 by ring.
  rewrite acos_0. field. apply PI_neq0.
Qed.

(* Non-vacuity of the library contract: one triangle (id 7) holding everything. *)
Example C12_library_contract_nonvacuous :
  let inside := fun (_ _ : R) (id : Z) => id = 7%Z in
  (forall j, (j < 3)%nat -> inside 0 0 ((fun _ => 7%Z) j))
  /\ (forall i, (i < 2)%nat -> forall ra dec id, inside ra dec id -> In id ((fun _ => [7%Z]) i))
  /\ (forall i j, true_sep (INR i) 0 (INR j) 1 <= 180)
  /\ cover_complete (fun _ => 7%Z) 3 (fun _ _ => 0%Z) (fun _ => [7%Z]) 0 5.
Proof.
  cbv zeta. split; [reflexivity|]. split; [intros i _ ra dec id E; left; symmetry; exact E|].
  split; [intros; apply true_sep_range|]. intros j _ _. left. reflexivity.
Qed.

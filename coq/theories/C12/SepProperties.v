(* C12 -- real-number theorems about the distance function of the matcher (style R, DESIGN 3.3).
   [src_gcirc], [src_cover_cosine], [src_cover_pad] are translated from esutil/htm/htmc.cc on
   every run (C12/GenR.v); [true_sep] is the independent definition of the great-circle
   separation (acos of the dot product of the two unit vectors, in degrees).  Rounding is not
   modelled: these are statements about the formulas the code evaluates in binary64; the gap is
   measured on every case by the correspondence run. *)
From Coq Require Import Reals.
From EsVerif.C12 Require Import SepModel SepCert GenR SepProofs.
Open Scope R_scope.

(* The reported separation: the formula of gcirc IS the true separation, for all inputs
   (degrees = true is how Matcher::match calls it) ... *)
Theorem C12_gcirc_is_true_separation : forall ra1 dec1 ra2 dec2,
  src_gcirc ra1 dec1 ra2 dec2 true = true_sep ra1 dec1 ra2 dec2
  /\ src_gcirc ra1 dec1 ra2 dec2 false = true_sep_rad ra1 dec1 ra2 dec2
  /\ 0 <= true_sep ra1 dec1 ra2 dec2 <= 180.
Proof.
  intros. split; [apply gcirc_degrees|]. split; [apply gcirc_radians|apply true_sep_range].
Qed.

(* ... and identical points are at distance exactly zero (the early return of gcirc). *)
Theorem C12_gcirc_identical_points_zero : forall ra dec degrees,
  src_gcirc ra dec ra dec degrees = 0 /\ true_sep ra dec ra dec = 0.
Proof.
  intros. split; [apply gcirc_identical|]. unfold true_sep. rewrite true_sep_same. apply Rmult_0_l.
Qed.

(* The cap handed to the triangle search contains the search cap with a positive margin: its
   cosine is below cos(radius), strictly unless the radius is 180 degrees (whole sphere). *)
Theorem C12_searched_cap_contains_search_cap : forall r, 0 <= r <= 180 ->
  0 < src_cover_pad /\ src_cover_cosine r <= cos (rad r) /\ (r < 180 -> src_cover_cosine r < cos (rad r)).
Proof. exact cover_cap. Qed.

(* Hence every point whose true separation from the centre is within the search radius lies
   inside the cap { v | v . c >= d } that Matcher::match hands to the triangle search
   (SpatialDomain::setRaDecD(ra, dec, d)), strictly inside unless the radius is 180 degrees.  This
   reduces hypothesis H_cover of the discrete theorems to the contract of the JHU library
   ("every triangle that contains a point of the cap is listed", "lookupID returns a triangle
   containing the point"). *)
Theorem C12_points_within_radius_lie_in_searched_cap : forall r ra1 dec1 ra2 dec2, 0 <= r <= 180 ->
  true_sep ra1 dec1 ra2 dec2 <= r ->
  src_cover_cosine r <= dot (point (rad ra1) (rad dec1)) (point (rad ra2) (rad dec2))
  /\ (r < 180 -> src_cover_cosine r < dot (point (rad ra1) (rad dec1)) (point (rad ra2) (rad dec2))).
Proof. exact within_radius_in_cap. Qed.

(* Soundness of the per-case certificates (closed by Interval in generated files): bounds on the
   haversine give bounds on the true separation. *)
Theorem C12_separation_certificate_sound : forall ra1 dec1 ra2 dec2 lo hi,
  (lo <= 0 \/ (0 <= lo <= 180 /\ havs lo <= hav ra1 dec1 ra2 dec2)) ->
  (180 <= hi \/ (0 <= hi <= 180 /\ hav ra1 dec1 ra2 dec2 <= havs hi)) ->
  lo <= true_sep ra1 dec1 ra2 dec2 <= hi.
Proof. exact sep_between_intro. Qed.

(* Non-vacuity: the equator points (0,0) and (90,0) are 90 degrees apart. *)
Example C12_sep_nonvacuous : true_sep 0 0 90 0 = 90.
Proof.
  unfold true_sep, true_sep_rad, dot, point, rad.
  replace (0 * (PI / 180)) with 0 by ring. replace (90 * (PI / 180)) with (PI / 2) by field.
  rewrite cos_0, sin_0, cos_PI2, sin_PI2.
  replace (1 * 1 * (1 * 0) + 1 * 0 * (1 * 1) + 0 * 0) with 0 by ring.
  rewrite acos_0. field. apply PI_neq0.
Qed.

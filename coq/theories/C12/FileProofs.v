(* C12 -- the pair file against the statement: if the rows of the in-memory call satisfy the
   statement with tolerance tol, and printing with "%.16g" followed by parsing moves a distance by
   at most delta, keeps 0 and is monotone (correctly rounded conversions are), then the rows read
   back from the file satisfy the statement with tolerance tol + delta -- and they are the same
   pairs in the same order. *)
From Coq Require Import Sorting.Permutation Sorting.Sorted ZifyBool ZifyNat.
From EsVerif.Common Require Import Base.
From EsVerif.C12 Require Import Model Spec.

Section File.
  Variable rt : Z -> Z.
  Variable delta : Z.
  Hypothesis Hnear : forall d, Z.abs (rt d - d) <= delta.
  Hypothesis Hzero : rt 0 = 0.
  Hypothesis Hmono : forall a b, a <= b -> rt a <= rt b.

  Definition frow (t : triple) : triple := (t_i1 t, t_i2 t, rt (t_d t)).
  Definition fcnd (c : cnd) : cnd := (fst c, rt (snd c)).

  Lemma file_is_map rows : read_pairs (fst (write_pairs rt rows)) = map frow rows.
  Proof. reflexivity. Qed.

  Lemma group_map i rows : group i (map frow rows) = map fcnd (group i rows).
  Proof.
    unfold group. induction rows as [|t rows IH]; [reflexivity|]. cbn [map filter].
    replace (t_i1 (frow t)) with (t_i1 t) by reflexivity.
    destruct (t_i1 t =? i)%nat; cbn [map]; rewrite IH; reflexivity.
  Qed.

  Lemma sorted_map_rt l : StronglySorted Z.le l -> StronglySorted Z.le (map rt l).
  Proof.
    induction 1 as [|x t St IH Fa]; [constructor|]. cbn [map]. constructor; [exact IH|].
    rewrite Forall_forall in *. intros y Hy. apply in_map_iff in Hy as [z [E Hz]]. subst y.
    apply Hmono, Fa, Hz.
  Qed.

  Lemma file_meets_statement n1 n2 D rad tol k same rows :
    0 <= delta ->
    match_spec n1 n2 D rad tol k same rows ->
    match_spec n1 n2 D rad (tol + delta) k same (read_pairs (fst (write_pairs rt rows))).
  Proof.
    intros Hd M. destruct M as [Mrange Mgrouped Monce Msorted Msound Mlimit Mcomplete Mself].
    rewrite file_is_map.
    assert (Hin : forall t, In t (map frow rows) -> exists t0, In t0 rows /\ t = frow t0).
    { intros t Ht. apply in_map_iff in Ht as [t0 [E H0]]. exists t0. split; [exact H0|symmetry; exact E]. }
    constructor.
    - intros t Ht. destruct (Hin t Ht) as [t0 [H0 E]]. subst t. apply (Mrange t0 H0).
    - rewrite map_map. replace (map (fun x => t_i1 (frow x)) rows) with (map t_i1 rows) by (apply map_ext; reflexivity).
      exact Mgrouped.
    - intro i. rewrite group_map, map_map. replace (map (fun x => fst (fcnd x)) (group i rows)) with (map fst (group i rows)) by (apply map_ext; reflexivity).
      apply Monce.
    - intro i. rewrite group_map, map_map.
      replace (map (fun x => snd (fcnd x)) (group i rows)) with (map rt (map snd (group i rows))) by (rewrite map_map; apply map_ext; reflexivity).
      apply sorted_map_rt, Msorted.
    - intros t Ht. destruct (Hin t Ht) as [t0 [H0 E]]. subst t. destruct (Msound t0 H0) as [S1 S2].
      replace (t_i1 (frow t0)) with (t_i1 t0) by reflexivity. replace (t_i2 (frow t0)) with (t_i2 t0) by reflexivity.
      replace (t_d (frow t0)) with (rt (t_d t0)) by reflexivity.
      pose proof (Hnear (t_d t0)). split; lia.
    - intros Hk i. rewrite group_map, map_length. apply Mlimit. exact Hk.
    - intros i j Hi Hj P.
      assert (P' : D i j < rad i - tol \/ (same i j = true /\ 0 <= rad i)) by (destruct P as [P|P]; [left; lia|right; exact P]).
      destruct (Mcomplete i j Hi Hj P') as [I|[C1 [C2 C3]]].
      + left. rewrite group_map, map_map.
        replace (map (fun x => fst (fcnd x)) (group i rows)) with (map fst (group i rows)) by (apply map_ext; reflexivity). exact I.
      + right. unfold cut_and_no_farther. rewrite group_map, map_length. split; [exact C1|]. split; [exact C2|].
        intros c Hc. apply in_map_iff in Hc as [c0 [E Hc0]]. subst c. cbn [fcnd snd].
        specialize (C3 c0 Hc0). pose proof (Hnear (snd c0)). lia.
    - intros t Ht Hs. destruct (Hin t Ht) as [t0 [H0 E]]. subst t.
      replace (t_d (frow t0)) with (rt (t_d t0)) by reflexivity.
      rewrite (Mself t0 H0 Hs). exact Hzero.
  Qed.
End File.

(* C12 — executable model of the HTM matcher: esutil/htm/htmc.cc (Matcher::Matcher,
   Matcher::init_hmap, Matcher::match) and the python wrappers HTM.match, Matcher.match,
   read_pairs of esutil/htm/htm.py.  No proofs in this file.

   The model is discrete over an abstract distance: a separation is an integer number of
   some fixed unit (the correspondence run uses 1e-9 * 2^-E degree, in which every float64
   of a case is exact).  What is NOT modelled is passed in:
     tri   j     = htm_interface.lookupID(ra2[j], dec2[j])            (JHU HTM library)
     cover i     = the id list of input point i: flist then plist of
                   SpatialDomain::intersect for the cap around it     (JHU HTM library)
     dis   i j   = gcirc(ra1[i], dec1[i], ra2[j], dec2[j], true)       (libm)
     sorter      = std::sort(.., PAIR_INFO_ORDERING())                (libstdc++; tie order unspecified)
     rt          = the number read back by read_pairs for a distance printed with "%.16g"
   Theorems quantify over them under explicit hypotheses (Proofs.v). *)
From EsVerif.Common Require Import Base.

Definition cnd := (nat * Z)%type.            (* PAIR_INFO of the current input point: (i2, d12) *)
Definition triple := (nat * nat * Z)%type.   (* one output row (i1, i2, d12) *)
Definition t_i1 (t : triple) : nat := fst (fst t).
Definition t_i2 (t : triple) : nat := snd (fst t).
Definition t_d (t : triple) : Z := snd t.
Definition t_ij (t : triple) : nat * nat := fst t.
(* constructors with scoped arguments, used by generated case files *)
Definition row (i j : nat) (d : Z) : triple := (i, j, d).
Definition pr (i j : nat) : nat * nat := (i, j).

(* ---- std::map<int64_t, std::vector<int64_t> > hmap; only find, insert-new and push_back
        are ever used (htmc.cc init_hmap, match) *)
Definition hmap := list (Z * list nat).

Fixpoint hmap_find (h : hmap) (id : Z) : option (list nat) :=
  match h with
  | [] => None
  | (k, v) :: t => if k =? id then Some v else hmap_find t id
  end.

(* iter = hmap.find(htmid); if (iter == end) hmap[htmid] = {i} else iter->second.push_back(i) *)
Fixpoint hmap_push (h : hmap) (id : Z) (i : nat) : hmap :=
  match h with
  | [] => [(id, [i])]
  | (k, v) :: t => if k =? id then (k, v ++ [i]) :: t else (k, v) :: hmap_push t id i
  end.

(* Matcher::init_hmap: for (i = 0; i < npoints; i++) push i under lookupID(ra[i], dec[i]) *)
Definition init_hmap (tri : nat -> Z) (n2 : nat) : hmap :=
  fold_left (fun h i => hmap_push h (tri i) i) (seq 0 n2) [].

(* the reusable object: built once from the second point set *)
Record matcher := { m_npoints : nat; m_hmap : hmap }.
Definition matcher_new (tri : nat -> Z) (n2 : nat) : matcher :=
  {| m_npoints := n2; m_hmap := init_hmap tri n2 |}.

Section Match.
  Variable dis : nat -> nat -> Z.
  Variable cover : nat -> list Z.
  Variable sorter : list cnd -> list cnd.

  (* loop over the members of one leaf: keep those with  dis <= rad  (htmc.cc "if (dis <= rad)") *)
  Definition leaf_pairs (i : nat) (rad : Z) (v : list nat) : list cnd :=
    flat_map (fun j => if dis i j <=? rad then [(j, dis i j)] else []) v.

  (* pair_info of input point i: loop over idlist, hmap.find, loop over the leaf *)
  Definition pair_info (h : hmap) (i : nat) (rad : Z) : list cnd :=
    flat_map (fun id => match hmap_find h id with
                        | None => []
                        | Some v => leaf_pairs i rad v
                        end) (cover i).

  (* nkeep = pair_info.size(); if (maxmatch > 0) { if (nkeep > maxmatch) nkeep = maxmatch; } *)
  Definition nkeep (maxmatch : Z) (n : nat) : nat :=
    if (0 <? maxmatch) && (maxmatch <? Z.of_nat n) then Z.to_nat maxmatch else n.

  (* if (nkeep > 0) { std::sort(...); truncate; emit the first nkeep } *)
  Definition match_one (h : hmap) (maxmatch : Z) (i : nat) (rad : Z) : list triple :=
    match pair_info h i rad with
    | [] => []
    | p => map (fun c => (i, fst c, snd c)) (firstn (nkeep maxmatch (length p)) (sorter p))
    end.

  (* nrad == 1: one radius read before the loop; nrad > 1: radius_array[i_input] *)
  Definition rad_of (rads : list Z) (i : nat) : Z :=
    match rads with
    | [r] => r
    | _ => nth i rads 0
    end.

  (* for (i_input = 0; i_input < ninput; i_input++) ...; rows are appended in this order *)
  Definition match_loop (h : hmap) (maxmatch : Z) (rads : list Z) (n1 : nat) : list triple :=
    flat_map (fun i => match_one h maxmatch i (rad_of rads i)) (seq 0 n1).

  (* Matcher.match of htm.py: size checks (ValueError), then the C++ loop.
     n1 = ra.size, n1dec = dec.size, rads = the radius array after atleast_1d *)
  Definition matcher_match (m : matcher) (n1 n1dec : nat) (rads : list Z) (maxmatch : Z)
    : result (list triple) :=
    if negb (n1 =? n1dec)%nat then Err EValue
    else if negb (length rads =? 1)%nat && negb (length rads =? n1)%nat then Err EValue
    else Ok (match_loop (m_hmap m) maxmatch rads n1).
End Match.

(* Matcher(depth, ra, dec): ValueError unless ra.size = dec.size *)
Definition matcher_init (tri : nat -> Z) (n2 n2dec : nat) : result matcher :=
  if negb (n2 =? n2dec)%nat then Err EValue else Ok (matcher_new tri n2).

(* HTM(depth).match(ra1,dec1,ra2,dec2,radius,maxmatch,file): its own size checks (the ra2/dec2
   comparison of htm.py compares ra2.size with itself and never fires), then
   Matcher(depth, ra2, dec2).match(ra1, dec1, radius, maxmatch, file) *)
Definition htm_match dis cover sorter (tri : nat -> Z) (n2 n2dec n1 n1dec : nat) (rads : list Z)
           (maxmatch : Z) : result (list triple) :=
  if negb (n1 =? n1dec)%nat then Err EValue
  else if negb (length rads =? 1)%nat && negb (length rads =? n1)%nat then Err EValue
  else do m <- matcher_init tri n2 n2dec;
       matcher_match dis cover sorter m n1 n1dec rads maxmatch.

(* ---- file output: with file= every kept row is printed as "%ld %ld %.16g\n" instead of being
        stored and the number of rows is returned; read_pairs parses the rows back.  A file is
        modelled as its list of rows, the distance column holding the number the text denotes. *)
Section File.
  Variable rt : Z -> Z.
  Definition write_pairs (rows : list triple) : list triple * Z :=
    (map (fun t => (t_i1 t, t_i2 t, rt (t_d t))) rows, Z.of_nat (length rows)).
  Definition read_pairs (file : list triple) : list triple := file.
End File.

(* ---- the sort used when the model is executed: stable insertion sort by distance (this is
        what libstdc++'s std::sort does for up to 16 elements; for longer ranges only the
        order of equal distances can differ) *)
Fixpoint insert_c (x : cnd) (l : list cnd) : list cnd :=
  match l with
  | [] => [x]
  | y :: t => if snd x <? snd y then x :: l else y :: insert_c x t
  end.
(* fold from the left so that equal keys keep their input order *)
Definition isort_c (l : list cnd) : list cnd := fold_left (fun acc x => insert_c x acc) l [].

(* the value of maxmatch when the caller does not pass it (Matcher.match and HTM.match: maxmatch=1) *)
Definition default_maxmatch : Z := 1.

(* C12 -- the cap handed to the triangle search, with room for floating-point error: the cosine
   the code computes for the padded cap may be off by 1e-13 (450 ulp) and every point within
   the search radius still lies inside the cap with a margin of 1.4e-12 in the dot product
   (the library's tolerance gEpsilon is 1e-15).  Uses the value of MATCH_COVER_PAD_DEGREES
   regenerated from the source (GenR.src_cover_pad). *)
From Coq Require Import Reals Lra.
From Interval Require Import Tactic.
From EsVerif.C12 Require Import SepModel SepCert GenR SepProofs.
Open Scope R_scope.

Lemma sin_ge_on_middle a x : 0 <= a <= PI / 2 -> a <= x <= PI - a -> sin a <= sin x.
Proof.
  intros Ha Hx. destruct (Rle_lt_dec x (PI / 2)) as [H|H].
  - apply sin_incr_1; lra.
  - rewrite <- (sin_PI_x x). apply sin_incr_1; lra.
Qed.

Lemma cos_gap r p : 0 <= r -> 0 <= p -> r + p <= PI ->
  1 - cos p <= cos r - cos (r + p).
Proof.
  intros Hr Hp Hs.
  assert (E : cos r - cos (r + p) = 2 * sin (r + p / 2) * sin (p / 2)).
  { rewrite form2. replace ((r - (r + p)) / 2) with (- (p / 2)) by field.
    replace ((r + (r + p)) / 2) with (r + p / 2) by field. rewrite sin_neg. ring. }
  assert (E0 : 1 - cos p = 2 * sin (p / 2) * sin (p / 2)).
  { replace p with (2 * (p / 2)) at 1 by field. rewrite cos_2a_sin. ring. }
  rewrite E, E0.
  assert (S0 : 0 <= sin (p / 2)) by (apply sin_ge_0; lra).
  assert (S1 : sin (p / 2) <= sin (r + p / 2)) by (apply sin_ge_on_middle; lra).
  nra.
Qed.

Lemma pad_gap : 15 / 10 ^ 13 <= 1 - cos (rad src_cover_pad).
Proof. unfold rad, src_cover_pad. interval with (i_prec 80). Qed.

Lemma cap_robust r d' ra1 dec1 ra2 dec2 :
  0 <= r -> r + src_cover_pad <= 180 ->
  Rabs (d' - src_cover_cosine r) <= 1 / 10 ^ 13 ->
  true_sep ra1 dec1 ra2 dec2 <= r ->
  d' + 14 / 10 ^ 13 <= dot (point (rad ra1) (rad dec1)) (point (rad ra2) (rad dec2)).
Proof.
  intros Hr Hp Hd Hs. pose proof PI_RGT_0 as P.
  assert (Hpad : 0 < src_cover_pad) by (unfold src_cover_pad; lra).
  assert (Ec : src_cover_cosine r = cos (rad (r + src_cover_pad))).
  { unfold src_cover_cosine, Rleb, src_D2R, rad. cbv zeta.
    destruct (Rle_dec 180 (r + src_cover_pad)) as [H|H]; [|reflexivity].
    assert (r + src_cover_pad = 180) as -> by lra. reflexivity. }
  assert (Erad : rad (r + src_cover_pad) = rad r + rad src_cover_pad) by (unfold rad; ring).
  assert (R0 : 0 <= rad r) by (unfold rad; apply Rmult_le_pos; [lra|apply Rlt_le, Rdiv_lt_0_compat; lra]).
  assert (R1 : 0 <= rad src_cover_pad) by (unfold rad; apply Rmult_le_pos; [lra|apply Rlt_le, Rdiv_lt_0_compat; lra]).
  assert (R2 : rad r + rad src_cover_pad <= PI).
  { rewrite <- Erad. unfold rad. replace PI with (180 * (PI / 180)) at 2 by field.
    apply Rmult_le_compat_r; [apply Rlt_le, Rdiv_lt_0_compat; lra|lra]. }
  pose proof (cos_gap (rad r) (rad src_cover_pad) R0 R1 R2) as G. pose proof pad_gap as N.
  rewrite <- Erad, <- Ec in G.
  (* the point is at least as close as the radius *)
  pose proof (true_sep_rad_range ra1 dec1 ra2 dec2) as [T0 T1].
  assert (E : dot (point (rad ra1) (rad dec1)) (point (rad ra2) (rad dec2)) = cos (true_sep_rad ra1 dec1 ra2 dec2)).
  { unfold true_sep_rad. symmetry. apply cos_acos. apply C_bound. }
  assert (Hle : true_sep_rad ra1 dec1 ra2 dec2 <= rad r).
  { unfold true_sep in Hs. unfold rad.
    replace (true_sep_rad ra1 dec1 ra2 dec2) with (true_sep_rad ra1 dec1 ra2 dec2 * (180 / PI) * (PI / 180)) by (field; lra).
    apply Rmult_le_compat_r; [apply Rlt_le, Rdiv_lt_0_compat; lra|exact Hs]. }
  assert (Hc : cos (rad r) <= cos (true_sep_rad ra1 dec1 ra2 dec2)).
  { destruct (Rle_lt_or_eq_dec _ _ Hle) as [Hlt|Heq].
    - apply Rlt_le. apply cos_decreasing_1; lra.
    - rewrite Heq. lra. }
  rewrite E. unfold Rabs in Hd. destruct (Rcase_abs (d' - src_cover_cosine r)); lra.
Qed.

(* beyond 180 - pad the code searches the whole sphere *)
Lemma cap_whole_sphere r : 180 <= r + src_cover_pad -> src_cover_cosine r = -1.
Proof.
  intro H. unfold src_cover_cosine, Rleb, src_D2R. cbv zeta.
  destruct (Rle_dec 180 (r + src_cover_pad)) as [_|N]; [|contradiction].
  replace (180 * (PI / 180)) with PI by (field; pose proof PI_RGT_0; lra). apply cos_PI.
Qed.

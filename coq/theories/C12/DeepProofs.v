(* C12 -- proof-deepening round, discrete part:
   (1) the theorems about the model instantiated with its own verified sort (no sort hypothesis);
   (2) hypothesis H_cover is satisfiable for EVERY input (the cover that lists every occupied
       triangle once), and with it the model is brute force;
   (3) the model as a step function over a history of queries: the Matcher state never changes
       and every answer is the answer of the query made alone;
   (4) exactly which sizes are rejected, with which error class, by each entry point. *)
From Coq Require Import Sorting.Permutation Sorting.Sorted.
From EsVerif.Common Require Import Base.
From EsVerif.C12 Require Import Model Spec ListLemmas Proofs MainProofs CheckProofs.

(* ------------------------------------------------------------------ (1) verified sort inside the model *)
Section Exec.
  Variables (tri : nat -> Z) (n2 : nat) (dis : nat -> nat -> Z) (cover : nat -> list Z) (rads : list Z) (n1 : nat).
  Hypothesis Hcov : H_cover tri n2 dis cover rads n1.
  Notation out k := (match_loop dis cover isort_c (init_hmap tri n2) k rads n1).

  Lemma exec_correct k :
    (k <= 0 -> forall t, In t (out k) <->
        (t_i1 t < n1)%nat /\ (t_i2 t < n2)%nat /\ t_d t = dis (t_i1 t) (t_i2 t)
        /\ dis (t_i1 t) (t_i2 t) <= rad_of rads (t_i1 t))
    /\ NoDup (map t_ij (out k))
    /\ StronglySorted le (map t_i1 (out k))
    /\ (forall i, StronglySorted Z.le (map snd (group i (out k))))
    /\ (0 < k -> forall i, (i < n1)%nat ->
          exists l, Permutation l (brute n2 dis i (rad_of rads i)) /\ StronglySorted by_dist l
                    /\ group i (out k) = firstn (Z.to_nat k) l).
  Proof.
    pose proof isort_c_contract as Hs.
    split; [intros Hk t; apply exact_in; assumption|].
    split; [apply once; assumption|].
    split; [apply grouped; assumption|].
    split; [intro i; apply sorted_within; assumption|].
    intros Hk i Hi. apply kclosest; assumption.
  Qed.

  Lemma exec_meets_statement same D tol k :
    (forall i j, same i j = true -> dis i j = 0) ->
    (forall i j, (i < n1)%nat -> (j < n2)%nat -> Z.abs (dis i j - D i j) <= tol) ->
    match_spec n1 n2 D (rad_of rads) tol k same (out k).
  Proof. intros. apply model_meets_spec; try assumption. exact isort_c_contract. Qed.
End Exec.

(* ------------------------------------------------------------------ (2) H_cover is satisfiable for every input *)
Definition all_ids (tri : nat -> Z) (n2 : nat) : list Z := nodup Z.eq_dec (map tri (seq 0 n2)).

Lemma all_ids_cover tri n2 dis rads n1 : H_cover tri n2 dis (fun _ => all_ids tri n2) rads n1.
Proof.
  intros i Hi. split.
  - intros j Hj _. unfold all_ids. apply nodup_In, in_map, in_seq. lia.
  - apply NoDup_nodup.
Qed.

(* with that cover the matcher is brute force over the second set: no hypothesis left but the sort's *)
Lemma brute_force_exact tri n2 dis sorter rads n1 k : sort_contract sorter -> k <= 0 ->
  forall t, In t (match_loop dis (fun _ => all_ids tri n2) sorter (init_hmap tri n2) k rads n1) <->
            (t_i1 t < n1)%nat /\ (t_i2 t < n2)%nat /\ t_d t = dis (t_i1 t) (t_i2 t)
            /\ dis (t_i1 t) (t_i2 t) <= rad_of rads (t_i1 t).
Proof. intros Hs Hk t. apply exact_in; [exact Hs|apply all_ids_cover|exact Hk]. Qed.

(* any cover meeting H_cover gives the rows of the brute-force cover *)
Lemma any_cover_is_brute_force tri n2 dis cover sorter rads n1 k :
  sort_contract sorter -> H_cover tri n2 dis cover rads n1 -> k <= 0 ->
  forall t, In t (match_loop dis cover sorter (init_hmap tri n2) k rads n1) <->
            In t (match_loop dis (fun _ => all_ids tri n2) isort_c (init_hmap tri n2) k rads n1).
Proof.
  intros Hs Hc Hk t. rewrite (exact_in tri n2 dis cover sorter rads n1 Hs Hc k t Hk).
  rewrite (brute_force_exact tri n2 dis isort_c rads n1 k isort_c_contract Hk t). reflexivity.
Qed.

(* ------------------------------------------------------------------ (3) history: the model as a step function *)
Section History.
  Variables (dis : nat -> nat -> Z) (cover : nat -> list Z) (sorter : list cnd -> list cnd).
  (* one query: sizes of ra and dec, radii, maxmatch *)
  Definition query : Type := (nat * nat * list Z * Z)%type.
  Definition answer (m : matcher) (q : query) : result (list triple) :=
    let '(n1, n1dec, rads, k) := q in matcher_match dis cover sorter m n1 n1dec rads k.
  (* Matcher.match as a step of a state machine whose state is the Matcher *)
  Definition step (m : matcher) (q : query) : matcher * result (list triple) := (m, answer m q).
  Fixpoint run (m : matcher) (qs : list query) : matcher * list (result (list triple)) :=
    match qs with
    | [] => (m, [])
    | q :: t => let '(m1, a) := step m q in let '(m2, l) := run m1 t in (m2, a :: l)
    end.

  Lemma run_pure m qs : run m qs = (m, map (answer m) qs).
  Proof. induction qs as [|q t IH]; [reflexivity|]. cbn [run step map]. rewrite IH. reflexivity. Qed.

  (* the answer to q after any history equals the answer to q alone, and the state is unchanged *)
  Lemma history_irrelevant m before q after :
    fst (run m (before ++ q :: after)) = m
    /\ nth_error (snd (run m (before ++ q :: after))) (length before) = Some (answer m q).
  Proof.
    rewrite run_pure. cbn [fst snd]. split; [reflexivity|].
    rewrite map_app. cbn [map]. rewrite nth_error_app2 by (rewrite map_length; lia).
    rewrite map_length, Nat.sub_diag. reflexivity.
  Qed.
End History.

(* the one-shot method keeps nothing between calls: it is a function of its arguments that
   builds a fresh Matcher; two Matchers built from the same second set are the same state *)
Lemma oneshot_fresh dis cover sorter tri n2 n2dec n1 n1dec rads k :
  htm_match dis cover sorter tri n2 n2dec n1 n1dec rads k
  = if negb (n1 =? n1dec)%nat then Err EValue
    else if negb (length rads =? 1)%nat && negb (length rads =? n1)%nat then Err EValue
    else match matcher_init tri n2 n2dec with
         | Ok m => matcher_match dis cover sorter m n1 n1dec rads k
         | Err e => Err e
         end.
Proof. reflexivity. Qed.

(* ------------------------------------------------------------------ (4) rejections, exactly *)
Lemma matcher_init_cases tri n2 n2dec :
  (n2 = n2dec -> matcher_init tri n2 n2dec = Ok (matcher_new tri n2))
  /\ (n2 <> n2dec -> matcher_init tri n2 n2dec = Err EValue).
Proof.
  unfold matcher_init. split; intro H.
  - subst. rewrite Nat.eqb_refl. reflexivity.
  - apply Nat.eqb_neq in H. rewrite H. reflexivity.
Qed.

Definition sizes_ok (n1 n1dec nrad : nat) : Prop := n1 = n1dec /\ (nrad = 1 \/ nrad = n1)%nat.

Lemma sizes_ok_dec n1 n1dec nrad : {sizes_ok n1 n1dec nrad} + {~ sizes_ok n1 n1dec nrad}.
Proof.
  unfold sizes_ok. destruct (Nat.eq_dec n1 n1dec); [|right; tauto].
  destruct (Nat.eq_dec nrad 1); [left; tauto|]. destruct (Nat.eq_dec nrad n1); [left; tauto|right; tauto].
Qed.

Lemma htm_match_cases dis cover sorter tri n2 n2dec n1 n1dec rads k :
  (sizes_ok n1 n1dec (length rads) /\ n2 = n2dec ->
     htm_match dis cover sorter tri n2 n2dec n1 n1dec rads k
     = Ok (match_loop dis cover sorter (init_hmap tri n2) k rads n1))
  /\ (~ (sizes_ok n1 n1dec (length rads) /\ n2 = n2dec) ->
     htm_match dis cover sorter tri n2 n2dec n1 n1dec rads k = Err EValue).
Proof.
  unfold htm_match, matcher_init, matcher_match, sizes_ok. split.
  - intros [[E1 E2] E3]. subst n1dec n2dec. rewrite !Nat.eqb_refl. cbn [negb].
    destruct E2 as [E2|E2]; rewrite E2; rewrite ?Nat.eqb_refl; cbn [negb andb]; rewrite ?andb_false_r; reflexivity.
  - intros H.
    destruct (n1 =? n1dec)%nat eqn:A; cbn [negb]; [|reflexivity].
    destruct (negb (length rads =? 1)%nat && negb (length rads =? n1)%nat) eqn:B; [reflexivity|].
    destruct (n2 =? n2dec)%nat eqn:C; cbn [negb]; [|reflexivity].
    exfalso. apply H. apply Nat.eqb_eq in A, C.
    apply andb_false_iff in B. split; [split; [exact A|]|exact C].
    destruct B as [B|B]; apply negb_false_iff, Nat.eqb_eq in B; tauto.
Qed.

Lemma matcher_match_cases dis cover sorter m n1 n1dec rads k :
  (sizes_ok n1 n1dec (length rads) ->
     matcher_match dis cover sorter m n1 n1dec rads k = Ok (match_loop dis cover sorter (m_hmap m) k rads n1))
  /\ (~ sizes_ok n1 n1dec (length rads) -> matcher_match dis cover sorter m n1 n1dec rads k = Err EValue).
Proof.
  unfold sizes_ok. split.
  - intros [E1 E2]. subst n1dec. apply matcher_match_ok. exact E2.
  - intro H. apply matcher_match_rejects.
    destruct (Nat.eq_dec n1 n1dec) as [E|E]; [right|left; exact E].
    split; intro X; apply H; tauto.
Qed.

(* ------------------------------------------------------------------ (5) the run-time monitor of H_cover is sound *)
Lemma cover_contract_b_sound n1 n2 D rad tol tri cover :
  cover_contract_b n1 n2 D rad tol tri cover = true ->
  forall i j, (i < n1)%nat -> (j < n2)%nat -> D i j < rad i - tol -> In (tri j) (cover i).
Proof.
  unfold cover_contract_b. intros H i j Hi Hj Hd. rewrite forallb_forall in H.
  specialize (H i ltac:(apply in_seq; lia)). rewrite forallb_forall in H.
  specialize (H j ltac:(apply in_seq; lia)).
  replace (D i j <? rad i - tol) with true in H by lia.
  apply existsb_exists in H as [x [Hx E]]. apply Z.eqb_eq in E. subst x. exact Hx.
Qed.

(* accepted by the monitor = the completeness half of H_cover for the TRUE separations, with the
   radius reduced by the tolerance band *)
Lemma monitor_gives_cover_complete n1 n2 D rads tol tri cover :
  cover_contract_b n1 n2 D (rad_of rads) tol tri cover = true ->
  forall i, (i < n1)%nat -> cover_complete tri n2 D cover i (rad_of rads i - tol - 1).
Proof.
  intros H i Hi j Hj Hd. eapply cover_contract_b_sound; try eassumption. lia.
Qed.

(* ------------------------------------------------------------------ (6) a limit only cuts: with maxmatch = k > 0
   every group is the first k rows of the group of the unlimited call (same sorter), for every cover *)
Lemma limit_is_prefix tri n2 dis cover sorter rads n1 k i :
  sort_contract sorter -> 0 < k ->
  group i (match_loop dis cover sorter (init_hmap tri n2) k rads n1)
  = firstn (Z.to_nat k) (group i (match_loop dis cover sorter (init_hmap tri n2) 0 rads n1)).
Proof.
  intros Hs Hk. destruct (Nat.lt_ge_cases i n1) as [Hi|Hi].
  - rewrite !(group_loop tri n2 dis cover sorter Hs).
    assert ((i <? n1)%nat = true) as -> by lia.
    rewrite (rows_limited tri n2 dis cover sorter Hs) by exact Hk.
    rewrite (rows_unlimited tri n2 dis cover sorter Hs) by lia. reflexivity.
  - rewrite !(group_loop tri n2 dis cover sorter Hs).
    assert ((i <? n1)%nat = false) as -> by lia. destruct (Z.to_nat k); reflexivity.
Qed.

(* C12 -- proofs over the reals about the great-circle separation [true_sep] (independent of the
   regenerated source text): its sine and cosine in the frame gcirc uses, its haversine, its
   range, and the soundness of the haversine certificates used by the per-case interval lemmas. *)
From Coq Require Import Reals Lra Bool.
From EsVerif.C12 Require Import SepModel.
Open Scope R_scope.

Lemma Reqb_true a b : Reqb a b = true -> a = b.
Proof. unfold Reqb. destruct (Req_EM_T a b); [auto|discriminate]. Qed.

(* ---- the angle of a point of the upper unit half circle *)
Lemma atan2u_polar t : 0 <= t <= PI -> atan2u (sin t) (cos t) = t.
Proof.
  intros Ht. unfold atan2u.
  destruct (Rlt_dec 0 (cos t)) as [Hp|Hp].
  - assert (t < PI / 2) as Hlt.
    { destruct (Rlt_le_dec t (PI / 2)) as [H|H]; [exact H|exfalso].
      assert (cos t <= 0) by (apply cos_le_0; lra). lra. }
    change (sin t / cos t) with (tan t). apply atan_tan. lra.
  - destruct (Rlt_dec (cos t) 0) as [Hn|Hn].
    + assert (PI / 2 < t) as Hgt.
      { destruct (Rlt_le_dec (PI / 2) t) as [H|H]; [exact H|exfalso].
        assert (0 <= cos t) by (apply cos_ge_0; lra). lra. }
      set (u := t - PI).
      assert (Es : sin t = - sin u) by (unfold u; replace t with ((t - PI) + PI) at 1 by ring; apply neg_sin).
      assert (Ec : cos t = - cos u) by (unfold u; replace t with ((t - PI) + PI) at 1 by ring; apply neg_cos).
      assert (cos u <> 0) by lra.
      replace (sin t / cos t) with (tan u) by (unfold tan; rewrite Es, Ec; field; assumption).
      rewrite atan_tan by (unfold u; lra). unfold u; ring.
    + assert (cos t = 0) as E0 by lra.
      rewrite <- (acos_cos t Ht), E0. symmetry. apply acos_0.
Qed.

(* ---- trigonometry of two points of the sphere *)
Section Two.
  Variables ra1 dec1 ra2 dec2 : R.
  Let s1 := sin (rad dec1).  Let c1 := cos (rad dec1).
  Let s2 := sin (rad dec2).  Let c2 := cos (rad dec2).
  Let cd := cos (rad (ra1 - ra2)).  Let sd := sin (rad (ra1 - ra2)).
  Let C := dot (point (rad ra1) (rad dec1)) (point (rad ra2) (rad dec2)).

  Lemma rad_sub a b : rad (a - b) = rad a - rad b.
  Proof. unfold rad. ring. Qed.

  Lemma dot_formula : C = s1 * s2 + c1 * c2 * cd.
  Proof.
    unfold C, dot, point, cd. rewrite rad_sub, cos_minus. fold s1 c1 s2 c2. ring.
  Qed.

  Lemma sc1 : s1 * s1 + c1 * c1 = 1.
  Proof. pose proof (sin2_cos2 (rad dec1)) as H. unfold Rsqr in H. exact H. Qed.
  Lemma sc2 : s2 * s2 + c2 * c2 = 1.
  Proof. pose proof (sin2_cos2 (rad dec2)) as H. unfold Rsqr in H. exact H. Qed.
  Lemma scd : sd * sd + cd * cd = 1.
  Proof. pose proof (sin2_cos2 (rad (ra1 - ra2))) as H. unfold Rsqr in H. exact H. Qed.

  (* Lagrange: |p1 x p2|^2 = 1 - (p1.p2)^2, with the cross product in the frame of the code *)
  Lemma cross_formula :
    (c2 * sd) * (c2 * sd) + (c1 * s2 - s1 * c2 * cd) * (c1 * s2 - s1 * c2 * cd) = 1 - C * C.
  Proof.
    rewrite dot_formula.
    replace 1 with ((s1 * s1 + c1 * c1) * (s2 * s2) + c2 * c2 * ((s1 * s1 + c1 * c1) * (cd * cd) + sd * sd)).
    - ring.
    - rewrite sc1. replace (1 * (cd * cd) + sd * sd) with (sd * sd + cd * cd) by ring. rewrite scd.
      replace (1 * (s2 * s2) + c2 * c2 * 1) with (s2 * s2 + c2 * c2) by ring. apply sc2.
  Qed.

  Lemma C_bound : -1 <= C <= 1.
  Proof.
    pose proof cross_formula as H.
    pose proof (Rle_0_sqr (c2 * sd)) as Q1. pose proof (Rle_0_sqr (c1 * s2 - s1 * c2 * cd)) as Q2.
    unfold Rsqr in Q1, Q2. assert (0 <= 1 - C * C) by (rewrite <- H; lra). nra.
  Qed.

  (* the cancellation-free second component of the code *)
  Lemma b_formula :
    sin (rad (dec2 - dec1)) + 2 * s1 * c2 * sin (1 / 2 * rad (ra1 - ra2)) * sin (1 / 2 * rad (ra1 - ra2))
    = c1 * s2 - s1 * c2 * cd.
  Proof.
    rewrite rad_sub, sin_minus. fold s1 c1 s2 c2.
    assert (E : cd = 1 - 2 * sin (1 / 2 * rad (ra1 - ra2)) * sin (1 / 2 * rad (ra1 - ra2))).
    { unfold cd. replace (rad (ra1 - ra2)) with (2 * (1 / 2 * rad (ra1 - ra2))) at 1 by field. apply cos_2a_sin. }
    rewrite E. ring.
  Qed.

  Lemma sin_true_sep :
    sin (true_sep_rad ra1 dec1 ra2 dec2)
    = sqrt ((c2 * sd) * (c2 * sd) + (c1 * s2 - s1 * c2 * cd) * (c1 * s2 - s1 * c2 * cd)).
  Proof.
    unfold true_sep_rad. fold C. rewrite sin_acos by apply C_bound. f_equal.
    rewrite cross_formula. unfold Rsqr. ring.
  Qed.

  Lemma cos_true_sep : cos (true_sep_rad ra1 dec1 ra2 dec2) = s1 * s2 + c1 * c2 * cd.
  Proof. unfold true_sep_rad. fold C. rewrite cos_acos by apply C_bound. apply dot_formula. Qed.

  Lemma true_sep_rad_range : 0 <= true_sep_rad ra1 dec1 ra2 dec2 <= PI.
  Proof. unfold true_sep_rad. apply acos_bound. Qed.

  (* haversine *)
  Lemma hav_formula : C = 1 - 2 * hav ra1 dec1 ra2 dec2.
  Proof.
    rewrite dot_formula. unfold hav.
    assert (E1 : cos (rad (dec2 - dec1)) = 1 - 2 * sin (rad (dec2 - dec1) / 2) * sin (rad (dec2 - dec1) / 2)).
    { replace (rad (dec2 - dec1)) with (2 * (rad (dec2 - dec1) / 2)) at 1 by field. apply cos_2a_sin. }
    assert (E2 : cos (rad (ra2 - ra1)) = 1 - 2 * sin (rad (ra2 - ra1) / 2) * sin (rad (ra2 - ra1) / 2)).
    { replace (rad (ra2 - ra1)) with (2 * (rad (ra2 - ra1) / 2)) at 1 by field. apply cos_2a_sin. }
    assert (E3 : cd = cos (rad (ra2 - ra1))).
    { unfold cd. rewrite <- cos_neg. f_equal. unfold rad. ring. }
    rewrite rad_sub, cos_minus in E1. fold s1 c1 s2 c2 in E1.
    rewrite E3, E2. simpl pow. fold c1 c2. rewrite (rad_sub dec2 dec1).
    set (h := sin (rad (ra2 - ra1) / 2)) in *. set (g := sin ((rad dec2 - rad dec1) / 2)) in *.
    replace (s1 * s2 + c1 * c2 * (1 - 2 * h * h)) with ((c2 * c1 + s2 * s1) - 2 * c1 * c2 * h * h) by ring.
    rewrite E1. ring.
  Qed.

  Lemma hav_half_angle : hav ra1 dec1 ra2 dec2 = sin (true_sep_rad ra1 dec1 ra2 dec2 / 2) ^ 2.
  Proof.
    pose proof hav_formula as H.
    assert (E : C = 1 - 2 * sin (true_sep_rad ra1 dec1 ra2 dec2 / 2) * sin (true_sep_rad ra1 dec1 ra2 dec2 / 2)).
    { rewrite <- cos_2a_sin. replace (2 * (true_sep_rad ra1 dec1 ra2 dec2 / 2)) with (true_sep_rad ra1 dec1 ra2 dec2) by field.
      unfold true_sep_rad. fold C. symmetry. apply cos_acos, C_bound. }
    simpl pow. lra.
  Qed.
End Two.

(* ---- identical points, range *)
Lemma true_sep_same ra dec : true_sep_rad ra dec ra dec = 0.
Proof.
  unfold true_sep_rad, dot, point.
  pose proof (sin2_cos2 (rad ra)) as A. pose proof (sin2_cos2 (rad dec)) as B. unfold Rsqr in A, B.
  replace (cos (rad dec) * cos (rad ra) * (cos (rad dec) * cos (rad ra)) +
           cos (rad dec) * sin (rad ra) * (cos (rad dec) * sin (rad ra)) + sin (rad dec) * sin (rad dec))
    with ((cos (rad dec) * cos (rad dec)) * (sin (rad ra) * sin (rad ra) + cos (rad ra) * cos (rad ra)) + sin (rad dec) * sin (rad dec)) by ring.
  rewrite A. replace (cos (rad dec) * cos (rad dec) * 1 + sin (rad dec) * sin (rad dec)) with 1 by lra.
  apply acos_1.
Qed.

Lemma true_sep_range ra1 dec1 ra2 dec2 : 0 <= true_sep ra1 dec1 ra2 dec2 <= 180.
Proof.
  unfold true_sep. pose proof (true_sep_rad_range ra1 dec1 ra2 dec2) as [A B]. pose proof PI_RGT_0 as P.
  split.
  - apply Rmult_le_pos; [exact A|]. apply Rlt_le, Rdiv_lt_0_compat; lra.
  - replace 180 with (PI * (180 / PI)) at 2 by (field; lra).
    apply Rmult_le_compat_r; [apply Rlt_le, Rdiv_lt_0_compat; lra|exact B].
Qed.

(* ---- certificates: bounds on the true separation from bounds on its haversine *)
Lemma havs_range d : 0 <= d <= 180 -> 0 <= rad d / 2 <= PI / 2.
Proof.
  intros Hd. pose proof PI_RGT_0 as P. unfold rad. split.
  - apply Rmult_le_pos; [|lra]. apply Rmult_le_pos; [lra|apply Rlt_le, Rdiv_lt_0_compat; lra].
  - replace (PI / 2) with (180 * (PI / 180) / 2) by field.
    apply Rmult_le_compat_r; [lra|]. apply Rmult_le_compat_r; [apply Rlt_le, Rdiv_lt_0_compat; lra|lra].
Qed.

Lemma deg_of_rad x : rad (x * (180 / PI)) = x.
Proof. unfold rad. field. pose proof PI_RGT_0; lra. Qed.

Lemma sq_lt a b : 0 <= a -> a < b -> a ^ 2 < b ^ 2.
Proof. intros. simpl. nra. Qed.

Lemma sep_le_cert ra1 dec1 ra2 dec2 hi :
  0 <= hi <= 180 -> hav ra1 dec1 ra2 dec2 <= havs hi -> true_sep ra1 dec1 ra2 dec2 <= hi.
Proof.
  intros Hh Hc. destruct (Rle_lt_dec (true_sep ra1 dec1 ra2 dec2) hi) as [H|H]; [exact H|exfalso].
  pose proof (true_sep_range ra1 dec1 ra2 dec2) as Rg.
  pose proof (havs_range hi Hh) as R1. pose proof (havs_range _ Rg) as R2.
  assert (rad hi / 2 < rad (true_sep ra1 dec1 ra2 dec2) / 2) as Hlt.
  { unfold rad. pose proof PI_RGT_0. apply Rmult_lt_compat_r; [lra|]. apply Rmult_lt_compat_r; [apply Rdiv_lt_0_compat; lra|exact H]. }
  assert (sin (rad hi / 2) < sin (rad (true_sep ra1 dec1 ra2 dec2) / 2)) by (apply sin_increasing_1; lra).
  assert (0 <= sin (rad hi / 2)) by (apply sin_ge_0; lra).
  rewrite hav_half_angle in Hc. unfold havs in Hc. unfold true_sep in H0. rewrite deg_of_rad in H0.
  pose proof (sq_lt _ _ H1 H0). lra.
Qed.

Lemma sep_ge_cert ra1 dec1 ra2 dec2 lo :
  0 <= lo <= 180 -> havs lo <= hav ra1 dec1 ra2 dec2 -> lo <= true_sep ra1 dec1 ra2 dec2.
Proof.
  intros Hl Hc. destruct (Rle_lt_dec lo (true_sep ra1 dec1 ra2 dec2)) as [H|H]; [exact H|exfalso].
  pose proof (true_sep_range ra1 dec1 ra2 dec2) as Rg.
  pose proof (havs_range lo Hl) as R1. pose proof (havs_range _ Rg) as R2.
  assert (rad (true_sep ra1 dec1 ra2 dec2) / 2 < rad lo / 2) as Hlt.
  { unfold rad. pose proof PI_RGT_0. apply Rmult_lt_compat_r; [lra|]. apply Rmult_lt_compat_r; [apply Rdiv_lt_0_compat; lra|exact H]. }
  assert (sin (rad (true_sep ra1 dec1 ra2 dec2) / 2) < sin (rad lo / 2)) by (apply sin_increasing_1; lra).
  assert (0 <= sin (rad (true_sep ra1 dec1 ra2 dec2) / 2)) by (apply sin_ge_0; lra).
  rewrite hav_half_angle in Hc. unfold havs in Hc. unfold true_sep in H0, H1. rewrite deg_of_rad in H0, H1.
  pose proof (sq_lt _ _ H1 H0). lra.
Qed.

(* the form proved per case: lo <= true separation <= hi, where a bound outside [0, 180] is trivial *)
Definition sep_between (ra1 dec1 ra2 dec2 lo hi : R) : Prop :=
  lo <= true_sep ra1 dec1 ra2 dec2 <= hi.

Lemma sep_between_intro ra1 dec1 ra2 dec2 lo hi :
  (lo <= 0 \/ (0 <= lo <= 180 /\ havs lo <= hav ra1 dec1 ra2 dec2)) ->
  (180 <= hi \/ (0 <= hi <= 180 /\ hav ra1 dec1 ra2 dec2 <= havs hi)) ->
  sep_between ra1 dec1 ra2 dec2 lo hi.
Proof.
  intros A B. pose proof (true_sep_range ra1 dec1 ra2 dec2) as Rg. split.
  - destruct A as [A|[A1 A2]]; [lra|apply sep_ge_cert; assumption].
  - destruct B as [B|[B1 B2]]; [lra|apply sep_le_cert; assumption].
Qed.

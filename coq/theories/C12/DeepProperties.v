(* C12 -- theorems added in the proof-deepening round (discrete; closed under the global context).
   Property theorems only; bodies in DeepProofs.v / CompleteProofs.v. *)
From Coq Require Import Sorting.Permutation Sorting.Sorted.
From EsVerif.Common Require Import Base.
From EsVerif.C12 Require Import Model Spec ListLemmas Proofs MainProofs CheckProofs DeepProofs CompleteProofs FileProofs.

(* The model run with its own verified sort: exact pair set, each pair once, grouping, order within
   groups and the k closest -- WITHOUT the hypothesis sort_contract (std::sort remains a monitored
   contract of the real code; the model's own theorems no longer depend on it). *)
Theorem C12_executable_model_correct : forall tri n2 dis cover rads n1 k,
  H_cover tri n2 dis cover rads n1 ->
  let out := match_loop dis cover isort_c (init_hmap tri n2) k rads n1 in
  (k <= 0 -> forall t, In t out <->
      (t_i1 t < n1)%nat /\ (t_i2 t < n2)%nat /\ t_d t = dis (t_i1 t) (t_i2 t)
      /\ dis (t_i1 t) (t_i2 t) <= rad_of rads (t_i1 t))
  /\ NoDup (map t_ij out)
  /\ StronglySorted le (map t_i1 out)
  /\ (forall i, StronglySorted Z.le (map snd (group i out)))
  /\ (0 < k -> forall i, (i < n1)%nat ->
        exists l, Permutation l (brute n2 dis i (rad_of rads i)) /\ StronglySorted by_dist l
                  /\ group i out = firstn (Z.to_nat k) l).
Proof. intros tri n2 dis cover rads n1 k H. exact (exec_correct tri n2 dis cover rads n1 H k). Qed.

Theorem C12_executable_model_meets_statement : forall tri n2 dis cover rads n1 same D tol k,
  H_cover tri n2 dis cover rads n1 ->
  (forall i j, same i j = true -> dis i j = 0) ->
  (forall i j, (i < n1)%nat -> (j < n2)%nat -> Z.abs (dis i j - D i j) <= tol) ->
  match_spec n1 n2 D (rad_of rads) tol k same (match_loop dis cover isort_c (init_hmap tri n2) k rads n1).
Proof. intros. apply exec_meets_statement; assumption. Qed.

(* Hypothesis H_cover is satisfiable for EVERY input: the cover listing every occupied triangle once
   meets it; with it the matcher is brute force, and every cover meeting H_cover (every depth)
   returns the rows of that brute-force matcher.  No hypothesis is left in the first two parts. *)
Theorem C12_cover_hypothesis_satisfiable_and_brute_force : forall tri n2 dis rads n1,
  H_cover tri n2 dis (fun _ => all_ids tri n2) rads n1
  /\ (forall k, k <= 0 ->
       forall t, In t (match_loop dis (fun _ => all_ids tri n2) isort_c (init_hmap tri n2) k rads n1) <->
                 (t_i1 t < n1)%nat /\ (t_i2 t < n2)%nat /\ t_d t = dis (t_i1 t) (t_i2 t)
                 /\ dis (t_i1 t) (t_i2 t) <= rad_of rads (t_i1 t))
  /\ (forall cover sorter k, sort_contract sorter -> H_cover tri n2 dis cover rads n1 -> k <= 0 ->
       forall t, In t (match_loop dis cover sorter (init_hmap tri n2) k rads n1) <->
                 In t (match_loop dis (fun _ => all_ids tri n2) isort_c (init_hmap tri n2) k rads n1)).
Proof.
  intros. split; [apply all_ids_cover|]. split.
  - intros k Hk. apply brute_force_exact; [exact isort_c_contract|exact Hk].
  - intros cover sorter k Hs Hc Hk. apply any_cover_is_brute_force; assumption.
Qed.

(* History: Matcher.match as a step function.  Running any sequence of queries leaves the Matcher
   state unchanged, and the answer to a query after any history (and before any future) is the
   answer to that query made alone.  (HTM.match builds a fresh Matcher per call: C12_matcher_reusable.) *)
Theorem C12_history_irrelevant : forall dis cover sorter m (before : list query) q (after : list query),
  fst (run dis cover sorter m (before ++ q :: after)) = m
  /\ nth_error (snd (run dis cover sorter m (before ++ q :: after))) (length before) = Some (answer dis cover sorter m q)
  /\ run dis cover sorter m (before ++ q :: after) = (m, map (answer dis cover sorter m) (before ++ q :: after)).
Proof.
  intros. destruct (history_irrelevant dis cover sorter m before q after) as [A B].
  split; [exact A|]. split; [exact B|apply run_pure].
Qed.

(* Rejections, exactly: each entry point answers Ok on precisely the accepted sizes and ValueError on
   all others (no other error class, no third outcome). *)
Theorem C12_rejections_exact : forall dis cover sorter tri m n2 n2dec n1 n1dec rads k,
  ((n2 = n2dec -> matcher_init tri n2 n2dec = Ok (matcher_new tri n2))
   /\ (n2 <> n2dec -> matcher_init tri n2 n2dec = Err EValue))
  /\ ((sizes_ok n1 n1dec (length rads) ->
        matcher_match dis cover sorter m n1 n1dec rads k = Ok (match_loop dis cover sorter (m_hmap m) k rads n1))
      /\ (~ sizes_ok n1 n1dec (length rads) -> matcher_match dis cover sorter m n1 n1dec rads k = Err EValue))
  /\ ((sizes_ok n1 n1dec (length rads) /\ n2 = n2dec ->
        htm_match dis cover sorter tri n2 n2dec n1 n1dec rads k
        = Ok (match_loop dis cover sorter (init_hmap tri n2) k rads n1))
      /\ (~ (sizes_ok n1 n1dec (length rads) /\ n2 = n2dec) ->
        htm_match dis cover sorter tri n2 n2dec n1 n1dec rads k = Err EValue)).
Proof.
  intros. split; [apply matcher_init_cases|]. split; [apply matcher_match_cases|apply htm_match_cases].
Qed.

(* The checker evaluated on the real output DECIDES the statement (soundness was C12_checker_sound;
   completeness is new): it accepts exactly the outputs that satisfy match_spec, so it can neither
   miss a violation of the statement nor raise a false alarm. *)
Theorem C12_checker_decides : forall n1 n2 D rad tol k same out,
  check_match n1 n2 D rad tol k same out = true <-> match_spec n1 n2 D rad tol k same out.
Proof. exact check_match_decides. Qed.

(* The run-time monitor of H_cover is sound: what it accepts is the completeness half of H_cover
   for the true separations, with the radius reduced by the tolerance band. *)
Theorem C12_cover_monitor_sound : forall n1 n2 D rads tol tri cover,
  cover_contract_b n1 n2 D (rad_of rads) tol tri cover = true ->
  forall i, (i < n1)%nat -> cover_complete tri n2 D cover i (rad_of rads i - tol - 1).
Proof. exact monitor_gives_cover_complete. Qed.

(* A limit only cuts: with maxmatch = k > 0 every group is the first k rows of the group of the
   unlimited call -- for every cover (no H_cover needed) and every sorter meeting the contract, in
   particular the model's own.  Together with C12_exact this is "the k closest pairs of each group". *)
Theorem C12_limit_is_prefix_of_unlimited : forall tri n2 dis cover sorter rads n1 k i,
  sort_contract sorter -> 0 < k ->
  group i (match_loop dis cover sorter (init_hmap tri n2) k rads n1)
  = firstn (Z.to_nat k) (group i (match_loop dis cover sorter (init_hmap tri n2) 0 rads n1)).
Proof. exact limit_is_prefix. Qed.

Theorem C12_limit_is_prefix_of_unlimited_exec : forall tri n2 dis cover rads n1 k i, 0 < k ->
  group i (match_loop dis cover isort_c (init_hmap tri n2) k rads n1)
  = firstn (Z.to_nat k) (group i (match_loop dis cover isort_c (init_hmap tri n2) 0 rads n1)).
Proof. intros. apply limit_is_prefix; [exact isort_c_contract|assumption]. Qed.

(* The pair file against the statement.  If the rows of the in-memory call satisfy the statement
   with tolerance tol and print-then-parse ("%.16g", strtod) moves a distance by at most delta,
   maps 0 to 0 and is monotone, the rows read back satisfy the statement with tolerance
   tol + delta (same pairs, same order: C12_file_roundtrip). *)
Theorem C12_file_rows_meet_statement : forall rt delta n1 n2 D rad tol k same rows,
  (forall d, Z.abs (rt d - d) <= delta) -> rt 0 = 0 -> (forall a b, a <= b -> rt a <= rt b) -> 0 <= delta ->
  match_spec n1 n2 D rad tol k same rows ->
  match_spec n1 n2 D rad (tol + delta) k same (read_pairs (fst (write_pairs rt rows))).
Proof. intros. apply file_meets_statement; assumption. Qed.

(* the hypotheses on print-then-parse are satisfiable by a function that is not the identity *)
Example C12_file_nonvacuous :
  let rt := fun d => 2 * (d / 2) in
  (forall d, Z.abs (rt d - d) <= 1) /\ rt 0 = 0 /\ (forall a b, a <= b -> rt a <= rt b) /\ rt 5 = 4.
Proof. cbv zeta. repeat split; intros; lia. Qed.

(* Non-vacuity: the instance of Properties.C12_nonvacuous. *)
Definition dx_tri (j : nat) : Z := nth j [10; 11; 10; 12] 0.
Definition dx_dis (i j : nat) : Z := nth j (nth i [[5; 1; 5; 9]; [7; 7; 0; 2]] []) 0.
Example C12_deep_nonvacuous :
  all_ids dx_tri 4 = [11; 10; 12]
  /\ match_loop dx_dis (fun _ => all_ids dx_tri 4) isort_c (init_hmap dx_tri 4) 0 [6] 2
     = [row 0 1 1; row 0 0 5; row 0 2 5; row 1 2 0; row 1 3 2]
  /\ snd (run dx_dis (fun _ => all_ids dx_tri 4) isort_c (matcher_new dx_tri 4)
            [(2%nat, 2%nat, [6], 1); (2%nat, 3%nat, [6], 1); (2%nat, 2%nat, [6], 1)])
     = [Ok [row 0 1 1; row 1 2 0]; Err EValue; Ok [row 0 1 1; row 1 2 0]]
  /\ check_match 2 4 dx_dis (rad_of [6]) 0 0 (fun _ _ => false)
       [row 0 1 1; row 0 0 5; row 0 2 5; row 1 2 0; row 1 3 2] = true
  /\ cover_contract_b 2 4 dx_dis (rad_of [6]) 0 dx_tri (fun _ => all_ids dx_tri 4) = true
  /\ sizes_ok 2 2 1 /\ ~ sizes_ok 2 3 1.
Proof.
  split; [vm_compute; reflexivity|]. split; [vm_compute; reflexivity|]. split; [vm_compute; reflexivity|].
  split; [vm_compute; reflexivity|]. split; [vm_compute; reflexivity|].
  split; [split; [reflexivity|left; reflexivity]|]. intros [H _]. discriminate.
Qed.

Example C12_prefix_nonvacuous :
  group 0 (match_loop dx_dis (fun _ => all_ids dx_tri 4) isort_c (init_hmap dx_tri 4) 2 [6] 2) = [(1%nat, 1); (0%nat, 5)]
  /\ group 0 (match_loop dx_dis (fun _ => all_ids dx_tri 4) isort_c (init_hmap dx_tri 4) 0 [6] 2) = [(1%nat, 1); (0%nat, 5); (2%nat, 5)].
Proof. split; vm_compute; reflexivity. Qed.

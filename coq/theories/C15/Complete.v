(* C15 — exactness of the frame analysis with respect to the skeleton semantics:
   if the analysis reports a write through a name that may alias a parameter, then the skeleton
   really has an execution (from ANY start state in which the parameters are bound) that changes
   a parameter's buffer.  Together with frame_ok_sound: up to fuel exhaustion (reported apart)
   frame_ok DECIDES "no execution of the skeleton changes a parameter's buffer".  A rejected
   obligation is therefore never an artefact of the abstract domain (joins, loop fixpoint);
   imprecision can only come from the extractor (dropped conditions, may-alias
   over-approximation), which is what the dynamic search then examines. *)
From Coq Require Import PArith List Bool Lia PeanoNat.
From EsVerif.C15 Require Import Model Spec Proofs.
Import ListNotations.

(* ---------------------------------------------------------------- entries of an abstract map *)
(* [ent a x p]: some entry for x (also a shadowed one) contains p.  Everything the analysis can
   ever look up is an entry. *)
Definition ent (a : amap) (x p : var) : Prop := exists s, In (x, s) a /\ In p s.

Lemma lookup_ent a x p : In p (lookup a x) -> ent a x p.
Proof.
  induction a as [|[k s] t IH]; simpl; intro H.
  - destruct H.
  - destruct (Pos.eqb k x) eqn:E.
    + apply Pos.eqb_eq in E; subst k. exists s. split; [left; reflexivity | exact H].
    + destruct (IH H) as [s' [H1 H2]]. exists s'. split; [right; exact H1 | exact H2].
Qed.

Lemma ent_remove_key y a x p : ent (remove_key y a) x p -> ent a x p /\ x <> y.
Proof.
  unfold ent, remove_key. intros [s [H1 H2]]. apply filter_In in H1. destruct H1 as [H1 H3]. simpl in H3.
  split; [exists s; split; assumption|].
  intro E; subst y. rewrite Pos.eqb_refl in H3. discriminate.
Qed.

Lemma ent_update a y s x p :
  ent (update a y s) x p -> (x = y /\ In p s) \/ (x <> y /\ ent a x p).
Proof.
  unfold update. destruct s as [|q t].
  - intro H. apply ent_remove_key in H. right. tauto.
  - intros [s' [[H1|H1] H2]].
    + inversion H1; subst. left. split; [reflexivity | exact H2].
    + right. assert (H : ent (remove_key y a) x p) by (exists s'; split; assumption).
      apply ent_remove_key in H. tauto.
Qed.

Lemma ent_cons_r k s t x p : ent t x p -> ent ((k, s) :: t) x p.
Proof. intros [s' [H1 H2]]. exists s'. split; [right; exact H1 | exact H2]. Qed.

Lemma ent_join a1 a2 x p : ent (join a1 a2) x p -> ent a1 x p \/ ent a2 x p.
Proof.
  induction a1 as [|[k s] t IH]; simpl; intro H.
  - right; exact H.
  - apply ent_update in H. destruct H as [[E H]|[_ H]].
    + subst k. apply union_In in H. destruct H as [H|H].
      * left. exists s. split; [left; reflexivity | exact H].
      * apply lookup_ent in H. destruct (IH H) as [H1|H1]; [left; apply ent_cons_r; exact H1 | right; exact H1].
    + destruct (IH H) as [H1|H1]; [left; apply ent_cons_r; exact H1 | right; exact H1].
Qed.

Lemma ent_alias_of a ys p : In p (alias_of a ys) -> exists y, In y ys /\ ent a y p.
Proof.
  induction ys as [|z t IH]; simpl; intro H.
  - destruct H.
  - apply union_In in H. destruct H as [H|H].
    + exists z. split; [left; reflexivity | apply lookup_ent; exact H].
    + destruct (IH H) as [y [H1 H2]]. exists y. split; [right; exact H1 | exact H2].
Qed.

Lemma ent_init ps x p : ent (init_amap ps) x p -> p = x /\ In x ps.
Proof.
  unfold ent, init_amap. intros [s [H1 H2]]. apply in_map_iff in H1. destruct H1 as [q [E Hq]].
  inversion E; subst. destruct H2 as [H2|[]]. subst. split; [reflexivity | exact Hq].
Qed.

(* ---------------------------------------------------------------- small facts about executions *)
Lemma fresh_exists (l : list nat) : exists b, ~ In b l.
Proof.
  exists (S (fold_right Nat.max 0 l)). intro H.
  assert (G : forall x, In x l -> x <= fold_right Nat.max 0 l).
  { clear H. induction l as [|y t IH]; simpl; intros x Hx; [destruct Hx|].
    destruct Hx as [->|Hx]; [apply Nat.le_max_l | eapply Nat.le_trans; [apply IH, Hx | apply Nat.le_max_r]]. }
  apply G in H. lia.
Qed.

Lemma idle_list l st : exists h, exec_l l st st h.
Proof.
  destruct l as [|s r].
  - exists false. apply XNil.
  - exists true. apply XConsHalt. apply XHalt.
Qed.

Lemma loop_snoc b st st1 :
  exec_s (SLoop b) st st1 false -> forall st2 h, exec_l b st1 st2 h -> exec_s (SLoop b) st st2 h.
Proof.
  intro H. remember (SLoop b) as s eqn:Es. remember false as f eqn:Ef. revert Es Ef.
  induction H; intros Es Ef; try discriminate.
  - inversion Es; subst b0. intros st2 h Hb. destruct h.
    + apply XLoopHalt. exact Hb.
    + eapply XLoopStep; [exact Hb | apply XLoopDone].
  - inversion Es; subst b0. intros st3 h' Hb. eapply XLoopStep; [exact H | apply IHexec_s; auto].
Qed.

(* ---------------------------------------------------------------- the witness invariant *)
Section Completeness.
  Variable ps : list var.
  Variable pb : var -> buf.        (* the buffer of each parameter *)
  Variable h0 : buf -> nat.        (* the heap when the call started *)
  Variable fuel : nat.

  (* every abstract fact "x may alias parameter p" is realised by some reachable state *)
  Definition Witness (a : amap) (S : state -> Prop) : Prop :=
    forall x p, ent a x p -> In p ps /\ exists st, S st /\ env st x = Some (pb p).

  (* from some reachable state there is a run after which a parameter's buffer differs from h0 *)
  Definition Bad (S : state -> Prop) (run : state -> state -> bool -> Prop) : Prop :=
    exists st st' h p, S st /\ run st st' h /\ In p ps /\ heap st' (pb p) <> h0 (pb p).

  Definition post_s (s : stmt) (S : state -> Prop) : state -> Prop :=
    fun st' => exists st, S st /\ exec_s s st st' false.
  Definition post_l (l : list stmt) (S : state -> Prop) : state -> Prop :=
    fun st' => exists st, S st /\ exec_l l st st' false.

  Lemma Witness_mono a (S S' : state -> Prop) : (forall st, S st -> S' st) -> Witness a S -> Witness a S'.
  Proof.
    intros HS W x p He. destruct (W x p He) as [Hp [st [H1 H2]]]. split; [exact Hp|]. exists st. split; [apply HS, H1 | exact H2].
  Qed.

  Definition Pc (s : stmt) : Prop :=
    forall a S, Witness a S ->
    match an_stmt fuel s a with
    | AOk a' => Witness a' (post_s s S)
    | ABad _ _ => Bad S (exec_s s)
    | AFuel => True
    end.

  Definition Qc (l : list stmt) : Prop :=
    forall a S, Witness a S ->
    match an_list fuel l a with
    | AOk a' => Witness a' (post_l l S)
    | ABad _ _ => Bad S (exec_l l)
    | AFuel => True
    end.

  Lemma complete_bind x r : Pc (SBind x r).
  Proof.
    intros a S W. rewrite an_bind. intros z p He. apply ent_update in He. destruct He as [[Ez Hp]|[Nz He]].
    - subst z. destruct r as [|ys]; [destruct Hp|].
      apply ent_alias_of in Hp. destruct Hp as [y [Hy He]].
      destruct (W y p He) as [Hps [st [HS Hy']]]. split; [exact Hps|].
      exists (mkState (upd_env (env st) x (pb p)) (heap st) (alloc st)). split.
      + exists st. split; [exact HS|]. eapply XBindAlias; eauto.
      + cbn [env]. unfold upd_env. rewrite Pos.eqb_refl. reflexivity.
    - destruct (W z p He) as [Hps [st [HS Hz]]]. split; [exact Hps|].
      destruct (fresh_exists (alloc st)) as [b Hb].
      exists (mkState (upd_env (env st) x b) (upd_heap (heap st) b 0) (b :: alloc st)). split.
      + exists st. split; [exact HS|]. apply XBindFresh. exact Hb.
      + cbn [env]. unfold upd_env. destruct (Pos.eqb z x) eqn:E; [|exact Hz].
        apply Pos.eqb_eq in E. contradiction.
  Qed.

  Lemma complete_write x : Pc (SWrite x).
  Proof.
    intros a S W. simpl. destruct (lookup a x) as [|p t] eqn:L.
    - intros z q He. destruct (W z q He) as [Hps [st [HS Hz]]]. split; [exact Hps|].
      destruct (env st x) as [b|] eqn:Ex.
      + exists (mkState (env st) (upd_heap (heap st) b 0) (alloc st)). split.
        * exists st. split; [exact HS|]. apply XWrite. exact Ex.
        * exact Hz.
      + exists st. split; [|exact Hz]. exists st. split; [exact HS|]. apply XWriteUnbound. exact Ex.
    - assert (He : ent a x p) by (apply lookup_ent; rewrite L; left; reflexivity).
      destruct (W x p He) as [Hps [st [HS Hx]]].
      exists st, (mkState (env st) (upd_heap (heap st) (pb p) (Datatypes.S (h0 (pb p)))) (alloc st)), false, p.
      split; [exact HS|]. split; [apply XWrite; exact Hx|]. split; [exact Hps|].
      cbn [heap]. unfold upd_heap. rewrite Nat.eqb_refl. lia.
  Qed.

  Lemma complete_if s1 s2 : Qc s1 -> Qc s2 -> Pc (SIf s1 s2).
  Proof.
    intros Q1 Q2 a S W. rewrite an_stmt_if. specialize (Q1 a S W). specialize (Q2 a S W).
    destruct (an_list fuel s1 a) as [a1|y1 t1|].
    - destruct (an_list fuel s2 a) as [a2|y2 t2|].
      + intros z p He. apply ent_join in He. destruct He as [He|He].
        * destruct (Q1 z p He) as [Hps [st' [[st [HS Hex]] Hz]]]. split; [exact Hps|].
          exists st'. split; [|exact Hz]. exists st. split; [exact HS | apply XIfL; exact Hex].
        * destruct (Q2 z p He) as [Hps [st' [[st [HS Hex]] Hz]]]. split; [exact Hps|].
          exists st'. split; [|exact Hz]. exists st. split; [exact HS | apply XIfR; exact Hex].
      + destruct Q2 as [st [st' [h [p [HS [Hex [Hp Hh]]]]]]]. exists st, st', h, p.
        split; [exact HS|]. split; [apply XIfR; exact Hex|]. split; assumption.
      + exact I.
    - destruct Q1 as [st [st' [h [p [HS [Hex [Hp Hh]]]]]]]. exists st, st', h, p.
      split; [exact HS|]. split; [apply XIfL; exact Hex|]. split; assumption.
    - exact I.
  Qed.

  Lemma complete_loop b : Qc b -> Pc (SLoop b).
  Proof.
    intros Qb a S W. rewrite an_stmt_loop.
    set (T := post_s (SLoop b) S).
    assert (ST : forall st, S st -> T st).
    { intros st HS. exists st. split; [exact HS | apply XLoopDone]. }
    assert (TT : forall st, post_l b T st -> T st).
    { intros st2 [st1 [[st [HS H1]] H2]]. exists st. split; [exact HS|]. eapply loop_snoc; eauto. }
    assert (WT : Witness a T) by exact (Witness_mono a S T ST W).
    clear W. revert a WT. generalize fuel at 2. intro n.
    induction n as [|k IH]; intros a WT; simpl; [exact I|].
    specialize (Qb a T WT).
    destruct (an_list fuel b a) as [a1|y1 t1|].
    - destruct (amap_le a1 a).
      + exact WT.
      + apply IH. intros z p He. apply ent_join in He. destruct He as [He|He]; [apply WT, He|].
        eapply Witness_mono; [exact TT | exact Qb | exact He].
    - destruct Qb as [st1 [st' [h [p [[st [HS H1]] [Hex [Hp Hh]]]]]]].
      exists st, st', h, p. split; [exact HS|]. split; [eapply loop_snoc; eauto|]. split; assumption.
    - exact I.
  Qed.

  Lemma complete_nil : Qc [].
  Proof.
    intros a S W. simpl. intros z p He. destruct (W z p He) as [Hps [st [HS Hz]]]. split; [exact Hps|].
    exists st. split; [|exact Hz]. exists st. split; [exact HS | apply XNil].
  Qed.

  Lemma complete_cons s l : Pc s -> Qc l -> Qc (s :: l).
  Proof.
    intros Ps Ql a S W. rewrite an_list_cons. specialize (Ps a S W).
    destruct (an_stmt fuel s a) as [a1|y1 t1|].
    - specialize (Ql a1 (post_s s S) Ps).
      destruct (an_list fuel l a1) as [a2|y2 t2|].
      + eapply Witness_mono; [|exact Ql]. intros st2 [st1 [[st [HS H1]] H2]].
        exists st. split; [exact HS | eapply XCons; eauto].
      + destruct Ql as [st1 [st' [h [p [[st [HS H1]] [Hex [Hp Hh]]]]]]].
        exists st, st', h, p. split; [exact HS|]. split; [eapply XCons; eauto|]. split; assumption.
      + exact I.
    - destruct Ps as [st [st' [h [p [HS [Hex [Hp Hh]]]]]]].
      destruct h.
      + exists st, st', true, p. split; [exact HS|]. split; [apply XConsHalt; exact Hex|]. split; assumption.
      + destruct (idle_list l st') as [h' Hid].
        exists st, st', h', p. split; [exact HS|]. split; [eapply XCons; eauto|]. split; assumption.
    - exact I.
  Qed.

  Lemma complete_list : forall l, Qc l.
  Proof.
    apply (list_ind2 Pc Qc); [exact complete_bind | exact complete_write | exact complete_if
                             | exact complete_loop | exact complete_nil | exact complete_cons].
  Qed.
End Completeness.

(* ---------------------------------------------------------------- the theorem *)
Lemma frame_ok_complete sk ps x s :
  analyze_r default_fuel sk (init_amap ps) = ABad x s ->
  forall st, params_bound ps st ->
  exists st', exec sk st st' /\ ~ params_unchanged ps st st'.
Proof.
  intros Han st HB.
  assert (W : Witness ps (pb_of st) (init_amap ps) (fun s0 => s0 = st)).
  { intros z p He. apply ent_init in He. destruct He as [-> Hz]. split; [exact Hz|].
    exists st. split; [reflexivity|]. destruct (HB z Hz) as [b [Eb _]]. unfold pb_of. rewrite Eb. reflexivity. }
  pose proof (complete_list ps (pb_of st) (heap st) default_fuel sk (init_amap ps) (fun s0 => s0 = st) W) as H.
  unfold analyze_r in Han. rewrite Han in H.
  destruct H as [st1 [st' [h [p [E [Hex [Hp Hh]]]]]]]. subst st1.
  exists st'. split; [exists h; exact Hex|].
  intro HU. destruct (HB p Hp) as [b [Eb _]].
  specialize (HU p b Hp Eb). apply Hh. unfold pb_of. rewrite Eb. exact HU.
Qed.

(* decision form: when the fuel suffices, frame_ok is false EXACTLY when some execution from the
   given start state changes a parameter's buffer *)
Lemma frame_ok_decides sk ps :
  analyze_r default_fuel sk (init_amap ps) <> AFuel ->
  forall st, params_bound ps st -> others_apart ps st ->
  (frame_ok sk ps = true <-> forall st', exec sk st st' -> params_unchanged ps st st').
Proof.
  intros NF st HB HA. split.
  - intros Hok st' Hex. eapply frame_ok_sound_general; eauto.
  - intro Hall. destruct (frame_ok sk ps) eqn:E; [reflexivity|].
    apply frame_ok_false_cases in E. destruct E as [[x [s [E _]]]|E]; [|contradiction].
    destruct (frame_ok_complete sk ps x s E st HB) as [st' [Hex Hn]].
    exfalso. apply Hn, Hall, Hex.
Qed.

(* C15 — call sequences.  A `<driver>#seq` obligation is frame_ok of the concatenation of two call skeletons over the union of
   their parameter sets.  What it proves: the SECOND call, started in whatever state the first one left behind (module-level
   containers, object fields, references the first call kept), changes neither its own arguments nor those of the FIRST call,
   and never even attempts a write into them.  And the answer of the checker for a single call does not depend on history:
   it holds from every state in which the call's own arguments are not referred to by other names. *)
From Coq Require Import PArith List Bool Lia PeanoNat.
From EsVerif.C15 Require Import Model Spec Proofs NoWrite.
Import ListNotations.

Lemma an_list_app fuel l1 : forall l2 a,
  an_list fuel (l1 ++ l2) a = match an_list fuel l1 a with AOk a1 => an_list fuel l2 a1 | e => e end.
Proof.
  induction l1 as [|s r IH]; intros l2 a.
  - reflexivity.
  - simpl app. rewrite !an_list_cons. destruct (an_stmt fuel s a) as [a1|x t|]; [apply IH | reflexivity | reflexivity].
Qed.

(* first a completed run of l1, then a run of l2: a run of l1 ++ l2 *)
Lemma exec_l_app l1 l2 st st1 st2 h :
  exec_l l1 st st1 false -> exec_l l2 st1 st2 h -> exec_l (l1 ++ l2) st st2 h.
Proof.
  intro H1. remember false as f eqn:Ef. revert Ef l2 st2 h.
  induction H1; intros Ef l2 st3 h' H2; try discriminate.
  - exact H2.
  - simpl. eapply XCons; [eassumption | apply IHexec_l; [exact Ef | exact H2]].
Qed.

(* a run of l1 cut short is a run of l1 ++ l2 cut short *)
Lemma exec_l_app_halt l1 l2 st st1 : exec_l l1 st st1 true -> exec_l (l1 ++ l2) st st1 true.
Proof.
  intro H1. remember true as t eqn:Et. revert Et.
  induction H1; intros Et; try discriminate.
  - simpl. eapply XCons; [eassumption | apply IHexec_l; exact Et].
  - simpl. apply XConsHalt. assumption.
Qed.

Lemma execw_l_app l1 l2 st st1 st2 h w1 w2 :
  execw_l l1 st st1 false w1 -> execw_l l2 st1 st2 h w2 -> execw_l (l1 ++ l2) st st2 h (w1 ++ w2).
Proof.
  intro H1. remember false as f eqn:Ef. revert Ef l2 st2 h w2.
  induction H1; intros Ef l2 st3 h' w3 H2; try discriminate.
  - exact H2.
  - simpl. rewrite <- app_assoc. eapply WCons; [eassumption | apply IHexecw_l; [exact Ef | exact H2]].
Qed.

(* the obligation of a sequence contains the obligation of its first call *)
Lemma frame_ok_prefix sk1 sk2 ps : frame_ok (sk1 ++ sk2) ps = true -> frame_ok sk1 ps = true.
Proof.
  unfold frame_ok, analyze, analyze_r. rewrite an_list_app.
  destruct (an_list default_fuel sk1 (init_amap ps)); [reflexivity | discriminate | discriminate].
Qed.

Lemma params_bound_app ps1 ps2 st : params_bound (ps1 ++ ps2) st -> params_bound ps1 st /\ params_bound ps2 st.
Proof. intro H. split; intros p Hp; apply H; apply in_or_app; [left | right]; exact Hp. Qed.

(* THE SEQUENCE THEOREM *)
Lemma sequence_sound sk1 sk2 ps1 ps2 :
  frame_ok (sk1 ++ sk2) (ps1 ++ ps2) = true ->
  forall st st1 st2, params_bound (ps1 ++ ps2) st -> others_apart (ps1 ++ ps2) st ->
  exec_l sk1 st st1 false ->            (* the first call ran to completion, leaving ANY state st1 *)
  exec sk2 st1 st2 ->                   (* the second call, possibly cut short *)
  params_unchanged ps1 st st1 /\        (* after the first call *)
  params_unchanged (ps1 ++ ps2) st st2. (* after the second: the arguments of BOTH calls *)
Proof.
  intros Hok st st1 st2 HB HA H1 [h H2]. split.
  - intros p b Hp Hb.
    assert (Hex : exec (sk1 ++ sk2) st st1).
    { destruct sk2 as [|s r].
      - rewrite app_nil_r. exists false. exact H1.
      - exists true. eapply exec_l_app; [exact H1|]. apply XConsHalt. apply XHalt. }
    apply (frame_ok_sound_general _ _ Hok st st1 HB HA Hex p b); [apply in_or_app; left; exact Hp | exact Hb].
  - apply (frame_ok_sound_general _ _ Hok st st2 HB HA). exists h. eapply exec_l_app; eassumption.
Qed.

Lemma sequence_no_write_attempt sk1 sk2 ps1 ps2 :
  frame_ok (sk1 ++ sk2) (ps1 ++ ps2) = true ->
  forall st st1 st2 w1 w2, params_bound (ps1 ++ ps2) st -> others_apart (ps1 ++ ps2) st ->
  execw_l sk1 st st1 false w1 -> execw sk2 st1 st2 w2 ->
  forall p b, In p (ps1 ++ ps2) -> env st p = Some b -> ~ In b w1 /\ ~ In b w2.
Proof.
  intros Hok st st1 st2 w1 w2 HB HA H1 [h H2] p b Hp Hb.
  assert (N : ~ In b (w1 ++ w2)).
  { eapply frame_ok_no_write_attempt; try eassumption. exists h. eapply execw_l_app; eassumption. }
  split; intro Hi; apply N; apply in_or_app; [left | right]; exact Hi.
Qed.

(* history is irrelevant for the verdict on ONE call: whatever ran before (ANY skeleton sk0, accepted or not), if in the state
   it left the call's own arguments are bound and no other name refers to their buffers, the accepted call leaves them alone *)
Lemma history_irrelevant sk0 sk ps :
  frame_ok sk ps = true ->
  forall st0 st st', exec sk0 st0 st ->
  params_bound ps st -> others_apart ps st ->
  exec sk st st' -> params_unchanged ps st st'.
Proof. intros Hok st0 st st' _ HB HA Hex. eapply frame_ok_sound_general; eauto. Qed.

(* C15 — a flow-insensitive may-alias certificate and its soundness.
   E assigns to every name a set of parameters.  [fi_ok sk ps E]: every parameter is in its own set, and for every statement
   `x := MayAlias ys` ANYWHERE in the skeleton, E y is contained in E x for every y in ys.  Then in EVERY state reached by ANY
   (also a cut-short) execution, a name that refers to the buffer of a parameter has a parameter with that buffer in E x.
   This is the closure against which the dynamic alias trace (sys.settrace on the real call) is compared. *)
From Coq Require Import PArith List Bool Lia PeanoNat.
From EsVerif.C15 Require Import Model Spec Proofs NoWrite.
Import ListNotations.

Fixpoint edges_s (s : stmt) : list (var * list var) :=
  let edges_l := fix edges_l (l : list stmt) : list (var * list var) :=
    match l with [] => [] | s :: r => edges_s s ++ edges_l r end in
  match s with
  | SBind x (MayAlias ys) => [(x, ys)]
  | SBind _ Fresh => []
  | SWrite _ => []
  | SIf a b => edges_l a ++ edges_l b
  | SLoop b => edges_l b
  end.

Fixpoint edges (l : list stmt) : list (var * list var) :=
  match l with [] => [] | s :: r => edges_s s ++ edges r end.

Definition edge_ok (E : amap) (e : var * list var) : bool :=
  forallb (fun y => subset (lookup E y) (lookup E (fst e))) (snd e).

Definition fi_ok (sk : skeleton) (ps : list var) (E : amap) : bool :=
  forallb (fun p => mem p (lookup E p)) ps && forallb (edge_ok E) (edges sk).

Lemma edges_s_if a b : edges_s (SIf a b) = edges a ++ edges b.
Proof. reflexivity. Qed.
Lemma edges_s_loop b : edges_s (SLoop b) = edges b.
Proof. reflexivity. Qed.

Section FI.
  Variable ps : list var.
  Variable pb : var -> buf.
  Variable E : amap.
  Hypothesis Hself : forall p, In p ps -> In p (lookup E p).

  Definition isPb (b : buf) : Prop := exists p, In p ps /\ pb p = b.

  Definition J (st : state) : Prop :=
    (forall b, isPb b -> In b (alloc st)) /\
    (forall x b, env st x = Some b -> isPb b -> exists q, In q ps /\ pb q = b /\ In q (lookup E x)).

  Definition closed (l : list (var * list var)) : Prop := forall e, In e l -> edge_ok E e = true.

  Lemma closed_app l1 l2 : closed (l1 ++ l2) -> closed l1 /\ closed l2.
  Proof. intro H. split; intros e He; apply H; apply in_or_app; [left | right]; exact He. Qed.

  Lemma J_step : forall l st st' h, exec_l l st st' h -> closed (edges l) -> J st -> J st'.
  Proof.
    intros l st st' h H.
    induction H using exec_l_mut with
      (P := fun s st st' h (_ : exec_s s st st' h) => closed (edges_s s) -> J st -> J st');
      intros HC HJ; try exact HJ.
    - (* fresh *) destruct HJ as [J1 J2]. split; cbn [env alloc].
      + intros c Hc. right. apply J1, Hc.
      + intros y c Hy Hc. unfold upd_env in Hy. destruct (Pos.eqb y x) eqn:Ey.
        * inversion Hy; subst c. exfalso. apply n, J1, Hc.
        * apply J2; assumption.
    - (* alias *) destruct HJ as [J1 J2]. split; cbn [env alloc]; [exact J1|].
      intros z c Hz Hc. unfold upd_env in Hz. destruct (Pos.eqb z x) eqn:Ez.
      + inversion Hz; subst c. apply Pos.eqb_eq in Ez. subst z.
        match goal with Hy : env st y = Some b, Hi : In y ys |- _ =>
          destruct (J2 y b Hy Hc) as [q [Hq [Hqb Hin]]];
          assert (He : edge_ok E (x, ys) = true) by (apply HC; left; reflexivity);
          unfold edge_ok in He; rewrite forallb_forall in He; specialize (He y Hi); cbn [fst snd] in He end.
        exists q. split; [exact Hq|]. split; [exact Hqb|].
        exact (subset_spec _ _ He q Hin).
      + apply J2; assumption.
    - (* ifL *) rewrite edges_s_if in HC. apply closed_app in HC. apply IHexec_l; tauto.
    - (* ifR *) rewrite edges_s_if in HC. apply closed_app in HC. apply IHexec_l; tauto.
    - (* loop step *) rewrite edges_s_loop in HC. apply IHexec_l0; [rewrite edges_s_loop; exact HC|]. apply IHexec_l; assumption.
    - (* loop halt *) rewrite edges_s_loop in HC. apply IHexec_l; assumption.
    - (* cons *) simpl in HC. apply closed_app in HC. apply IHexec_l0; [tauto|]. apply IHexec_l; tauto.
    - (* cons halt *) simpl in HC. apply closed_app in HC. apply IHexec_l; tauto.
  Qed.
End FI.

Lemma fi_ok_sound sk ps E :
  fi_ok sk ps E = true ->
  forall st st', params_bound ps st -> others_apart ps st ->
  exec sk st st' ->
  forall x b, env st' x = Some b ->
  (exists p, In p ps /\ env st p = Some b) ->
  exists q, In q ps /\ env st q = Some b /\ In q (lookup E x).
Proof.
  unfold fi_ok. intros Hok st st' HB HA [h Hex] x b Hx [p [Hp Hpb]].
  apply andb_true_iff in Hok. destruct Hok as [H1 H2].
  rewrite forallb_forall in H1, H2.
  assert (Hself : forall p, In p ps -> In p (lookup E p)) by (intros q Hq; apply mem_In, H1, Hq).
  assert (HC : closed E (edges sk)) by (intros e He; apply H2, He).
  assert (HJ : J ps (pb_of st) E st).
  { split.
    - intros c [q [Hq Hc]]. destruct (HB q Hq) as [bq [Eq Hin]].
      unfold pb_of in Hc. rewrite Eq in Hc. subst c. exact Hin.
    - intros y c Hy [q [Hq Hc]].
      destruct (in_dec Pos.eq_dec y ps) as [Hi|Hn].
      + exists y. split; [exact Hi|]. split; [unfold pb_of; rewrite Hy; reflexivity | apply Hself, Hi].
      + exfalso. destruct (HB q Hq) as [bq [Eq _]].
        unfold pb_of in Hc. rewrite Eq in Hc. subst c. exact (HA y q bq Hn Hq Eq Hy). }
  destruct (J_step ps (pb_of st) E sk st st' h Hex HC HJ) as [_ J2].
  assert (HP : isPb ps (pb_of st) b) by (exists p; split; [exact Hp | unfold pb_of; rewrite Hpb; reflexivity]).
  destruct (J2 x b Hx HP) as [q [Hq [Hqb Hin]]].
  exists q. split; [exact Hq|]. split; [|exact Hin].
  destruct (HB q Hq) as [bq [Eq _]]. unfold pb_of in Hqb. rewrite Eq in Hqb. subst bq. exact Eq.
Qed.

(* non-vacuity: a certificate for  v := a.view() ; out := v or fresh ; g := out *)
Example fi_ok_example :
  fi_ok [SBind 2 (MayAlias [1]); SIf [SBind 3 (MayAlias [2])] [SBind 3 Fresh]; SBind 4 (MayAlias [3])]%positive [1%positive]
        [(1, [1]); (2, [1]); (3, [1]); (4, [1])]%positive = true
  /\ fi_ok [SBind 2 (MayAlias [1])]%positive [1%positive] [(1, [1])]%positive = false.
Proof. split; reflexivity. Qed.

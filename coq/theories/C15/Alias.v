(* C15 — the alias sets computed by the frame analysis are sound: they bound which parameters a name (e.g. the
   return slot of a driver) can share its buffer with.  Used by the dynamic correspondence: the real return value
   may share memory only with arguments in the predicted set. *)
From Coq Require Import PArith List Bool Lia.
From EsVerif.C15 Require Import Model Spec Proofs.
Import ListNotations.

(* soundness of the alias sets computed by the analysis: after a COMPLETED (not halted) execution, a name that
   refers to the buffer of a parameter has a parameter with that buffer in its abstract alias set *)
Lemma alias_sound sk ps a' :
  analyze sk (init_amap ps) = Some a' ->
  forall st st', params_bound ps st -> others_apart ps st ->
  exec_l sk st st' false ->
  forall x b, env st' x = Some b ->
  (exists p, In p ps /\ env st p = Some b) ->
  exists q, In q ps /\ env st q = Some b /\ In q (lookup a' x).
Proof.
  intros Han st st' HB HA Hex x b Hx [p [Hp Hpb]].
  unfold analyze, analyze_r in Han.
  destruct (an_list default_fuel sk (init_amap ps)) as [a1| |] eqn:E; try discriminate.
  inversion Han; subst a1. clear Han.
  assert (HI : Inv ps (pb_of st) (heap st) (init_amap ps) st).
  { split; [|split].
    - intros c [q [Hq Hc]]. destruct (HB q Hq) as [bq [Eq Hin]].
      unfold pb_of in Hc. rewrite Eq in Hc. subst c. exact Hin.
    - intros y c Hy [q [Hq Hc]].
      destruct (in_dec Pos.eq_dec y ps) as [Hin|Hnin].
      + exists y. split; [exact Hin|]. split.
        * unfold pb_of. rewrite Hy. reflexivity.
        * rewrite lookup_init by exact Hin. left; reflexivity.
      + exfalso. destruct (HB q Hq) as [bq [Eq _]].
        unfold pb_of in Hc. rewrite Eq in Hc. subst c.
        exact (HA y q bq Hnin Hq Eq Hy).
    - intros c _. reflexivity. }
  destruct (sound_list ps (pb_of st) (heap st) default_fuel sk (init_amap ps) a' E st st' false HI Hex) as [_ I].
  destruct (I eq_refl) as [_ [I2 _]].
  assert (HP : isP ps (pb_of st) b).
  { exists p. split; [exact Hp|]. unfold pb_of. rewrite Hpb. reflexivity. }
  destruct (I2 x b Hx HP) as [q [Hq [Hqb Hin]]].
  exists q. split; [exact Hq|]. split; [|exact Hin].
  destruct (HB q Hq) as [bq [Eq _]]. unfold pb_of in Hqb. rewrite Eq in Hqb. subst bq. exact Eq.
Qed.

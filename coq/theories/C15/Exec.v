(* C15 — glue evaluated by generated case files. *)
From EsVerif.Common Require Import Base Bytes.
From EsVerif.C15 Require Import Model Spec.
From Coq.Strings Require Import String.

(* static obligation, with the reason of a failure: [0] ok; 1 :: x :: params  a write through x, which
   may alias these parameters; [2] loop analysis did not stabilise within the fuel *)
Definition diag (sk : skeleton) (ps : list var) : list Z :=
  match analyze_r default_fuel sk (init_amap ps) with
  | AOk _ => [0]
  | ABad x s => 1 :: Zpos x :: map Zpos s
  | AFuel => [2]
  end.

Definition mk_snap (hexdata : string) (meta : string) : snap := (unhex hexdata, bytes_of_string meta).

(* dynamic case: static_ok = the skeleton obligation of this driver was discharged (the model then
   predicts "every argument unchanged"; otherwise it predicts nothing); args = (before, after)
   snapshots of every non-exempt array argument of one real call. *)
Definition v_dynamic (static_ok : bool) (args : list (snap * snap)) : Z :=
  let same := unchanged_check args in
  verdict (if static_ok then same else true) same.

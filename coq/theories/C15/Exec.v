(* C15 — glue evaluated by generated case files. *)
From EsVerif.Common Require Import Base Bytes.
From EsVerif.C15 Require Import Model Spec.
From Coq.Strings Require Import String.

(* static obligation, with the reason of a failure: [0] ok; 1 :: x :: params  a write through x, which
   may alias these parameters; [2] loop analysis did not stabilise within the fuel *)
Definition diag (sk : skeleton) (ps : list var) : list Z :=
  match analyze_r default_fuel sk (init_amap ps) with
  | AOk _ => [0]
  | ABad x s => 1 :: Zpos x :: map Zpos s
  | AFuel => [2]
  end.

Definition mk_snap (hexdata : string) (meta : string) : snap := (unhex hexdata, bytes_of_string meta).

(* dynamic case: static_ok = the skeleton obligation of this driver was discharged (the model then
   predicts "every argument unchanged"; otherwise it predicts nothing); args = (before, after)
   snapshots of every non-exempt array argument of one real call. *)
Definition v_dynamic (static_ok : bool) (args : list (snap * snap)) : Z :=
  let same := unchanged_check args in
  verdict (if static_ok then same else true) same.

(* ------------------------------------------------------------------------------------------
   Faster literal transport (string literals cost ~100 us per character in coqc 8.16, primitive
   integers ~1 us): a byte string of length n is printed as  (n, [c0; c1; ...])  where every ci is a
   primitive 63-bit integer holding 7 bytes, most significant first; the last chunk is padded on
   the right with zero bytes, the padding is cut off by [firstn n].  Decoding yields the same
   [list byte] objects as [unhex]; the verified checker is unchanged. *)
From Coq Require Import Uint63.
From Coq.Strings Require Import Byte.

Definition byte_of_int (i : int) : byte := byte_of_N (Z.to_N (Uint63.to_Z (Uint63.land i 255%uint63))).

Definition chunk7 (i : int) : list byte :=
  [ byte_of_int (Uint63.lsr i 48%uint63); byte_of_int (Uint63.lsr i 40%uint63); byte_of_int (Uint63.lsr i 32%uint63);
    byte_of_int (Uint63.lsr i 24%uint63); byte_of_int (Uint63.lsr i 16%uint63); byte_of_int (Uint63.lsr i 8%uint63);
    byte_of_int i ].

Fixpoint unchunk7 (l : list int) : list byte :=
  match l with
  | nil => nil
  | c :: t => chunk7 c ++ unchunk7 t
  end.

Definition bytes63 (n : Z) (l : list int) : list byte := firstn (Z.to_nat n) (unchunk7 l).

(* a decoded byte string of the wrong length (printer and chunk list disagree) is rejected by
   [wf63]; v_dynamic63 then returns 3 + 4 = 7 (never "agree and ok") *)
Definition wf63 (n : Z) (l : list int) : bool :=
  (0 <=? n) && (Z.of_nat (List.length l) =? (n + 6) / 7).

Definition mk_snap63 (n : Z) (data : list int) (m : Z) (meta : list int) : snap := (bytes63 n data, bytes63 m meta).

Definition v_dynamic63 (static_ok : bool)
    (args : list ((Z * list int * Z * list int) * (Z * list int * Z * list int))) : Z :=
  let wf1 := fun q : Z * list int * Z * list int => match q with (n, d, m, t) => wf63 n d && wf63 m t end in
  let mk := fun q : Z * list int * Z * list int => match q with (n, d, m, t) => mk_snap63 n d m t end in
  if forallb (fun p => wf1 (fst p) && wf1 (snd p)) args
  then v_dynamic static_ok (map (fun p => (mk (fst p), mk (snd p))) args)
  else 7.

(* the two transports agree (every byte value, every position inside a chunk, a padded last chunk) *)
Example transport_agree :
  mk_snap63 10 [0x00017f80fffe10%uint63; 0x20304000000000%uint63] 3 [0x61623b00000000%uint63]
  = mk_snap "00017f80fffe10203040"%string "ab;"%string.
Proof. vm_compute. reflexivity. Qed.

(* ------------------------------------------------------------------------------------------
   Correspondence of the ALIAS part of the model: [ret_alias] is the set of parameters (ids, as Z) the
   name r -- the return slot of the driver -- may refer to according to the verified analysis
   (Alias.alias_sound); [-1] when the obligation failed (no prediction).  It is evaluated once per
   driver; the dynamic cases carry the value.  v_dynamic_alias sets the "model <> implementation" bit
   when the real return value shares memory with an argument outside the predicted set. *)
Definition ret_alias (sk : skeleton) (ps : list var) (r : var) : list Z :=
  match analyze_r default_fuel sk (init_amap ps) with
  | AOk a => map Zpos (lookup a r)
  | _ => [(-1)%Z]
  end.

Definition v_dynamic_alias (static_ok : bool) (ret_static observed : list Z)
    (args : list ((Z * list int * Z * list int) * (Z * list int * Z * list int))) : Z :=
  let v := v_dynamic63 static_ok args in
  let covered := forallb (fun p => existsb (Z.eqb p) ret_static) observed in
  if static_ok && negb covered then (if Z.odd v then v else v + 1) else v.

(* A case in which the arguments were made READ-ONLY and the call died with numpy's "... is read-only" error: the call
   tried to write into the caller's array (the flag turned the silent mutation into an exception).  The property checker
   rejects it, whatever the snapshots say. *)
Definition v_case (ro_write_attempt static_ok : bool) (ret_static observed : list Z)
    (args : list ((Z * list int * Z * list int) * (Z * list int * Z * list int))) : Z :=
  if ro_write_attempt then (if static_ok then 3 else 2)
  else v_dynamic_alias static_ok ret_static observed args.

(* one evaluation per driver: 0 :: predicted aliases of the name r  when the frame obligation holds (frame_ret_ok below),
   1 :: x :: params  when a write through x may reach these parameters, [2] when the loop analysis ran out of fuel *)
Definition frame_ret (sk : skeleton) (ps : list var) (r : var) : list Z :=
  match analyze_r default_fuel sk (init_amap ps) with
  | AOk a => 0 :: map Zpos (lookup a r)
  | ABad x s => 1 :: Zpos x :: map Zpos s
  | AFuel => [2]
  end.

(* compact printing of a pair whose two snapshots are the SAME literal (the common case: nothing changed) *)
Definition dup63 (q : Z * list int * Z * list int) : (Z * list int * Z * list int) * (Z * list int * Z * list int) := (q, q).

(* the static obligation and the flow-insensitive alias certificate of one skeleton in ONE evaluation (the skeleton literal is
   parsed once): frame_ret ... ++ [100] when the certificate E passes FlowIns.fi_ok, ++ [101] otherwise *)
From EsVerif.C15 Require Import FlowIns.
Definition frame_ret_cert (sk : skeleton) (ps : list var) (r : var) (E : amap) : list Z :=
  frame_ret sk ps r ++ [if fi_ok sk ps E then 100 else 101].

(* C15 — effect skeletons: IR, concrete (may-)semantics, abstract alias/frame analysis.
   No proofs in this file.

   A skeleton abstracts one Python function (after inlining of the esutil functions it calls)
   to the only things that matter for "does it modify an array it was given":
     - which local name may refer to the same buffer as which other name   (SBind x (MayAlias ys))
     - which local name certainly refers to newly allocated memory          (SBind x Fresh)
     - through which name memory is written                                  (SWrite x)
   with branching and iteration kept but conditions dropped (SIf / SLoop are nondeterministic).
   The skeletons are REGENERATED from the sources of the scratch build on every run by
   harness/translate/c15_skeleton.py. *)
From Coq Require Import PArith List Bool.
Import ListNotations.

Definition var := positive.

Inductive rhs :=
| Fresh
| MayAlias (ys : list var).

Inductive stmt :=
| SBind (x : var) (r : rhs)
| SWrite (x : var)
| SIf (s1 s2 : list stmt)
| SLoop (body : list stmt).

Definition skeleton := list stmt.

(* ------------------------------------------------------------------------------------------
   Concrete semantics.  A buffer is a natural number; the heap gives each buffer its contents
   (a number standing for "the bytes, dtype and byte order of that memory": any write may change
   it to anything); the environment binds names to buffers; [alloc] lists the buffers that exist.
   ------------------------------------------------------------------------------------------ *)
Definition buf := nat.

Record state := mkState {
  env : var -> option buf;
  heap : buf -> nat;
  alloc : list buf
}.

Definition upd_env (e : var -> option buf) (x : var) (b : buf) : var -> option buf :=
  fun y => if Pos.eqb y x then Some b else e y.

Definition upd_heap (h : buf -> nat) (b : buf) (v : nat) : buf -> nat :=
  fun c => if Nat.eqb c b then v else h c.

(* [exec_s s st st' halted]: statement s, started in st, may end in st'.  halted = true means that
   control left the skeleton early (an exception or a return propagating outwards): ANY statement
   may do so before it has any effect, so every prefix of an execution is an execution.
     SBind x r            x := a buffer distinct from all existing ones, with arbitrary contents
     SBind x (MayAlias ys) ... or the buffer of some bound y in ys (nondeterministic)
     SWrite x             the contents of x's buffer become arbitrary
     SIf s1 s2            either branch
     SLoop b              b any number of times *)
Inductive exec_s : stmt -> state -> state -> bool -> Prop :=
| XHalt : forall s st, exec_s s st st true
| XBindFresh : forall x r st b v,
    ~ In b (alloc st) ->
    exec_s (SBind x r) st (mkState (upd_env (env st) x b) (upd_heap (heap st) b v) (b :: alloc st)) false
| XBindAlias : forall x ys y b st,
    In y ys -> env st y = Some b ->
    exec_s (SBind x (MayAlias ys)) st (mkState (upd_env (env st) x b) (heap st) (alloc st)) false
| XWrite : forall x b v st,
    env st x = Some b ->
    exec_s (SWrite x) st (mkState (env st) (upd_heap (heap st) b v) (alloc st)) false
| XWriteUnbound : forall x st,
    env st x = None -> exec_s (SWrite x) st st false
| XIfL : forall s1 s2 st st' h, exec_l s1 st st' h -> exec_s (SIf s1 s2) st st' h
| XIfR : forall s1 s2 st st' h, exec_l s2 st st' h -> exec_s (SIf s1 s2) st st' h
| XLoopDone : forall b st, exec_s (SLoop b) st st false
| XLoopStep : forall b st st1 st2 h,
    exec_l b st st1 false -> exec_s (SLoop b) st1 st2 h -> exec_s (SLoop b) st st2 h
| XLoopHalt : forall b st st1, exec_l b st st1 true -> exec_s (SLoop b) st st1 true
with exec_l : list stmt -> state -> state -> bool -> Prop :=
| XNil : forall st, exec_l [] st st false
| XCons : forall s r st st1 st2 h,
    exec_s s st st1 false -> exec_l r st1 st2 h -> exec_l (s :: r) st st2 h
| XConsHalt : forall s r st st1, exec_s s st st1 true -> exec_l (s :: r) st st1 true.

Definition exec (sk : skeleton) (st st' : state) : Prop := exists h, exec_l sk st st' h.

(* ------------------------------------------------------------------------------------------
   Abstract analysis: for every name, the set of PARAMETERS whose buffer it may refer to.
   ------------------------------------------------------------------------------------------ *)
Definition pset := list var.
Definition amap := list (var * pset).

Fixpoint lookup (a : amap) (x : var) : pset :=
  match a with
  | [] => []
  | (k, s) :: t => if Pos.eqb k x then s else lookup t x
  end.

Definition remove_key (x : var) (a : amap) : amap :=
  filter (fun kv => negb (Pos.eqb (fst kv) x)) a.

(* names with an empty alias set are not stored (lookup defaults to the empty set), so the map
   only ever holds the few names that may alias a parameter *)
Definition update (a : amap) (x : var) (s : pset) : amap :=
  match s with
  | [] => remove_key x a
  | _ :: _ => (x, s) :: remove_key x a
  end.

Fixpoint mem (p : var) (s : pset) : bool :=
  match s with
  | [] => false
  | q :: t => Pos.eqb q p || mem p t
  end.

Fixpoint union (s1 s2 : pset) : pset :=
  match s1 with
  | [] => s2
  | p :: t => let r := union t s2 in if mem p r then r else p :: r
  end.

Definition subset (s1 s2 : pset) : bool := forallb (fun p => mem p s2) s1.

(* pointwise union (only "at least the union" matters for soundness) *)
Fixpoint join (a1 a2 : amap) : amap :=
  match a1 with
  | [] => a2
  | (k, s) :: t => let r := join t a2 in update r k (union s (lookup r k))
  end.

(* every entry of a is covered by b: forall x, lookup a x is a subset of lookup b x *)
Definition amap_le (a b : amap) : bool :=
  forallb (fun kv => subset (snd kv) (lookup b (fst kv))) a.

Fixpoint alias_of (a : amap) (ys : list var) : pset :=
  match ys with
  | [] => []
  | y :: t => union (lookup a y) (alias_of a t)
  end.

Inductive ares :=
| AOk (a : amap)
| ABad (x : var) (s : pset)        (* a write through x, which may alias the parameters in s *)
| AFuel.                           (* loop not stable within the fuel: fail closed *)

(* loops: iterate  a := a join (body a)  until body a <= a; the stable a is the state after the loop *)
Section Analysis.
  Variable fuel : nat.

  Fixpoint an_stmt (s : stmt) (a : amap) {struct s} : ares :=
    match s with
    | SBind x Fresh => AOk (update a x [])
    | SBind x (MayAlias ys) => AOk (update a x (alias_of a ys))
    | SWrite x => match lookup a x with [] => AOk a | p :: t => ABad x (p :: t) end
    | SIf s1 s2 =>
        let an_list := fix an_list (l : list stmt) (a : amap) {struct l} : ares :=
          match l with
          | [] => AOk a
          | s :: r => match an_stmt s a with AOk a1 => an_list r a1 | e => e end
          end in
        match an_list s1 a with
        | AOk a1 => match an_list s2 a with AOk a2 => AOk (join a1 a2) | e => e end
        | e => e
        end
    | SLoop b =>
        let an_list := fix an_list (l : list stmt) (a : amap) {struct l} : ares :=
          match l with
          | [] => AOk a
          | s :: r => match an_stmt s a with AOk a1 => an_list r a1 | e => e end
          end in
        (fix loop (n : nat) (a : amap) {struct n} : ares :=
           match n with
           | O => AFuel
           | S k => match an_list b a with
                    | AOk a' => if amap_le a' a then AOk a else loop k (join a a')
                    | e => e
                    end
           end) fuel a
    end.

  Definition an_list : list stmt -> amap -> ares :=
    fix an_list (l : list stmt) (a : amap) {struct l} : ares :=
      match l with
      | [] => AOk a
      | s :: r => match an_stmt s a with AOk a1 => an_list r a1 | e => e end
      end.

  Definition an_loop (b : list stmt) : nat -> amap -> ares :=
    fix loop (n : nat) (a : amap) {struct n} : ares :=
      match n with
      | O => AFuel
      | S k => match an_list b a with
               | AOk a' => if amap_le a' a then AOk a else loop k (join a a')
               | e => e
               end
      end.
End Analysis.

Definition analyze_r (fuel : nat) (sk : skeleton) (a : amap) : ares := an_list fuel sk a.

Definition default_fuel : nat := 200.

Definition analyze (sk : skeleton) (a : amap) : option amap :=
  match analyze_r default_fuel sk a with AOk a' => Some a' | _ => None end.

(* initially every parameter may alias itself, nothing else aliases a parameter *)
Definition init_amap (ps : list var) : amap := map (fun p => (p, [p])) ps.

Definition frame_ok (sk : skeleton) (ps : list var) : bool :=
  match analyze sk (init_amap ps) with Some _ => true | None => false end.

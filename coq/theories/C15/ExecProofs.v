(* C15 — what a verdict of the generated case files means. *)
From EsVerif.Common Require Import Base Bytes.
From EsVerif.C15 Require Import Model Spec Proofs Exec Verdict.
From Coq Require Import Uint63.

Lemma v_dynamic_values b args :
  v_dynamic b args = (if unchanged_check args then 0 else if b then 3 else 2).
Proof. unfold v_dynamic, verdict. destruct (unchanged_check args), b; reflexivity. Qed.

(* verdict 0 (the only verdict that does not lead to a VIOLATION line) implies the property on the
   observed snapshots; a changed argument gives verdict 2 (obligation failed) or 3 (obligation discharged) *)
Lemma v_dynamic_zero_sound b args : v_dynamic b args = 0 -> all_unchanged args.
Proof.
  rewrite v_dynamic_values. destruct (unchanged_check args) eqn:E.
  - intros _. apply unchanged_check_sound. exact E.
  - destruct b; discriminate.
Qed.

Lemma v_dynamic_changed b args : ~ all_unchanged args -> 2 <= v_dynamic b args.
Proof.
  intro H. rewrite v_dynamic_values. destruct (unchanged_check args) eqn:E.
  - exfalso. apply H. apply unchanged_check_sound. exact E.
  - destruct b; lia.
Qed.

Definition dec63 (q : Z * list int * Z * list int) : snap :=
  match q with (n, d, m, t) => mk_snap63 n d m t end.

Lemma v_dynamic63_zero_sound b args :
  v_dynamic63 b args = 0 -> all_unchanged (map (fun p => (dec63 (fst p), dec63 (snd p))) args).
Proof.
  unfold v_dynamic63.
  destruct (forallb _ args); [|discriminate].
  intro H. apply v_dynamic_zero_sound in H. exact H.
Qed.

Lemma v_dynamic_alias_zero b rs obs args : v_dynamic_alias b rs obs args = 0 -> v_dynamic63 b args = 0.
Proof.
  unfold v_dynamic_alias. destruct (b && negb _); [|tauto].
  destruct (Z.odd (v_dynamic63 b args)) eqn:E; [tauto|]. intro H.
  assert (0 <= v_dynamic63 b args).
  { unfold v_dynamic63. destruct (forallb _ args); [|lia]. rewrite v_dynamic_values.
    destruct (unchanged_check _); [lia|]. destruct b; lia. }
  lia.
Qed.

(* verdict 0 of a full case: no refused write into a read-only argument, and every observed argument unchanged *)
Lemma v_case_zero_sound ro b rs obs args :
  v_case ro b rs obs args = 0 ->
  ro = false /\ all_unchanged (map (fun p => (dec63 (fst p), dec63 (snd p))) args).
Proof.
  unfold v_case. destruct ro.
  - destruct b; discriminate.
  - intro H. split; [reflexivity|]. apply v_dynamic_alias_zero in H. apply v_dynamic63_zero_sound in H. exact H.
Qed.

(* the generated static obligation, in the form in which it is evaluated: head 0 of frame_ret IS frame_ok = true,
   and the tail is the alias set of r in the final abstract map *)
Lemma frame_ret_ok sk ps r l :
  frame_ret sk ps r = 0 :: l ->
  frame_ok sk ps = true /\ exists a, analyze sk (init_amap ps) = Some a /\ l = map Zpos (lookup a r).
Proof.
  unfold frame_ret, frame_ok, analyze.
  destruct (analyze_r default_fuel sk (init_amap ps)) as [a|x s|]; intro H; try discriminate.
  inversion H. split; [reflexivity|]. exists a. split; reflexivity.
Qed.

(* the function the generated cases evaluate IS the specified verdict on the decoded snapshots, unless a literal is malformed
   (then 7: reported) *)
Lemma v_case_spec ro b rs obs args :
  v_case ro b rs obs args = verdict_spec ro b rs obs (map (fun p => (dec63 (fst p), dec63 (snd p))) args)
  \/ (ro = false /\ v_dynamic63 b args = 7).
Proof.
  unfold v_case, verdict_spec. destruct ro; [left; reflexivity|].
  unfold v_dynamic_alias, v_dynamic63.
  destruct (forallb _ args); [left | right; split; reflexivity].
  unfold v_dynamic, covered, dec63. reflexivity.
Qed.

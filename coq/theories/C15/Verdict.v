(* C15 — the verdict of a dynamic case, as a specification over decoded snapshots, with its exact meaning.
   (Exec.v_case works on the primitive-integer transport; ExecProofs.v_case_spec ties it to this function.) *)
From EsVerif.Common Require Import Base Bytes.
From EsVerif.C15 Require Import Model Spec Proofs.

Definition covered (observed predicted : list Z) : bool :=
  forallb (fun p => existsb (Z.eqb p) predicted) observed.

(* ro_write_attempt: the call died with "... is read-only" on a read-only argument;  static_ok: the frame obligation of the driver
   was discharged;  predicted / observed: parameters the return value may / does share memory with;  args: (before, after) *)
Definition verdict_spec (ro_write_attempt static_ok : bool) (predicted observed : list Z) (args : list (snap * snap)) : Z :=
  if ro_write_attempt then (if static_ok then 3 else 2)
  else
    let same := unchanged_check args in
    let v := verdict (if static_ok then same else true) same in
    if static_ok && negb (covered observed predicted) then (if Z.odd v then v else v + 1) else v.

Lemma covered_incl obs pred : covered obs pred = true <-> incl obs pred.
Proof.
  unfold covered, incl. rewrite forallb_forall. split.
  - intros H p Hp. specialize (H p Hp). apply existsb_exists in H. destruct H as [q [Hq E]].
    apply Z.eqb_eq in E. subst q. exact Hq.
  - intros H p Hp. apply existsb_exists. exists p. split; [apply H, Hp | apply Z.eqb_refl].
Qed.

(* the complete table *)
Lemma verdict_spec_table ro ok pred obs args :
  verdict_spec ro ok pred obs args =
  if ro then (if ok then 3 else 2)
  else if unchanged_check args
       then (if ok && negb (covered obs pred) then 1 else 0)
       else (if ok then 3 else 2).
Proof.
  unfold verdict_spec, verdict. destruct ro; [reflexivity|].
  destruct (unchanged_check args), ok; simpl; try reflexivity; destruct (covered obs pred); reflexivity.
Qed.

(* verdict 0 -- the only one that is not reported -- means EXACTLY: no refused write, every observed argument unchanged, and
   (when the model makes a prediction) the real return value shares memory only with predicted parameters *)
Lemma verdict_spec_zero ro ok pred obs args :
  verdict_spec ro ok pred obs args = 0 <->
  ro = false /\ all_unchanged args /\ (ok = true -> incl obs pred).
Proof.
  rewrite verdict_spec_table. split.
  - destruct ro; [destruct ok; discriminate|].
    destruct (unchanged_check args) eqn:E; [|destruct ok; discriminate].
    intro H. split; [reflexivity|]. split; [apply unchanged_check_sound; exact E|].
    intro Hok. subst ok. simpl in H. destruct (covered obs pred) eqn:C; [apply covered_incl; exact C | discriminate].
  - intros [-> [HU HC]]. rewrite (unchanged_check_complete _ HU).
    destruct ok; [|reflexivity]. simpl. rewrite (proj2 (covered_incl obs pred) (HC eq_refl)). reflexivity.
Qed.

(* a failing input (verdict >= 2) means EXACTLY: a refused write into a read-only argument, or a changed argument *)
Lemma verdict_spec_failing ro ok pred obs args :
  2 <= verdict_spec ro ok pred obs args <-> ro = true \/ ~ all_unchanged args.
Proof.
  rewrite verdict_spec_table. split.
  - destruct ro; [left; reflexivity|]. destruct (unchanged_check args) eqn:E.
    + destruct (ok && negb (covered obs pred)); intro H; lia.
    + intros _. right. intro HU. rewrite (unchanged_check_complete _ HU) in E. discriminate.
  - intros [->|HN]; [destruct ok; lia|].
    destruct ro; [destruct ok; lia|].
    destruct (unchanged_check args) eqn:E; [exfalso; apply HN, unchanged_check_sound, E | destruct ok; lia].
Qed.

(* verdict 1 (model <> implementation, nothing was modified) means EXACTLY: the return value shares memory with an argument
   outside the predicted alias set although the obligation was discharged *)
Lemma verdict_spec_one ro ok pred obs args :
  verdict_spec ro ok pred obs args = 1 <->
  ro = false /\ all_unchanged args /\ ok = true /\ ~ incl obs pred.
Proof.
  rewrite verdict_spec_table. split.
  - destruct ro; [destruct ok; discriminate|].
    destruct (unchanged_check args) eqn:E; [|destruct ok; discriminate].
    destruct ok; simpl; [|discriminate]. destruct (covered obs pred) eqn:C; [discriminate|].
    intros _. repeat split; try reflexivity; [apply unchanged_check_sound; exact E|].
    intro HI. apply covered_incl in HI. congruence.
  - intros [-> [HU [-> HN]]]. rewrite (unchanged_check_complete _ HU). simpl.
    destruct (covered obs pred) eqn:C; [exfalso; apply HN, covered_incl, C | reflexivity].
Qed.

(* C15 — soundness of the frame checker. *)
From Coq Require Import PArith List Bool Lia.
From EsVerif.C15 Require Import Model Spec.
Import ListNotations.

(* ---------------------------------------------------------------- sets and maps *)
Lemma mem_In p s : mem p s = true <-> In p s.
Proof.
  induction s as [|q t IH]; simpl.
  - split; [discriminate | tauto].
  - rewrite orb_true_iff, IH, Pos.eqb_eq. tauto.
Qed.

Lemma union_In s1 s2 : forall p, In p (union s1 s2) <-> In p s1 \/ In p s2.
Proof.
  induction s1 as [|q t IH]; simpl; intro p.
  - tauto.
  - destruct (mem q (union t s2)) eqn:E.
    + rewrite IH. apply mem_In in E. rewrite IH in E. split; [tauto|].
      intros [[H|H]|H]; subst; tauto.
    + simpl. rewrite IH. tauto.
Qed.

Lemma subset_spec s1 s2 : subset s1 s2 = true -> forall p, In p s1 -> In p s2.
Proof.
  unfold subset. rewrite forallb_forall. intros H p Hp. apply mem_In. apply H; exact Hp.
Qed.

Lemma lookup_remove_key x a y :
  lookup (remove_key x a) y = if Pos.eqb x y then [] else lookup a y.
Proof.
  induction a as [|[k s] t IH]; simpl.
  - destruct (Pos.eqb x y); reflexivity.
  - destruct (Pos.eqb k x) eqn:Ekx; simpl.
    + apply Pos.eqb_eq in Ekx; subst k. rewrite IH. destruct (Pos.eqb x y); reflexivity.
    + rewrite IH. destruct (Pos.eqb k y) eqn:Eky.
      * apply Pos.eqb_eq in Eky; subst k. rewrite Pos.eqb_sym in Ekx. rewrite Ekx. reflexivity.
      * reflexivity.
Qed.

Lemma lookup_update a x s y :
  lookup (update a x s) y = if Pos.eqb x y then s else lookup a y.
Proof.
  unfold update. destruct s as [|p t]; simpl; rewrite lookup_remove_key; destruct (Pos.eqb x y); reflexivity.
Qed.

Definition le (a b : amap) : Prop := forall x p, In p (lookup a x) -> In p (lookup b x).

Lemma le_refl a : le a a.
Proof. intros x p H; exact H. Qed.

Lemma le_trans a b c : le a b -> le b c -> le a c.
Proof. intros H1 H2 x p H. apply H2, H1, H. Qed.

Lemma join_r a1 a2 : le a2 (join a1 a2).
Proof.
  induction a1 as [|[k s] t IH]; simpl.
  - apply le_refl.
  - intros x p H. rewrite lookup_update. destruct (Pos.eqb k x) eqn:E.
    + apply Pos.eqb_eq in E; subst k. apply union_In. right. apply IH, H.
    + apply IH, H.
Qed.

Lemma join_l a1 a2 : le a1 (join a1 a2).
Proof.
  induction a1 as [|[k s] t IH]; simpl.
  - intros x p H. destruct H.
  - intros x p H. rewrite lookup_update. simpl in H. destruct (Pos.eqb k x) eqn:E.
    + apply union_In. left. exact H.
    + apply IH, H.
Qed.

Lemma amap_le_spec a b : amap_le a b = true -> le a b.
Proof.
  unfold amap_le. rewrite forallb_forall. intros H x p Hp.
  induction a as [|[k s] t IH]; simpl in Hp.
  - destruct Hp.
  - destruct (Pos.eqb k x) eqn:E.
    + apply Pos.eqb_eq in E; subst k.
      assert (Hs : subset s (lookup b x) = true) by (apply (H (x, s)); left; reflexivity).
      eapply subset_spec; eauto.
    + apply IH; [|exact Hp]. intros kv Hkv. apply H. right. exact Hkv.
Qed.

Lemma alias_of_In a ys y p : In y ys -> In p (lookup a y) -> In p (alias_of a ys).
Proof.
  induction ys as [|z t IH]; simpl; intros Hy Hp.
  - destruct Hy.
  - apply union_In. destruct Hy as [->|Hy]; [left; exact Hp | right; apply IH; assumption].
Qed.

Lemma lookup_init ps x : In x ps -> lookup (init_amap ps) x = [x].
Proof.
  induction ps as [|q t IH]; simpl; intro H.
  - destruct H.
  - destruct (Pos.eqb q x) eqn:E.
    + apply Pos.eqb_eq in E; subst; reflexivity.
    + destruct H as [->|H]; [rewrite Pos.eqb_refl in E; discriminate | apply IH, H].
Qed.

(* ---------------------------------------------------------------- unfolding of the nested fixpoint *)
Lemma an_stmt_if fuel s1 s2 a :
  an_stmt fuel (SIf s1 s2) a =
  match an_list fuel s1 a with
  | AOk a1 => match an_list fuel s2 a with AOk a2 => AOk (join a1 a2) | e => e end
  | e => e
  end.
Proof. reflexivity. Qed.

Lemma an_bind fuel x r a :
  an_stmt fuel (SBind x r) a =
  AOk (update a x (match r with Fresh => [] | MayAlias ys => alias_of a ys end)).
Proof. destruct r; reflexivity. Qed.

Lemma an_stmt_loop fuel b a : an_stmt fuel (SLoop b) a = an_loop fuel b fuel a.
Proof. reflexivity. Qed.

Lemma an_list_cons fuel s r a :
  an_list fuel (s :: r) a = match an_stmt fuel s a with AOk a1 => an_list fuel r a1 | e => e end.
Proof. reflexivity. Qed.

Lemma an_loop_spec fuel b n : forall a a',
  an_loop fuel b n a = AOk a' ->
  le a a' /\ exists a'', an_list fuel b a' = AOk a'' /\ le a'' a'.
Proof.
  induction n as [|k IH]; intros a a' H; simpl in H.
  - discriminate.
  - destruct (an_list fuel b a) as [a1| |] eqn:E; try discriminate.
    destruct (amap_le a1 a) eqn:L.
    + inversion H; subst a'. split; [apply le_refl|]. exists a1. split; [exact E|].
      apply amap_le_spec, L.
    + apply IH in H. destruct H as [H1 H2]. split; [|exact H2].
      eapply le_trans; [apply join_l | exact H1].
Qed.

(* ---------------------------------------------------------------- induction principle for the nested type *)
Section stmt_ind2.
  Variable P : stmt -> Prop.
  Variable Q : list stmt -> Prop.
  Hypothesis HB : forall x r, P (SBind x r).
  Hypothesis HW : forall x, P (SWrite x).
  Hypothesis HI : forall s1 s2, Q s1 -> Q s2 -> P (SIf s1 s2).
  Hypothesis HL : forall b, Q b -> P (SLoop b).
  Hypothesis HN : Q [].
  Hypothesis HC : forall s l, P s -> Q l -> Q (s :: l).

  Fixpoint stmt_ind2 (s : stmt) : P s :=
    let lst := fix lst (l : list stmt) : Q l :=
      match l with
      | [] => HN
      | s :: r => HC s r (stmt_ind2 s) (lst r)
      end in
    match s with
    | SBind x r => HB x r
    | SWrite x => HW x
    | SIf s1 s2 => HI s1 s2 (lst s1) (lst s2)
    | SLoop b => HL b (lst b)
    end.

  Definition list_ind2 : forall l, Q l :=
    fix lst (l : list stmt) : Q l :=
      match l with
      | [] => HN
      | s :: r => HC s r (stmt_ind2 s) (lst r)
      end.
End stmt_ind2.

(* ---------------------------------------------------------------- the invariant *)
Section Soundness.
  Variable ps : list var.          (* the parameters whose buffers must not change *)
  Variable pb : var -> buf.        (* the buffer each parameter had when the call started *)
  Variable h0 : buf -> nat.        (* the heap when the call started *)
  Variable fuel : nat.

  Definition isP (b : buf) : Prop := exists p, In p ps /\ pb p = b.

  Definition Frame (st : state) : Prop := forall b, isP b -> heap st b = h0 b.

  (* parameter buffers exist (so a fresh buffer is never one of them); a name that refers to the
     buffer of a parameter has a parameter with that buffer in its abstract alias set; the
     parameter buffers still have their initial contents *)
  Definition Inv (a : amap) (st : state) : Prop :=
    (forall b, isP b -> In b (alloc st))
    /\ (forall x b, env st x = Some b -> isP b -> exists p, In p ps /\ pb p = b /\ In p (lookup a x))
    /\ Frame st.

  Lemma Inv_mono a b st : le a b -> Inv a st -> Inv b st.
  Proof.
    intros L [I1 [I2 I3]]. split; [exact I1|]. split; [|exact I3].
    intros x c Hx Hc. destruct (I2 x c Hx Hc) as [p [Hp [Hb Hin]]]. exists p. auto.
  Qed.

  Lemma Inv_bind_fresh a st x s b v :
    Inv a st -> ~ In b (alloc st) ->
    Inv (update a x s) (mkState (upd_env (env st) x b) (upd_heap (heap st) b v) (b :: alloc st)).
  Proof.
    intros [I1 [I2 I3]] Hb. split; [|split]; cbn [env heap alloc].
    - intros c Hc. right. apply I1, Hc.
    - intros y c Hy Hc. unfold upd_env in Hy. destruct (Pos.eqb y x) eqn:E.
      + inversion Hy; subst c. exfalso. apply Hb, I1, Hc.
      + destruct (I2 y c Hy Hc) as [p [Hp [Hpb Hin]]]. exists p. split; [exact Hp|]. split; [exact Hpb|].
        rewrite lookup_update. rewrite Pos.eqb_sym in E. rewrite E. exact Hin.
    - intros c Hc. cbn [env heap alloc]. unfold upd_heap. destruct (Nat.eqb c b) eqn:E.
      + apply PeanoNat.Nat.eqb_eq in E; subst c. exfalso. apply Hb, I1, Hc.
      + apply I3, Hc.
  Qed.

  Definition Pst (s : stmt) : Prop :=
    forall a a', an_stmt fuel s a = AOk a' ->
    forall st st' h, Inv a st -> exec_s s st st' h -> Frame st' /\ (h = false -> Inv a' st').

  Definition Qst (l : list stmt) : Prop :=
    forall a a', an_list fuel l a = AOk a' ->
    forall st st' h, Inv a st -> exec_l l st st' h -> Frame st' /\ (h = false -> Inv a' st').

  Lemma Inv_Frame a st : Inv a st -> Frame st.
  Proof. intros [_ [_ H]]; exact H. Qed.

  Lemma sound_bind x r : Pst (SBind x r).
  Proof.
    intros a a' Han st st' h HI Hex.
    inversion Hex; subst.
    - split; [eapply Inv_Frame; eauto | discriminate].
    - assert (HI' : Inv a' (mkState (upd_env (env st) x b) (upd_heap (heap st) b v) (b :: alloc st))).
      { rewrite an_bind in Han. injection Han as Ea. rewrite <- Ea. apply Inv_bind_fresh; assumption. }
      split; [eapply Inv_Frame; eauto | intros _; exact HI'].
    - rewrite an_bind in Han. injection Han as Ea. rewrite <- Ea. clear Ea.
      destruct HI as [I1 [I2 I3]].
      split; [exact I3|]. intros _. split; [exact I1|]. split; [|exact I3]. cbn [env heap alloc].
      intros z c Hz Hc. unfold upd_env in Hz. destruct (Pos.eqb z x) eqn:E.
      + inversion Hz; subst c.
        match goal with Hy : env st y = Some b |- _ => destruct (I2 y b Hy Hc) as [p [Hp [Hpb Hin]]] end.
        exists p. split; [exact Hp|]. split; [exact Hpb|].
        rewrite lookup_update. apply Pos.eqb_eq in E; subst z. rewrite Pos.eqb_refl.
        eapply alias_of_In; eauto.
      + destruct (I2 z c Hz Hc) as [p [Hp [Hpb Hin]]]. exists p. split; [exact Hp|]. split; [exact Hpb|].
        rewrite lookup_update. rewrite Pos.eqb_sym in E. rewrite E. exact Hin.
  Qed.

  Lemma sound_write x : Pst (SWrite x).
  Proof.
    intros a a' Han st st' h HI Hex. simpl in Han.
    destruct (lookup a x) as [|p0 t] eqn:L; [|discriminate]. inversion Han; subst a'. clear Han.
    inversion Hex; subst.
    - split; [eapply Inv_Frame; eauto | discriminate].
    - destruct HI as [I1 [I2 I3]].
      assert (NP : ~ isP b).
      { intro Hc. match goal with Hx : env st x = Some b |- _ => destruct (I2 x b Hx Hc) as [p [_ [_ Hin]]] end.
        rewrite L in Hin. destruct Hin. }
      assert (F : Frame (mkState (env st) (upd_heap (heap st) b v) (alloc st))).
      { intros c Hc. simpl. unfold upd_heap. destruct (Nat.eqb c b) eqn:E.
        - apply PeanoNat.Nat.eqb_eq in E; subst c. contradiction.
        - apply I3, Hc. }
      split; [exact F|]. intros _. split; [exact I1|]. split; [exact I2|exact F].
    - split; [eapply Inv_Frame; eauto | intros _; exact HI].
  Qed.

  Lemma sound_if s1 s2 : Qst s1 -> Qst s2 -> Pst (SIf s1 s2).
  Proof.
    intros Q1 Q2 a a' Han st st' h HI Hex. rewrite an_stmt_if in Han.
    destruct (an_list fuel s1 a) as [a1| |] eqn:E1; try discriminate.
    destruct (an_list fuel s2 a) as [a2| |] eqn:E2; try discriminate.
    inversion Han; subst a'. clear Han.
    inversion Hex; subst.
    - split; [eapply Inv_Frame; eauto | discriminate].
    - match goal with Hx : exec_l s1 _ _ _ |- _ => destruct (Q1 a a1 E1 st st' h HI Hx) as [F I] end. split; [exact F|].
      intro Hh. eapply Inv_mono; [apply join_l | apply I, Hh].
    - match goal with Hx : exec_l s2 _ _ _ |- _ => destruct (Q2 a a2 E2 st st' h HI Hx) as [F I] end. split; [exact F|].
      intro Hh. eapply Inv_mono; [apply join_r | apply I, Hh].
  Qed.

  Lemma sound_loop b : Qst b -> Pst (SLoop b).
  Proof.
    intros Qb a a' Han st st' h HI Hex. rewrite an_stmt_loop in Han.
    apply an_loop_spec in Han. destruct Han as [L [a2 [Eb L2]]].
    assert (HI' : Inv a' st) by exact (Inv_mono a a' st L HI). clear HI L a.
    remember (SLoop b) as s eqn:Es. revert Es HI'.
    induction Hex; intros Es HI'; try discriminate.
    - split; [eapply Inv_Frame; eauto | discriminate].
    - split; [eapply Inv_Frame; eauto | intros _; exact HI'].
    - inversion Es; subst b0.
      destruct (Qb a' a2 Eb st st1 false HI' H) as [_ I].
      apply IHHex; [reflexivity|]. eapply Inv_mono; [exact L2 | apply I; reflexivity].
    - inversion Es; subst b0.
      destruct (Qb a' a2 Eb st st1 true HI' H) as [F _]. split; [exact F | discriminate].
  Qed.

  Lemma sound_nil : Qst [].
  Proof.
    intros a a' Han st st' h HI Hex. simpl in Han. inversion Han; subst a'.
    inversion Hex; subst. split; [eapply Inv_Frame; eauto | intros _; exact HI].
  Qed.

  Lemma sound_cons s l : Pst s -> Qst l -> Qst (s :: l).
  Proof.
    intros Ps Ql a a' Han st st' h HI Hex. rewrite an_list_cons in Han.
    destruct (an_stmt fuel s a) as [a1| |] eqn:E1; try discriminate.
    inversion Hex; subst.
    - match goal with Hx : exec_s s st st1 false, Hy : exec_l l st1 st' h |- _ =>
        destruct (Ps a a1 E1 st st1 false HI Hx) as [_ I];
        eapply Ql; [exact Han | apply I; reflexivity | exact Hy] end.
    - match goal with Hx : exec_s s st st' true |- _ =>
        destruct (Ps a a1 E1 st st' true HI Hx) as [F _] end. split; [exact F | discriminate].
  Qed.

  Lemma sound_list : forall l, Qst l.
  Proof.
    apply (list_ind2 Pst Qst); [exact sound_bind | exact sound_write | exact sound_if
                               | exact sound_loop | exact sound_nil | exact sound_cons].
  Qed.
End Soundness.

(* ---------------------------------------------------------------- the theorem *)
Definition pb_of (st : state) (p : var) : buf :=
  match env st p with Some b => b | None => O end.

Lemma frame_ok_sound_general sk ps :
  frame_ok sk ps = true ->
  forall st st', params_bound ps st -> others_apart ps st ->
  exec sk st st' -> params_unchanged ps st st'.
Proof.
  intros Hok st st' HB HA [h Hex] p b Hp Hb.
  unfold frame_ok, analyze, analyze_r in Hok.
  destruct (an_list default_fuel sk (init_amap ps)) as [a'| |] eqn:E; try discriminate.
  assert (HI : Inv ps (pb_of st) (heap st) (init_amap ps) st).
  { split; [|split].
    - intros c [q [Hq Hc]]. destruct (HB q Hq) as [bq [Eq Hin]].
      unfold pb_of in Hc. rewrite Eq in Hc. subst c. exact Hin.
    - intros x c Hx [q [Hq Hc]].
      destruct (in_dec Pos.eq_dec x ps) as [Hin|Hnin].
      + exists x. split; [exact Hin|]. split.
        * unfold pb_of. rewrite Hx. reflexivity.
        * rewrite lookup_init by exact Hin. left; reflexivity.
      + exfalso. destruct (HB q Hq) as [bq [Eq _]].
        unfold pb_of in Hc. rewrite Eq in Hc. subst c.
        exact (HA x q bq Hnin Hq Eq Hx).
    - intros c _. reflexivity. }
  destruct (sound_list ps (pb_of st) (heap st) default_fuel sk (init_amap ps) a' E st st' h HI Hex) as [F _].
  apply F. exists p. split; [exact Hp|]. unfold pb_of. rewrite Hb. reflexivity.
Qed.

(* the form with pairwise distinct parameter buffers (a special case: distinctness is not needed) *)
Lemma frame_ok_sound_distinct sk ps :
  frame_ok sk ps = true ->
  forall st st', params_bound ps st -> params_distinct ps st -> others_apart ps st ->
  exec sk st st' -> params_unchanged ps st st'.
Proof. intros Hok st st' HB _ HA. apply frame_ok_sound_general; assumption. Qed.

(* the analysis result None/ABad is the only way to fail: fuel exhaustion is reported apart *)
Lemma frame_ok_false_cases sk ps :
  frame_ok sk ps = false ->
  (exists x s, analyze_r default_fuel sk (init_amap ps) = ABad x s /\ s <> [])
  \/ analyze_r default_fuel sk (init_amap ps) = AFuel.
Proof.
  unfold frame_ok, analyze. intro H.
  assert (G : forall fuel l a x s, an_list fuel l a = ABad x s -> s <> []).
  { intro fuel. apply (list_ind2
      (fun s => forall a x t, an_stmt fuel s a = ABad x t -> t <> [])
      (fun l => forall a x t, an_list fuel l a = ABad x t -> t <> [])).
    - intros x r a y t E. destruct r; simpl in E; discriminate.
    - intros x a y t E. simpl in E. destruct (lookup a x); [discriminate|]. inversion E. discriminate.
    - intros s1 s2 Q1 Q2 a y t E. rewrite an_stmt_if in E.
      destruct (an_list fuel s1 a) eqn:E1; try discriminate.
      + destruct (an_list fuel s2 a0) eqn:E2; try discriminate.
        destruct (an_list fuel s2 a) eqn:E3; try discriminate. inversion E; subst. eapply Q2; eauto.
        destruct (an_list fuel s2 a) eqn:E3; try discriminate. inversion E; subst. eapply Q2; eauto.
        destruct (an_list fuel s2 a) eqn:E3; try discriminate. inversion E; subst. eapply Q2; eauto.
      + inversion E; subst. eapply Q1; eauto.
    - intros b Qb a y t E. rewrite an_stmt_loop in E.
      revert a E. generalize fuel at 2. intro n. induction n as [|k IH]; intros a E; simpl in E; [discriminate|].
      destruct (an_list fuel b a) eqn:E1; try discriminate.
      + destruct (amap_le a0 a); [discriminate | eapply IH; eauto].
      + inversion E; subst. eapply Qb; eauto.
    - intros a x t E. simpl in E. discriminate.
    - intros s l Ps Ql a x t E. rewrite an_list_cons in E.
      destruct (an_stmt fuel s a) eqn:E1; try discriminate.
      + eapply Ql; eauto.
      + inversion E; subst. eapply Ps; eauto. }
  destruct (analyze_r default_fuel sk (init_amap ps)) as [a|x s|] eqn:E; [discriminate| |right; reflexivity].
  left. exists x, s. split; [reflexivity|]. eapply G. exact E.
Qed.

(* ---------------------------------------------------------------- dynamic checker *)
From EsVerif.Common Require Import Bytes.

Lemma snap_eqb_eq a b : snap_eqb a b = true <-> a = b.
Proof.
  destruct a as [a1 a2], b as [b1 b2]. unfold snap_eqb; simpl.
  rewrite andb_true_iff, !bytes_eqb_eq. split; [intros [-> ->]; reflexivity | intro E; inversion E; auto].
Qed.

Lemma unchanged_check_sound l : unchanged_check l = true -> all_unchanged l.
Proof.
  unfold unchanged_check, all_unchanged. rewrite forallb_forall, Forall_forall.
  intros H p Hp. apply snap_eqb_eq, H, Hp.
Qed.

Lemma unchanged_check_complete l : all_unchanged l -> unchanged_check l = true.
Proof.
  unfold unchanged_check, all_unchanged. rewrite forallb_forall, Forall_forall.
  intros H p Hp. apply snap_eqb_eq, H, Hp.
Qed.

(* C15 — the checker is monotone under refinement (up to fuel): a consequence of soundness, simulation and exactness. *)
From Coq Require Import PArith List Bool Lia PeanoNat.
From EsVerif.C15 Require Import Model Spec Proofs Complete Refine.
Import ListNotations.

(* a canonical admissible start state for any parameter list: parameter p lives in buffer (Pos.to_nat p), nothing else is bound *)
Definition canon_state (ps : list var) : state :=
  mkState (fun x => if existsb (Pos.eqb x) ps then Some (Pos.to_nat x) else None) (fun _ => 0%nat) (map Pos.to_nat ps).

Lemma existsb_In x ps : existsb (Pos.eqb x) ps = true <-> In x ps.
Proof.
  rewrite existsb_exists. split.
  - intros [y [Hy E]]. apply Pos.eqb_eq in E. subst y. exact Hy.
  - intro H. exists x. split; [exact H | apply Pos.eqb_refl].
Qed.

Lemma canon_bound ps : params_bound ps (canon_state ps).
Proof.
  intros p Hp. exists (Pos.to_nat p). unfold canon_state; cbn [env alloc].
  rewrite (proj2 (existsb_In p ps) Hp). split; [reflexivity | apply in_map; exact Hp].
Qed.

Lemma canon_apart ps : others_apart ps (canon_state ps).
Proof.
  intros x p b Hx Hp Hb. unfold canon_state in *; cbn [env] in *.
  destruct (existsb (Pos.eqb x) ps) eqn:E; [apply existsb_In in E; contradiction | discriminate].
Qed.

Lemma frame_ok_monotone sk' sk ps :
  refines sk' sk -> frame_ok sk ps = true ->
  analyze_r default_fuel sk' (init_amap ps) <> AFuel ->
  frame_ok sk' ps = true.
Proof.
  intros R Hok NF.
  apply (proj2 (frame_ok_decides sk' ps NF (canon_state ps) (canon_bound ps) (canon_apart ps))).
  intros st' Hex. eapply refinement_sound; eauto using canon_bound, canon_apart.
Qed.

(* C15 — property theorems only.  Bodies live in Proofs.v. *)
From Coq Require Import PArith ZArith List Bool.
From EsVerif.C15 Require Import Model Spec Proofs Complete Alias NoWrite Sequence Refine Mono Verdict FlowIns Exec ExecProofs.
From EsVerif.Common Require Import Bytes.
From Coq.Strings Require Import Byte.
Import ListNotations.

(* Soundness of the frame checker: if the verified analysis accepts a skeleton for the parameter
   list ps, then in EVERY execution of the skeleton (any branch choices, any number of loop
   iterations, any aliasing choice allowed by MayAlias, any values written, and also every
   execution cut short by an exception) started in a state in which the parameters have
   pairwise distinct existing buffers that no other name refers to, the buffer of every
   parameter has at the end exactly the contents it had at the start. *)
Theorem C15_frame_ok_sound : forall sk ps,
  frame_ok sk ps = true ->
  forall st st', params_bound ps st -> params_distinct ps st -> others_apart ps st ->
  exec sk st st' -> params_unchanged ps st st'.
Proof. exact frame_ok_sound_distinct. Qed.

(* The same without the distinctness premise (two parameters may be the same array). *)
Theorem C15_frame_ok_sound_general : forall sk ps,
  frame_ok sk ps = true ->
  forall st st', params_bound ps st -> others_apart ps st ->
  exec sk st st' -> params_unchanged ps st st'.
Proof. exact frame_ok_sound_general. Qed.

(* A rejected skeleton is rejected for one of two reported reasons: a write through a name whose
   alias set is a NON-EMPTY set of parameters, or a loop that did not stabilise within the fuel. *)
Theorem C15_rejection_reasons : forall sk ps,
  frame_ok sk ps = false ->
  (exists x s, analyze_r default_fuel sk (init_amap ps) = ABad x s /\ s <> [])
  \/ analyze_r default_fuel sk (init_amap ps) = AFuel.
Proof. exact frame_ok_false_cases. Qed.

(* The checker applied to the observed snapshots of the dynamic run decides equality. *)
Theorem C15_unchanged_check_sound : forall l, unchanged_check l = true -> all_unchanged l.
Proof. exact unchanged_check_sound. Qed.

Theorem C15_unchanged_check_complete : forall l, all_unchanged l -> unchanged_check l = true.
Proof. exact unchanged_check_complete. Qed.

(* Exactness of the checker with respect to the skeleton semantics: a rejection for a write (the only
   reason besides fuel, by C15_rejection_reasons) is never an artefact of the abstract domain -- from EVERY
   start state in which the parameters are bound the rejected skeleton has an execution that changes a
   parameter's buffer. *)
Theorem C15_rejection_exact : forall sk ps x s,
  analyze_r default_fuel sk (init_amap ps) = ABad x s ->
  forall st, params_bound ps st ->
  exists st', exec sk st st' /\ ~ params_unchanged ps st st'.
Proof. exact frame_ok_complete. Qed.

(* Decision form: unless the loop analysis ran out of fuel (reported apart, fail closed), frame_ok is true
   EXACTLY when no execution of the skeleton from the given admissible start state changes a parameter. *)
Theorem C15_frame_ok_decides : forall sk ps,
  analyze_r default_fuel sk (init_amap ps) <> AFuel ->
  forall st, params_bound ps st -> others_apart ps st ->
  (frame_ok sk ps = true <-> forall st', exec sk st st' -> params_unchanged ps st st').
Proof. exact frame_ok_decides. Qed.

(* What the verdict of a generated dynamic case means: verdict 0 (the only one that is not reported)
   implies that every observed argument snapshot is unchanged; a changed argument gives a verdict >= 2,
   whatever the static obligation said. *)
Theorem C15_verdict_zero_sound : forall static_ok args, v_dynamic static_ok args = 0%Z -> all_unchanged args.
Proof. exact v_dynamic_zero_sound. Qed.

Theorem C15_verdict_changed : forall static_ok args, ~ all_unchanged args -> (2 <= v_dynamic static_ok args)%Z.
Proof. exact v_dynamic_changed. Qed.

(* (ExecProofs.v_dynamic63_zero_sound states the same for the primitive-integer transport; it is kept out of this
   file because its STATEMENT mentions the primitive type PrimInt63.int, which Print Assumptions lists.) *)

(* Soundness of the ALIAS part of the analysis (what the dynamic correspondence compares with np.shares_memory of
   the real return value): after a completed execution, a name that refers to the buffer of a parameter has a
   parameter with that buffer in its computed alias set. *)
Theorem C15_alias_sound : forall sk ps a',
  analyze sk (init_amap ps) = Some a' ->
  forall st st', params_bound ps st -> others_apart ps st ->
  exec_l sk st st' false ->
  forall x b, env st' x = Some b ->
  (exists p, In p ps /\ env st p = Some b) ->
  exists q, In q ps /\ env st q = Some b /\ In q (lookup a' x).
Proof. exact alias_sound. Qed.

(* ---- non-vacuity -------------------------------------------------------------------------
   def f(a, inplace):                      parameter a = 1
       v = a.view()                        v = 2
       if inplace: out = v  else: out = v.copy()       out = 3
       out.dtype = ...                     write through out
   specialised to inplace=False it is accepted, specialised to inplace=True it is rejected, and
   the rejected one really has an execution (from an admissible state) that changes a's buffer. *)
Definition ex_copy : skeleton := [SBind 2 (MayAlias [1]); SBind 3 Fresh; SWrite 3]%positive.
Definition ex_inplace : skeleton := [SBind 2 (MayAlias [1]); SBind 3 (MayAlias [2]); SWrite 3]%positive.
Definition ex_state : state :=
  mkState (fun x => if Pos.eqb x 1 then Some 0%nat else None) (fun _ => 7%nat) [0%nat].

Example C15_nonvacuous :
  frame_ok ex_copy [1%positive] = true
  /\ frame_ok ex_inplace [1%positive] = false
  /\ params_bound [1%positive] ex_state /\ params_distinct [1%positive] ex_state /\ others_apart [1%positive] ex_state
  /\ (exists st', exec ex_copy ex_state st')
  /\ (exists st', exec ex_inplace ex_state st' /\ ~ params_unchanged [1%positive] ex_state st').
Proof.
  split; [reflexivity|]. split; [reflexivity|].
  split. { intros p [<-|[]]. exists 0%nat. split; [reflexivity | left; reflexivity]. }
  split. { intros p q b [<-|[]] [<-|[]] _ _. reflexivity. }
  split. { intros x p b Hx [<-|[]] Hb. unfold ex_state in *. cbn [env] in *.
           rewrite Pos.eqb_refl in Hb. inversion Hb; subst b.
           destruct (Pos.eqb x 1) eqn:E; [|intro H0; discriminate H0].
           apply Pos.eqb_eq in E. subst x. exfalso. apply Hx. left; reflexivity. }
  split.
  { eexists. exists false. unfold ex_copy.
    eapply XCons. { eapply XBindAlias with (y := 1%positive) (b := 0%nat); [left; reflexivity | reflexivity]. }
    eapply XCons. { eapply XBindFresh with (b := 1%nat) (v := 0%nat). vm_compute. intros [H|[]]. discriminate H. }
    eapply XCons. { eapply XWrite with (b := 1%nat) (v := 9%nat). reflexivity. }
    apply XNil. }
  { eexists. split.
    - exists false. unfold ex_inplace.
      eapply XCons. { eapply XBindAlias with (y := 1%positive) (b := 0%nat); [left; reflexivity | reflexivity]. }
      eapply XCons. { eapply XBindAlias with (y := 2%positive) (b := 0%nat); [left; reflexivity | reflexivity]. }
      eapply XCons. { eapply XWrite with (b := 0%nat) (v := 9%nat). reflexivity. }
      apply XNil.
    - intro H. specialize (H 1%positive 0%nat (or_introl eq_refl) eq_refl). simpl in H. discriminate. }
Qed.

(* ------------------------------------------------------------------------------------------------------------------
   Theorems added in the proof-deepening round
   ------------------------------------------------------------------------------------------------------------------ *)

(* NO WRITE ATTEMPT.  Instrumented semantics (NoWrite.execw): every execution carries the log of the buffers it wrote to.  An
   accepted skeleton never performs a write that TARGETS a parameter's buffer -- not one that stores the value already there, not
   one that a later write undoes (two byte swaps that cancel).  Stronger than "unchanged at the end"; it is what the read-only
   form of the dynamic run observes (numpy refuses such a write). *)
Theorem C15_no_write_attempt : forall sk ps,
  frame_ok sk ps = true ->
  forall st st' w, params_bound ps st -> others_apart ps st ->
  execw sk st st' w ->
  forall p b, In p ps -> env st p = Some b -> ~ In b w.
Proof. exact frame_ok_no_write_attempt. Qed.

(* the log is an annotation of the plain semantics (same executions) ... *)
Theorem C15_write_log_total : forall sk st st', (exists w, execw sk st st' w) <-> exec sk st st'.
Proof. exact execw_exec. Qed.

(* ... and it is faithful: an existing buffer outside the log keeps its contents, existing buffers stay allocated *)
Theorem C15_write_log_faithful : forall l st st' h w, execw_l l st st' h w -> keeps st st' w.
Proof. exact execw_keeps_l. Qed.

(* CALL SEQUENCES (what a `<driver>#seq` obligation proves).  If the concatenation of two call skeletons is accepted for the
   union of their parameter sets, then after the first call has completed -- leaving ANY state: module-level containers, object
   fields, references it kept -- the second call (possibly cut short) leaves the arguments of BOTH calls unchanged ... *)
Theorem C15_sequence_sound : forall sk1 sk2 ps1 ps2,
  frame_ok (sk1 ++ sk2) (ps1 ++ ps2) = true ->
  forall st st1 st2, params_bound (ps1 ++ ps2) st -> others_apart (ps1 ++ ps2) st ->
  exec_l sk1 st st1 false -> exec sk2 st1 st2 ->
  params_unchanged ps1 st st1 /\ params_unchanged (ps1 ++ ps2) st st2.
Proof. exact sequence_sound. Qed.

(* ... and neither call ever attempts a write into any of them *)
Theorem C15_sequence_no_write_attempt : forall sk1 sk2 ps1 ps2,
  frame_ok (sk1 ++ sk2) (ps1 ++ ps2) = true ->
  forall st st1 st2 w1 w2, params_bound (ps1 ++ ps2) st -> others_apart (ps1 ++ ps2) st ->
  execw_l sk1 st st1 false w1 -> execw sk2 st1 st2 w2 ->
  forall p b, In p (ps1 ++ ps2) -> env st p = Some b -> ~ In b w1 /\ ~ In b w2.
Proof. exact sequence_no_write_attempt. Qed.

(* the obligation of a sequence contains the obligation of its first call *)
Theorem C15_frame_ok_prefix : forall sk1 sk2 ps, frame_ok (sk1 ++ sk2) ps = true -> frame_ok sk1 ps = true.
Proof. exact frame_ok_prefix. Qed.

(* HISTORY IS IRRELEVANT for the verdict on one call: whatever ran before (ANY skeleton, accepted or not), if in the state it
   left the call's own arguments are bound and no other name refers to their buffers, the accepted call leaves them alone *)
Theorem C15_history_irrelevant : forall sk0 sk ps,
  frame_ok sk ps = true ->
  forall st0 st st', exec sk0 st0 st ->
  params_bound ps st -> others_apart ps st ->
  exec sk st st' -> params_unchanged ps st st'.
Proof. exact history_irrelevant. Qed.

(* OVER-APPROXIMATION.  [refines l' l]: l' is more specific than l (an `if` resolved to a branch, a loop unrolled or not entered,
   a may-alias set narrowed or replaced by "fresh").  Every execution of the more specific skeleton is an execution of the less
   specific one ... *)
Theorem C15_simulation : forall l' l, refines l' l -> forall st st' h, exec_l l' st st' h -> exec_l l st st' h.
Proof. exact simulation. Qed.

(* ... so an obligation discharged for the extracted skeleton holds for everything it over-approximates: the trust placed in the
   extractor is exactly "the real call's effect skeleton refines the extracted one" *)
Theorem C15_refinement_sound : forall sk' sk ps,
  refines sk' sk -> frame_ok sk ps = true ->
  forall st st', params_bound ps st -> others_apart ps st ->
  exec sk' st st' -> params_unchanged ps st st'.
Proof. exact refinement_sound. Qed.

(* the checker itself is monotone under refinement (up to fuel): soundness + simulation + exactness *)
Theorem C15_frame_ok_monotone : forall sk' sk ps,
  refines sk' sk -> frame_ok sk ps = true ->
  analyze_r default_fuel sk' (init_amap ps) <> AFuel ->
  frame_ok sk' ps = true.
Proof. exact frame_ok_monotone. Qed.

(* THE VERDICT, EXACTLY (Verdict.verdict_spec is what the generated cases evaluate, on decoded snapshots; ExecProofs.v_case_spec).
   0 <-> no refused write into a read-only argument, every observed argument unchanged, and (when the model predicts) the real
   return value shares memory only with predicted parameters;  >= 2 <-> a refused write or a changed argument;  1 <-> nothing
   modified but sharing outside the prediction *)
Theorem C15_verdict_zero_exact : forall ro ok pred obs args,
  verdict_spec ro ok pred obs args = 0%Z <-> ro = false /\ all_unchanged args /\ (ok = true -> incl obs pred).
Proof. exact verdict_spec_zero. Qed.

Theorem C15_verdict_failing_exact : forall ro ok pred obs args,
  (2 <= verdict_spec ro ok pred obs args)%Z <-> ro = true \/ ~ all_unchanged args.
Proof. exact verdict_spec_failing. Qed.

Theorem C15_verdict_one_exact : forall ro ok pred obs args,
  verdict_spec ro ok pred obs args = 1%Z <-> ro = false /\ all_unchanged args /\ ok = true /\ ~ incl obs pred.
Proof. exact verdict_spec_one. Qed.

(* ---- non-vacuity of the new statements ---------------------------------------------------------------------------- *)
(* the accepted skeleton has a logged execution whose log is exactly the fresh buffer it wrote (so logs are not empty by
   construction), and the parameter's buffer 0 is not in it *)
Example C15_log_nonvacuous :
  exists st', execw ex_copy ex_state st' [1%nat] /\ ~ In 0%nat [1%nat].
Proof.
  eexists. split.
  - exists false. unfold ex_copy.
    change [1%nat] with ([] ++ [] ++ [1%nat] ++ @nil nat).
    eapply WCons. { eapply WBindAlias with (y := 1%positive) (b := 0%nat); [left; reflexivity | reflexivity]. }
    eapply WCons. { eapply WBindFresh with (b := 1%nat) (v := 0%nat). vm_compute. intros [H|[]]. discriminate H. }
    eapply WCons. { eapply WWrite with (b := 1%nat) (v := 9%nat). reflexivity. }
    apply WNil.
  - intros [H|[]]. discriminate H.
Qed.

(* a sequence obligation is strictly stronger than the two single-call obligations: the first call stores its argument in a
   module-level name (10), the second writes through that name.  Each call alone is accepted; the sequence is rejected; and a
   sequence in which the second call only writes fresh memory is accepted. *)
Definition seq_keep : skeleton := [SBind 10 (MayAlias [1])]%positive.          (* g := a *)
Definition seq_bad2 : skeleton := [SBind 11 (MayAlias [2]); SWrite 10]%positive.    (* v := b ; write through g *)
Definition seq_good2 : skeleton := [SBind 11 (MayAlias [2]); SBind 12 Fresh; SWrite 12]%positive.
Example C15_sequence_nonvacuous :
  frame_ok seq_keep [1%positive] = true /\ frame_ok seq_bad2 [2%positive] = true
  /\ frame_ok (seq_keep ++ seq_bad2) [1%positive; 2%positive] = false
  /\ frame_ok (seq_keep ++ seq_good2) ([1%positive] ++ [2%positive]) = true.
Proof. repeat split; reflexivity. Qed.

(* refinement: the extracted skeleton keeps both branches of an option and a loop; the specific one took the second branch and ran
   the loop once.  The general one is accepted, the specific one refines it. *)
Definition gen_sk : skeleton :=
  [SBind 2 (MayAlias [1; 5]); SIf [SBind 3 Fresh] [SBind 3 Fresh; SWrite 3]; SLoop [SWrite 3]]%positive.
Definition spec_sk : skeleton := [SBind 2 (MayAlias [1]); SBind 3 Fresh; SWrite 3; SWrite 3]%positive.
Example C15_refinement_nonvacuous : frame_ok gen_sk [1%positive] = true /\ refines spec_sk gen_sk.
Proof.
  split; [reflexivity|]. unfold spec_sk, gen_sk.
  apply RCons. { apply RBindSub. intros y [<-|[]]. left; reflexivity. }
  change [SBind 3%positive Fresh; SWrite 3%positive; SWrite 3%positive]
    with ([SBind 3%positive Fresh; SWrite 3%positive] ++ [SWrite 3%positive]).
  apply RIfR. { apply refines_refl. }
  change [SWrite 3%positive] with ([SWrite 3%positive] ++ []).
  apply RLoopUnroll. { apply refines_refl. }
  apply RLoopSkip. apply RNil.
Qed.

(* the verdict table on concrete snapshots *)
Example C15_verdict_nonvacuous :
  let a := ([x01; x02], [x61]) in let b := ([x01; x03], [x61]) in
  verdict_spec false true [1%Z] [1%Z] [(a, a)] = 0%Z /\ verdict_spec false true [] [1%Z] [(a, a)] = 1%Z
  /\ verdict_spec false false [] [] [(a, b)] = 2%Z /\ verdict_spec false true [] [] [(a, b)] = 3%Z
  /\ verdict_spec true true [] [] [(a, a)] = 3%Z.
Proof. vm_compute. repeat split; reflexivity. Qed.

(* Round 6.  A flow-insensitive may-alias CERTIFICATE: E (name -> set of parameters) contains every parameter in its own set and is
   closed under every `x := MayAlias ys` statement anywhere in the skeleton (fi_ok, a boolean check evaluated on every run for every
   extracted skeleton).  Then in EVERY state reached by ANY execution -- also one cut short -- a name that refers to the buffer of a
   parameter has a parameter with that buffer in E x.  E is what the alias trace of the real calls (sys.settrace) is compared with. *)
Theorem C15_flow_insensitive_alias_sound : forall sk ps E,
  fi_ok sk ps E = true ->
  forall st st', params_bound ps st -> others_apart ps st ->
  exec sk st st' ->
  forall x b, env st' x = Some b ->
  (exists p, In p ps /\ env st p = Some b) ->
  exists q, In q ps /\ env st q = Some b /\ In q (lookup E x).
Proof. exact fi_ok_sound. Qed.

Example C15_flow_insensitive_nonvacuous :
  fi_ok [SBind 2 (MayAlias [1]); SIf [SBind 3 (MayAlias [2])] [SBind 3 Fresh]; SBind 4 (MayAlias [3])]%positive [1%positive]
        [(1, [1]); (2, [1]); (3, [1]); (4, [1])]%positive = true
  /\ fi_ok [SBind 2 (MayAlias [1])]%positive [1%positive] [(1, [1])]%positive = false.
Proof. exact fi_ok_example. Qed.

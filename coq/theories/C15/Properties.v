(* C15 — property theorems only.  Bodies live in Proofs.v. *)
From Coq Require Import PArith ZArith List Bool.
From EsVerif.C15 Require Import Model Spec Proofs Complete Alias Exec ExecProofs.
Import ListNotations.

(* Soundness of the frame checker: if the verified analysis accepts a skeleton for the parameter
   list ps, then in EVERY execution of the skeleton (any branch choices, any number of loop
   iterations, any aliasing choice allowed by MayAlias, any values written, and also every
   execution cut short by an exception) started in a state in which the parameters have
   pairwise distinct existing buffers that no other name refers to, the buffer of every
   parameter has at the end exactly the contents it had at the start. *)
Theorem C15_frame_ok_sound : forall sk ps,
  frame_ok sk ps = true ->
  forall st st', params_bound ps st -> params_distinct ps st -> others_apart ps st ->
  exec sk st st' -> params_unchanged ps st st'.
Proof. exact frame_ok_sound_distinct. Qed.

(* The same without the distinctness premise (two parameters may be the same array). *)
Theorem C15_frame_ok_sound_general : forall sk ps,
  frame_ok sk ps = true ->
  forall st st', params_bound ps st -> others_apart ps st ->
  exec sk st st' -> params_unchanged ps st st'.
Proof. exact frame_ok_sound_general. Qed.

(* A rejected skeleton is rejected for one of two reported reasons: a write through a name whose
   alias set is a NON-EMPTY set of parameters, or a loop that did not stabilise within the fuel. *)
Theorem C15_rejection_reasons : forall sk ps,
  frame_ok sk ps = false ->
  (exists x s, analyze_r default_fuel sk (init_amap ps) = ABad x s /\ s <> [])
  \/ analyze_r default_fuel sk (init_amap ps) = AFuel.
Proof. exact frame_ok_false_cases. Qed.

(* The checker applied to the observed snapshots of the dynamic run decides equality. *)
Theorem C15_unchanged_check_sound : forall l, unchanged_check l = true -> all_unchanged l.
Proof. exact unchanged_check_sound. Qed.

Theorem C15_unchanged_check_complete : forall l, all_unchanged l -> unchanged_check l = true.
Proof. exact unchanged_check_complete. Qed.

(* Exactness of the checker with respect to the skeleton semantics: a rejection for a write (the only
   reason besides fuel, by C15_rejection_reasons) is never an artefact of the abstract domain -- from EVERY
   start state in which the parameters are bound the rejected skeleton has an execution that changes a
   parameter's buffer. *)
Theorem C15_rejection_exact : forall sk ps x s,
  analyze_r default_fuel sk (init_amap ps) = ABad x s ->
  forall st, params_bound ps st ->
  exists st', exec sk st st' /\ ~ params_unchanged ps st st'.
Proof. exact frame_ok_complete. Qed.

(* Decision form: unless the loop analysis ran out of fuel (reported apart, fail closed), frame_ok is true
   EXACTLY when no execution of the skeleton from the given admissible start state changes a parameter. *)
Theorem C15_frame_ok_decides : forall sk ps,
  analyze_r default_fuel sk (init_amap ps) <> AFuel ->
  forall st, params_bound ps st -> others_apart ps st ->
  (frame_ok sk ps = true <-> forall st', exec sk st st' -> params_unchanged ps st st').
Proof. exact frame_ok_decides. Qed.

(* What the verdict of a generated dynamic case means: verdict 0 (the only one that is not reported)
   implies that every observed argument snapshot is unchanged; a changed argument gives a verdict >= 2,
   whatever the static obligation said. *)
Theorem C15_verdict_zero_sound : forall static_ok args, v_dynamic static_ok args = 0%Z -> all_unchanged args.
Proof. exact v_dynamic_zero_sound. Qed.

Theorem C15_verdict_changed : forall static_ok args, ~ all_unchanged args -> (2 <= v_dynamic static_ok args)%Z.
Proof. exact v_dynamic_changed. Qed.

(* (ExecProofs.v_dynamic63_zero_sound states the same for the primitive-integer transport; it is kept out of this
   file because its STATEMENT mentions the primitive type PrimInt63.int, which Print Assumptions lists.) *)

(* Soundness of the ALIAS part of the analysis (what the dynamic correspondence compares with np.shares_memory of
   the real return value): after a completed execution, a name that refers to the buffer of a parameter has a
   parameter with that buffer in its computed alias set. *)
Theorem C15_alias_sound : forall sk ps a',
  analyze sk (init_amap ps) = Some a' ->
  forall st st', params_bound ps st -> others_apart ps st ->
  exec_l sk st st' false ->
  forall x b, env st' x = Some b ->
  (exists p, In p ps /\ env st p = Some b) ->
  exists q, In q ps /\ env st q = Some b /\ In q (lookup a' x).
Proof. exact alias_sound. Qed.

(* ---- non-vacuity -------------------------------------------------------------------------
   def f(a, inplace):                      parameter a = 1
       v = a.view()                        v = 2
       if inplace: out = v  else: out = v.copy()       out = 3
       out.dtype = ...                     write through out
   specialised to inplace=False it is accepted, specialised to inplace=True it is rejected, and
   the rejected one really has an execution (from an admissible state) that changes a's buffer. *)
Definition ex_copy : skeleton := [SBind 2 (MayAlias [1]); SBind 3 Fresh; SWrite 3]%positive.
Definition ex_inplace : skeleton := [SBind 2 (MayAlias [1]); SBind 3 (MayAlias [2]); SWrite 3]%positive.
Definition ex_state : state :=
  mkState (fun x => if Pos.eqb x 1 then Some 0%nat else None) (fun _ => 7%nat) [0%nat].

Example C15_nonvacuous :
  frame_ok ex_copy [1%positive] = true
  /\ frame_ok ex_inplace [1%positive] = false
  /\ params_bound [1%positive] ex_state /\ params_distinct [1%positive] ex_state /\ others_apart [1%positive] ex_state
  /\ (exists st', exec ex_copy ex_state st')
  /\ (exists st', exec ex_inplace ex_state st' /\ ~ params_unchanged [1%positive] ex_state st').
Proof.
  split; [reflexivity|]. split; [reflexivity|].
  split. { intros p [<-|[]]. exists 0%nat. split; [reflexivity | left; reflexivity]. }
  split. { intros p q b [<-|[]] [<-|[]] _ _. reflexivity. }
  split. { intros x p b Hx [<-|[]] Hb. unfold ex_state in *. cbn [env] in *.
           rewrite Pos.eqb_refl in Hb. inversion Hb; subst b.
           destruct (Pos.eqb x 1) eqn:E; [|intro H0; discriminate H0].
           apply Pos.eqb_eq in E. subst x. exfalso. apply Hx. left; reflexivity. }
  split.
  { eexists. exists false. unfold ex_copy.
    eapply XCons. { eapply XBindAlias with (y := 1%positive) (b := 0%nat); [left; reflexivity | reflexivity]. }
    eapply XCons. { eapply XBindFresh with (b := 1%nat) (v := 0%nat). vm_compute. intros [H|[]]. discriminate H. }
    eapply XCons. { eapply XWrite with (b := 1%nat) (v := 9%nat). reflexivity. }
    apply XNil. }
  { eexists. split.
    - exists false. unfold ex_inplace.
      eapply XCons. { eapply XBindAlias with (y := 1%positive) (b := 0%nat); [left; reflexivity | reflexivity]. }
      eapply XCons. { eapply XBindAlias with (y := 2%positive) (b := 0%nat); [left; reflexivity | reflexivity]. }
      eapply XCons. { eapply XWrite with (b := 0%nat) (v := 9%nat). reflexivity. }
      apply XNil.
    - intro H. specialize (H 1%positive 0%nat (or_introl eq_refl) eq_refl). simpl in H. discriminate. }
Qed.

(* C15 — instrumented semantics: every execution carries the LOG of the buffers it wrote to.
   The frame checker does not only guarantee that the parameters' buffers have their initial contents at the end
   (Proofs.frame_ok_sound_general): no execution of an accepted skeleton ever performs a write that TARGETS a
   parameter's buffer -- not even one that stores the value already there, or one that a later write undoes (two
   byte swaps that cancel).  This is what the read-only form of the dynamic run observes: numpy refuses such a
   write with "... is read-only". *)
From Coq Require Import PArith List Bool Lia PeanoNat.
From EsVerif.C15 Require Import Model Spec Proofs.
Import ListNotations.

Inductive execw_s : stmt -> state -> state -> bool -> list buf -> Prop :=
| WHalt : forall s st, execw_s s st st true []
| WBindFresh : forall x r st b v,
    ~ In b (alloc st) ->
    execw_s (SBind x r) st (mkState (upd_env (env st) x b) (upd_heap (heap st) b v) (b :: alloc st)) false []
| WBindAlias : forall x ys y b st,
    In y ys -> env st y = Some b ->
    execw_s (SBind x (MayAlias ys)) st (mkState (upd_env (env st) x b) (heap st) (alloc st)) false []
| WWrite : forall x b v st,
    env st x = Some b ->
    execw_s (SWrite x) st (mkState (env st) (upd_heap (heap st) b v) (alloc st)) false [b]
| WWriteUnbound : forall x st,
    env st x = None -> execw_s (SWrite x) st st false []
| WIfL : forall s1 s2 st st' h w, execw_l s1 st st' h w -> execw_s (SIf s1 s2) st st' h w
| WIfR : forall s1 s2 st st' h w, execw_l s2 st st' h w -> execw_s (SIf s1 s2) st st' h w
| WLoopDone : forall b st, execw_s (SLoop b) st st false []
| WLoopStep : forall b st st1 st2 h w1 w2,
    execw_l b st st1 false w1 -> execw_s (SLoop b) st1 st2 h w2 -> execw_s (SLoop b) st st2 h (w1 ++ w2)
| WLoopHalt : forall b st st1 w, execw_l b st st1 true w -> execw_s (SLoop b) st st1 true w
with execw_l : list stmt -> state -> state -> bool -> list buf -> Prop :=
| WNil : forall st, execw_l [] st st false []
| WCons : forall s r st st1 st2 h w1 w2,
    execw_s s st st1 false w1 -> execw_l r st1 st2 h w2 -> execw_l (s :: r) st st2 h (w1 ++ w2)
| WConsHalt : forall s r st st1 w, execw_s s st st1 true w -> execw_l (s :: r) st st1 true w.

Scheme execw_s_mut := Induction for execw_s Sort Prop
with execw_l_mut := Induction for execw_l Sort Prop.

Scheme exec_s_mut := Induction for exec_s Sort Prop
with exec_l_mut := Induction for exec_l Sort Prop.

(* ---------------------------------------------------------------- the log is an annotation: same executions *)
Lemma execw_erase_l : forall l st st' h w, execw_l l st st' h w -> exec_l l st st' h.
Proof.
  intros l st st' h w H.
  induction H using execw_l_mut with
    (P := fun s st st' h w (_ : execw_s s st st' h w) => exec_s s st st' h);
    try (econstructor; eassumption).
Qed.

Lemma exec_annotate_l : forall l st st' h, exec_l l st st' h -> exists w, execw_l l st st' h w.
Proof.
  intros l st st' h H.
  induction H using exec_l_mut with
    (P := fun s st st' h (_ : exec_s s st st' h) => exists w, execw_s s st st' h w).
  - eexists; apply WHalt.
  - eexists; apply WBindFresh; assumption.
  - eexists; eapply WBindAlias; eassumption.
  - eexists; apply WWrite; assumption.
  - eexists; apply WWriteUnbound; assumption.
  - destruct IHexec_l as [w Hw]. eexists; apply WIfL; eassumption.
  - destruct IHexec_l as [w Hw]. eexists; apply WIfR; eassumption.
  - eexists; apply WLoopDone.
  - destruct IHexec_l as [w1 H1]. destruct IHexec_l0 as [w2 H2]. eexists; eapply WLoopStep; eassumption.
  - destruct IHexec_l as [w Hw]. eexists; apply WLoopHalt; eassumption.
  - eexists; apply WNil.
  - destruct IHexec_l as [w1 H1]. destruct IHexec_l0 as [w2 H2]. eexists; eapply WCons; eassumption.
  - destruct IHexec_l as [w Hw]. eexists; apply WConsHalt; eassumption.
Qed.

Lemma execw_erase_s : forall s st st' h w, execw_s s st st' h w -> exec_s s st st' h.
Proof.
  intros s st st' h w H.
  induction H using execw_s_mut with
    (P0 := fun l st st' h w (_ : execw_l l st st' h w) => exec_l l st st' h);
    try (econstructor; eassumption).
Qed.

(* ---------------------------------------------------------------- no write ever targets a parameter buffer *)
Section NoWrite.
  Variable ps : list var.
  Variable pb : var -> buf.
  Variable h0 : buf -> nat.
  Variable fuel : nat.

  Notation isP := (isP ps pb).
  Notation Inv := (Inv ps pb h0).

  Lemma sound_stmt : forall s, Pst ps pb h0 fuel s.
  Proof.
    apply (stmt_ind2 (Pst ps pb h0 fuel) (Qst ps pb h0 fuel));
      [apply sound_bind | apply sound_write | apply sound_if | apply sound_loop | apply sound_nil | apply sound_cons].
  Qed.

  Definition clean (w : list buf) : Prop := forall b, In b w -> ~ isP b.

  Lemma clean_nil : clean [].
  Proof. intros b []. Qed.

  Lemma clean_app w1 w2 : clean w1 -> clean w2 -> clean (w1 ++ w2).
  Proof. intros H1 H2 b Hb. apply in_app_or in Hb. destruct Hb; [apply H1 | apply H2]; assumption. Qed.

  Definition Pw (s : stmt) : Prop :=
    forall a a', an_stmt fuel s a = AOk a' ->
    forall st st' h w, Inv a st -> execw_s s st st' h w -> clean w.

  Definition Qw (l : list stmt) : Prop :=
    forall a a', an_list fuel l a = AOk a' ->
    forall st st' h w, Inv a st -> execw_l l st st' h w -> clean w.

  Lemma nw_bind x r : Pw (SBind x r).
  Proof. intros a a' _ st st' h w _ Hex. inversion Hex; subst; apply clean_nil. Qed.

  Lemma nw_write x : Pw (SWrite x).
  Proof.
    intros a a' Han st st' h w HI Hex. simpl in Han.
    destruct (lookup a x) as [|p0 t] eqn:L; [|discriminate].
    inversion Hex; subst; try apply clean_nil.
    intros c [<-|[]] Hc. destruct HI as [_ [I2 _]].
    match goal with Hx : env st x = Some b |- _ => destruct (I2 x b Hx Hc) as [p [_ [_ Hin]]] end.
    rewrite L in Hin. destruct Hin.
  Qed.

  Lemma nw_if s1 s2 : Qw s1 -> Qw s2 -> Pw (SIf s1 s2).
  Proof.
    intros Q1 Q2 a a' Han st st' h w HI Hex. rewrite an_stmt_if in Han.
    destruct (an_list fuel s1 a) as [a1| |] eqn:E1; try discriminate.
    destruct (an_list fuel s2 a) as [a2| |] eqn:E2; try discriminate.
    inversion Hex; subst; try apply clean_nil.
    - eapply Q1; eauto.
    - eapply Q2; eauto.
  Qed.

  Lemma nw_loop b : Qw b -> Pw (SLoop b).
  Proof.
    intros Qb a a' Han st st' h w HI Hex. rewrite an_stmt_loop in Han.
    apply an_loop_spec in Han. destruct Han as [L [a2 [Eb L2]]].
    assert (HI' : Inv a' st) by exact (Inv_mono ps pb h0 a a' st L HI). clear HI L a.
    remember (SLoop b) as s eqn:Es. revert Es HI'.
    induction Hex; intros Es HI'; try discriminate; try apply clean_nil.
    - inversion Es; subst b0. apply clean_app.
      + eapply Qb; eauto.
      + apply IHHex; [reflexivity|].
        match goal with He : execw_l b st st1 false _ |- _ =>
          destruct (sound_list ps pb h0 fuel b a' a2 Eb st st1 false HI' (execw_erase_l _ _ _ _ _ He)) as [_ I] end.
        eapply Inv_mono; [exact L2 | apply I; reflexivity].
    - inversion Es; subst b0. eapply Qb; eauto.
  Qed.

  Lemma nw_nil : Qw [].
  Proof. intros a a' _ st st' h w _ Hex. inversion Hex; subst. apply clean_nil. Qed.

  Lemma nw_cons s l : Pw s -> Qw l -> Qw (s :: l).
  Proof.
    intros Ps Ql a a' Han st st' h w HI Hex. rewrite an_list_cons in Han.
    destruct (an_stmt fuel s a) as [a1| |] eqn:E1; try discriminate.
    inversion Hex; subst.
    - apply clean_app.
      + eapply Ps; eauto.
      + match goal with Hx : execw_s s st st1 false _ |- _ =>
          destruct (sound_stmt s a a1 E1 st st1 false HI (execw_erase_s _ _ _ _ _ Hx)) as [_ I] end.
        eapply Ql; [exact Han | apply I; reflexivity | eassumption].
    - eapply Ps; eauto.
  Qed.

  Lemma nw_list : forall l, Qw l.
  Proof.
    apply (list_ind2 Pw Qw); [exact nw_bind | exact nw_write | exact nw_if | exact nw_loop | exact nw_nil | exact nw_cons].
  Qed.
End NoWrite.

(* ---------------------------------------------------------------- the theorem *)
Definition execw (sk : skeleton) (st st' : state) (w : list buf) : Prop := exists h, execw_l sk st st' h w.

Lemma frame_ok_no_write_attempt sk ps :
  frame_ok sk ps = true ->
  forall st st' w, params_bound ps st -> others_apart ps st ->
  execw sk st st' w ->
  forall p b, In p ps -> env st p = Some b -> ~ In b w.
Proof.
  intros Hok st st' w HB HA [h Hex] p b Hp Hb Hin.
  unfold frame_ok, analyze, analyze_r in Hok.
  destruct (an_list default_fuel sk (init_amap ps)) as [a'| |] eqn:E; try discriminate.
  assert (HI : Inv ps (pb_of st) (heap st) (init_amap ps) st).
  { split; [|split].
    - intros c [q [Hq Hc]]. destruct (HB q Hq) as [bq [Eq Hi]].
      unfold pb_of in Hc. rewrite Eq in Hc. subst c. exact Hi.
    - intros x c Hx [q [Hq Hc]].
      destruct (in_dec Pos.eq_dec x ps) as [Hi|Hn].
      + exists x. split; [exact Hi|]. split.
        * unfold pb_of. rewrite Hx. reflexivity.
        * rewrite lookup_init by exact Hi. left; reflexivity.
      + exfalso. destruct (HB q Hq) as [bq [Eq _]].
        unfold pb_of in Hc. rewrite Eq in Hc. subst c.
        exact (HA x q bq Hn Hq Eq Hx).
    - intros c _. reflexivity. }
  apply (nw_list ps (pb_of st) (heap st) default_fuel sk (init_amap ps) a' E st st' h w HI Hex b Hin).
  exists p. split; [exact Hp|]. unfold pb_of. rewrite Hb. reflexivity.
Qed.

(* the log covers every execution of the plain semantics, and nothing else *)
Lemma execw_exec sk st st' : (exists w, execw sk st st' w) <-> exec sk st st'.
Proof.
  split.
  - intros [w [h H]]. exists h. eapply execw_erase_l; eauto.
  - intros [h H]. destruct (exec_annotate_l _ _ _ _ H) as [w Hw]. exists w, h. exact Hw.
Qed.


(* the log is faithful: an existing buffer that is not in the log keeps its contents (so the log cannot be "too small"),
   and existing buffers stay allocated *)
Definition keeps (st st' : state) (w : list buf) : Prop :=
  (forall c, In c (alloc st) -> In c (alloc st')) /\
  (forall c, In c (alloc st) -> ~ In c w -> heap st' c = heap st c).

Lemma keeps_refl st : keeps st st [].
Proof. split; intros; [assumption | reflexivity]. Qed.

Lemma keeps_trans st st1 st2 w1 w2 : keeps st st1 w1 -> keeps st1 st2 w2 -> keeps st st2 (w1 ++ w2).
Proof.
  intros [A1 H1] [A2 H2]. split.
  - intros c Hc. apply A2, A1, Hc.
  - intros c Hc Hn. rewrite H2; [apply H1; [exact Hc|] | apply A1, Hc |].
    + intro Hi. apply Hn. apply in_or_app. left; exact Hi.
    + intro Hi. apply Hn. apply in_or_app. right; exact Hi.
Qed.

Lemma execw_keeps_l : forall l st st' h w, execw_l l st st' h w -> keeps st st' w.
Proof.
  intros l st st' h w H.
  induction H using execw_l_mut with
    (P := fun s st st' h w (_ : execw_s s st st' h w) => keeps st st' w);
    try apply keeps_refl; try assumption; try (eapply keeps_trans; eassumption).
  - (* fresh *) split; cbn [alloc heap].
    + intros c Hc. right; exact Hc.
    + intros c Hc _. unfold upd_heap. destruct (Nat.eqb c b) eqn:E; [|reflexivity].
      apply Nat.eqb_eq in E; subst c. contradiction.
  - (* alias *) split; cbn [alloc heap]; intros; [assumption | reflexivity].
  - (* write *) split; cbn [alloc heap].
    + intros c Hc; exact Hc.
    + intros c Hc Hn. unfold upd_heap. destruct (Nat.eqb c b) eqn:E; [|reflexivity].
      apply Nat.eqb_eq in E; subst c. exfalso. apply Hn. left; reflexivity.
Qed.

(* so the no-write theorem implies the final-state theorem again (a second, independent route to frame_ok_sound_general) *)
Lemma no_write_implies_unchanged sk ps :
  frame_ok sk ps = true ->
  forall st st', params_bound ps st -> others_apart ps st ->
  exec sk st st' -> params_unchanged ps st st'.
Proof.
  intros Hok st st' HB HA Hex p b Hp Hb.
  apply execw_exec in Hex. destruct Hex as [w [h Hw]].
  destruct (execw_keeps_l _ _ _ _ _ Hw) as [_ K]. apply K.
  - destruct (HB p Hp) as [b' [E Hin]]. rewrite Hb in E. inversion E; subst b'. exact Hin.
  - eapply frame_ok_no_write_attempt; eauto. exists h; exact Hw.
Qed.

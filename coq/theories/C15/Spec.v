(* C15 — the property as Props over the skeleton semantics. *)
From Coq Require Import PArith List Bool.
From EsVerif.C15 Require Import Model.
Import ListNotations.

(* every parameter is bound to an existing buffer *)
Definition params_bound (ps : list var) (st : state) : Prop :=
  forall p, In p ps -> exists b, env st p = Some b /\ In b (alloc st).

(* no name other than a parameter refers to a parameter's buffer when the call starts
   (locals are unbound; module globals and EXEMPT arguments live in other buffers) *)
Definition others_apart (ps : list var) (st : state) : Prop :=
  forall x p b, ~ In x ps -> In p ps -> env st p = Some b -> env st x <> Some b.

(* the parameters have pairwise distinct buffers *)
Definition params_distinct (ps : list var) (st : state) : Prop :=
  forall p q b, In p ps -> In q ps -> env st p = Some b -> env st q = Some b -> p = q.

(* the buffer every parameter had at the start has the same contents at the end *)
Definition params_unchanged (ps : list var) (st st' : state) : Prop :=
  forall p b, In p ps -> env st p = Some b -> heap st' b = heap st b.

(* ------------------------------------------------------------------------------------------
   Dynamic observation: a snapshot of one array argument = the bytes of its whole underlying
   buffer + a canonical text of (dtype incl. byte order, shape, strides, writeable flag).
   "bit-for-bit unchanged in data, dtype and byte order" = the two snapshots are equal. *)
From Coq.Strings Require Import Byte.
From EsVerif.Common Require Import Bytes.

Definition snap := (list byte * list byte)%type.

Definition arg_unchanged (p : snap * snap) : Prop := fst p = snd p.

Definition all_unchanged (l : list (snap * snap)) : Prop := Forall arg_unchanged l.

Definition snap_eqb (a b : snap) : bool := bytes_eqb (fst a) (fst b) && bytes_eqb (snd a) (snd b).

Definition unchanged_check (l : list (snap * snap)) : bool :=
  forallb (fun p => snap_eqb (fst p) (snd p)) l.

(* C15 — what "the extractor over-approximates" means, and why it suffices.
   [refines l' l]: the skeleton l' is MORE SPECIFIC than l -- an `if` resolved to one of its branches (a constant-folded option, a
   condition that is known), a loop unrolled some number of times (or not entered), a may-alias set narrowed, a may-alias replaced by
   "fresh".  Every execution of the more specific skeleton is an execution of the less specific one (simulation), so an obligation
   discharged for the extracted skeleton holds for every skeleton it over-approximates -- in particular for the (unknown) exact
   skeleton of the real call, PROVIDED the extracted one over-approximates it.  That proviso is the precise content of the trust
   placed in the extractor. *)
From Coq Require Import PArith List Bool Lia PeanoNat.
From EsVerif.C15 Require Import Model Spec Proofs.
Import ListNotations.

Inductive refines_s : stmt -> stmt -> Prop :=
| RBindAny : forall x r, refines_s (SBind x Fresh) (SBind x r)
| RBindSub : forall x ys' ys, incl ys' ys -> refines_s (SBind x (MayAlias ys')) (SBind x (MayAlias ys))
| RWrite : forall x, refines_s (SWrite x) (SWrite x)
| RIf : forall a' b' a b, refines a' a -> refines b' b -> refines_s (SIf a' b') (SIf a b)
| RLoop : forall b' b, refines b' b -> refines_s (SLoop b') (SLoop b)
with refines : list stmt -> list stmt -> Prop :=
| RNil : refines [] []
| RCons : forall s' s l' l, refines_s s' s -> refines l' l -> refines (s' :: l') (s :: l)
| RIfL : forall a' a b l' l, refines a' a -> refines l' l -> refines (a' ++ l') (SIf a b :: l)
| RIfR : forall b' a b l' l, refines b' b -> refines l' l -> refines (b' ++ l') (SIf a b :: l)
| RLoopSkip : forall b l' l, refines l' l -> refines l' (SLoop b :: l)
| RLoopUnroll : forall b' b l' l, refines b' b -> refines l' (SLoop b :: l) -> refines (b' ++ l') (SLoop b :: l).

Scheme refines_s_mut := Induction for refines_s Sort Prop
with refines_mut := Induction for refines Sort Prop.

(* an execution of l1 ++ l2: cut short inside l1, or l1 completed and then an execution of l2 *)
Lemma exec_l_app_inv l1 : forall l2 st st2 h,
  exec_l (l1 ++ l2) st st2 h ->
  (h = true /\ exec_l l1 st st2 true) \/ (exists st1, exec_l l1 st st1 false /\ exec_l l2 st1 st2 h).
Proof.
  induction l1 as [|s r IH]; intros l2 st st2 h H.
  - right. exists st. split; [apply XNil | exact H].
  - simpl in H. inversion H; subst.
    + match goal with Hr : exec_l (r ++ l2) _ _ _ |- _ => destruct (IH _ _ _ _ Hr) as [[-> Hh]|[stm [Ha Hb]]] end.
      * left. split; [reflexivity|]. eapply XCons; eassumption.
      * right. exists stm. split; [eapply XCons; eassumption | exact Hb].
    + left. split; [reflexivity|]. apply XConsHalt. assumption.
Qed.

Lemma exec_loop_prepend b st st1 st2 h :
  exec_l b st st1 false -> exec_l (SLoop b :: nil) st1 st2 h -> exec_l (SLoop b :: nil) st st2 h.
Proof.
  intros Hb H. inversion H; subst.
  - match goal with Hn : exec_l [] _ _ _ |- _ => inversion Hn; subst end.
    eapply XCons; [eapply XLoopStep; eassumption | apply XNil].
  - apply XConsHalt. eapply XLoopStep; eassumption.
Qed.

(* the same with a tail *)
Lemma exec_cons_loop_prepend b l st st1 st2 h :
  exec_l b st st1 false -> exec_l (SLoop b :: l) st1 st2 h -> exec_l (SLoop b :: l) st st2 h.
Proof.
  intros Hb H. inversion H; subst.
  - eapply XCons; [eapply XLoopStep; eassumption | eassumption].
  - apply XConsHalt. eapply XLoopStep; eassumption.
Qed.

Lemma simulation : forall l' l, refines l' l -> forall st st' h, exec_l l' st st' h -> exec_l l st st' h.
Proof.
  apply (refines_mut
    (fun s' s (_ : refines_s s' s) => forall st st' h, exec_s s' st st' h -> exec_s s st st' h)
    (fun l' l (_ : refines l' l) => forall st st' h, exec_l l' st st' h -> exec_l l st st' h)).
  - (* fresh for any rhs *) intros x r st st' h H. inversion H; subst; [apply XHalt | apply XBindFresh; assumption].
  - (* narrower alias set *) intros x ys' ys Hi st st' h H. inversion H; subst.
    + apply XHalt.
    + apply XBindFresh; assumption.
    + eapply XBindAlias; [apply Hi; eassumption | assumption].
  - intros x st st' h H; exact H.
  - (* if *) intros a' b' a b _ IHa _ IHb st st' h H. inversion H; subst; [apply XHalt | apply XIfL; auto | apply XIfR; auto].
  - (* loop *) intros b' b _ IHb st st' h H. remember (SLoop b') as s eqn:Es. revert Es.
    induction H; intro Es; try discriminate.
    + apply XHalt.
    + apply XLoopDone.
    + inversion Es; subst b0. eapply XLoopStep; [apply IHb; eassumption | apply IHexec_s; reflexivity].
    + inversion Es; subst b0. apply XLoopHalt. apply IHb. assumption.
  - (* nil *) intros st st' h H; exact H.
  - (* cons *) intros s' s l' l _ IHs _ IHl st st' h H. inversion H; subst.
    + eapply XCons; [apply IHs; eassumption | apply IHl; eassumption].
    + apply XConsHalt. apply IHs. assumption.
  - (* if resolved to its first branch *) intros a' a b l' l _ IHa _ IHl st st' h H.
    destruct (exec_l_app_inv _ _ _ _ _ H) as [[-> Hh]|[st1 [Ha Hb]]].
    + apply XConsHalt. apply XIfL. apply IHa. exact Hh.
    + eapply XCons; [apply XIfL; apply IHa; exact Ha | apply IHl; exact Hb].
  - (* second branch *) intros b' a b l' l _ IHb _ IHl st st' h H.
    destruct (exec_l_app_inv _ _ _ _ _ H) as [[-> Hh]|[st1 [Ha Hb]]].
    + apply XConsHalt. apply XIfR. apply IHb. exact Hh.
    + eapply XCons; [apply XIfR; apply IHb; exact Ha | apply IHl; exact Hb].
  - (* loop not entered *) intros b l' l _ IHl st st' h H. eapply XCons; [apply XLoopDone | apply IHl; exact H].
  - (* loop unrolled once more *) intros b' b l' l _ IHb _ IHl st st' h H.
    destruct (exec_l_app_inv _ _ _ _ _ H) as [[-> Hh]|[st1 [Ha Hb]]].
    + apply XConsHalt. apply XLoopHalt. apply IHb. exact Hh.
    + eapply exec_cons_loop_prepend; [apply IHb; exact Ha | apply IHl; exact Hb].
Qed.

(* acceptance of the over-approximation is acceptance of everything it over-approximates *)
Lemma refinement_sound sk' sk ps :
  refines sk' sk -> frame_ok sk ps = true ->
  forall st st', params_bound ps st -> others_apart ps st ->
  exec sk' st st' -> params_unchanged ps st st'.
Proof.
  intros R Hok st st' HB HA [h Hex]. eapply frame_ok_sound_general; eauto.
  exists h. eapply simulation; eauto.
Qed.

Lemma refines_refl : forall l, refines l l.
Proof.
  apply (list_ind2 (fun s => refines_s s s) (fun l => refines l l)).
  - intros x [|ys]; [apply RBindAny | apply RBindSub; apply incl_refl].
  - apply RWrite.
  - intros; apply RIf; assumption.
  - intros; apply RLoop; assumption.
  - apply RNil.
  - intros; apply RCons; assumption.
Qed.

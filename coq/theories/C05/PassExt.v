(* C05 — the pass only looks at bin numbers that are valid bins: two bin-number functions that agree
   on validity and on the valid values give the same arrays.  Hence the partition theorem also holds
   when the bin numbers are non-decreasing only after re-labelling the invalid ones (e.g. data whose
   quotient is NaN or beyond int64 get INT64_MIN although they come last). *)
From Coq Require Import Sorting.Permutation Sorting.Sorted.
From EsVerif.Common Require Import Base.
From EsVerif.C05 Require Import Model Spec PassProofs Proofs.

Definition agree_valid (nbin : Z) (bn bn' : Z -> Z) (s : list Z) : Prop :=
  forall k, In k s -> valid_bin nbin (bn' k) = valid_bin nbin (bn k)
                      /\ (valid_bin nbin (bn k) = true -> bn' k = bn k).

Lemma agree_valid_tail nbin bn bn' k s : agree_valid nbin bn bn' (k :: s) -> agree_valid nbin bn bn' s.
Proof. intros H j Hj. apply H. right. exact Hj. Qed.

Lemma c_loop_ext nbin bn bn' s : agree_valid nbin bn bn' s -> forall i b oe h r,
  c_loop bn nbin s i b oe h r = c_loop bn' nbin s i b oe h r.
Proof.
  induction s as [|k ss IH]; intros A i b oe h r; cbn [c_loop]; [reflexivity|].
  destruct (A k (or_introl eq_refl)) as [V E]. rewrite V.
  destruct (valid_bin nbin (bn k)) eqn:Vk.
  - rewrite (E eq_refl). apply IH. eapply agree_valid_tail; exact A.
  - apply IH. eapply agree_valid_tail; exact A.
Qed.

Lemma chist_ext nbin bn bn' s : agree_valid nbin bn bn' s -> chist bn nbin s = chist bn' nbin s.
Proof. intros A. unfold chist. rewrite (c_loop_ext nbin bn bn' s A). reflexivity. Qed.

Lemma filter_ext_in'' {A} (f g : A -> bool) l : (forall a, In a l -> f a = g a) -> filter f l = filter g l.
Proof.
  induction l as [|a t IH]; intros H; [reflexivity|]. cbn [filter].
  rewrite (H a (or_introl eq_refl)), IH; [reflexivity|]. intros b Hb. apply H. right. exact Hb.
Qed.

Lemma sel_ext nbin bn bn' s i : agree_valid nbin bn bn' s -> 0 <= i < nbin -> sel bn i s = sel bn' i s.
Proof.
  intros A Hi. unfold sel. apply filter_ext_in''. intros k Hk. destruct (A k Hk) as [V E].
  destruct (valid_bin nbin (bn k)) eqn:Vk.
  - rewrite (E eq_refl). reflexivity.
  - unfold valid_bin in *. destruct (bn k =? i) eqn:E1; destruct (bn' k =? i) eqn:E2; try reflexivity; lia.
Qed.

Lemma pass_partition_ext nbin bn bn' s hist rev : agree_valid nbin bn bn' s ->
  pass_partition bn' nbin s hist rev -> pass_partition bn nbin s hist rev.
Proof.
  intros A (P1 & P2 & P3 & P4 & P5 & P6). unfold pass_partition. repeat split; try assumption.
  - apply (P3 i H).
  - apply (P3 i H).
  - apply (P3 i H).
  - rewrite (sel_ext nbin bn bn' s i A H). apply (P3 i H).
  - apply (P3 i H).
  - rewrite P4. unfold n_valid. f_equal. f_equal. apply filter_ext_in''. intros k Hk. apply (A k Hk).
  - intros AC. apply P6. intros k Hk. destruct (A k Hk) as [V _]. rewrite V. apply AC. exact Hk.
Qed.

(* the partition theorem with the invalid bin numbers re-labelled *)
Theorem pass_partition_relabel eng bn bn' nbin s : 0 <= nbin ->
  agree_valid nbin bn bn' s -> Sorted Z.le (map bn' s) ->
  let '(hist, rev) := match eng with EngC => chist bn nbin s | EngPy => pyhist bn nbin s end in
  pass_partition bn nbin s hist rev.
Proof.
  intros Hn A HS. pose proof (pass_partition_both eng bn' nbin s Hn HS) as P.
  assert (E : match eng with EngC => chist bn nbin s | EngPy => pyhist bn nbin s end
            = match eng with EngC => chist bn' nbin s | EngPy => pyhist bn' nbin s end).
  { destruct eng; [|rewrite <- !engines_equal]; apply chist_ext; exact A. }
  rewrite E. destruct (match eng with EngC => chist bn' nbin s | EngPy => pyhist bn' nbin s end) as [hist rev].
  apply (pass_partition_ext nbin bn bn' s hist rev A P).
Qed.

(* the canonical re-labelling: everything that is not a valid bin counts as "beyond the last bin" *)
Lemma up_bin_agree nbin bn s : agree_valid nbin bn (fun k => up_bin nbin (bn k)) s.
Proof.
  intros k _. unfold up_bin. destruct (valid_bin nbin (bn k)) eqn:V; [split; [exact V|reflexivity]|].
  split; [|discriminate]. unfold valid_bin. lia.
Qed.

Corollary pass_partition_up eng bn nbin s : 0 <= nbin ->
  Sorted Z.le (map (fun k => up_bin nbin (bn k)) s) ->
  let '(hist, rev) := match eng with EngC => chist bn nbin s | EngPy => pyhist bn nbin s end in
  pass_partition bn nbin s hist rev.
Proof. intros Hn HS. apply (pass_partition_relabel eng bn _ nbin s Hn (up_bin_agree nbin bn s) HS). Qed.

(* ---------------------------------------------------------------- data level with the weaker contracts *)
Lemma contracts_w_b_sound x lo hi o : contracts_w_b x lo hi o = true -> contracts_w x lo hi o.
Proof.
  unfold contracts_w_b, contracts_w. intros H.
  apply andb_true_iff in H. destruct H as [H H4]. apply andb_true_iff in H. destruct H as [H H3].
  apply andb_true_iff in H. destruct H as [H1 H2].
  split; [apply ordered_b_sound; exact H1|]. split; [apply zlist_eqb_spec; exact H2|].
  split; [|apply nondecr_b_sound; exact H4].
  intros k Hk. rewrite forallb_forall in H3. specialize (H3 k Hk). lia.
Qed.

Theorem model_meets_spec_w eng x lo hi m o :
  histogram eng x lo hi m = Ok o ->
  contracts_w x lo hi o ->
  hist_ok x lo hi (p_dmin (o_params o)) (p_bsize (o_params o)) (p_nbin (o_params o)) (o_hist o) (o_rev o).
Proof.
  unfold histogram. intros H HC.
  destruct (limits x (argsort x) lo hi) as [[[dmin dmax] w]|e]; [|discriminate].
  destruct (derive dmin dmax m) as [[bsize nbin]|e]; [|discriminate].
  destruct (nbin <? 0) eqn:En; [discriminate|].
  pose proof (pass_partition_up eng (binnum x dmin bsize) nbin w) as HP.
  destruct (match eng with EngC => chist (binnum x dmin bsize) nbin w | EngPy => pyhist (binnum x dmin bsize) nbin w end)
    as [hist rev].
  inversion H; subst o; clear H. unfold contracts_w in HC.
  cbn [o_params o_sort o_wsort o_hist o_rev p_dmin p_bsize p_nbin] in *.
  destruct HC as [K1 [K2 [K3 K4]]].
  specialize (HP ltac:(lia) K4). destruct HP as [P1 [P2 [P3 [P4 [P5 P6]]]]].
  set (bn := binnum x dmin bsize) in *.
  set (inl := fun k => in_limits lo hi (fget x k)) in *.
  assert (Hperm : forall (f g : Z -> bool), (forall k, In k w -> f k = g k) ->
            Permutation (filter f w) (filter (fun k => inl k && g k) (indices x))).
  { intros f g Hfg. rewrite (filter_ext_in'' f g w Hfg). rewrite K2, filter_filter.
    apply Permutation_filter. apply argsort_perm. }
  split; [exact P1|]. split.
  - intros i Hi. destruct (P3 i Hi) as [Q1 [Q2 [Q3 Q4]]]. unfold bin_ok.
    split; [lia|]. split; [lia|]. split; [|split; [|exact Q4]].
    + rewrite Q3. unfold sel, members. apply (Hperm (fun k => bn k =? i) (fun k => bin_index dmin bsize (fget x k) =? i)).
      intros k Hk. rewrite (K3 k Hk). reflexivity.
    + rewrite Q3. unfold sel. rewrite K2. apply ordered_filter, ordered_filter. exact K1.
  - rewrite P4. unfold n_valid. f_equal. apply Permutation_length.
    apply (Hperm (fun k => valid_bin nbin (bn k)) (fun k => valid_bin nbin (bin_index dmin bsize (fget x k)))).
    intros k Hk. rewrite (K3 k Hk). reflexivity.
Qed.

(* ---------------------------------------------------------------- which inputs are rejected, with which class *)
Lemma limits_rejections x s lo hi e : limits x s lo hi = Err e ->
  (e = EIndex /\ s = [] /\ (lo = None \/ hi = None))
  \/ (e = EValue /\ (lo <> None \/ hi <> None)
      /\ exists xmin xmax, filter (fun k => within xmin xmax (fget x k)) s = []
                           /\ xmin = match lo with Some v => v | None => fget x (hd 0 s) end
                           /\ xmax = match hi with Some v => v | None => fget x (last s 0) end).
Proof.
  unfold limits. intros E.
  destruct s as [|k0 t]; destruct lo as [l|], hi as [h|]; cbn -[filter last] in E; try discriminate E;
    try (injection E as <-; left; repeat split; auto; fail);
    (destruct (filter _ _) eqn:F in E; [|discriminate E]); injection E as <-; right;
    (split; [reflexivity|]); (split; [try (left; discriminate); right; discriminate|]);
    eexists; eexists; (split; [exact F|]); split; reflexivity.
Qed.

Theorem histogram_rejections eng x lo hi m e : histogram eng x lo hi m = Err e ->
  (e = EIndex /\ x = [] /\ (lo = None \/ hi = None))
  \/ (e = EValue /\ (lo <> None \/ hi <> None)
      /\ exists xmin xmax, filter (fun k => within xmin xmax (fget x k)) (argsort x) = []
                           /\ xmin = match lo with Some v => v | None => fget x (hd 0 (argsort x)) end
                           /\ xmax = match hi with Some v => v | None => fget x (last (argsort x) 0) end)
  \/ (e = EValue /\ exists dmin dmax w b nb, limits x (argsort x) lo hi = Ok (dmin, dmax, w)
                                            /\ derive dmin dmax m = Ok (b, nb) /\ nb < 0)
  \/ (e = EOther /\ m = ByNbin 0 /\ exists r, limits x (argsort x) lo hi = Ok r).
Proof.
  unfold histogram. intros H.
  destruct (limits x (argsort x) lo hi) as [[[dmin dmax] w]|e'] eqn:L.
  - destruct (derive dmin dmax m) as [[b nb]|e''] eqn:D.
    + destruct (nb <? 0) eqn:N.
      * injection H as <-. right. right. left. split; [reflexivity|].
        exists dmin, dmax, w, b, nb. repeat split; auto. lia.
      * destruct (match eng with EngC => chist _ _ w | EngPy => pyhist _ _ w end). discriminate H.
    + injection H as <-. right. right. right. unfold derive in D. destruct m as [b|n]; [discriminate D|].
      destruct (n =? 0) eqn:Z0; [|discriminate D]. injection D as <-. apply Z.eqb_eq in Z0. subst n.
      split; [reflexivity|]. split; [reflexivity|]. eexists. reflexivity.
  - injection H as <-. destruct (limits_rejections x (argsort x) lo hi e' L) as [(E1 & E2 & E3)|(E1 & E2 & E3)].
    + left. split; [exact E1|]. split; [|exact E3].
      pose proof (argsort_perm x) as P. rewrite E2 in P. apply Permutation_nil in P.
      destruct x; [reflexivity|discriminate P].
    + right. left. auto.
Qed.

(* C05 — facts about the binary64 operations used by the histogram code, obtained through Flocq's
   link between Coq's primitive floats and its IEEE-754 formalisation. *)
From Coq Require Import ZArith Reals Lia Lra List Bool.
From Coq Require Import PrimFloat FloatOps SpecFloat.
From Flocq Require Import Core.Core IEEE754.BinarySingleNaN.
Require Flocq.IEEE754.PrimFloat.
From EsVerif.Common Require Import Base.
From EsVerif.C05 Require Import Model Spec.
Module FP := Flocq.IEEE754.PrimFloat.
Local Existing Instance FP.Hprec.
Local Existing Instance FP.Hmax.
Local Open Scope R_scope.

Definition rv (f : PrimFloat.float) : R := B2R (FP.Prim2B f).
Notation rnd := (round radix2 (fexp prec emax) (round_mode mode_NE)).

Lemma finite_f_B f : finite_f f = is_finite (FP.Prim2B f).
Proof.
  unfold finite_f. rewrite <- FP.B2SF_Prim2B. now destruct (FP.Prim2B f).
Qed.

Lemma leb_R a b : finite_f a = true -> finite_f b = true ->
  (PrimFloat.leb a b = true <-> rv a <= rv b).
Proof.
  rewrite !finite_f_B. intros Fa Fb. rewrite FP.leb_equiv, (Bleb_correct _ _ _ _ Fa Fb).
  unfold rv. destruct (Rle_bool_spec (B2R (FP.Prim2B a)) (B2R (FP.Prim2B b))); split; intros; try easy; lra.
Qed.

Lemma ltb_R a b : finite_f a = true -> finite_f b = true ->
  (PrimFloat.ltb a b = true <-> rv a < rv b).
Proof.
  rewrite !finite_f_B. intros Fa Fb. rewrite FP.ltb_equiv, (Bltb_correct _ _ _ _ Fa Fb).
  unfold rv. destruct (Rlt_bool_spec (B2R (FP.Prim2B a)) (B2R (FP.Prim2B b))); split; intros; try easy; lra.
Qed.

Lemma eqb_R a b : finite_f a = true -> finite_f b = true ->
  (PrimFloat.eqb a b = true <-> rv a = rv b).
Proof.
  rewrite !finite_f_B. intros Fa Fb. rewrite FP.eqb_equiv, (Beqb_correct _ _ _ _ Fa Fb).
  unfold rv. destruct (Req_bool_spec (B2R (FP.Prim2B a)) (B2R (FP.Prim2B b))); split; intros; try easy.
Qed.

Lemma rnd_0 : rnd 0 = 0.
Proof. apply round_0. typeclasses eauto. Qed.

(* subtraction of the lower limit: exact rounding, monotone, no overflow below a finite one *)
Lemma sub_facts dmin dmax v :
  finite_f dmin = true -> finite_f dmax = true -> finite_f v = true ->
  finite_f (PrimFloat.sub dmax dmin) = true ->
  rv dmin <= rv v <= rv dmax ->
  finite_f (PrimFloat.sub v dmin) = true
  /\ rv (PrimFloat.sub v dmin) = rnd (rv v - rv dmin)
  /\ 0 <= rv (PrimFloat.sub v dmin) <= rv (PrimFloat.sub dmax dmin).
Proof.
  rewrite !finite_f_B. unfold rv. rewrite !FP.sub_equiv. intros Fm FM Fv FD [Hlo Hhi].
  generalize (Bminus_correct prec emax _ _ mode_NE _ _ FM Fm).
  destruct (Rlt_bool_spec (Rabs (rnd (B2R (FP.Prim2B dmax) - B2R (FP.Prim2B dmin)))) (bpow radix2 emax)) as [HD|HD].
  2:{ intros [E _]. rewrite <- is_finite_SF_B2SF, E in FD. discriminate. }
  intros [ED _].
  assert (H0 : 0 <= rnd (B2R (FP.Prim2B v) - B2R (FP.Prim2B dmin))).
  { rewrite <- rnd_0. apply round_le; try typeclasses eauto. lra. }
  assert (H1 : rnd (B2R (FP.Prim2B v) - B2R (FP.Prim2B dmin)) <= rnd (B2R (FP.Prim2B dmax) - B2R (FP.Prim2B dmin))).
  { apply round_le; try typeclasses eauto. lra. }
  generalize (Bminus_correct prec emax _ _ mode_NE _ _ Fv Fm).
  rewrite Rlt_bool_true.
  - intros [E [F _]]. rewrite E, ED. repeat split; auto.
  - rewrite Rabs_pos_eq by exact H0. eapply Rle_lt_trans; [exact H1|].
    eapply Rle_lt_trans; [apply Rle_abs|exact HD].
Qed.

(* division by a positive finite bin size *)
Lemma div_facts a1 a2 bs :
  finite_f a1 = true -> finite_f a2 = true -> finite_f bs = true ->
  0 <= rv a1 <= rv a2 -> 0 < rv bs ->
  finite_f (PrimFloat.div a2 bs) = true ->
  finite_f (PrimFloat.div a1 bs) = true
  /\ 0 <= rv (PrimFloat.div a1 bs) <= rv (PrimFloat.div a2 bs).
Proof.
  rewrite !finite_f_B. unfold rv. rewrite !FP.div_equiv. intros F1 F2 Fb [H0 H12] Hb FQ.
  assert (Nz : B2R (FP.Prim2B bs) <> 0) by lra.
  generalize (Bdiv_correct prec emax _ _ mode_NE (FP.Prim2B a2) _ Nz).
  destruct (Rlt_bool_spec (Rabs (rnd (B2R (FP.Prim2B a2) / B2R (FP.Prim2B bs)))) (bpow radix2 emax)) as [HD|HD].
  2:{ intros E. rewrite <- is_finite_SF_B2SF, E in FQ. discriminate. }
  intros [E2 _].
  assert (P0 : 0 <= rnd (B2R (FP.Prim2B a1) / B2R (FP.Prim2B bs))).
  { rewrite <- rnd_0. apply round_le; try typeclasses eauto.
    apply Rmult_le_pos; [lra|]. left. now apply Rinv_0_lt_compat. }
  assert (P1 : rnd (B2R (FP.Prim2B a1) / B2R (FP.Prim2B bs)) <= rnd (B2R (FP.Prim2B a2) / B2R (FP.Prim2B bs))).
  { apply round_le; try typeclasses eauto. apply Rmult_le_compat_r; [|lra].
    left. now apply Rinv_0_lt_compat. }
  generalize (Bdiv_correct prec emax _ _ mode_NE (FP.Prim2B a1) _ Nz).
  rewrite Rlt_bool_true.
  - intros [E1 [F _]]. rewrite E1, E2, F. repeat split; auto.
  - rewrite Rabs_pos_eq by exact P0. eapply Rle_lt_trans; [exact P1|].
    eapply Rle_lt_trans; [apply Rle_abs|exact HD].
Qed.

(* ------------------------------------------------------------ float -> int64 *)
Definition two63Z : Z := 9223372036854775808%Z.

Lemma rv_two63 : rv two63 = IZR two63Z.
Proof.
  unfold rv, FP.Prim2B. rewrite B2R_SF2B.
  replace (Prim2SF two63) with (S754_finite false 4503599627370496 11) by (vm_compute; reflexivity).
  unfold SF2R, F2R, cond_Zopp, Fnum, Fexp, two63Z. simpl bpow.
  rewrite <- mult_IZR. f_equal.
Qed.

Lemma finite_two63 : finite_f two63 = true.
Proof. vm_compute. reflexivity. Qed.

Lemma mag_floor (m : positive) (e : Z) :
  (if (0 <=? e)%Z then Z.pos m * 2 ^ e else Z.pos m / 2 ^ (- e))%Z
  = Zfloor (F2R (Float radix2 (Z.pos m) e)).
Proof.
  unfold F2R, Fnum, Fexp. destruct (0 <=? e)%Z eqn:He.
  - apply Z.leb_le in He. rewrite <- (IZR_Zpower radix2 e He), <- mult_IZR, Zfloor_IZR. reflexivity.
  - apply Z.leb_gt in He. replace e with (- (- e))%Z at 2 by lia. rewrite bpow_opp.
    rewrite <- (IZR_Zpower radix2 (- e)) by lia.
    change (IZR (Z.pos m) * / IZR (radix2 ^ (- e))) with (IZR (Z.pos m) / IZR (radix2 ^ (- e))).
    rewrite Zfloor_div. reflexivity.
    change (radix_val radix2) with 2%Z. apply Z.pow_nonzero; lia.
Qed.

Lemma trunc_floor_R q :
  finite_f q = true -> 0 <= rv q < IZR two63Z ->
  f2z_trunc q = Zfloor (rv q) /\ f2z_floor q = Zfloor (rv q).
Proof.
  rewrite finite_f_B. unfold rv, f2z_trunc, f2z_floor. rewrite <- FP.B2SF_Prim2B.
  destruct (FP.Prim2B q) as [s|s| |s m e B]; cbn [B2SF B2R is_finite]; try discriminate; intros _ [H0 H1].
  - rewrite Zfloor_IZR. auto.
  - destruct s.
    + exfalso. apply (Rlt_not_le _ _ (F2R_lt_0 radix2 (Float radix2 (cond_Zopp true (Z.pos m)) e) eq_refl)). exact H0.
    + cbn [cond_Zopp] in *. rewrite mag_floor.
      assert (Hr : (0 <= Zfloor (F2R (Float radix2 (Z.pos m) e)) < two63Z)%Z).
      { split.
        - apply Zfloor_lub. exact H0.
        - apply lt_IZR. eapply Rle_lt_trans; [apply Zfloor_lb|exact H1]. }
      unfold clamp64, int64_min, int64_max, two63Z in *.
      destruct (_ <=? _)%Z eqn:A; destruct (Zfloor (F2R (Float radix2 (Z.pos m) e)) <=? 9223372036854775807)%Z eqn:B';
        cbn [andb]; try lia; split; reflexivity.
Qed.

(* ------------------------------------------------------------ the bin number *)
Definition quot (dmin bs v : PrimFloat.float) : PrimFloat.float :=
  PrimFloat.div (PrimFloat.sub v dmin) bs.

Lemma params_ok_spec p : params_ok p = true ->
  finite_f (PrimFloat.sub (p_dmax p) (p_dmin p)) = true /\ finite_f (p_bsize p) = true
  /\ PrimFloat.ltb 0 (p_bsize p) = true
  /\ finite_f (quot (p_dmin p) (p_bsize p) (p_dmax p)) = true
  /\ PrimFloat.ltb (quot (p_dmin p) (p_bsize p) (p_dmax p)) two63 = true.
Proof.
  unfold params_ok, quot. intros H. repeat (apply andb_true_iff in H as [H ?]). auto.
Qed.

Lemma rv_zero : rv 0%float = 0.
Proof. unfold rv, FP.Prim2B. rewrite B2R_SF2B. reflexivity. Qed.
Lemma finite_zero : finite_f 0%float = true.
Proof. vm_compute. reflexivity. Qed.

Section Quot.
  Variables dmin dmax bs : PrimFloat.float.
  Variable nb : Z.
  Hypothesis Fmin : finite_f dmin = true.
  Hypothesis Fmax : finite_f dmax = true.
  Hypothesis POK : params_ok (mkParams dmin dmax bs nb) = true.

  Lemma quot_mono v1 v2 :
    finite_f v1 = true -> finite_f v2 = true ->
    PrimFloat.leb dmin v1 = true -> rv v1 <= rv v2 -> PrimFloat.leb v2 dmax = true ->
    finite_f (quot dmin bs v1) = true /\ finite_f (quot dmin bs v2) = true
    /\ 0 <= rv (quot dmin bs v1) <= rv (quot dmin bs v2)
    /\ rv (quot dmin bs v2) < IZR two63Z.
  Proof.
    intros F1 F2 L1 L12 L2.
    destruct (params_ok_spec _ POK) as (FD & Fb & Pb & FQ & LQ). cbn [p_dmin p_dmax p_bsize] in *.
    apply (leb_R _ _ Fmin F1) in L1. apply (leb_R _ _ F2 Fmax) in L2.
    apply (ltb_R _ _ finite_zero Fb) in Pb. rewrite rv_zero in Pb.
    apply (ltb_R _ _ FQ finite_two63) in LQ. rewrite rv_two63 in LQ.
    destruct (sub_facts dmin dmax v1 Fmin Fmax F1 FD) as (S1 & E1 & B1); [lra|].
    destruct (sub_facts dmin dmax v2 Fmin Fmax F2 FD) as (S2 & E2 & B2); [lra|].
    assert (S12 : rv (PrimFloat.sub v1 dmin) <= rv (PrimFloat.sub v2 dmin)).
    { rewrite E1, E2. apply round_le; try typeclasses eauto. lra. }
    assert (FDD : finite_f (PrimFloat.sub dmax dmin) = true) by exact FD.
    destruct (div_facts (PrimFloat.sub v2 dmin) (PrimFloat.sub dmax dmin) bs S2 FDD Fb) as (Q2 & R2); [lra|lra|exact FQ|].
    destruct (div_facts (PrimFloat.sub v1 dmin) (PrimFloat.sub v2 dmin) bs S1 S2 Fb) as (Q1 & R1); [lra|lra|exact Q2|].
    unfold quot in *. repeat split; auto; try lra.
  Qed.

  Lemma binnum_floor x k :
    finite_f (fget x k) = true ->
    PrimFloat.leb dmin (fget x k) = true -> PrimFloat.leb (fget x k) dmax = true ->
    binnum x dmin bs k = bin_index dmin bs (fget x k) /\ (0 <= binnum x dmin bs k)%Z.
  Proof.
    intros F L1 L2.
    destruct (quot_mono (fget x k) (fget x k) F F L1 (Rle_refl _) L2) as (Q & _ & R0 & R1).
    destruct (trunc_floor_R _ Q) as [T Fl]; [unfold quot in *; lra|].
    unfold binnum, bin_index. fold (quot dmin bs (fget x k)). rewrite T, Fl. split; [reflexivity|].
    apply Zfloor_lub. lra.
  Qed.

  (* DESIGN stretch `binnum_monotone`: non-decreasing bin numbers follow from sortedness *)
  Lemma binnum_monotone x k1 k2 :
    finite_f (fget x k1) = true -> finite_f (fget x k2) = true ->
    PrimFloat.leb dmin (fget x k1) = true -> rv (fget x k1) <= rv (fget x k2) ->
    PrimFloat.leb (fget x k2) dmax = true ->
    (binnum x dmin bs k1 <= binnum x dmin bs k2)%Z.
  Proof.
    intros F1 F2 L1 L12 L2.
    destruct (quot_mono _ _ F1 F2 L1 L12 L2) as (Q1 & Q2 & R0 & R1).
    destruct (trunc_floor_R _ Q1) as [T1 _]; [lra|].
    destruct (trunc_floor_R _ Q2) as [T2 _]; [lra|].
    unfold binnum. fold (quot dmin bs (fget x k1)) (quot dmin bs (fget x k2)). rewrite T1, T2.
    apply Zfloor_le. lra.
  Qed.
End Quot.

(* ------------------------------------------------------------ a zero bin size *)
(* nbin mode on constant data: binsize = (max - min) / nbin = +0; every quotient is NaN or
   infinite, the conversion gives INT64_MIN: no datum has a valid bin index. *)
Lemma div_zero_int64_min f bs : zero_f bs = true ->
  f2z_trunc (PrimFloat.div f bs) = int64_min /\ f2z_floor (PrimFloat.div f bs) = int64_min.
Proof.
  unfold zero_f, f2z_trunc, f2z_floor. rewrite <- !FP.B2SF_Prim2B, FP.div_equiv.
  destruct (FP.Prim2B bs) as [sb|sb| |sb mb eb Bb]; cbn [B2SF]; try discriminate. intros _.
  destruct (FP.Prim2B f) as [s|s| |s m e B]; cbn; auto.
Qed.

(* ------------------------------------------------------------ an infinite bin size *)
(* binsize = +inf (given, or (max - min) / nbin when max - min overflows): a finite difference gives the
   quotient 0, an overflowed difference gives inf/inf = NaN, i.e. INT64_MIN *)
Lemma div_posinf f bs : posinf_f bs = true ->
  (finite_f f = true /\ f2z_trunc (PrimFloat.div f bs) = 0%Z /\ f2z_floor (PrimFloat.div f bs) = 0%Z)
  \/ (finite_f f = false /\ f2z_trunc (PrimFloat.div f bs) = int64_min /\ f2z_floor (PrimFloat.div f bs) = int64_min).
Proof.
  unfold posinf_f, finite_f, f2z_trunc, f2z_floor. rewrite <- !FP.B2SF_Prim2B, FP.div_equiv.
  destruct (FP.Prim2B bs) as [sb|sb| |sb mb eb Bb]; cbn [B2SF]; try discriminate.
  destruct sb; [discriminate|]. intros _.
  destruct (FP.Prim2B f) as [s|s| |s m e B]; cbn; auto.
Qed.

(* Ok in binsize mode: the bin count trunc(q) + 1 is not negative, so q is finite and below 2^63 *)
Lemma trunc_not_min q : (0 <= f2z_trunc q + 1)%Z -> finite_f q = true -> 0 <= rv q -> rv q < IZR two63Z.
Proof.
  rewrite finite_f_B. unfold rv, f2z_trunc. rewrite <- FP.B2SF_Prim2B.
  destruct (FP.Prim2B q) as [s|s| |s m e B]; cbn [B2SF B2R is_finite]; try discriminate; intros H _ H0.
  - unfold two63Z. lra.
  - destruct s.
    + exfalso. apply (Rlt_not_le _ _ (F2R_lt_0 radix2 (Float radix2 (cond_Zopp true (Z.pos m)) e) eq_refl)). exact H0.
    + cbn [cond_Zopp] in *. rewrite mag_floor in H.
      unfold clamp64, int64_min, int64_max, two63Z in *.
      destruct ((-9223372036854775808 <=? Zfloor (F2R (Float radix2 (Z.pos m) e))) && (Zfloor (F2R (Float radix2 (Z.pos m) e)) <=? 9223372036854775807))%Z eqn:A; [|lia].
      apply andb_true_iff in A. destruct A as [_ A]. apply Z.leb_le in A.
      apply Rlt_le_trans with (IZR (Zfloor (F2R (Float radix2 (Z.pos m) e))) + 1); [apply Zfloor_ub|].
      rewrite <- plus_IZR. apply IZR_le. lia.
Qed.

Lemma div_nonfinite f b : finite_f f = false -> finite_f (PrimFloat.div f b) = false.
Proof.
  rewrite !finite_f_B, FP.div_equiv.
  destruct (FP.Prim2B f) as [s|s| |s m e B]; cbn [is_finite]; try discriminate; intros _;
    destruct (FP.Prim2B b) as [sb|sb| |sb mb eb Bb]; reflexivity.
Qed.

Lemma trunc_nonfinite q : finite_f q = false -> f2z_trunc q = int64_min.
Proof. unfold finite_f, f2z_trunc. destruct (Prim2SF q); try discriminate; reflexivity. Qed.

Lemma Prim2B_zero : FP.Prim2B 0%float = B754_zero false.
Proof. change 0%float with PrimFloat.zero. rewrite FP.zero_equiv. apply FP.Prim2B_B2Prim. Qed.

Lemma pos_finite_or_inf b : PrimFloat.ltb 0 b = true -> finite_f b = true \/ posinf_f b = true.
Proof.
  rewrite FP.ltb_equiv, Prim2B_zero, finite_f_B. unfold posinf_f. rewrite <- FP.B2SF_Prim2B.
  destruct (FP.Prim2B b) as [sb|sb| |sb mb eb Bb]; cbn; auto; try discriminate.
  destruct sb; cbn; auto; discriminate.
Qed.

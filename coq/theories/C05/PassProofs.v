(* C05 — the single pass (chist_pywrap.c / _dohist): the two transcriptions agree, counts are
   exact for any input, and for non-decreasing bin numbers the reverse indices partition the
   counted data.  Integers and lists only; closed under the global context. *)
From Coq Require Import Sorting.Permutation Sorting.Sorted ZifyBool ZifyNat.
From EsVerif.Common Require Import Base.
From EsVerif.C05 Require Import Model Spec.
Ltac Zify.zify_post_hook ::= Z.to_euclidean_division_equations.

Ltac ifs := repeat match goal with
  | |- context[if ?b then _ else _] => destruct b eqn:?
  end.

(* ---------------------------------------------------------------- zget/zset/fill *)
Lemma zset_length {A} (l : list A) i v : length (zset l i v) = length l.
Proof. unfold zset. destruct (i <? 0); [reflexivity|apply set_nth_length]. Qed.

Lemma zget_zset l i v j : 0 <= j ->
  zget (zset l i v) j = if (i =? j) && (j <? Z.of_nat (length l)) then v else zget l j.
Proof.
  intro Hj. unfold zget, zset. destruct (i <? 0) eqn:Ei.
  - destruct ((i =? j) && (j <? Z.of_nat (length l))) eqn:E; [lia|reflexivity].
  - destruct (i =? j) eqn:Eij; cbn [andb].
    + assert (i = j) by lia. subst i. destruct (j <? Z.of_nat (length l)) eqn:El.
      * apply nth_set_nth_eq. lia.
      * rewrite !nth_overflow; [reflexivity| lia | rewrite set_nth_length; lia].
    + apply nth_set_nth_neq. lia.
Qed.

Lemma fill_length l from c v : length (fill l from c v) = length l.
Proof. revert l from; induction c as [|c IH]; intros l from; cbn [fill]; [reflexivity|]. rewrite IH. apply zset_length. Qed.

Lemma zget_fill l from c v j : 0 <= j -> 0 <= from ->
  zget (fill l from c v) j =
  if (from <=? j) && (j <? from + Z.of_nat c) && (j <? Z.of_nat (length l)) then v else zget l j.
Proof.
  revert l from; induction c as [|c IH]; intros l from Hj Hf; cbn [fill].
  - ifs; [lia|reflexivity].
  - rewrite IH by lia. rewrite zset_length. rewrite zget_zset by lia. ifs; try reflexivity; lia.
Qed.

Lemma zeros_length n : length (zeros n) = Z.to_nat n.
Proof. unfold zeros. apply repeat_length. Qed.

Lemma zget_zeros n j : zget (zeros n) j = 0.
Proof.
  unfold zget, zeros. generalize (Z.to_nat j) as m. generalize (Z.to_nat n) as k.
  induction k as [|k IH]; intros [|m]; simpl; auto.
Qed.

Lemma nth_skipn {A} a (l : list A) t d : nth t (skipn a l) d = nth (a + t) l d.
Proof.
  revert l; induction a as [|a IH]; intro l; [reflexivity|].
  destruct l as [|y l]; [destruct t; reflexivity|]. cbn [skipn Nat.add nth]. apply IH.
Qed.

Lemma skipn_skipn' {A} a b (l : list A) : skipn a (skipn b l) = skipn (b + a) l.
Proof.
  revert l; induction b as [|b IH]; intro l; [reflexivity|].
  destruct l as [|y l]; [destruct a; reflexivity|]. cbn [skipn Nat.add]. apply IH.
Qed.

Lemma filter_none {A} (f : A -> bool) l : (forall a, In a l -> f a = false) -> filter f l = [].
Proof.
  induction l as [|a t IH]; intro H; [reflexivity|]. cbn [filter].
  rewrite (H a) by (left; reflexivity). apply IH. intros b Hb. apply H. right; exact Hb.
Qed.

Lemma filter_all {A} (f : A -> bool) l : (forall a, In a l -> f a = true) -> filter f l = l.
Proof.
  induction l as [|a t IH]; intro H; [reflexivity|]. cbn [filter].
  rewrite (H a) by (left; reflexivity). f_equal. apply IH. intros b Hb. apply H. right; exact Hb.
Qed.

Lemma filter_length_le' {A} (f : A -> bool) l : (length (filter f l) <= length l)%nat.
Proof. induction l as [|a t IH]; cbn [filter]; [lia|]. destruct (f a); cbn [length]; lia. Qed.

(* ---------------------------------------------------------------- engines agree *)
Lemma loops_equal bn nbin s i binold offset_end hist rev :
  py_loop bn nbin s (i + nbin + 1) binold offset_end hist rev = c_loop bn nbin s i binold offset_end hist rev.
Proof.
  revert i binold offset_end hist rev; induction s as [|k ss IH]; intros i binold oe hist rev; [reflexivity|].
  cbn [py_loop c_loop]. rewrite Z.gtb_ltb.
  replace (i + nbin + 1 + 1) with (i + 1 + nbin + 1) by lia.
  destruct (valid_bin nbin (bn k)); apply IH.
Qed.

Lemma engines_equal bn nbin s : chist bn nbin s = pyhist bn nbin s.
Proof.
  unfold chist, pyhist. rewrite <- (loops_equal bn nbin s 0). replace (0 + nbin + 1) with (nbin + 1) by lia.
  reflexivity.
Qed.

(* ---------------------------------------------------------------- counting *)
Section Pass.
  Variable bn : Z -> Z.
  Variable nbin : Z.
  Hypothesis Hnbin : 0 <= nbin.

  Definition ncnt (f : Z -> bool) (l : list Z) : nat := length (filter f l).
  Definition lt_b (j k : Z) : bool := bn k <? j.
  Definition eq_b (j k : Z) : bool := bn k =? j.
  Definition cnt_lt (l : list Z) (j : Z) : Z := Z.of_nat (ncnt (lt_b j) l).
  Definition cnt_eq (l : list Z) (j : Z) : Z := Z.of_nat (ncnt (eq_b j) l).
  Definition valid (k : Z) : bool := valid_bin nbin (bn k).

  Lemma ncnt_app f a b : ncnt f (a ++ b) = (ncnt f a + ncnt f b)%nat.
  Proof. unfold ncnt. rewrite filter_app, app_length. reflexivity. Qed.

  Lemma ncnt_le f l : (ncnt f l <= length l)%nat.
  Proof. apply filter_length_le'. Qed.

  Lemma ncnt_all f l : (forall a, In a l -> f a = true) -> ncnt f l = length l.
  Proof. intro H. unfold ncnt. rewrite filter_all by exact H. reflexivity. Qed.

  Lemma ncnt_none f l : (forall a, In a l -> f a = false) -> ncnt f l = O.
  Proof. intro H. unfold ncnt. rewrite filter_none by exact H. reflexivity. Qed.

  Lemma ncnt_ext f g l : (forall a, In a l -> f a = g a) -> ncnt f l = ncnt g l.
  Proof. intro H. unfold ncnt. rewrite (filter_ext_in f g l H). reflexivity. Qed.

  Lemma cnt_lt_succ l j : cnt_lt l (j + 1) = cnt_lt l j + cnt_eq l j.
  Proof.
    unfold cnt_lt, cnt_eq, ncnt, lt_b, eq_b. induction l as [|a t IH]; [reflexivity|]. cbn [filter].
    destruct (bn a <? j + 1) eqn:E1; destruct (bn a <? j) eqn:E2; destruct (bn a =? j) eqn:E3;
      cbn [length]; lia.
  Qed.

  (* hist: exact for ANY index list (no order needed) *)
  Lemma loop_hist s : forall i binold oe hist rev binold' oe' hist' rev',
    Z.of_nat (length hist) = nbin ->
    c_loop bn nbin s i binold oe hist rev = (binold', oe', hist', rev') ->
    Z.of_nat (length hist') = nbin
    /\ forall j, 0 <= j < nbin -> zget hist' j = zget hist j + cnt_eq s j.
  Proof.
    induction s as [|k ss IH]; intros i binold oe hist rev binold' oe' hist' rev' HL E.
    - cbn [c_loop] in E. inversion E; subst. split; [reflexivity|]. intros j Hj.
      unfold cnt_eq, ncnt. cbn. lia.
    - cbn [c_loop] in E. unfold valid_bin in E. destruct ((0 <=? bn k) && (bn k <? nbin)) eqn:Ev.
      + apply IH in E; [|rewrite zset_length; exact HL]. destruct E as [EL EH]. split; [exact EL|].
        intros j Hj. rewrite (EH j Hj). rewrite zget_zset by lia.
        unfold cnt_eq, ncnt, eq_b. cbn [filter].
        destruct (bn k =? j) eqn:E1; destruct (j <? Z.of_nat (length hist)) eqn:E2; cbn [andb length];
          try lia; assert (bn k = j) by lia; subst j; lia.
      + apply IH in E; [|exact HL]. destruct E as [EL EH]. split; [exact EL|].
        intros j Hj. rewrite (EH j Hj). unfold cnt_eq, ncnt, eq_b. cbn [filter].
        destruct (bn k =? j) eqn:E1; [lia|reflexivity].
  Qed.

  Lemma chist_hist s : let '(hist, rev) := chist bn nbin s in
    Z.of_nat (length hist) = nbin /\ forall j, 0 <= j < nbin -> zget hist j = cnt_eq s j.
  Proof.
    unfold chist.
    destruct (c_loop bn nbin s 0 (-1) (nbin + 1) (zeros nbin) (zeros (Z.of_nat (length s) + nbin + 1)))
      as [[[bo oe] h] r] eqn:E.
    apply loop_hist in E; [|rewrite zeros_length; lia]. destruct E as [EL EH]. split; [exact EL|].
    intros j Hj. rewrite (EH j Hj), zget_zeros. lia.
  Qed.

  (* sum of the counts = number of data with a valid bin number *)
  Lemma zsum_map_add (f g : Z -> Z) l : zsum (map (fun j => f j + g j) l) = zsum (map f l) + zsum (map g l).
  Proof. induction l as [|a t IH]; [reflexivity|]. unfold zsum in *. cbn [map fold_right]. lia. Qed.

  Lemma zsum_indicator a s n :
    zsum (map (fun j => if a =? j then 1 else 0) (zseq s n)) = if (s <=? a) && (a <? s + Z.of_nat n) then 1 else 0.
  Proof.
    revert s; induction n as [|n IH]; intro s.
    - cbn. ifs; [lia|reflexivity].
    - cbn [zseq map]. change (zsum (?x :: ?t)) with (x + zsum t). rewrite IH. ifs; lia.
  Qed.

  Lemma zsum_cnt_eq l : zsum (map (cnt_eq l) (zseq 0 (Z.to_nat nbin))) = Z.of_nat (ncnt valid l).
  Proof.
    induction l as [|a t IH].
    - unfold cnt_eq, ncnt. cbn [filter length]. induction (zseq 0 (Z.to_nat nbin)) as [|y u IHu]; [reflexivity|].
      cbn [map]. change (zsum (?x :: ?t)) with (x + zsum t). rewrite IHu. reflexivity.
    - rewrite (map_ext (cnt_eq (a :: t)) (fun j => (if bn a =? j then 1 else 0) + cnt_eq t j)).
      + rewrite zsum_map_add, IH, zsum_indicator. unfold ncnt, valid, valid_bin. cbn [filter].
        destruct ((0 <=? bn a) && (bn a <? nbin)) eqn:E1; ifs; cbn [length]; lia.
      + intro j. unfold cnt_eq, ncnt, eq_b. cbn [filter]. destruct (bn a =? j); cbn [length]; lia.
  Qed.

  (* a sorted list: the members with bin number i form the segment [cnt_lt i, cnt_lt i + cnt_eq i) *)
  Lemma sorted_segment l i : StronglySorted Z.le (map bn l) ->
    firstn (ncnt (eq_b i) l) (skipn (ncnt (lt_b i) l) l) = filter (eq_b i) l.
  Proof.
    induction l as [|a t IH]; intro HS; [reflexivity|].
    cbn [map] in HS. apply StronglySorted_inv in HS. destruct HS as [HS HF].
    rewrite Forall_forall in HF.
    assert (Hge : forall c, In c t -> bn a <= bn c) by (intros c Hc; apply HF; apply in_map; exact Hc).
    specialize (IH HS). unfold ncnt in *. cbn [filter].
    assert (EL : lt_b i a = (bn a <? i)) by reflexivity. assert (EE : eq_b i a = (bn a =? i)) by reflexivity.
    rewrite EL, EE. clear EL EE.
    destruct (bn a <? i) eqn:E1.
    - destruct (bn a =? i) eqn:E2; [lia|]. cbn [length skipn]. exact IH.
    - assert (H0 : filter (lt_b i) t = []).
      { apply filter_none. intros c Hc. unfold lt_b. specialize (Hge c Hc). lia. }
      rewrite H0 in *. cbn [length skipn] in *. destruct (bn a =? i) eqn:E2.
      + cbn [length firstn]. f_equal. exact IH.
      + assert (H1 : filter (eq_b i) t = []).
        { apply filter_none. intros c Hc. unfold eq_b. specialize (Hge c Hc). lia. }
        rewrite H1. reflexivity.
  Qed.

  (* ------------------------------------------------------------- the rev invariant *)
  Variable all : list Z.
  Hypothesis Hsorted : StronglySorted Z.le (map bn all).
  Let N := Z.of_nat (length all).
  Let nrev := N + nbin + 1.

  Lemma sorted_split p k r : all = p ++ k :: r ->
    (forall a, In a p -> bn a <= bn k) /\ (forall c, In c r -> bn k <= bn c).
  Proof.
    intro E. pose proof Hsorted as HS. rewrite E in HS. clear E. induction p as [|y p IH].
    - cbn [app map] in HS. apply StronglySorted_inv in HS. destruct HS as [_ HF]. rewrite Forall_forall in HF.
      split; [intros a []|]. intros c Hc. apply HF. apply in_map. exact Hc.
    - cbn [app map] in HS. apply StronglySorted_inv in HS. destruct HS as [HS HF]. rewrite Forall_forall in HF.
      destruct (IH HS) as [I1 I2]. split; [|exact I2]. intros a [Ha|Ha]; [|apply I1; exact Ha]. subst a.
      apply HF. rewrite map_app. apply in_or_app. right. left. reflexivity.
  Qed.

  Record Inv (p : list Z) (binold oe : Z) (rev : list Z) : Prop := {
    inv_len : Z.of_nat (length rev) = nrev;
    inv_bo : -1 <= binold < Z.max nbin 0;
    inv_tail : forall t, 0 <= t < Z.of_nat (length p) -> zget rev (nbin + 1 + t) = nth (Z.to_nat t) all 0;
    inv_le : forall k, In k p -> valid k = true -> bn k <= binold;
    inv_off : forall j, 0 <= j <= binold -> zget rev j = nbin + 1 + cnt_lt all j;
    inv_last : (binold = -1 /\ oe = nbin + 1 /\ forall k, In k p -> valid k = false)
               \/ (0 <= binold /\ oe = nbin + 1 + cnt_lt p nbin /\ exists k, In k p /\ valid k = true)
  }.

  Lemma cnt_lt_split p q j : (forall a, In a p -> bn a < j) -> (forall c, In c q -> j <= bn c) ->
    cnt_lt (p ++ q) j = Z.of_nat (length p).
  Proof.
    intros H1 H2. unfold cnt_lt. rewrite ncnt_app, ncnt_all, ncnt_none; [lia| |].
    - intros c Hc. unfold lt_b. specialize (H2 c Hc). lia.
    - intros a Ha. unfold lt_b. specialize (H1 a Ha). lia.
  Qed.

  Lemma inv_step p k r binold oe rev : all = p ++ k :: r -> Inv p binold oe rev ->
    let offset := Z.of_nat (length p) + nbin + 1 in
    let rev1 := zset rev offset k in
    if valid k
    then Inv (p ++ [k]) (bn k) (offset + 1)
             (if binold <? bn k then fill rev1 (binold + 1) (Z.to_nat (bn k - binold)) offset else rev1)
    else Inv (p ++ [k]) binold oe rev1.
  Proof.
    intros Eall [Ilen Ibo Itail Ile Ioff Ilast] offset rev1.
    destruct (sorted_split p k r Eall) as [Sp Sr].
    assert (HN : N = Z.of_nat (length p) + 1 + Z.of_nat (length r)).
    { unfold N. rewrite Eall, app_length. cbn [length]. lia. }
    assert (Hoff : nbin + 1 <= offset < nrev) by (unfold offset, nrev; lia).
    assert (Hlen1 : Z.of_nat (length rev1) = nrev) by (unfold rev1; rewrite zset_length; exact Ilen).
    assert (Hnthk : nth (length p) all 0 = k).
    { rewrite Eall, app_nth2 by lia. rewrite Nat.sub_diag. reflexivity. }
    assert (Htail1 : forall t, 0 <= t < Z.of_nat (length (p ++ [k])) ->
                     zget rev1 (nbin + 1 + t) = nth (Z.to_nat t) all 0).
    { intros t Ht. rewrite app_length in Ht. cbn [length] in Ht. unfold rev1. rewrite zget_zset by lia.
      destruct ((offset =? nbin + 1 + t) && (nbin + 1 + t <? Z.of_nat (length rev))) eqn:E.
      - assert (t = Z.of_nat (length p)) by (unfold offset in E; lia). subst t. rewrite Nat2Z.id. symmetry; exact Hnthk.
      - apply Itail. unfold offset in E. lia. }
    destruct (valid k) eqn:Ev.
    - (* counted *)
      assert (Hb : 0 <= bn k < nbin) by (unfold valid, valid_bin in Ev; lia).
      assert (Hpk : forall a, In a p -> valid a = false -> bn a < 0).
      { intros a Ha Hva. specialize (Sp a Ha). unfold valid, valid_bin in Hva. lia. }
      split.
      + destruct (binold <? bn k); [rewrite fill_length|]; exact Hlen1.
      + lia.
      + intros t Ht. destruct (binold <? bn k) eqn:Eb; [|apply Htail1; exact Ht].
        rewrite zget_fill by lia. rewrite app_length in Ht. cbn [length] in Ht.
        destruct ((binold + 1 <=? nbin + 1 + t) && (nbin + 1 + t <? binold + 1 + Z.of_nat (Z.to_nat (bn k - binold)))
                  && (nbin + 1 + t <? Z.of_nat (length rev1))) eqn:E; [lia|].
        apply Htail1. rewrite app_length. cbn [length]. lia.
      + intros a Ha Hva. apply in_app_or in Ha. destruct Ha as [Ha|[Ha|[]]]; [apply Sp; exact Ha|subst a; lia].
      + intros j Hj. destruct (binold <? bn k) eqn:Eb.
        * rewrite zget_fill by lia.
          destruct ((binold + 1 <=? j) && (j <? binold + 1 + Z.of_nat (Z.to_nat (bn k - binold)))
                    && (j <? Z.of_nat (length rev1))) eqn:E.
          -- (* freshly written offset: nothing before position |p| has bin >= j *)
             rewrite Eall. rewrite cnt_lt_split; [unfold offset; lia| |].
             ++ intros a Ha. destruct (valid a) eqn:Hva; [specialize (Ile a Ha Hva); lia|].
                specialize (Hpk a Ha Hva). lia.
             ++ intros c [Hc|Hc]; [subst c; lia|]. specialize (Sr c Hc). lia.
          -- unfold rev1. rewrite zget_zset by lia.
             destruct ((offset =? j) && (j <? Z.of_nat (length rev))) eqn:E2; [lia|]. apply Ioff. lia.
        * unfold rev1. rewrite zget_zset by lia.
          destruct ((offset =? j) && (j <? Z.of_nat (length rev))) eqn:E2; [lia|]. apply Ioff. lia.
      + right. split; [lia|]. split.
        * unfold cnt_lt. rewrite ncnt_all; [rewrite app_length; cbn [length]; unfold offset; lia|].
          intros a Ha. unfold lt_b. apply in_app_or in Ha. destruct Ha as [Ha|[Ha|[]]]; [specialize (Sp a Ha); lia|subst a; lia].
        * exists k. split; [apply in_or_app; right; left; reflexivity|exact Ev].
    - (* not counted *)
      split.
      + exact Hlen1.
      + exact Ibo.
      + exact Htail1.
      + intros a Ha Hva. apply in_app_or in Ha. destruct Ha as [Ha|[Ha|[]]]; [apply Ile; assumption|subst a; congruence].
      + intros j Hj. unfold rev1. rewrite zget_zset by lia.
        destruct ((offset =? j) && (j <? Z.of_nat (length rev))) eqn:E2; [lia|]. apply Ioff. lia.
      + destruct Ilast as [[I1 [I2 I3]]|[I1 [I2 [a [Ha Hva]]]]].
        * left. split; [exact I1|]. split; [exact I2|]. intros a Ha. apply in_app_or in Ha.
          destruct Ha as [Ha|[Ha|[]]]; [apply I3; exact Ha|subst a; exact Ev].
        * right. split; [exact I1|]. split.
          -- rewrite I2. unfold cnt_lt. rewrite ncnt_app.
             assert (G : ncnt (lt_b nbin) [k] = O).
             { apply ncnt_none. intros c [Hc|[]]. subst c. unfold lt_b.
               assert (0 <= bn a < nbin) by (unfold valid, valid_bin in Hva; lia).
               specialize (Sp a Ha). unfold valid, valid_bin in Ev. lia. }
             rewrite G. lia.
          -- exists a. split; [apply in_or_app; left; exact Ha|exact Hva].
  Qed.

  Lemma loop_inv s : forall p binold oe hist rev binold' oe' hist' rev',
    all = p ++ s -> Inv p binold oe rev ->
    c_loop bn nbin s (Z.of_nat (length p)) binold oe hist rev = (binold', oe', hist', rev') ->
    Inv all binold' oe' rev'.
  Proof.
    induction s as [|k ss IH]; intros p binold oe hist rev binold' oe' hist' rev' Eall HI E.
    - cbn [c_loop] in E. inversion E; subst binold' oe' hist' rev'. rewrite app_nil_r in Eall. rewrite Eall. exact HI.
    - cbn [c_loop] in E. pose proof (inv_step p k ss binold oe rev Eall HI) as HS. cbn zeta in HS.
      change (valid_bin nbin (bn k)) with (valid k) in E.
      assert (EL : Z.of_nat (length (p ++ [k])) = Z.of_nat (length p) + 1) by (rewrite app_length; cbn [length]; lia).
      assert (Eall' : all = (p ++ [k]) ++ ss) by (rewrite <- app_assoc; exact Eall).
      destruct (valid k).
      + rewrite <- EL in E. eapply IH; [exact Eall'|exact HS|exact E].
      + rewrite <- EL in E. eapply IH; [exact Eall'|exact HS|exact E].
  Qed.

  Lemma inv_init : Inv [] (-1) (nbin + 1) (zeros nrev).
  Proof.
    split.
    - rewrite zeros_length. unfold nrev, N. lia.
    - lia.
    - cbn [length]. lia.
    - intros k [].
    - lia.
    - left. split; [reflexivity|]. split; [reflexivity|]. intros k [].
  Qed.

  Lemma skipn_from_pointwise (rev : list Z) : Z.of_nat (length rev) = nrev ->
    (forall t, 0 <= t < N -> zget rev (nbin + 1 + t) = nth (Z.to_nat t) all 0) ->
    skipn (Z.to_nat (nbin + 1)) rev = all.
  Proof.
    intros HL HP. apply (nth_ext _ _ 0 0).
    - rewrite skipn_length. unfold nrev, N in HL. lia.
    - intros t Ht. rewrite skipn_length in Ht. rewrite nth_skipn.
      specialize (HP (Z.of_nat t)). unfold zget in HP. rewrite Nat2Z.id in HP.
      replace (Z.to_nat (nbin + 1) + t)%nat with (Z.to_nat (nbin + 1 + Z.of_nat t)) by lia.
      apply HP. unfold nrev, N in *. lia.
  Qed.

  Theorem chist_partition : let '(hist, rev) := chist bn nbin all in pass_partition bn nbin all hist rev.
  Proof.
    pose proof (chist_hist all) as HH. unfold chist in *. fold N in HH |- *. fold nrev in HH |- *.
    destruct (c_loop bn nbin all 0 (-1) (nbin + 1) (zeros nbin) (zeros nrev)) as [[[bo oe] hist] rev] eqn:E.
    destruct HH as [HL HC].
    pose proof (loop_inv all [] (-1) (nbin + 1) (zeros nbin) (zeros nrev) bo oe hist rev eq_refl inv_init E)
      as [Ilen Ibo Itail Ile Ioff Ilast].
    set (rev' := fill rev (bo + 1) (Z.to_nat (nbin - bo)) oe).
    assert (Hlen' : Z.of_nat (length rev') = nrev) by (unfold rev'; rewrite fill_length; exact Ilen).
    assert (Htail' : skipn (Z.to_nat (nbin + 1)) rev' = all).
    { apply skipn_from_pointwise; [exact Hlen'|]. intros t Ht. unfold rev'. rewrite zget_fill by lia.
      destruct ((bo + 1 <=? nbin + 1 + t) && (nbin + 1 + t <? bo + 1 + Z.of_nat (Z.to_nat (nbin - bo)))
                && (nbin + 1 + t <? Z.of_nat (length rev))) eqn:E1; [lia|]. apply Itail. exact Ht. }
    assert (Hhist : hist = map (cnt_eq all) (zseq 0 (Z.to_nat nbin))).
    { apply (nth_ext _ _ 0 0).
      - rewrite map_length. clear -HL. revert HL. generalize (length hist). intros n Hn.
        assert (G : forall s k, length (zseq s k) = k) by (intros s k; revert s; induction k; intro s; cbn; auto).
        rewrite G. lia.
      - intros t Ht. specialize (HC (Z.of_nat t)). unfold zget in HC. rewrite Nat2Z.id in HC. rewrite HC by lia.
        assert (G : forall s k u, (u < k)%nat -> nth u (map (cnt_eq all) (zseq s k)) 0 = cnt_eq all (s + Z.of_nat u)).
        { intros s k; revert s; induction k as [|k IHk]; intros s u Hu; [lia|]. destruct u as [|u]; cbn [zseq map nth].
          - f_equal. lia.
          - rewrite IHk by lia. f_equal. lia. }
        rewrite G by lia. f_equal. }
    (* the offsets *)
    assert (Hcases :
      (bo = -1 /\ (forall k, In k all -> valid k = false) /\ forall j, 0 <= j <= nbin -> zget rev' j = nbin + 1)
      \/ (0 <= bo /\ (exists k, In k all /\ valid k = true) /\ forall j, 0 <= j <= nbin -> zget rev' j = nbin + 1 + cnt_lt all j)).
    { destruct Ilast as [[I1 [I2 I3]]|[I1 [I2 I3]]].
      - left. split; [exact I1|]. split; [exact I3|]. intros j Hj. unfold rev'. rewrite zget_fill by lia.
        destruct ((bo + 1 <=? j) && (j <? bo + 1 + Z.of_nat (Z.to_nat (nbin - bo))) && (j <? Z.of_nat (length rev))) eqn:E1;
          [exact I2|]. unfold nrev in Ilen. lia.
      - right. split; [exact I1|]. split; [exact I3|]. intros j Hj. unfold rev'. rewrite zget_fill by lia.
        destruct ((bo + 1 <=? j) && (j <? bo + 1 + Z.of_nat (Z.to_nat (nbin - bo))) && (j <? Z.of_nat (length rev))) eqn:E1.
        + rewrite I2. f_equal. unfold cnt_lt. f_equal. apply ncnt_ext. intros a Ha. unfold lt_b.
          destruct (valid a) eqn:Hva.
          * specialize (Ile a Ha Hva). unfold valid, valid_bin in Hva. lia.
          * unfold valid, valid_bin in Hva. lia.
        + apply Ioff. unfold nrev in Ilen. lia. }
    unfold pass_partition. split; [exact HL|]. split; [unfold nrev, N in Hlen'; exact Hlen'|].
    split; [|split; [|split]].
    - intros i Hi. unfold slice.
      destruct Hcases as [[Hbo [Hnone Hoff]]|[Hbo [_ Hoff]]].
      + rewrite (Hoff i), (Hoff (i + 1)) by lia.
        replace (Z.to_nat (nbin + 1 - (nbin + 1))) with O by lia. cbn [firstn length].
        split; [lia|]. split; [unfold nrev in Hlen'; lia|]. split.
        * unfold sel. symmetry. apply filter_none. intros a Ha. specialize (Hnone a Ha).
          unfold valid, valid_bin in Hnone. lia.
        * rewrite (HC i Hi). unfold cnt_eq. rewrite ncnt_none; [reflexivity|]. intros a Ha. specialize (Hnone a Ha).
          unfold eq_b, valid, valid_bin in *. lia.
      + rewrite (Hoff i), (Hoff (i + 1)) by lia. rewrite cnt_lt_succ.
        pose proof (ncnt_le (lt_b (i + 1)) all) as Hle. pose proof (cnt_lt_succ all i) as Hs.
        unfold cnt_lt, cnt_eq in *.
        split; [lia|]. split; [unfold nrev, N in Hlen'; lia|].
        replace (Z.to_nat (nbin + 1 + (Z.of_nat (ncnt (lt_b i) all) + Z.of_nat (ncnt (eq_b i) all))
                           - (nbin + 1 + Z.of_nat (ncnt (lt_b i) all)))) with (ncnt (eq_b i) all) by lia.
        replace (Z.to_nat (nbin + 1 + Z.of_nat (ncnt (lt_b i) all)))
          with (Z.to_nat (nbin + 1) + ncnt (lt_b i) all)%nat by lia.
        rewrite <- skipn_skipn', Htail', (sorted_segment all i Hsorted).
        split; [reflexivity|]. rewrite (HC i Hi). reflexivity.
    - rewrite Hhist. unfold n_valid. apply zsum_cnt_eq.
    - exact Htail'.
    - intro Hall. destruct Hcases as [[Hbo [Hnone Hoff]]|[Hbo [_ Hoff]]].
      + rewrite (Hoff nbin) by lia. destruct all as [|a t] eqn:Ea.
        * unfold nrev, N in Hlen'. cbn [length] in Hlen'. lia.
        * specialize (Hnone a (or_introl eq_refl)). specialize (Hall a (or_introl eq_refl)). unfold valid in Hnone. congruence.
      + rewrite (Hoff nbin) by lia. unfold cnt_lt. rewrite ncnt_all; [unfold nrev, N in Hlen'; lia|].
        intros a Ha. specialize (Hall a Ha). unfold lt_b, valid_bin in *. lia.
  Qed.
End Pass.

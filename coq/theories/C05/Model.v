(* C05 — executable model of esutil.stat.histogram / Binner.dohist(rev=True)
   (esutil/stat/util.py:57-341, 480-642 and esutil/stat/chist_pywrap.c:11-98).  No proofs here.

   Numbers (style F): Binner.__init__ converts the data to float64 whatever their dtype
   (util.py:100), chist parses min and binsize with the "d" format (C double), and the python
   engine computes (np.float64 - min) / binsize, so EVERY bin number is computed in IEEE
   binary64: binnum = (npy_int64) ((x - min) / binsize).  It is modelled bit-exactly with
   PrimFloat sub/div and a truncating conversion read off Prim2SF.  Integer data therefore
   enter the model as the floats they are converted to (exact below 2^53). *)
From Coq Require Import PrimFloat Uint63 FloatOps SpecFloat.
From EsVerif.Common Require Import Base.

(* ------------------------------------------------------------ float -> int64 *)
Definition int64_min : Z := -9223372036854775808.
Definition int64_max : Z := 9223372036854775807.

(* x86-64 cvttsd2si, which is what both (npy_int64) x in C and np.int64(x) compile to:
   truncation toward zero; NaN, infinities and values outside int64 give INT64_MIN. *)
Definition clamp64 (v : Z) : Z :=
  if (int64_min <=? v) && (v <=? int64_max) then v else int64_min.

Definition f2z_trunc (f : float) : Z :=
  match Prim2SF f with
  | S754_zero _ => 0
  | S754_finite s m e =>
      let mag := if 0 <=? e then Z.pos m * 2 ^ e else Z.pos m / 2 ^ (- e) in
      clamp64 (if s then - mag else mag)
  | _ => int64_min
  end.

(* the mathematical floor, used by the specification only *)
Definition f2z_floor (f : float) : Z :=
  match Prim2SF f with
  | S754_zero _ => 0
  | S754_finite s m e =>
      let num := if s then Z.neg m else Z.pos m in
      clamp64 (if 0 <=? e then num * 2 ^ e else num / 2 ^ (- e))
  | _ => int64_min
  end.

(* exact for 0 <= z < 2^53 *)
Definition float_of_Z (z : Z) : float := PrimFloat.of_uint63 (Uint63.of_Z z).

Definition fget (x : list float) (k : Z) : float := nth (Z.to_nat k) x nan.

(* ------------------------------------------------------------ stable argsort *)
(* util.py:299-303  self.x.argsort(kind="stable").  numpy's sort is not part of esutil; the
   model is the insertion sort (on (index, value) pairs, indices taken in increasing order)
   that places index k after every index whose value is not greater (no NaN in the admitted data), i.e. THE stable sorting permutation. *)
Fixpoint enumerate (start : Z) (l : list float) : list (Z * float) :=
  match l with
  | [] => []
  | v :: t => (start, v) :: enumerate (start + 1) t
  end.

Fixpoint insert_kv (kv : Z * float) (l : list (Z * float)) : list (Z * float) :=
  match l with
  | [] => [kv]
  | jw :: t => if PrimFloat.ltb (snd kv) (snd jw) then kv :: l else jw :: insert_kv kv t
  end.

Definition sort_kv (l : list (Z * float)) : list (Z * float) :=
  fold_left (fun acc kv => insert_kv kv acc) l [].

Definition argsort (x : list float) : list Z := map fst (sort_kv (enumerate 0 x)).

(* ------------------------------------------------- _get_minmax_and_indices *)
(* util.py:305-341.  lo/hi are the min=/max= keywords.  s[0] / s[-1] raise IndexError on
   empty data; an empty selection raises ValueError. *)
Definition within (xmin xmax v : float) : bool := PrimFloat.leb xmin v && PrimFloat.leb v xmax.

Definition limits (x : list float) (s : list Z) (lo hi : option float)
  : result (float * float * list Z) :=
  match (match lo with Some v => Ok v
                     | None => match s with [] => Err EIndex | k :: _ => Ok (fget x k) end end) with
  | Err e => Err e
  | Ok xmin =>
    match (match hi with Some v => Ok v
                       | None => match s with [] => Err EIndex | _ => Ok (fget x (last s 0)) end end) with
    | Err e => Err e
    | Ok xmax =>
      match lo, hi with
      | None, None => Ok (xmin, xmax, s)
      | _, _ =>
        match filter (fun k => within xmin xmax (fget x k)) s with
        | [] => Err EValue
        | w => Ok (xmin, xmax, w)
        end
      end
    end
  end.

(* ------------------------------------------------- _hist_by_binsize_or_nbin *)
(* util.py:179-196.  binsize given: nbin = np.int64((dmax - dmin) / binsize) + 1;
   nbin given: binsize = float(dmax - dmin) / nbin. *)
Inductive mode := ByBinsize (b : float) | ByNbin (n : Z).

Definition derive (dmin dmax : float) (m : mode) : result (float * Z) :=
  match m with
  | ByBinsize b => Ok (b, f2z_trunc (PrimFloat.div (PrimFloat.sub dmax dmin) b) + 1)
  | ByNbin n => if n =? 0 then Err EOther    (* ZeroDivisionError *)
                else Ok (PrimFloat.div (PrimFloat.sub dmax dmin) (float_of_Z n), n)
  end.

Definition binnum (x : list float) (dmin bsize : float) (k : Z) : Z :=
  f2z_trunc (PrimFloat.div (PrimFloat.sub (fget x k) dmin) bsize).

(* ------------------------------------------------------------ the single pass *)
Definition zeros (n : Z) : list Z := repeat 0 (Z.to_nat n).

(* tbin = from; while (count left) { l[tbin] = v; tbin++ } *)
Fixpoint fill (l : list Z) (from : Z) (count : nat) (v : Z) : list Z :=
  match count with
  | O => l
  | S c => fill (zset l from v) (from + 1) c v
  end.

Definition valid_bin (nbin b : Z) : bool := (0 <=? b) && (b <? nbin).

Section Pass.
  Variable bn : Z -> Z.        (* data index |-> bin number, computed inline by both engines *)
  Variable nbin : Z.

  (* chist_pywrap.c:52-98 (with dorev): the loop variable is i, offset = i + nbin + 1. *)
  Fixpoint c_loop (s : list Z) (i binold offset_end : Z) (hist rev : list Z)
    : Z * Z * list Z * list Z :=
    match s with
    | [] => (binold, offset_end, hist, rev)
    | data_index :: ss =>
        let offset := i + nbin + 1 in
        let rev := zset rev offset data_index in
        let b := bn data_index in
        if valid_bin nbin b then
          let rev := if binold <? b then fill rev (binold + 1) (Z.to_nat (b - binold)) offset else rev in
          c_loop ss (i + 1) b (offset + 1) (zset hist b (zget hist b + 1)) rev
        else c_loop ss (i + 1) binold offset_end hist rev
    end.

  Definition chist (s : list Z) : list Z * list Z :=
    let nrev := Z.of_nat (length s) + nbin + 1 in
    let '(binold, offset_end, hist, rev) := c_loop s 0 (-1) (nbin + 1) (zeros nbin) (zeros nrev) in
    (hist, fill rev (binold + 1) (Z.to_nat (nbin - binold)) offset_end).

  (* util.py:601-648 _dohist (with revind): offset is carried and incremented. *)
  Fixpoint py_loop (s : list Z) (offset binold offset_end : Z) (hist rev : list Z)
    : Z * Z * list Z * list Z :=
    match s with
    | [] => (binold, offset_end, hist, rev)
    | data_index :: ss =>
        let rev := zset rev offset data_index in
        let b := bn data_index in
        if valid_bin nbin b then
          let rev := if b >? binold then fill rev (binold + 1) (Z.to_nat (b - binold)) offset else rev in
          py_loop ss (offset + 1) b (offset + 1) (zset hist b (zget hist b + 1)) rev
        else py_loop ss (offset + 1) binold offset_end hist rev
    end.

  Definition pyhist (s : list Z) : list Z * list Z :=
    let revsize := Z.of_nat (length s) + nbin + 1 in
    let hist := zeros nbin in
    let revind := zeros revsize in
    let '(binold, offset_end, hist, rev) := py_loop s (nbin + 1) (-1) (nbin + 1) hist revind in
    (hist, fill rev (binold + 1) (Z.to_nat (nbin - binold)) offset_end).

  (* The pass as it stood before the repair (fixes/C05): the remaining offsets were closed
     with the size of the rev array.  Kept only to state what was wrong. *)
  Definition chist_unpatched (s : list Z) : list Z * list Z :=
    let nrev := Z.of_nat (length s) + nbin + 1 in
    let '(binold, _, hist, rev) := c_loop s 0 (-1) (nbin + 1) (zeros nbin) (zeros nrev) in
    (hist, fill rev (binold + 1) (Z.to_nat (nbin - binold)) nrev).
End Pass.

(* ------------------------------------------------------------ public entry *)
Record params := mkParams { p_dmin : float; p_dmax : float; p_bsize : float; p_nbin : Z }.

Inductive engine := EngC | EngPy.

Record outcome := mkOut { o_params : params; o_sort : list Z; o_wsort : list Z;
                          o_hist : list Z; o_rev : list Z }.

(* histogram(data, binsize=|nbin=, min=, max=, rev=True) = Binner(data).dohist(..., rev=True):
   sort, select, derive the bin specification, one pass.  np.zeros(nbin) rejects nbin < 0. *)
Definition histogram (eng : engine) (x : list float) (lo hi : option float) (m : mode)
  : result outcome :=
  let s := argsort x in
  match limits x s lo hi with
  | Err e => Err e
  | Ok (dmin, dmax, w) =>
    match derive dmin dmax m with
    | Err e => Err e
    | Ok (bsize, nbin) =>
      if nbin <? 0 then Err EValue
      else
        let bn := binnum x dmin bsize in
        let '(hist, rev) := match eng with EngC => chist bn nbin w | EngPy => pyhist bn nbin w end in
        Ok (mkOut (mkParams dmin dmax bsize nbin) s w hist rev)
    end
  end.

(* ------------------------------------------------------------ named constants *)
(* The constants and small decisions of the anchored code, by name.  Proofs.v (`*_const` lemmas)
   ties each of them to the functions above; harness/props/c05_translate.py regenerates them from
   the source of the tree under test on every run and Exec.consts_agree compares. *)
Definition default_binsize : float := 1%float.     (* histogram(binsize=1.0)            util.py:483 *)
Definition nbin_plus : Z := 1.                      (* np.int64((dmax-dmin)/binsize) + 1  util.py:182 *)
Definition rev_extra : Z := 1.                      (* revsize = sortind.size + nbin + 1  util.py:261,281 *)
Definition binold_init : Z := -1.                   (* binnum_old = -1                    both engines *)
Definition offset_init : Z := 1.                    (* offset = nbin + 1 / i + nbin + 1   both engines *)
Definition offset_end_init : Z := 1.                (* offset_end = nbin + 1              both engines *)
Definition offset_end_step : Z := 1.                (* offset_end = offset + 1            both engines *)
Definition lo_inclusive : bool := true.             (* self.x[s] >= xmin                  util.py:333 *)
Definition hi_inclusive : bool := true.             (* self.x[s] <= xmax *)
Definition sort_stable : bool := true.              (* argsort(kind="stable")             util.py:301 *)
Definition hist_nbin_overrides : bool := true.      (* histogram(): if nbin is not None: binsize = None *)
Definition binner_binsize_first : bool := true.     (* _hist_by_binsize_or_nbin tests binsize first *)

(* ------------------------------------------------------------ option handling *)
(* histogram(data, binsize=1.0, nbin=None, min=None, max=None, ...) (util.py:480-598): nbin, when
   given, overrides binsize.  Binner.dohist(binsize=None, nbin=None, ...) (util.py:121-196): the
   limits are applied first, then binsize is looked at before nbin; neither given ->
   ValueError("Send binsize or nbin or nperbin"). *)
Inductive api := ApiHistogram | ApiBinner.
Inductive kw := KwOmit | KwNone | KwVal (v : float).       (* the binsize= keyword *)

Definition kw_binsize (a : api) (k : kw) : option float :=
  match k with
  | KwVal v => Some v
  | KwNone => None
  | KwOmit => match a with ApiHistogram => Some default_binsize | ApiBinner => None end
  end.

Definition resolve (a : api) (k : kw) (nbin : option Z) : option mode :=
  match a with
  | ApiHistogram =>
      match nbin with
      | Some n => Some (ByNbin n)
      | None => match kw_binsize a k with Some b => Some (ByBinsize b) | None => None end
      end
  | ApiBinner =>
      match kw_binsize a k with
      | Some b => Some (ByBinsize b)
      | None => match nbin with Some n => Some (ByNbin n) | None => None end
      end
  end.

Definition histogram_api (eng : engine) (a : api) (x : list float) (lo hi : option float)
           (k : kw) (nbin : option Z) : result outcome :=
  match resolve a k nbin with
  | Some m => histogram eng x lo hi m
  | None => match limits x (argsort x) lo hi with Err e => Err e | Ok _ => Err EValue end
  end.

(* ------------------------------------------------------------ without reverse indices *)
(* rev=False (and no weights / second variable): both engines run the same loop with dorev off,
   i.e. only  hist[binnum] += 1  for the data with a valid bin number. *)
Fixpoint hist_loop (bn : Z -> Z) (nbin : Z) (s : list Z) (hist : list Z) : list Z :=
  match s with
  | [] => hist
  | k :: ss =>
      let b := bn k in
      if valid_bin nbin b then hist_loop bn nbin ss (zset hist b (zget hist b + 1))
      else hist_loop bn nbin ss hist
  end.
Definition hist_norev (bn : Z -> Z) (nbin : Z) (s : list Z) : list Z := hist_loop bn nbin s (zeros nbin).

(* ------------------------------------------------------------ the Binner object and its cache *)
(* Binner.__init__ keeps a float64 copy of the data (util.py:100) and sort_index = None (util.py:104);
   _get_sort_index (util.py:299-303) computes the stable argsort once and keeps it on the object for
   all later dohist calls; dohist starts with self.clear(), so nothing else survives a call.
   histogram() (util.py:582-596) builds a new Binner for every call. *)
Record binner := mkBinner { b_x : list float; b_sort : option (list Z) }.
Definition binner_new (x : list float) : binner := mkBinner x None.

(* histogram with the sort index handed in (what dohist does with the cached index) *)
Definition histogram_with (eng : engine) (s : list Z) (x : list float) (lo hi : option float) (m : mode)
  : result outcome :=
  match limits x s lo hi with
  | Err e => Err e
  | Ok (dmin, dmax, w) =>
    match derive dmin dmax m with
    | Err e => Err e
    | Ok (bsize, nbin) =>
      if nbin <? 0 then Err EValue
      else
        let bn := binnum x dmin bsize in
        let '(hist, rev) := match eng with EngC => chist bn nbin w | EngPy => pyhist bn nbin w end in
        Ok (mkOut (mkParams dmin dmax bsize nbin) s w hist rev)
    end
  end.

(* one dohist call on a Binner object: new object state and result *)
Definition dohist (eng : engine) (a : api) (b : binner) (lo hi : option float) (k : kw) (nb : option Z)
  : binner * result outcome :=
  let s := match b_sort b with Some s => s | None => argsort (b_x b) end in
  (mkBinner (b_x b) (Some s),
   match resolve a k nb with
   | Some m => histogram_with eng s (b_x b) lo hi m
   | None => match limits (b_x b) s lo hi with Err e => Err e | Ok _ => Err EValue end
   end).

(* a call: which engine is switched on, and the keywords *)
Record call := mkCall { c_eng : engine; c_lo : option float; c_hi : option float; c_kw : kw; c_nbin : option Z }.

(* a sequence of dohist calls on one Binner object *)
Fixpoint run_binner (b : binner) (cs : list call) : list (result outcome) :=
  match cs with
  | [] => []
  | c :: t => let '(b', r) := dohist (c_eng c) ApiBinner b (c_lo c) (c_hi c) (c_kw c) (c_nbin c) in
              r :: run_binner b' t
  end.

(* esutil.stat.histogram(data, ...): a fresh Binner per call *)
Definition histogram_call (x : list float) (c : call) : result outcome :=
  snd (dohist (c_eng c) ApiHistogram (binner_new x) (c_lo c) (c_hi c) (c_kw c) (c_nbin c)).

(* C05 — the model of the stable argsort returns the indices ordered by value with ties in
   original order, for data without NaN/infinities; consequences for first/last element. *)
From Coq Require Import ZArith Reals Lia Lra List Bool Sorting.Permutation.
From Coq Require Import PrimFloat FloatOps SpecFloat.
From EsVerif.Common Require Import Base.
From EsVerif.C05 Require Import Model Spec PassProofs Proofs FloatFacts.
Local Open Scope R_scope.

Notation float := PrimFloat.float.

Definition bef (a b : Z * float) : Prop :=
  rv (snd a) < rv (snd b) \/ (rv (snd a) = rv (snd b) /\ (fst a < fst b)%Z).

Lemma before_v_bef a b : finite_f (snd a) = true -> finite_f (snd b) = true ->
  (before_v a b = true <-> bef a b).
Proof.
  intros Fa Fb. unfold before_v, bef. rewrite orb_true_iff, andb_true_iff.
  rewrite (ltb_R _ _ Fa Fb), (eqb_R _ _ Fa Fb), Z.ltb_lt. reflexivity.
Qed.

Lemma bef_le a b : bef a b -> rv (snd a) <= rv (snd b).
Proof. intros [H|[H _]]; lra. Qed.

Fixpoint ordv (l : list (Z * float)) : Prop :=
  match l with
  | [] => True
  | a :: t => (forall b, In b t -> bef a b) /\ ordv t
  end.

Lemma insert_ordv kv l :
  finite_f (snd kv) = true ->
  (forall j, In j l -> finite_f (snd j) = true /\ (fst j < fst kv)%Z) ->
  ordv l -> ordv (insert_kv kv l).
Proof.
  intros Fk. induction l as [|jw t IH]; intros Hl Ho; cbn [insert_kv].
  - cbn [ordv]. split; [intros b []|exact I].
  - destruct (Hl jw (or_introl eq_refl)) as [Fj Ij]. destruct Ho as [Hj Ht].
    destruct (PrimFloat.ltb (snd kv) (snd jw)) eqn:E.
    + apply (ltb_R _ _ Fk Fj) in E. cbn [ordv]. split; [|split; assumption].
      intros b [<-|Hb]; [left; exact E|]. left. specialize (Hj b Hb). apply bef_le in Hj. lra.
    + assert (N : ~ rv (snd kv) < rv (snd jw)).
      { intro H. apply (ltb_R _ _ Fk Fj) in H. congruence. }
      cbn [ordv]. split.
      * intros b Hb. apply (Permutation_in _ (insert_kv_perm kv t)) in Hb. destruct Hb as [<-|Hb]; [|auto].
        destruct (Rtotal_order (rv (snd jw)) (rv (snd kv))) as [H|[H|H]]; [left; exact H|right; auto|lra].
      * apply IH; [|exact Ht]. intros j Hjin. apply Hl. right. exact Hjin.
Qed.

Lemma fold_ordv l : forall start acc,
  (forall v, In v l -> finite_f v = true) ->
  (forall j, In j acc -> finite_f (snd j) = true /\ (fst j < start)%Z) ->
  ordv acc -> ordv (fold_left (fun acc kv => insert_kv kv acc) (enumerate start l) acc).
Proof.
  induction l as [|v t IH]; intros start acc Fl Ha Ho; cbn [enumerate fold_left]; [exact Ho|].
  apply IH.
  - intros w Hw. apply Fl. right. exact Hw.
  - intros j Hj. apply (Permutation_in _ (insert_kv_perm _ _)) in Hj. destruct Hj as [<-|Hj].
    + cbn [fst snd]. split; [apply Fl; left; reflexivity|lia].
    + destruct (Ha j Hj). split; [assumption|lia].
  - apply insert_ordv; [apply Fl; left; reflexivity| |exact Ho].
    intros j Hj. cbn [fst]. apply Ha. exact Hj.
Qed.

Lemma enumerate_In l : forall start kv, In kv (enumerate start l) ->
  (start <= fst kv < start + Z.of_nat (length l))%Z
  /\ snd kv = nth (Z.to_nat (fst kv - start)) l nan /\ In (snd kv) l.
Proof.
  induction l as [|v t IH]; intros start kv H; cbn [enumerate] in H; [destruct H|].
  destruct H as [<-|H].
  - cbn [fst snd length]. rewrite Z.sub_diag. cbn. split; [lia|]. auto.
  - destruct (IH _ _ H) as (R & E & I). cbn [length]. split; [lia|]. split; [|right; exact I].
    rewrite E. replace (Z.to_nat (fst kv - start)) with (S (Z.to_nat (fst kv - (start + 1)))) by lia.
    reflexivity.
Qed.

Section Data.
  Variable x : list float.
  Hypothesis x_fin : forallb finite_f x = true.

  Lemma x_fin_In v : In v x -> finite_f v = true.
  Proof. rewrite forallb_forall in x_fin. apply x_fin. Qed.

  Lemma fget_fin k : (0 <= k < Z.of_nat (length x))%Z -> finite_f (fget x k) = true.
  Proof. intros H. apply x_fin_In. unfold fget. apply nth_In. lia. Qed.

  Lemma argsort_in_range k : In k (argsort x) -> (0 <= k < Z.of_nat (length x))%Z.
  Proof.
    intros H. apply (Permutation_in _ (argsort_perm x)) in H. apply in_zseq in H. lia.
  Qed.

  Lemma ordv_ordered L :
    (forall kv, In kv L -> snd kv = fget x (fst kv) /\ finite_f (snd kv) = true) ->
    ordv L -> ordered x (map fst L).
  Proof.
    induction L as [|a t IH]; intros HL Ho; cbn [map ordered]; [exact I|].
    destruct Ho as [Ha Ht]. split.
    - intros b Hb. apply in_map_iff in Hb. destruct Hb as (kb & <- & Hkb).
      destruct (HL a (or_introl eq_refl)) as [Ea Fa]. destruct (HL kb (or_intror Hkb)) as [Eb Fb].
      unfold before. rewrite <- Ea, <- Eb. destruct a as [ai av], kb as [bi bv]. cbn [fst snd] in *.
      apply (before_v_bef (ai, av) (bi, bv) Fa Fb). apply (Ha _ Hkb).
    - apply IH; [|exact Ht]. intros kv Hkv. apply HL. right. exact Hkv.
  Qed.

  Theorem argsort_ordered : ordered x (argsort x).
  Proof.
    unfold argsort. apply ordv_ordered.
    - intros kv Hkv. unfold sort_kv in Hkv. apply (Permutation_in _ (fold_insert_perm _ _)) in Hkv.
      rewrite app_nil_r in Hkv. destruct (enumerate_In _ _ _ Hkv) as (R & E & I).
      split; [|apply x_fin_In; exact I]. rewrite E. unfold fget. rewrite Z.sub_0_r. reflexivity.
    - unfold sort_kv. apply fold_ordv; [exact x_fin_In|intros j []|exact I].
  Qed.

  Lemma ordered_filter (f : Z -> bool) l : ordered x l -> ordered x (filter f l).
  Proof.
    induction l as [|a t IH]; intros Ho; cbn [filter]; [exact I|]. destruct Ho as [Ha Ht].
    destruct (f a); [|auto]. cbn [ordered]. split; [|auto].
    intros b Hb. apply filter_In in Hb. apply Ha. tauto.
  Qed.

  Lemma before_le a b : (0 <= a < Z.of_nat (length x))%Z -> (0 <= b < Z.of_nat (length x))%Z ->
    before x a b = true -> rv (fget x a) <= rv (fget x b).
  Proof.
    intros Ra Rb H. unfold before in H.
    apply (before_v_bef (a, fget x a) (b, fget x b) (fget_fin _ Ra) (fget_fin _ Rb)) in H.
    apply bef_le in H. exact H.
  Qed.

  Lemma ordered_values_le a t b : (forall j, In j (a :: t) -> (0 <= j < Z.of_nat (length x))%Z) ->
    ordered x (a :: t) -> In b t -> rv (fget x a) <= rv (fget x b).
  Proof.
    intros R [Ha _] Hb. apply before_le; [apply R; left; reflexivity|apply R; right; exact Hb|auto].
  Qed.

  Lemma ordered_first_min a t k : (forall j, In j (a :: t) -> (0 <= j < Z.of_nat (length x))%Z) ->
    ordered x (a :: t) -> In k (a :: t) -> PrimFloat.leb (fget x a) (fget x k) = true.
  Proof.
    intros R Ho Hk. assert (Fa := fget_fin _ (R a (or_introl eq_refl))). assert (Fk := fget_fin _ (R k Hk)).
    apply (leb_R _ _ Fa Fk). destruct Hk as [E|Hk]; [subst k; lra|]. eapply ordered_values_le; eauto.
  Qed.

  Lemma ordered_last_max l : forall k, (forall j, In j l -> (0 <= j < Z.of_nat (length x))%Z) ->
    ordered x l -> In k l -> PrimFloat.leb (fget x k) (fget x (last l 0%Z)) = true.
  Proof.
    induction l as [|a t IH]; intros k R Ho Hk; [destruct Hk|].
    destruct t as [|b t'].
    - destruct Hk as [E|[]]. subst k. cbn [last]. assert (Fk := fget_fin _ (R a (or_introl eq_refl))).
      apply (leb_R _ _ Fk Fk). lra.
    - change (last (a :: b :: t') 0%Z) with (last (b :: t') 0%Z).
      assert (Rt : forall j, In j (b :: t') -> (0 <= j < Z.of_nat (length x))%Z) by (intros j Hj; apply R; right; exact Hj).
      destruct Hk as [E|Hk]; [subst k|apply IH; [exact Rt|apply Ho|exact Hk]].
      assert (Hlast : In (last (b :: t') 0%Z) (b :: t')).
      { clear. generalize b. induction t' as [|c t'' IHt]; intro b0; [left; reflexivity|].
        change (last (b0 :: c :: t'') 0%Z) with (last (c :: t'') 0%Z). right. apply IHt. }
      assert (Fa := fget_fin _ (R a (or_introl eq_refl))). assert (Fl := fget_fin _ (Rt _ Hlast)).
      apply (leb_R _ _ Fa Fl). eapply ordered_values_le; [exact R|exact Ho|exact Hlast].
  Qed.
  (* the stable order is unique: two orderings of the same indices that both put smaller values first
     and equal values in index order are the same list *)
  Lemma before_asym a b : (0 <= a < Z.of_nat (length x))%Z -> (0 <= b < Z.of_nat (length x))%Z ->
    before x a b = true -> before x b a = true -> False.
  Proof.
    intros Ra Rb H1 H2. unfold before in *.
    apply (before_v_bef (a, fget x a) (b, fget x b) (fget_fin _ Ra) (fget_fin _ Rb)) in H1.
    apply (before_v_bef (b, fget x b) (a, fget x a) (fget_fin _ Rb) (fget_fin _ Ra)) in H2.
    unfold bef in *. cbn [fst snd] in *. destruct H1 as [H1|[H1 L1]], H2 as [H2|[H2 L2]]; try lra. lia.
  Qed.

  Theorem ordered_unique s1 : forall s2,
    (forall k, In k s1 -> (0 <= k < Z.of_nat (length x))%Z) ->
    Permutation s1 s2 -> ordered x s1 -> ordered x s2 -> s1 = s2.
  Proof.
    induction s1 as [|a t1 IH]; intros s2 R P O1 O2.
    - apply Permutation_nil in P. symmetry. exact P.
    - destruct s2 as [|b t2]; [apply Permutation_sym, Permutation_nil in P; discriminate|].
      assert (E : a = b).
      { destruct (Z.eq_dec a b) as [E|N]; [exact E|exfalso].
        assert (Ia : In a t2).
        { assert (I : In a (b :: t2)) by (apply (Permutation_in _ P); left; reflexivity).
          destruct I as [I|I]; [congruence|exact I]. }
        assert (Ib : In b t1).
        { assert (I : In b (a :: t1)) by (apply (Permutation_in _ (Permutation_sym P)); left; reflexivity).
          destruct I as [I|I]; [congruence|exact I]. }
        apply (before_asym a b); [apply R; left; reflexivity|apply R; right; exact Ib|apply O1; exact Ib|apply O2; exact Ia]. }
      subst b. f_equal. apply IH.
      + intros k Hk. apply R. right. exact Hk.
      + apply (Permutation_cons_inv P).
      + apply O1.
      + apply O2.
  Qed.

  (* whatever a stable argsort returns -- a permutation of 0..n-1 ordered by value with ties in
     original order -- it is the list the model computes *)
  Corollary stable_argsort_unique s :
    Permutation s (zseq 0 (length x)) -> ordered x s -> s = argsort x.
  Proof.
    intros P O. apply ordered_unique; [| |exact O|apply argsort_ordered].
    - intros k Hk. apply (Permutation_in _ P) in Hk. apply in_zseq in Hk. lia.
    - eapply Permutation_trans; [exact P|apply Permutation_sym, argsort_perm].
  Qed.
End Data.

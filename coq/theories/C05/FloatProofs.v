(* C05 — the hypotheses `contracts` of C05_model_meets_spec are theorems for finite data, finite
   limits and a sane bin specification (params_ok); hence the property on the data themselves. *)
From Coq Require Import ZArith Reals Lia Lra List Bool Sorting.Permutation Sorting.Sorted.
From Coq Require Import PrimFloat FloatOps SpecFloat.
From EsVerif.Common Require Import Base.
From EsVerif.C05 Require Import Model Spec PassProofs Proofs FloatFacts SortFacts.

Notation float := PrimFloat.float.

Section Data.
  Variable x : list float.
  Hypothesis x_fin : forallb finite_f x = true.

  Let inr (k : Z) : Prop := 0 <= k < Z.of_nat (length x).

  Lemma filter_ext_in' {A} (f g : A -> bool) l : (forall a, In a l -> f a = g a) -> filter f l = filter g l.
  Proof.
    induction l as [|a t IH]; intros H; [reflexivity|]. cbn [filter].
    rewrite (H a (or_introl eq_refl)), IH; [reflexivity|]. intros b Hb. apply H. right. exact Hb.
  Qed.

  Lemma limits_facts lo hi dmin dmax w :
    finite_opt lo = true -> finite_opt hi = true ->
    limits x (argsort x) lo hi = Ok (dmin, dmax, w) ->
    finite_f dmin = true /\ finite_f dmax = true
    /\ w = filter (fun k => in_limits lo hi (fget x k)) (argsort x)
    /\ (forall k, In k w -> PrimFloat.leb dmin (fget x k) = true /\ PrimFloat.leb (fget x k) dmax = true).
  Proof.
    intros Flo Fhi. assert (Ho := argsort_ordered x x_fin). assert (Rg := argsort_in_range x).
    unfold limits. destruct (argsort x) as [|k0 t] eqn:S.
    - destruct lo, hi; cbn; try discriminate.
    - set (s := k0 :: t) in *.
      assert (Lmin : forall k, In k s -> PrimFloat.leb (fget x k0) (fget x k) = true).
      { intros k Hk. apply (ordered_first_min x x_fin k0 t k Rg Ho Hk). }
      assert (Lmax : forall k, In k s -> PrimFloat.leb (fget x k) (fget x (last s 0)) = true).
      { intros k Hk. apply (ordered_last_max x x_fin s k Rg Ho Hk). }
      assert (Hl : In (last s 0) s).
      { unfold s. clear. generalize k0. induction t as [|c t' IH]; intro b; [left; reflexivity|].
        change (last (b :: c :: t') 0) with (last (c :: t') 0). right. apply IH. }
      assert (F0 : finite_f (fget x k0) = true) by (apply (fget_fin x x_fin), Rg; left; reflexivity).
      assert (Fl : finite_f (fget x (last s 0)) = true) by (apply (fget_fin x x_fin), Rg; exact Hl).
      destruct lo as [l|], hi as [h|]; cbn [finite_opt] in Flo, Fhi.
      + destruct (filter (fun k => within l h (fget x k)) s) as [|w0 w'] eqn:Fw; [discriminate|].
        intros E. injection E as <- <- <-. rewrite <- Fw. repeat split; auto.
        * apply filter_In in H. unfold within in H. destruct H as [_ H]. apply andb_true_iff in H. tauto.
        * apply filter_In in H. unfold within in H. destruct H as [_ H]. apply andb_true_iff in H. tauto.
      + destruct (filter (fun k => within l (fget x (last s 0)) (fget x k)) s) as [|w0 w'] eqn:Fw; [discriminate|].
        intros E. injection E as <- <- <-. rewrite <- Fw. repeat split; auto.
        * apply filter_ext_in'. intros k Hk. unfold within, in_limits. rewrite (Lmax k Hk). reflexivity.
        * apply filter_In in H. unfold within in H. destruct H as [_ H]. apply andb_true_iff in H. tauto.
        * apply filter_In in H. unfold within in H. destruct H as [_ H]. apply andb_true_iff in H. tauto.
      + destruct (filter (fun k => within (fget x k0) h (fget x k)) s) as [|w0 w'] eqn:Fw; [discriminate|].
        intros E. injection E as <- <- <-. rewrite <- Fw. repeat split; auto.
        * apply filter_ext_in'. intros k Hk. unfold within, in_limits. rewrite (Lmin k Hk). reflexivity.
        * apply filter_In in H. unfold within in H. destruct H as [_ H]. apply andb_true_iff in H. tauto.
        * apply filter_In in H. unfold within in H. destruct H as [_ H]. apply andb_true_iff in H. tauto.
      + intros E. injection E as <- <- <-. repeat split; auto.
        * symmetry. apply filter_all. intros. reflexivity.
  Qed.

  Lemma ordered_sorted_bn dmin dmax bs nb w :
    finite_f dmin = true -> finite_f dmax = true ->
    params_ok (mkParams dmin dmax bs nb) = true ->
    (forall k, In k w -> inr k /\ PrimFloat.leb dmin (fget x k) = true /\ PrimFloat.leb (fget x k) dmax = true) ->
    ordered x w -> Sorted Z.le (map (binnum x dmin bs) w).
  Proof.
    intros Fm FM POK. induction w as [|a t IH]; intros Hw Ho; cbn [map]; [constructor|].
    constructor.
    - apply IH; [|apply Ho]. intros k Hk. apply Hw. right. exact Hk.
    - destruct t as [|b t']; cbn [map]; constructor.
      destruct (Hw a (or_introl eq_refl)) as (Ra & La & _).
      destruct (Hw b (or_intror (or_introl eq_refl))) as (Rb & _ & Lb).
      apply (binnum_monotone dmin dmax bs nb Fm FM POK x a b); auto.
      + apply (fget_fin x x_fin). exact Ra.
      + apply (fget_fin x x_fin). exact Rb.
      + apply (ordered_values_le x x_fin a (b :: t') b); [|exact Ho|left; reflexivity].
        intros j Hj. apply Hw. exact Hj.
  Qed.

  Theorem contracts_hold eng lo hi m o :
    finite_opt lo = true -> finite_opt hi = true ->
    histogram eng x lo hi m = Ok o -> params_ok (o_params o) = true ->
    contracts x lo hi o.
  Proof.
    intros Flo Fhi H POK. unfold histogram in H.
    destruct (limits x (argsort x) lo hi) as [[[dmin dmax] w]|] eqn:L; [|discriminate].
    destruct (derive dmin dmax m) as [[bs nb]|]; [|discriminate].
    destruct (nb <? 0); [discriminate|].
    destruct (match eng with EngC => chist (binnum x dmin bs) nb w | EngPy => pyhist (binnum x dmin bs) nb w end) as [hist rev].
    injection H as <-. cbn [o_params o_sort o_wsort p_dmin p_bsize] in *.
    destruct (limits_facts lo hi dmin dmax w Flo Fhi L) as (Fm & FM & Ew & Bw).
    assert (Rw : forall k, In k w -> inr k).
    { intros k Hk. rewrite Ew in Hk. apply filter_In in Hk. apply (argsort_in_range x). tauto. }
    unfold contracts. cbn [o_params o_sort o_wsort p_dmin p_bsize].
    split; [apply (argsort_ordered x x_fin)|]. split; [exact Ew|]. split.
    - intros k Hk. destruct (Bw k Hk) as [L1 L2].
      apply (binnum_floor dmin dmax bs nb Fm FM POK x k); auto. apply (fget_fin x x_fin), Rw, Hk.
    - apply (ordered_sorted_bn dmin dmax bs nb w Fm FM POK).
      + intros k Hk. destruct (Bw k Hk). auto.
      + rewrite Ew. apply (ordered_filter x). apply (argsort_ordered x x_fin).
  Qed.

  Lemma sorted_const (bn : Z -> Z) c w : (forall k, In k w -> bn k = c) -> Sorted Z.le (map bn w).
  Proof.
    induction w as [|a t IH]; intros H; cbn [map]; constructor.
    - apply IH. intros k Hk. apply H. right. exact Hk.
    - destruct t as [|b t']; cbn [map]; constructor.
      rewrite (H a (or_introl eq_refl)), (H b (or_intror (or_introl eq_refl))). lia.
  Qed.

  (* a zero bin size (constant data in nbin mode): nothing is counted, the contracts hold *)
  Theorem contracts_hold_zero eng lo hi m o :
    finite_opt lo = true -> finite_opt hi = true ->
    histogram eng x lo hi m = Ok o -> zero_f (p_bsize (o_params o)) = true ->
    contracts x lo hi o.
  Proof.
    intros Flo Fhi H ZB. unfold histogram in H.
    destruct (limits x (argsort x) lo hi) as [[[dmin dmax] w]|] eqn:L; [|discriminate].
    destruct (derive dmin dmax m) as [[bs nb]|]; [|discriminate].
    destruct (nb <? 0); [discriminate|].
    destruct (match eng with EngC => chist (binnum x dmin bs) nb w | EngPy => pyhist (binnum x dmin bs) nb w end) as [hist rev].
    injection H as <-. cbn [o_params o_sort o_wsort p_dmin p_bsize] in *.
    destruct (limits_facts lo hi dmin dmax w Flo Fhi L) as (Fm & FM & Ew & Bw).
    unfold contracts. cbn [o_params o_sort o_wsort p_dmin p_bsize].
    split; [apply (argsort_ordered x x_fin)|]. split; [exact Ew|].
    assert (E : forall k, binnum x dmin bs k = int64_min /\ bin_index dmin bs (fget x k) = int64_min).
    { intros k. unfold binnum, bin_index. apply div_zero_int64_min. exact ZB. }
    split.
    - intros k _. destruct (E k) as [-> ->]. reflexivity.
    - apply (sorted_const _ int64_min). intros k _. apply E.
  Qed.

  (* the property on the data themselves, no monitored hypothesis left *)
  Theorem holds_finite eng lo hi m o :
    finite_opt lo = true -> finite_opt hi = true ->
    histogram eng x lo hi m = Ok o -> params_ok (o_params o) = true ->
    hist_ok x lo hi (p_dmin (o_params o)) (p_bsize (o_params o)) (p_nbin (o_params o)) (o_hist o) (o_rev o).
  Proof.
    intros Flo Fhi H POK. apply (model_meets_spec eng x lo hi m o H).
    apply (contracts_hold eng lo hi m o Flo Fhi H POK).
  Qed.
End Data.

(* float-level statement of binnum_monotone (no reals in the statement) *)
Theorem binnum_monotone_f dmin dmax bs nb x k1 k2 :
  finite_f dmin = true -> finite_f dmax = true -> params_ok (mkParams dmin dmax bs nb) = true ->
  finite_f (fget x k1) = true -> finite_f (fget x k2) = true ->
  PrimFloat.leb dmin (fget x k1) = true -> PrimFloat.leb (fget x k1) (fget x k2) = true ->
  PrimFloat.leb (fget x k2) dmax = true ->
  binnum x dmin bs k1 <= binnum x dmin bs k2
  /\ 0 <= binnum x dmin bs k1
  /\ binnum x dmin bs k1 = bin_index dmin bs (fget x k1).
Proof.
  intros Fm FM POK F1 F2 L1 L12 L2. apply (leb_R _ _ F1 F2) in L12. split.
  - apply (binnum_monotone dmin dmax bs nb Fm FM POK x k1 k2 F1 F2 L1 L12 L2).
  - assert (L1M : PrimFloat.leb (fget x k1) dmax = true).
    { apply (leb_R _ _ F1 FM). apply (leb_R _ _ F2 FM) in L2. lra. }
    destruct (binnum_floor dmin dmax bs nb Fm FM POK x k1 F1 L1 L1M). auto.
Qed.

Theorem api_holds_finite eng a x lo hi k nb o :
  forallb finite_f x = true -> finite_opt lo = true -> finite_opt hi = true ->
  histogram_api eng a x lo hi k nb = Ok o -> params_ok (o_params o) = true ->
  hist_ok x lo hi (p_dmin (o_params o)) (p_bsize (o_params o)) (p_nbin (o_params o)) (o_hist o) (o_rev o).
Proof.
  intros Fx Flo Fhi H POK. unfold histogram_api in H. destruct (resolve a k nb) as [m|].
  - apply (holds_finite x Fx eng lo hi m o Flo Fhi H POK).
  - destruct (limits x (argsort x) lo hi); discriminate.
Qed.

(* the same with a zero bin size allowed (spec_ok = params_ok or binsize = 0) *)
Theorem api_holds_finite_all eng a x lo hi k nb o :
  forallb finite_f x = true -> finite_opt lo = true -> finite_opt hi = true ->
  histogram_api eng a x lo hi k nb = Ok o -> spec_ok (o_params o) = true ->
  hist_ok x lo hi (p_dmin (o_params o)) (p_bsize (o_params o)) (p_nbin (o_params o)) (o_hist o) (o_rev o).
Proof.
  intros Fx Flo Fhi H SOK. unfold spec_ok in SOK. apply orb_true_iff in SOK.
  destruct SOK as [POK|ZB]; [apply (api_holds_finite eng a x lo hi k nb o Fx Flo Fhi H POK)|].
  unfold histogram_api in H. destruct (resolve a k nb) as [m|].
  - apply (model_meets_spec eng x lo hi m o H). apply (contracts_hold_zero x Fx eng lo hi m o Flo Fhi H ZB).
  - destruct (limits x (argsort x) lo hi); discriminate.
Qed.

(* C05 — the hypotheses `contracts` of C05_model_meets_spec are theorems for finite data, finite
   limits and a sane bin specification (params_ok); hence the property on the data themselves. *)
From Coq Require Import ZArith Reals Lia Lra List Bool Sorting.Permutation Sorting.Sorted.
From Coq Require Import PrimFloat FloatOps SpecFloat.
From EsVerif.Common Require Import Base.
From EsVerif.C05 Require Import Model Spec PassProofs Proofs PassExt FloatFacts SortFacts.

Notation float := PrimFloat.float.

Section Data.
  Variable x : list float.
  Hypothesis x_fin : forallb finite_f x = true.

  Let inr (k : Z) : Prop := 0 <= k < Z.of_nat (length x).

  Lemma filter_ext_in' {A} (f g : A -> bool) l : (forall a, In a l -> f a = g a) -> filter f l = filter g l.
  Proof.
    induction l as [|a t IH]; intros H; [reflexivity|]. cbn [filter].
    rewrite (H a (or_introl eq_refl)), IH; [reflexivity|]. intros b Hb. apply H. right. exact Hb.
  Qed.

  Lemma limits_facts lo hi dmin dmax w :
    finite_opt lo = true -> finite_opt hi = true ->
    limits x (argsort x) lo hi = Ok (dmin, dmax, w) ->
    finite_f dmin = true /\ finite_f dmax = true
    /\ w = filter (fun k => in_limits lo hi (fget x k)) (argsort x)
    /\ (forall k, In k w -> PrimFloat.leb dmin (fget x k) = true /\ PrimFloat.leb (fget x k) dmax = true).
  Proof.
    intros Flo Fhi. assert (Ho := argsort_ordered x x_fin). assert (Rg := argsort_in_range x).
    unfold limits. destruct (argsort x) as [|k0 t] eqn:S.
    - destruct lo, hi; cbn; try discriminate.
    - set (s := k0 :: t) in *.
      assert (Lmin : forall k, In k s -> PrimFloat.leb (fget x k0) (fget x k) = true).
      { intros k Hk. apply (ordered_first_min x x_fin k0 t k Rg Ho Hk). }
      assert (Lmax : forall k, In k s -> PrimFloat.leb (fget x k) (fget x (last s 0)) = true).
      { intros k Hk. apply (ordered_last_max x x_fin s k Rg Ho Hk). }
      assert (Hl : In (last s 0) s).
      { unfold s. clear. generalize k0. induction t as [|c t' IH]; intro b; [left; reflexivity|].
        change (last (b :: c :: t') 0) with (last (c :: t') 0). right. apply IH. }
      assert (F0 : finite_f (fget x k0) = true) by (apply (fget_fin x x_fin), Rg; left; reflexivity).
      assert (Fl : finite_f (fget x (last s 0)) = true) by (apply (fget_fin x x_fin), Rg; exact Hl).
      destruct lo as [l|], hi as [h|]; cbn [finite_opt] in Flo, Fhi.
      + destruct (filter (fun k => within l h (fget x k)) s) as [|w0 w'] eqn:Fw; [discriminate|].
        intros E. injection E as <- <- <-. rewrite <- Fw. repeat split; auto.
        * apply filter_In in H. unfold within in H. destruct H as [_ H]. apply andb_true_iff in H. tauto.
        * apply filter_In in H. unfold within in H. destruct H as [_ H]. apply andb_true_iff in H. tauto.
      + destruct (filter (fun k => within l (fget x (last s 0)) (fget x k)) s) as [|w0 w'] eqn:Fw; [discriminate|].
        intros E. injection E as <- <- <-. rewrite <- Fw. repeat split; auto.
        * apply filter_ext_in'. intros k Hk. unfold within, in_limits. rewrite (Lmax k Hk). reflexivity.
        * apply filter_In in H. unfold within in H. destruct H as [_ H]. apply andb_true_iff in H. tauto.
        * apply filter_In in H. unfold within in H. destruct H as [_ H]. apply andb_true_iff in H. tauto.
      + destruct (filter (fun k => within (fget x k0) h (fget x k)) s) as [|w0 w'] eqn:Fw; [discriminate|].
        intros E. injection E as <- <- <-. rewrite <- Fw. repeat split; auto.
        * apply filter_ext_in'. intros k Hk. unfold within, in_limits. rewrite (Lmin k Hk). reflexivity.
        * apply filter_In in H. unfold within in H. destruct H as [_ H]. apply andb_true_iff in H. tauto.
        * apply filter_In in H. unfold within in H. destruct H as [_ H]. apply andb_true_iff in H. tauto.
      + intros E. injection E as <- <- <-. repeat split; auto.
        * symmetry. apply filter_all. intros. reflexivity.
  Qed.

  Lemma ordered_sorted_bn dmin dmax bs nb w :
    finite_f dmin = true -> finite_f dmax = true ->
    params_ok (mkParams dmin dmax bs nb) = true ->
    (forall k, In k w -> inr k /\ PrimFloat.leb dmin (fget x k) = true /\ PrimFloat.leb (fget x k) dmax = true) ->
    ordered x w -> Sorted Z.le (map (binnum x dmin bs) w).
  Proof.
    intros Fm FM POK. induction w as [|a t IH]; intros Hw Ho; cbn [map]; [constructor|].
    constructor.
    - apply IH; [|apply Ho]. intros k Hk. apply Hw. right. exact Hk.
    - destruct t as [|b t']; cbn [map]; constructor.
      destruct (Hw a (or_introl eq_refl)) as (Ra & La & _).
      destruct (Hw b (or_intror (or_introl eq_refl))) as (Rb & _ & Lb).
      apply (binnum_monotone dmin dmax bs nb Fm FM POK x a b); auto.
      + apply (fget_fin x x_fin). exact Ra.
      + apply (fget_fin x x_fin). exact Rb.
      + apply (ordered_values_le x x_fin a (b :: t') b); [|exact Ho|left; reflexivity].
        intros j Hj. apply Hw. exact Hj.
  Qed.

  Theorem contracts_hold eng lo hi m o :
    finite_opt lo = true -> finite_opt hi = true ->
    histogram eng x lo hi m = Ok o -> params_ok (o_params o) = true ->
    contracts x lo hi o.
  Proof.
    intros Flo Fhi H POK. unfold histogram in H.
    destruct (limits x (argsort x) lo hi) as [[[dmin dmax] w]|] eqn:L; [|discriminate].
    destruct (derive dmin dmax m) as [[bs nb]|]; [|discriminate].
    destruct (nb <? 0); [discriminate|].
    destruct (match eng with EngC => chist (binnum x dmin bs) nb w | EngPy => pyhist (binnum x dmin bs) nb w end) as [hist rev].
    injection H as <-. cbn [o_params o_sort o_wsort p_dmin p_bsize] in *.
    destruct (limits_facts lo hi dmin dmax w Flo Fhi L) as (Fm & FM & Ew & Bw).
    assert (Rw : forall k, In k w -> inr k).
    { intros k Hk. rewrite Ew in Hk. apply filter_In in Hk. apply (argsort_in_range x). tauto. }
    unfold contracts. cbn [o_params o_sort o_wsort p_dmin p_bsize].
    split; [apply (argsort_ordered x x_fin)|]. split; [exact Ew|]. split.
    - intros k Hk. destruct (Bw k Hk) as [L1 L2].
      apply (binnum_floor dmin dmax bs nb Fm FM POK x k); auto. apply (fget_fin x x_fin), Rw, Hk.
    - apply (ordered_sorted_bn dmin dmax bs nb w Fm FM POK).
      + intros k Hk. destruct (Bw k Hk). auto.
      + rewrite Ew. apply (ordered_filter x). apply (argsort_ordered x x_fin).
  Qed.

  Lemma sorted_const (bn : Z -> Z) c w : (forall k, In k w -> bn k = c) -> Sorted Z.le (map bn w).
  Proof.
    induction w as [|a t IH]; intros H; cbn [map]; constructor.
    - apply IH. intros k Hk. apply H. right. exact Hk.
    - destruct t as [|b t']; cbn [map]; constructor.
      rewrite (H a (or_introl eq_refl)), (H b (or_intror (or_introl eq_refl))). lia.
  Qed.

  (* a zero bin size (constant data in nbin mode): nothing is counted, the contracts hold *)
  Theorem contracts_hold_zero eng lo hi m o :
    finite_opt lo = true -> finite_opt hi = true ->
    histogram eng x lo hi m = Ok o -> zero_f (p_bsize (o_params o)) = true ->
    contracts x lo hi o.
  Proof.
    intros Flo Fhi H ZB. unfold histogram in H.
    destruct (limits x (argsort x) lo hi) as [[[dmin dmax] w]|] eqn:L; [|discriminate].
    destruct (derive dmin dmax m) as [[bs nb]|]; [|discriminate].
    destruct (nb <? 0); [discriminate|].
    destruct (match eng with EngC => chist (binnum x dmin bs) nb w | EngPy => pyhist (binnum x dmin bs) nb w end) as [hist rev].
    injection H as <-. cbn [o_params o_sort o_wsort p_dmin p_bsize] in *.
    destruct (limits_facts lo hi dmin dmax w Flo Fhi L) as (Fm & FM & Ew & Bw).
    unfold contracts. cbn [o_params o_sort o_wsort p_dmin p_bsize].
    split; [apply (argsort_ordered x x_fin)|]. split; [exact Ew|].
    assert (E : forall k, binnum x dmin bs k = int64_min /\ bin_index dmin bs (fget x k) = int64_min).
    { intros k. unfold binnum, bin_index. apply div_zero_int64_min. exact ZB. }
    split.
    - intros k _. destruct (E k) as [-> ->]. reflexivity.
    - apply (sorted_const _ int64_min). intros k _. apply E.
  Qed.

  Lemma limits_nonempty s lo hi dmin dmax w : limits x s lo hi = Ok (dmin, dmax, w) -> w <> [].
  Proof.
    unfold limits. intros E. destruct s as [|k0 t]; destruct lo as [l|], hi as [h|]; cbn -[filter last] in E;
      try discriminate E; try (destruct (filter _ _) eqn:F; [discriminate E|]); injection E as <- <- <-; discriminate.
  Qed.

  Lemma up_bin_range nbin b : 0 <= nbin -> 0 <= up_bin nbin b <= nbin.
  Proof. intros Hn. unfold up_bin, valid_bin. destruct ((0 <=? b) && (b <? nbin)) eqn:V; lia. Qed.

  Lemma sorted_up_inf dmin bs nb w :
    0 <= nb -> posinf_f bs = true -> finite_f dmin = true ->
    (forall k, In k w -> inr k /\ PrimFloat.leb dmin (fget x k) = true) ->
    ordered x w -> Sorted Z.le (map (fun k => up_bin nb (binnum x dmin bs k)) w).
  Proof.
    intros Hn PI Fm. induction w as [|a t IH]; intros Hw Ow; cbn [map]; constructor.
    - apply IH; [intros k Hk; apply Hw; right; exact Hk|apply Ow].
    - destruct t as [|b t']; cbn [map]; constructor.
      destruct (div_posinf (PrimFloat.sub (fget x b) dmin) bs PI) as [(Fb & Tb & _)|(_ & Tb & _)].
      + (* b has a finite difference to min: so has a *)
        destruct (Hw a (or_introl eq_refl)) as [Ra La].
        destruct (Hw b (or_intror (or_introl eq_refl))) as [Rb _].
        assert (Fa : finite_f (fget x a) = true) by (apply (fget_fin x x_fin); exact Ra).
        assert (Fbv : finite_f (fget x b) = true) by (apply (fget_fin x x_fin); exact Rb).
        assert (Lab : (rv (fget x a) <= rv (fget x b))%R).
        { apply (ordered_values_le x x_fin a (b :: t') b); [intros j Hj; apply Hw; exact Hj|exact Ow|left; reflexivity]. }
        apply (leb_R _ _ Fm Fa) in La.
        destruct (sub_facts dmin (fget x b) (fget x a) Fm Fbv Fa Fb (conj La Lab)) as (Fsa & _).
        destruct (div_posinf (PrimFloat.sub (fget x a) dmin) bs PI) as [(_ & Ta & _)|(Na & _)]; [|congruence].
        unfold binnum. rewrite Ta, Tb. lia.
      + unfold binnum at 2. rewrite Tb.
        replace (up_bin nb int64_min) with nb by (unfold up_bin, valid_bin, int64_min; destruct (_ && _) eqn:V; lia).
        apply up_bin_range. exact Hn.
  Qed.

  (* an infinite bin size: data with a finite difference to min go to bin 0, the others are not counted *)
  Theorem contracts_w_hold_inf eng lo hi m o :
    finite_opt lo = true -> finite_opt hi = true ->
    histogram eng x lo hi m = Ok o -> posinf_f (p_bsize (o_params o)) = true ->
    contracts_w x lo hi o.
  Proof.
    intros Flo Fhi H PI. unfold histogram in H.
    destruct (limits x (argsort x) lo hi) as [[[dmin dmax] w]|] eqn:L; [|discriminate].
    destruct (derive dmin dmax m) as [[bs nb]|]; [|discriminate].
    destruct (nb <? 0) eqn:En; [discriminate|].
    destruct (match eng with EngC => chist (binnum x dmin bs) nb w | EngPy => pyhist (binnum x dmin bs) nb w end) as [hist rev].
    injection H as <-. cbn [o_params o_sort o_wsort p_dmin p_bsize p_nbin] in *.
    destruct (limits_facts lo hi dmin dmax w Flo Fhi L) as (Fm & FM & Ew & Bw).
    assert (Rw : forall k, In k w -> inr k).
    { intros k Hk. rewrite Ew in Hk. apply filter_In in Hk. apply (argsort_in_range x). tauto. }
    assert (Ow : ordered x w).
    { rewrite Ew. apply (ordered_filter x). apply (argsort_ordered x x_fin). }
    unfold contracts_w. cbn [o_params o_sort o_wsort p_dmin p_bsize p_nbin].
    split; [apply (argsort_ordered x x_fin)|]. split; [exact Ew|]. split.
    - intros k _. unfold binnum, bin_index.
      destruct (div_posinf (PrimFloat.sub (fget x k) dmin) bs PI) as [(_ & -> & ->)|(_ & -> & ->)]; reflexivity.
    - apply sorted_up_inf; auto; [lia|]. intros k Hk. split; [apply Rw; exact Hk|apply (Bw k Hk)].
  Qed.

  (* binsize mode: whenever the model accepts a finite positive bin size, the bin specification is sane *)
  Theorem binsize_mode_params_ok eng lo hi b o :
    finite_opt lo = true -> finite_opt hi = true ->
    histogram eng x lo hi (ByBinsize b) = Ok o -> finite_f b = true -> PrimFloat.ltb 0 b = true ->
    params_ok (o_params o) = true.
  Proof.
    intros Flo Fhi H Fb Pb. unfold histogram in H.
    destruct (limits x (argsort x) lo hi) as [[[dmin dmax] w]|] eqn:L; [|discriminate].
    cbn [derive] in H.
    destruct (f2z_trunc (PrimFloat.div (PrimFloat.sub dmax dmin) b) + 1 <? 0) eqn:En; [discriminate|].
    destruct (match eng with EngC => chist _ _ w | EngPy => pyhist _ _ w end) as [hist rev].
    injection H as <-. cbn [o_params].
    destruct (limits_facts lo hi dmin dmax w Flo Fhi L) as (Fm & FM & Ew & Bw).
    assert (Lmm : (rv dmin <= rv dmax)%R).
    { pose proof (limits_nonempty _ _ _ _ _ _ L) as NE. destruct w as [|k0 w']; [congruence|].
      destruct (Bw k0 (or_introl eq_refl)) as [L1 L2].
      assert (F0 : finite_f (fget x k0) = true).
      { apply (fget_fin x x_fin). apply (argsort_in_range x).
        assert (I : In k0 (k0 :: w')) by (left; reflexivity). rewrite Ew in I.
        apply filter_In in I. tauto. }
      apply (leb_R _ _ Fm F0) in L1. apply (leb_R _ _ F0 FM) in L2. lra. }
    set (D := PrimFloat.sub dmax dmin) in *. set (q := PrimFloat.div D b) in *.
    assert (Fq : finite_f q = true).
    { destruct (finite_f q) eqn:E; [reflexivity|]. rewrite (trunc_nonfinite q E) in En. unfold int64_min in En. lia. }
    assert (FD : finite_f D = true).
    { destruct (finite_f D) eqn:E; [reflexivity|]. unfold q in Fq. rewrite (div_nonfinite D b E) in Fq. discriminate. }
    destruct (sub_facts dmin dmax dmax Fm FM FM FD (conj Lmm (Rle_refl _))) as (_ & _ & D0 & _).
    pose proof Pb as Pb'. apply (ltb_R _ _ finite_zero Fb) in Pb'. rewrite rv_zero in Pb'.
    destruct (div_facts D D b FD FD Fb (conj D0 (Rle_refl _)) Pb' Fq) as (_ & Q0 & _).
    assert (Q1 : (rv q < IZR two63Z)%R) by (apply trunc_not_min; [lia|exact Fq|exact Q0]).
    unfold params_ok. cbn [p_dmin p_dmax p_bsize]. fold D q. rewrite FD, Fb, Pb, Fq. cbn [andb].
    apply (ltb_R _ _ Fq finite_two63). rewrite rv_two63. exact Q1.
  Qed.

  (* the property on the data themselves, no monitored hypothesis left *)
  Theorem holds_finite eng lo hi m o :
    finite_opt lo = true -> finite_opt hi = true ->
    histogram eng x lo hi m = Ok o -> params_ok (o_params o) = true ->
    hist_ok x lo hi (p_dmin (o_params o)) (p_bsize (o_params o)) (p_nbin (o_params o)) (o_hist o) (o_rev o).
  Proof.
    intros Flo Fhi H POK. apply (model_meets_spec eng x lo hi m o H).
    apply (contracts_hold eng lo hi m o Flo Fhi H POK).
  Qed.
End Data.

(* float-level statement of binnum_monotone (no reals in the statement) *)
Theorem binnum_monotone_f dmin dmax bs nb x k1 k2 :
  finite_f dmin = true -> finite_f dmax = true -> params_ok (mkParams dmin dmax bs nb) = true ->
  finite_f (fget x k1) = true -> finite_f (fget x k2) = true ->
  PrimFloat.leb dmin (fget x k1) = true -> PrimFloat.leb (fget x k1) (fget x k2) = true ->
  PrimFloat.leb (fget x k2) dmax = true ->
  binnum x dmin bs k1 <= binnum x dmin bs k2
  /\ 0 <= binnum x dmin bs k1
  /\ binnum x dmin bs k1 = bin_index dmin bs (fget x k1).
Proof.
  intros Fm FM POK F1 F2 L1 L12 L2. apply (leb_R _ _ F1 F2) in L12. split.
  - apply (binnum_monotone dmin dmax bs nb Fm FM POK x k1 k2 F1 F2 L1 L12 L2).
  - assert (L1M : PrimFloat.leb (fget x k1) dmax = true).
    { apply (leb_R _ _ F1 FM). apply (leb_R _ _ F2 FM) in L2. lra. }
    destruct (binnum_floor dmin dmax bs nb Fm FM POK x k1 F1 L1 L1M). auto.
Qed.

Theorem api_holds_finite eng a x lo hi k nb o :
  forallb finite_f x = true -> finite_opt lo = true -> finite_opt hi = true ->
  histogram_api eng a x lo hi k nb = Ok o -> params_ok (o_params o) = true ->
  hist_ok x lo hi (p_dmin (o_params o)) (p_bsize (o_params o)) (p_nbin (o_params o)) (o_hist o) (o_rev o).
Proof.
  intros Fx Flo Fhi H POK. unfold histogram_api in H. destruct (resolve a k nb) as [m|].
  - apply (holds_finite x Fx eng lo hi m o Flo Fhi H POK).
  - destruct (limits x (argsort x) lo hi); discriminate.
Qed.

(* the same with a zero bin size allowed (spec_ok = params_ok or binsize = 0) *)
Theorem api_holds_finite_all eng a x lo hi k nb o :
  forallb finite_f x = true -> finite_opt lo = true -> finite_opt hi = true ->
  histogram_api eng a x lo hi k nb = Ok o -> spec_ok (o_params o) = true ->
  hist_ok x lo hi (p_dmin (o_params o)) (p_bsize (o_params o)) (p_nbin (o_params o)) (o_hist o) (o_rev o).
Proof.
  intros Fx Flo Fhi H SOK. unfold spec_ok in SOK. apply orb_true_iff in SOK.
  destruct SOK as [POK|ZB]; [apply (api_holds_finite eng a x lo hi k nb o Fx Flo Fhi H POK)|].
  unfold histogram_api in H. destruct (resolve a k nb) as [m|].
  - apply (model_meets_spec eng x lo hi m o H). apply (contracts_hold_zero x Fx eng lo hi m o Flo Fhi H ZB).
  - destruct (limits x (argsort x) lo hi); discriminate.
Qed.

(* every finite input with a bin specification that is sane (params_ok), zero or +infinite *)
Theorem api_holds_finite_total eng a x lo hi k nb o :
  forallb finite_f x = true -> finite_opt lo = true -> finite_opt hi = true ->
  histogram_api eng a x lo hi k nb = Ok o -> spec_ok2 (o_params o) = true ->
  hist_ok x lo hi (p_dmin (o_params o)) (p_bsize (o_params o)) (p_nbin (o_params o)) (o_hist o) (o_rev o).
Proof.
  intros Fx Flo Fhi H SOK. unfold spec_ok2 in SOK. apply orb_true_iff in SOK.
  destruct SOK as [SOK|PI]; [apply (api_holds_finite_all eng a x lo hi k nb o Fx Flo Fhi H SOK)|].
  unfold histogram_api in H. destruct (resolve a k nb) as [m|].
  - apply (model_meets_spec_w eng x lo hi m o H). apply (contracts_w_hold_inf x Fx eng lo hi m o Flo Fhi H PI).
  - destruct (limits x (argsort x) lo hi); discriminate.
Qed.

(* binsize mode needs no side condition at all: any bin size > 0 (finite or infinite), any finite data
   and limits -- if the model returns arrays, they satisfy the property *)
Theorem holds_binsize_mode eng x lo hi b o :
  forallb finite_f x = true -> finite_opt lo = true -> finite_opt hi = true ->
  PrimFloat.ltb 0 b = true ->
  histogram eng x lo hi (ByBinsize b) = Ok o ->
  hist_ok x lo hi (p_dmin (o_params o)) (p_bsize (o_params o)) (p_nbin (o_params o)) (o_hist o) (o_rev o).
Proof.
  intros Fx Flo Fhi Pb H.
  assert (Eb : p_bsize (o_params o) = b).
  { unfold histogram in H. destruct (limits x (argsort x) lo hi) as [[[dmin dmax] w]|]; [|discriminate].
    cbn [derive] in H. destruct (_ <? 0); [discriminate|].
    destruct (match eng with EngC => chist _ _ w | EngPy => pyhist _ _ w end). injection H as <-. reflexivity. }
  destruct (pos_finite_or_inf b Pb) as [Fb|PI].
  - apply (holds_finite x Fx eng lo hi (ByBinsize b) o Flo Fhi H).
    apply (binsize_mode_params_ok x Fx eng lo hi b o Flo Fhi H Fb Pb).
  - apply (model_meets_spec_w eng x lo hi (ByBinsize b) o H).
    apply (contracts_w_hold_inf x Fx eng lo hi (ByBinsize b) o Flo Fhi H). rewrite Eb. exact PI.
Qed.

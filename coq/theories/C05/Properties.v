(* C05 — property theorems only.  Bodies live in PassProofs.v / Proofs.v. *)
From Coq Require Import PrimFloat Sorting.Permutation Sorting.Sorted.
From EsVerif.Common Require Import Base.
From EsVerif.C05 Require Import Model Spec PassProofs Proofs.

(* The compiled and the pure-python engine (two transcriptions) return identical arrays. *)
Theorem C05_engines_equal : forall x lo hi m, histogram EngC x lo hi m = histogram EngPy x lo hi m.
Proof. exact histogram_engines_equal. Qed.

Theorem C05_engines_equal_pass : forall bn nbin s, chist bn nbin s = pyhist bn nbin s.
Proof. exact engines_equal. Qed.

(* Counts are exact for ANY index list: hist[i] = number of data whose bin number is i; data
   whose bin number is not a valid bin are not counted anywhere. *)
Theorem C05_hist_counts : forall eng bn nbin s, 0 <= nbin ->
  let '(hist, rev) := match eng with EngC => chist bn nbin s | EngPy => pyhist bn nbin s end in
  Z.of_nat (length hist) = nbin
  /\ forall i, 0 <= i < nbin -> zget hist i = Z.of_nat (length (sel bn i s)).
Proof. exact hist_counts_both. Qed.

(* For non-decreasing bin numbers the reverse indices partition the counted data: slice i is
   exactly the sub-list of the sort index with bin number i (same order), its length is hist[i],
   the offsets are ordered and inside rev, the counts sum to the number of counted data, the
   index section of rev is the sort index, and rev[nbin] = len(rev) when everything is counted. *)
Theorem C05_partition : forall eng bn nbin s, 0 <= nbin -> Sorted Z.le (map bn s) ->
  let '(hist, rev) := match eng with EngC => chist bn nbin s | EngPy => pyhist bn nbin s end in
  pass_partition bn nbin s hist rev.
Proof. exact pass_partition_both. Qed.

(* The property as stated, on the data: whenever the model accepts the input and the decidable
   contracts hold (monitored on every case), its arrays satisfy hist_ok. *)
Theorem C05_model_meets_spec : forall eng x lo hi m o,
  histogram eng x lo hi m = Ok o ->
  contracts x lo hi o ->
  hist_ok x lo hi (p_dmin (o_params o)) (p_bsize (o_params o)) (p_nbin (o_params o)) (o_hist o) (o_rev o).
Proof. exact model_meets_spec. Qed.

(* hist_ok spelled out for single data: inside the limits and with a valid bin index <=> listed,
   exactly once, in the slice of exactly that bin; hist[i] is the number of such data. *)
Theorem C05_spec_exact : forall x lo hi dmin bsize nbin hist rev,
  hist_ok x lo hi dmin bsize nbin hist rev ->
  forall i, 0 <= i < nbin ->
    NoDup (slice rev i)
    /\ (forall k, In k (slice rev i) <->
                  0 <= k < Z.of_nat (length x) /\ in_limits lo hi (fget x k) = true
                  /\ bin_index dmin bsize (fget x k) = i)
    /\ zget hist i = Z.of_nat (length (members x lo hi dmin bsize i)).
Proof. exact hist_ok_exact. Qed.

(* Checker soundness: what the correspondence run evaluates on the implementation's arrays. *)
Theorem C05_checkers_sound :
  (forall x lo hi dmin bsize nbin hist rev,
     hist_check x lo hi dmin bsize nbin hist rev = true -> hist_ok x lo hi dmin bsize nbin hist rev)
  /\ (forall x lo hi o, contracts_b x lo hi o = true -> contracts x lo hi o).
Proof. split; [exact hist_check_sound|exact contracts_b_sound]. Qed.

(* The defect repaired by fixes/C05: before the repair the pass closed the offsets with len(rev);
   on data [0,1,2,3,4], nbin=2 the uncounted maximum then sits in the slice of bin 1. *)
Theorem C05_unpatched_refuted :
  let x := [0; 1; 2; 3; 4]%float in
  let bn := binnum x 0%float 2%float in
  Sorted Z.le (map bn [0; 1; 2; 3; 4])
  /\ chist_unpatched bn 2 [0; 1; 2; 3; 4] = ([2; 2], [3; 5; 8; 0; 1; 2; 3; 4])
  /\ ~ hist_ok x None None 0%float 2%float 2 [2; 2] [3; 5; 8; 0; 1; 2; 3; 4]
  /\ ~ pass_partition bn 2 [0; 1; 2; 3; 4] [2; 2] [3; 5; 8; 0; 1; 2; 3; 4].
Proof. exact unpatched_refuted. Qed.

(* Non-vacuity: the same input on the repaired model; the hypotheses of C05_model_meets_spec
   hold and the checker accepts; an input with limits excluding data at both ends. *)
Example C05_nonvacuous :
  (exists o, histogram EngC [0; 1; 2; 3; 4]%float None None (ByNbin 2) = Ok o
             /\ o_hist o = [2; 2] /\ o_rev o = [3; 5; 7; 0; 1; 2; 3; 4]
             /\ contracts_b [0; 1; 2; 3; 4]%float None None o = true
             /\ hist_check [0; 1; 2; 3; 4]%float None None 0%float 2%float 2 (o_hist o) (o_rev o) = true)
  /\ (exists o, histogram EngPy [0.5; 0.25; 3; 1; 1; 2.5]%float (Some 0.5%float) (Some 2.75%float) (ByBinsize 0.5%float) = Ok o
             /\ o_hist o = [1; 2; 0; 0; 1] /\ o_rev o = [6; 7; 9; 9; 9; 10; 0; 3; 4; 5]
             /\ contracts_b [0.5; 0.25; 3; 1; 1; 2.5]%float (Some 0.5%float) (Some 2.75%float) o = true).
Proof.
  split; eexists; (split; [vm_compute; reflexivity|]); vm_compute; repeat split; reflexivity.
Qed.

(* C05 — property theorems only.  Bodies live in PassProofs.v / Proofs.v. *)
From Coq Require Import PrimFloat Sorting.Permutation Sorting.Sorted.
From EsVerif.Common Require Import Base.
From EsVerif.C05 Require Import Model Spec PassProofs Proofs PassExt FloatFacts SortFacts FloatProofs.

(* The compiled and the pure-python engine (two transcriptions) return identical arrays. *)
Theorem C05_engines_equal : forall x lo hi m, histogram EngC x lo hi m = histogram EngPy x lo hi m.
Proof. exact histogram_engines_equal. Qed.

Theorem C05_engines_equal_pass : forall bn nbin s, chist bn nbin s = pyhist bn nbin s.
Proof. exact engines_equal. Qed.

(* Counts are exact for ANY index list: hist[i] = number of data whose bin number is i; data
   whose bin number is not a valid bin are not counted anywhere. *)
Theorem C05_hist_counts : forall eng bn nbin s, 0 <= nbin ->
  let '(hist, rev) := match eng with EngC => chist bn nbin s | EngPy => pyhist bn nbin s end in
  Z.of_nat (length hist) = nbin
  /\ forall i, 0 <= i < nbin -> zget hist i = Z.of_nat (length (sel bn i s)).
Proof. exact hist_counts_both. Qed.

(* For non-decreasing bin numbers the reverse indices partition the counted data: slice i is
   exactly the sub-list of the sort index with bin number i (same order), its length is hist[i],
   the offsets are ordered and inside rev, the counts sum to the number of counted data, the
   index section of rev is the sort index, and rev[nbin] = len(rev) when everything is counted. *)
Theorem C05_partition : forall eng bn nbin s, 0 <= nbin -> Sorted Z.le (map bn s) ->
  let '(hist, rev) := match eng with EngC => chist bn nbin s | EngPy => pyhist bn nbin s end in
  pass_partition bn nbin s hist rev.
Proof. exact pass_partition_both. Qed.

(* The property as stated, on the data: whenever the model accepts the input and the decidable
   contracts hold (monitored on every case), its arrays satisfy hist_ok. *)
Theorem C05_model_meets_spec : forall eng x lo hi m o,
  histogram eng x lo hi m = Ok o ->
  contracts x lo hi o ->
  hist_ok x lo hi (p_dmin (o_params o)) (p_bsize (o_params o)) (p_nbin (o_params o)) (o_hist o) (o_rev o).
Proof. exact model_meets_spec. Qed.

(* hist_ok spelled out for single data: inside the limits and with a valid bin index <=> listed,
   exactly once, in the slice of exactly that bin; hist[i] is the number of such data. *)
Theorem C05_spec_exact : forall x lo hi dmin bsize nbin hist rev,
  hist_ok x lo hi dmin bsize nbin hist rev ->
  forall i, 0 <= i < nbin ->
    NoDup (slice rev i)
    /\ (forall k, In k (slice rev i) <->
                  0 <= k < Z.of_nat (length x) /\ in_limits lo hi (fget x k) = true
                  /\ bin_index dmin bsize (fget x k) = i)
    /\ zget hist i = Z.of_nat (length (members x lo hi dmin bsize i)).
Proof. exact hist_ok_exact. Qed.

(* Checker soundness: what the correspondence run evaluates on the implementation's arrays. *)
Theorem C05_checkers_sound :
  (forall x lo hi dmin bsize nbin hist rev,
     hist_check x lo hi dmin bsize nbin hist rev = true -> hist_ok x lo hi dmin bsize nbin hist rev)
  /\ (forall x lo hi o, contracts_b x lo hi o = true -> contracts x lo hi o).
Proof. split; [exact hist_check_sound|exact contracts_b_sound]. Qed.

(* The defect repaired by fixes/C05: before the repair the pass closed the offsets with len(rev);
   on data [0,1,2,3,4], nbin=2 the uncounted maximum then sits in the slice of bin 1. *)
Theorem C05_unpatched_refuted :
  let x := [0; 1; 2; 3; 4]%float in
  let bn := binnum x 0%float 2%float in
  Sorted Z.le (map bn [0; 1; 2; 3; 4])
  /\ chist_unpatched bn 2 [0; 1; 2; 3; 4] = ([2; 2], [3; 5; 8; 0; 1; 2; 3; 4])
  /\ ~ hist_ok x None None 0%float 2%float 2 [2; 2] [3; 5; 8; 0; 1; 2; 3; 4]
  /\ ~ pass_partition bn 2 [0; 1; 2; 3; 4] [2; 2] [3; 5; 8; 0; 1; 2; 3; 4].
Proof. exact unpatched_refuted. Qed.

(* Non-vacuity: the same input on the repaired model; the hypotheses of C05_model_meets_spec
   hold and the checker accepts; an input with limits excluding data at both ends. *)
Example C05_nonvacuous :
  (exists o, histogram EngC [0; 1; 2; 3; 4]%float None None (ByNbin 2) = Ok o
             /\ o_hist o = [2; 2] /\ o_rev o = [3; 5; 7; 0; 1; 2; 3; 4]
             /\ contracts_b [0; 1; 2; 3; 4]%float None None o = true
             /\ hist_check [0; 1; 2; 3; 4]%float None None 0%float 2%float 2 (o_hist o) (o_rev o) = true)
  /\ (exists o, histogram EngPy [0.5; 0.25; 3; 1; 1; 2.5]%float (Some 0.5%float) (Some 2.75%float) (ByBinsize 0.5%float) = Ok o
             /\ o_hist o = [1; 2; 0; 0; 1] /\ o_rev o = [6; 7; 9; 9; 9; 10; 0; 3; 4; 5]
             /\ contracts_b [0.5; 0.25; 3; 1; 1; 2.5]%float (Some 0.5%float) (Some 2.75%float) o = true).
Proof.
  split; eexists; (split; [vm_compute; reflexivity|]); vm_compute; repeat split; reflexivity.
Qed.

(* ------------------------------------------------------------------------------------------------
   Finite data: the hypotheses `contracts` are theorems (IEEE-754 facts through Flocq's link between
   primitive floats and its binary64 formalisation; these theorems depend on the standard library's
   FloatAxioms specifications of the primitive operations and on the axioms of the real numbers). *)

(* DESIGN stretch `binnum_monotone`: on data between the limits, sorted values have non-decreasing,
   non-negative bin numbers and truncation equals floor. *)
Theorem C05_binnum_monotone : forall dmin dmax bs nb x k1 k2,
  finite_f dmin = true -> finite_f dmax = true -> params_ok (mkParams dmin dmax bs nb) = true ->
  finite_f (fget x k1) = true -> finite_f (fget x k2) = true ->
  PrimFloat.leb dmin (fget x k1) = true -> PrimFloat.leb (fget x k1) (fget x k2) = true ->
  PrimFloat.leb (fget x k2) dmax = true ->
  binnum x dmin bs k1 <= binnum x dmin bs k2
  /\ 0 <= binnum x dmin bs k1
  /\ binnum x dmin bs k1 = bin_index dmin bs (fget x k1).
Proof. exact binnum_monotone_f. Qed.

(* the stable argsort of the model orders by value, ties in original order *)
Theorem C05_argsort_stable : forall x, forallb finite_f x = true ->
  ordered x (argsort x) /\ Permutation (argsort x) (zseq 0 (length x)).
Proof. intros x H. split; [apply (argsort_ordered x H)|apply argsort_perm]. Qed.

Theorem C05_contracts_hold : forall eng x lo hi m o,
  forallb finite_f x = true -> finite_opt lo = true -> finite_opt hi = true ->
  histogram eng x lo hi m = Ok o -> params_ok (o_params o) = true ->
  contracts x lo hi o.
Proof. intros eng x lo hi m o H. exact (contracts_hold x H eng lo hi m o). Qed.

(* The property as stated, on the data, for every finite input with a sane bin specification, through
   either public entry point and any combination of the binsize=/nbin= keywords; nothing monitored. *)
Theorem C05_holds_finite : forall eng a x lo hi k nb o,
  forallb finite_f x = true -> finite_opt lo = true -> finite_opt hi = true ->
  histogram_api eng a x lo hi k nb = Ok o -> params_ok (o_params o) = true ->
  hist_ok x lo hi (p_dmin (o_params o)) (p_bsize (o_params o)) (p_nbin (o_params o)) (o_hist o) (o_rev o).
Proof. exact api_holds_finite. Qed.

(* ... and also when the bin size is zero (nbin mode on constant data: nothing is counted):
   spec_ok = params_ok or binsize = 0.  Together: every finite input whose max - min does not overflow. *)
Theorem C05_holds_finite_all : forall eng a x lo hi k nb o,
  forallb finite_f x = true -> finite_opt lo = true -> finite_opt hi = true ->
  histogram_api eng a x lo hi k nb = Ok o -> spec_ok (o_params o) = true ->
  hist_ok x lo hi (p_dmin (o_params o)) (p_bsize (o_params o)) (p_nbin (o_params o)) (o_hist o) (o_rev o).
Proof. exact api_holds_finite_all. Qed.

(* rev=False: the loop without reverse indices returns the same counts (both engines) *)
Theorem C05_norev_counts : forall bn nbin s,
  hist_norev bn nbin s = fst (chist bn nbin s) /\ hist_norev bn nbin s = fst (pyhist bn nbin s).
Proof. exact hist_norev_chist. Qed.

Theorem C05_api_engines_equal : forall a x lo hi k nb,
  histogram_api EngC a x lo hi k nb = histogram_api EngPy a x lo hi k nb.
Proof. exact histogram_api_engines_equal. Qed.

(* keyword handling: histogram() lets nbin override binsize (default 1.0); Binner.dohist looks at
   binsize first; neither given is an error after the limits were applied *)
Theorem C05_options : forall eng x lo hi,
  (forall k n, histogram_api eng ApiHistogram x lo hi k (Some n) = histogram eng x lo hi (ByNbin n))
  /\ histogram_api eng ApiHistogram x lo hi KwOmit None = histogram eng x lo hi (ByBinsize default_binsize)
  /\ (forall b nb, histogram_api eng ApiBinner x lo hi (KwVal b) nb = histogram eng x lo hi (ByBinsize b))
  /\ (forall n, histogram_api eng ApiBinner x lo hi KwOmit (Some n) = histogram eng x lo hi (ByNbin n))
  /\ (forall o, histogram_api eng ApiBinner x lo hi KwOmit None <> Ok o).
Proof.
  intros eng x lo hi. repeat split; try reflexivity.
  intros o. unfold histogram_api, resolve, kw_binsize. destruct (limits x (argsort x) lo hi); discriminate.
Qed.

(* the named constants (regenerated from the source on every run and compared by Exec.consts_agree)
   are the ones the model's functions use *)
Theorem C05_consts :
  (forall dmin dmax b, derive dmin dmax (ByBinsize b)
     = Ok (b, f2z_trunc (PrimFloat.div (PrimFloat.sub dmax dmin) b) + nbin_plus))
  /\ (forall xmin xmax v, within xmin xmax v
     = (if lo_inclusive then PrimFloat.leb xmin v else PrimFloat.ltb xmin v)
       && (if hi_inclusive then PrimFloat.leb v xmax else PrimFloat.ltb v xmax))
  /\ (forall bn nbin s, chist bn nbin s =
       let nrev := Z.of_nat (length s) + nbin + rev_extra in
       let '(binold, offset_end, hist, rev) :=
         c_loop bn nbin s 0 binold_init (nbin + offset_end_init) (zeros nbin) (zeros nrev) in
       (hist, fill rev (binold + 1) (Z.to_nat (nbin - binold)) offset_end))
  /\ (forall bn nbin s, pyhist bn nbin s =
       let nrev := Z.of_nat (length s) + nbin + rev_extra in
       let '(binold, offset_end, hist, rev) :=
         py_loop bn nbin s (nbin + offset_init) binold_init (nbin + offset_end_init) (zeros nbin) (zeros nrev) in
       (hist, fill rev (binold + 1) (Z.to_nat (nbin - binold)) offset_end))
  /\ (sort_stable = true).
Proof.
  split; [exact derive_binsize_const|]. split; [exact within_const|].
  split; [exact chist_const|]. split; [exact pyhist_const|reflexivity].
Qed.

(* Non-vacuity of C05_holds_finite: both example inputs are inside its domain. *)
Example C05_finite_nonvacuous :
  (exists o, histogram_api EngC ApiHistogram [0; 1; 2; 3; 4]%float None None KwOmit (Some 2) = Ok o
             /\ params_ok (o_params o) = true /\ o_hist o = [2; 2])
  /\ (exists o, histogram_api EngPy ApiBinner [0.5; 0.25; 3; 1; 1; 2.5]%float (Some 0.5%float) (Some 2.75%float)
                   (KwVal 0.5%float) (Some 7) = Ok o
             /\ params_ok (o_params o) = true /\ o_hist o = [1; 2; 0; 0; 1]).
Proof.
  split; eexists; (split; [vm_compute; reflexivity|]); vm_compute; repeat split; reflexivity.
Qed.

(* Non-vacuity of the zero-bin-size branch: constant data in nbin mode, nothing is counted. *)
Example C05_zero_binsize_nonvacuous :
  exists o, histogram_api EngC ApiHistogram [3; 3; 3]%float None None KwOmit (Some 2) = Ok o
            /\ params_ok (o_params o) = false /\ spec_ok (o_params o) = true
            /\ o_hist o = [0; 0] /\ o_rev o = [3; 3; 3; 0; 1; 2].
Proof. eexists. split; [vm_compute; reflexivity|]. vm_compute. repeat split; reflexivity. Qed.

(* ================================================================================================
   Proof-deepening round *)

(* The pass only looks at valid bin numbers: the partition theorem holds as soon as the bin numbers are
   non-decreasing after ANY re-labelling of the invalid ones (bn' agrees with bn on validity and on the
   valid values).  Strictly more general than C05_partition (take bn' = bn). *)
Theorem C05_partition_relabel : forall eng bn bn' nbin s, 0 <= nbin ->
  agree_valid nbin bn bn' s -> Sorted Z.le (map bn' s) ->
  let '(hist, rev) := match eng with EngC => chist bn nbin s | EngPy => pyhist bn nbin s end in
  pass_partition bn nbin s hist rev.
Proof. exact pass_partition_relabel. Qed.

(* C05_model_meets_spec with the weaker, still decidable contracts (bin numbers non-decreasing once
   invalid ones count as "beyond the last bin"), and soundness of their boolean checker *)
Theorem C05_model_meets_spec_w : forall eng x lo hi m o,
  histogram eng x lo hi m = Ok o ->
  contracts_w x lo hi o ->
  hist_ok x lo hi (p_dmin (o_params o)) (p_bsize (o_params o)) (p_nbin (o_params o)) (o_hist o) (o_rev o).
Proof. exact model_meets_spec_w. Qed.

Theorem C05_contracts_w_sound : forall x lo hi o, contracts_w_b x lo hi o = true -> contracts_w x lo hi o.
Proof. exact contracts_w_b_sound. Qed.

(* numpy's argsort is not part of esutil; whatever it returns, if it is a stable sorting permutation
   (a permutation of 0..n-1, ordered by value, ties in index order) it IS the list the model computes:
   the theorems do not depend on the sorting algorithm. *)
Theorem C05_stable_argsort_unique : forall x s, forallb finite_f x = true ->
  Permutation s (zseq 0 (length x)) -> ordered x s -> s = argsort x.
Proof. intros x s H. exact (stable_argsort_unique x H s). Qed.

(* History independence.  The Binner object is modelled with its state (float64 copy of the data, cached
   sort index); one dohist call maps a well-formed object to a well-formed object with the same data,
   and its result is histogram_api of the object's data and THIS call's arguments only; a sequence of
   calls on one object (any engines, any limits / binsize / nbin) returns what the calls return alone;
   histogram() builds a fresh object per call. *)
Theorem C05_history_independent :
  (forall eng a b lo hi k nb, binner_wf b ->
     let '(b', r) := dohist eng a b lo hi k nb in
     binner_wf b' /\ b_x b' = b_x b /\ b_sort b' = Some (argsort (b_x b))
     /\ r = histogram_api eng a (b_x b) lo hi k nb)
  /\ (forall cs b, binner_wf b ->
        run_binner b cs
        = map (fun c => histogram_api (c_eng c) ApiBinner (b_x b) (c_lo c) (c_hi c) (c_kw c) (c_nbin c)) cs)
  /\ (forall x c, histogram_call x c
                  = histogram_api (c_eng c) ApiHistogram x (c_lo c) (c_hi c) (c_kw c) (c_nbin c))
  /\ (forall x, binner_wf (binner_new x)).
Proof.
  split; [exact dohist_spec|]. split; [exact run_binner_spec|]. split; [exact histogram_call_spec|].
  intro x. left. reflexivity.
Qed.

(* The property on the data for every finite input whose bin specification is sane, zero or +infinite
   (spec_ok2): the infinite bin size arises from binsize=inf and, in nbin mode, when max - min
   overflows; then data with a finite difference to min fall into bin 0 and the others are not counted. *)
Theorem C05_holds_finite_total : forall eng a x lo hi k nb o,
  forallb finite_f x = true -> finite_opt lo = true -> finite_opt hi = true ->
  histogram_api eng a x lo hi k nb = Ok o -> spec_ok2 (o_params o) = true ->
  hist_ok x lo hi (p_dmin (o_params o)) (p_bsize (o_params o)) (p_nbin (o_params o)) (o_hist o) (o_rev o).
Proof. exact api_holds_finite_total. Qed.

(* Bin-size mode needs no side condition: finite data and limits, any bin size > 0 (finite or infinite);
   whenever the model returns arrays they satisfy the property (an overflow of max - min or a bin count
   beyond int64 makes the model, like the code, reject the input). *)
Theorem C05_holds_binsize_mode : forall eng x lo hi b o,
  forallb finite_f x = true -> finite_opt lo = true -> finite_opt hi = true ->
  PrimFloat.ltb 0 b = true ->
  histogram eng x lo hi (ByBinsize b) = Ok o ->
  hist_ok x lo hi (p_dmin (o_params o)) (p_bsize (o_params o)) (p_nbin (o_params o)) (o_hist o) (o_rev o).
Proof. exact holds_binsize_mode. Qed.

(* Non-vacuity: (1) max - min overflows in nbin mode: binsize = +inf, bin numbers [0; 0; INT64_MIN], not
   non-decreasing, outside spec_ok, inside spec_ok2, the weak contracts hold, the strong ones do not;
   (2) an infinite bin size given by the caller; (3) three calls on one Binner object. *)
Example C05_deepening_nonvacuous :
  (exists o, histogram_api EngC ApiBinner [-0x1.ep1023; 0; 0x1.ep1023]%float None None KwOmit (Some 2) = Ok o
             /\ spec_ok (o_params o) = false /\ spec_ok2 (o_params o) = true
             /\ o_hist o = [2; 0] /\ o_rev o = [3; 5; 5; 0; 1; 2]
             /\ contracts_w_b [-0x1.ep1023; 0; 0x1.ep1023]%float None None o = true
             /\ contracts_b [-0x1.ep1023; 0; 0x1.ep1023]%float None None o = false)
  /\ (exists o, histogram EngPy [1; 5; 2]%float (Some 0%float) None (ByBinsize infinity) = Ok o
             /\ o_hist o = [3] /\ PrimFloat.ltb 0 infinity = true)
  /\ run_binner (binner_new [3; 1; 2]%float)
        [mkCall EngC None None KwOmit (Some 2); mkCall EngPy (Some 2%float) None (KwVal 1%float) None;
         mkCall EngC None None KwOmit (Some 2)]
     = [histogram_api EngC ApiBinner [3; 1; 2]%float None None KwOmit (Some 2);
        histogram_api EngPy ApiBinner [3; 1; 2]%float (Some 2%float) None (KwVal 1%float) None;
        histogram_api EngC ApiBinner [3; 1; 2]%float None None KwOmit (Some 2)].
Proof.
  split; [eexists; split; [vm_compute; reflexivity|vm_compute; repeat split; reflexivity]|].
  split; [eexists; split; [vm_compute; reflexivity|vm_compute; repeat split; reflexivity]|].
  vm_compute. reflexivity.
Qed.

(* ================================================================================================
   Round 6 *)

(* Error paths: exactly which inputs the model rejects and with which class (the correspondence run
   compares the class with the exception of the real code: IndexError, ValueError, ZeroDivisionError):
   empty data with a limit missing -> IndexError; an empty selection -> ValueError; a negative derived bin
   count (bin-size mode with a non-positive / NaN bin size or a quotient outside int64) -> ValueError from
   np.zeros; nbin = 0 -> ZeroDivisionError.  Nothing else is rejected. *)
Theorem C05_rejections : forall eng x lo hi m e, histogram eng x lo hi m = Err e ->
  (e = EIndex /\ x = [] /\ (lo = None \/ hi = None))
  \/ (e = EValue /\ (lo <> None \/ hi <> None)
      /\ exists xmin xmax, filter (fun k => within xmin xmax (fget x k)) (argsort x) = []
                           /\ xmin = match lo with Some v => v | None => fget x (hd 0 (argsort x)) end
                           /\ xmax = match hi with Some v => v | None => fget x (last (argsort x) 0) end)
  \/ (e = EValue /\ exists dmin dmax w b nb, limits x (argsort x) lo hi = Ok (dmin, dmax, w)
                                            /\ derive dmin dmax m = Ok (b, nb) /\ nb < 0)
  \/ (e = EOther /\ m = ByNbin 0 /\ exists r, limits x (argsort x) lo hi = Ok r).
Proof. exact histogram_rejections. Qed.

Example C05_rejections_nonvacuous :
  histogram EngC [] None None (ByNbin 2) = Err EIndex
  /\ histogram EngPy [1; 2; 3]%float (Some 10%float) (Some 20%float) (ByBinsize 1%float) = Err EValue
  /\ histogram EngC [1; 2; 3]%float None None (ByBinsize (-1)%float) = Err EValue
  /\ histogram EngC [1; 2; 3]%float None None (ByNbin 0) = Err EOther.
Proof. vm_compute. repeat split; reflexivity. Qed.

(* C05 — glue evaluated by generated case files:
   verdict = (model = implementation ?) + 2 * (property checker rejects the implementation's arrays) *)
From Coq Require Import PrimFloat FloatOps SpecFloat.
From EsVerif.Common Require Import Base.
From EsVerif.C05 Require Import Model Spec.

(* bit-for-bit equality of floats (distinguishes -0.0 from 0.0; all NaNs identified) *)
Definition sf_eqb (a b : spec_float) : bool :=
  match a, b with
  | S754_zero s, S754_zero t => Bool.eqb s t
  | S754_infinity s, S754_infinity t => Bool.eqb s t
  | S754_nan, S754_nan => true
  | S754_finite s m e, S754_finite t n f => Bool.eqb s t && Pos.eqb m n && Z.eqb e f
  | _, _ => false
  end.
Definition fbits_eqb (a b : float) : bool := sf_eqb (Prim2SF a) (Prim2SF b).

Definition arrays := (list Z * list Z)%type.          (* hist, rev *)
Definition arrays_eqb (a b : arrays) : bool := zlist_eqb (fst a) (fst b) && zlist_eqb (snd a) (snd b).

(* what a Binner object lets us observe besides hist/rev *)
Record observed := mkObs { ob_bsize : float; ob_nbin : Z; ob_dmin : float; ob_dmax : float;
                           ob_sort : list Z; ob_wsort : list Z }.

Definition model_arrays (r : result outcome) : result arrays :=
  match r with Ok o => Ok (o_hist o, o_rev o) | Err e => Err e end.

Definition obs_agree (r : result outcome) (ob : option observed) : bool :=
  match ob, r with
  | None, _ => true
  | Some b, Ok o =>
      let p := o_params o in
      fbits_eqb (p_bsize p) (ob_bsize b) && (p_nbin p =? ob_nbin b)
      && fbits_eqb (p_dmin p) (ob_dmin b) && fbits_eqb (p_dmax p) (ob_dmax b)
      && zlist_eqb (o_sort o) (ob_sort b) && zlist_eqb (o_wsort o) (ob_wsort b)
  | Some _, Err _ => false
  end.

(* The bin specification in force, for inputs inside the property's quantifier (a bin size > 0 or
   a bin count >= 1, a non-empty selection); None = the property makes no claim. *)
Definition in_domain (x : list float) (lo hi : option float) (m : mode) : option (float * float * Z) :=
  if mode_ok m then
    match limits x (argsort x) lo hi with
    | Ok (dmin, dmax, _) =>
        match derive dmin dmax m with
        | Ok (bs, nb) => if nb <? 1 then None else Some (dmin, bs, nb)
        | Err _ => None
        end
    | Err _ => None
    end
  else None.

(* one case: both engines were run on the same input.
   agree: each engine's arrays (and whatever else a Binner shows) equal its transcription;
   ok: the two engines return identical arrays and, inside the quantifier, both satisfy the
       data-level property (verified checker hist_check). *)
Definition v_hist (x : list float) (lo hi : option float) (m : mode)
           (obc obpy : option observed) (outc outpy : result arrays) : Z :=
  let mc := histogram EngC x lo hi m in
  let mp := histogram EngPy x lo hi m in
  verdict (result_eqb arrays_eqb (model_arrays mc) outc && result_eqb arrays_eqb (model_arrays mp) outpy
           && obs_agree mc obc && obs_agree mp obpy)
          (result_eqb arrays_eqb outc outpy &&
           match in_domain x lo hi m with
           | None => true
           | Some (dmin, bs, nb) =>
               match outc, outpy with
               | Ok (hc, rc), Ok (hp, rp) =>
                   hist_check x lo hi dmin bs nb hc rc && hist_check x lo hi dmin bs nb hp rp
               | _, _ => false
               end
           end).

(* contract monitor of C05_model_meets_spec on this input (true when the model rejects it) *)
Definition monitor (x : list float) (lo hi : option float) (m : mode) : bool :=
  match histogram EngC x lo hi m with
  | Ok o => contracts_b x lo hi o || contracts_w_b x lo hi o
  | Err _ => true
  end.

(* model against the verified checker, for exhaustive small scopes (thorough tier):
   every data list over [vals] of length <= len, every listed mode and limit pair *)
Fixpoint lists_exact {A} (vals : list A) (len : nat) : list (list A) :=
  match len with
  | O => [[]]
  | S k => flat_map (fun t => map (fun v => v :: t) vals) (lists_exact vals k)
  end.
Definition lists_upto {A} (vals : list A) (len : nat) : list (list A) :=
  flat_map (lists_exact vals) (seq 0 (S len)).

Definition model_ok_on (x : list float) (lo hi : option float) (m : mode) : bool :=
  match in_domain x lo hi m with
  | None => true
  | Some (dmin, bs, nb) =>
      match histogram EngC x lo hi m, histogram EngPy x lo hi m with
      | Ok oc, Ok op =>
          hist_check x lo hi dmin bs nb (o_hist oc) (o_rev oc) && contracts_b x lo hi oc
          && arrays_eqb (o_hist oc, o_rev oc) (o_hist op, o_rev op)
      | _, _ => false
      end
  end.

Definition sweep (vals : list float) (len : nat) (lims : list (option float)) (modes : list mode) : bool :=
  forallb (fun x => forallb (fun lo => forallb (fun hi => forallb (fun m => model_ok_on x lo hi m) modes) lims) lims)
          (lists_upto vals len).

(* ------------------------------------------------------------ option handling of the public entry points *)
Definition v_hist_api (a : api) (x : list float) (lo hi : option float) (k : kw) (nb : option Z)
           (obc obpy : option observed) (outc outpy : result arrays) : Z :=
  match resolve a k nb with
  | Some m => v_hist x lo hi m obc obpy outc outpy
  | None =>
      let r : result arrays := model_arrays (histogram_api EngC a x lo hi k nb) in
      verdict (result_eqb arrays_eqb r outc && result_eqb arrays_eqb r outpy) (result_eqb arrays_eqb outc outpy)
  end.

(* inside the domain of C05_holds_finite_total: there the contracts are theorems, not monitored facts *)
Definition proved_domain (x : list float) (lo hi : option float) (m : mode) : bool :=
  forallb finite_f x && finite_opt lo && finite_opt hi &&
  match histogram EngC x lo hi m with Ok o => spec_ok2 (o_params o) | Err _ => false end.

(* 0: contracts hold (monitored), outside the proved domain or rejected input;
   2: contracts hold and the input is inside the proved domain; 1: a contract fails *)
Definition monitor_code (a : api) (x : list float) (lo hi : option float) (k : kw) (nb : option Z) : Z :=
  match resolve a k nb with
  | Some m => if monitor x lo hi m then (if proved_domain x lo hi m then 2 else 0) else 1
  | None => 0
  end.

Definition show_api (a : api) (x : list float) (lo hi : option float) (k : kw) (nb : option Z) :=
  match histogram_api EngC a x lo hi k nb with
  | Ok o => Some (o_params o, o_hist o, o_rev o)
  | Err _ => None
  end.

(* constants regenerated from the source (harness/props/c05_translate.py) against Model.v's *)
Definition consts_agree (g_default_binsize : float)
           (g_nbin_plus g_rev_extra g_c_binold g_py_binold g_c_off g_py_off
            g_c_oe_init g_py_oe_init g_c_oe_step g_py_oe_step : Z)
           (g_lo g_hi g_stable g_over g_first : bool) : bool :=
  fbits_eqb g_default_binsize default_binsize
  && (g_nbin_plus =? nbin_plus) && (g_rev_extra =? rev_extra)
  && (g_c_binold =? binold_init) && (g_py_binold =? binold_init)
  && (g_c_off =? offset_init) && (g_py_off =? offset_init)
  && (g_c_oe_init =? offset_end_init) && (g_py_oe_init =? offset_end_init)
  && (g_c_oe_step =? offset_end_step) && (g_py_oe_step =? offset_end_step)
  && Bool.eqb g_lo lo_inclusive && Bool.eqb g_hi hi_inclusive && Bool.eqb g_stable sort_stable
  && Bool.eqb g_over hist_nbin_overrides && Bool.eqb g_first binner_binsize_first.

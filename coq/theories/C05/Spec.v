(* C05 — the property as Props, with boolean checkers (proved sound in Proofs.v; they are what the
   correspondence run evaluates on the arrays returned by the real esutil).

   Two levels:
   - pass level: what the single pass guarantees for ANY index list s and bin-number function bn
     (sel, slice, Sorted); no floating point at all;
   - data level (hist_ok): the property as stated in properties.jsonl, on the data themselves:
     a datum is counted iff it lies within the limits given by the caller and its bin index
     floor((x - min) / binsize) is a valid bin; slice i of rev holds precisely the indices of the
     data in bin i, ordered by value with ties in original order; its length is hist[i]; the
     counts sum to the number of counted data.  This level does not mention the sort, the
     selection or the pass of the model. *)
From Coq Require Import PrimFloat FloatOps SpecFloat Sorting.Permutation Sorting.Sorted.
From EsVerif.Common Require Import Base.
From EsVerif.C05 Require Import Model.

(* rev[rev[i]:rev[i+1]] — python slice semantics for non-negative bounds (checked separately) *)
Definition slice (rev : list Z) (i : Z) : list Z :=
  firstn (Z.to_nat (zget rev (i + 1) - zget rev i)) (skipn (Z.to_nat (zget rev i)) rev).

(* -------------------------------------------------------------- pass level *)
(* the members of s whose bin number is i, in the order of s *)
Definition sel (bn : Z -> Z) (i : Z) (s : list Z) : list Z := filter (fun k => bn k =? i) s.

Definition n_valid (bn : Z -> Z) (nbin : Z) (s : list Z) : Z :=
  Z.of_nat (length (filter (fun k => valid_bin nbin (bn k)) s)).

Definition all_counted (bn : Z -> Z) (nbin : Z) (s : list Z) : Prop :=
  forall k, In k s -> valid_bin nbin (bn k) = true.

Definition pass_partition (bn : Z -> Z) (nbin : Z) (s : list Z) (hist rev : list Z) : Prop :=
  Z.of_nat (length hist) = nbin
  /\ Z.of_nat (length rev) = Z.of_nat (length s) + nbin + 1
  /\ (forall i, 0 <= i < nbin ->
        nbin + 1 <= zget rev i <= zget rev (i + 1)
        /\ zget rev (i + 1) <= Z.of_nat (length rev)
        /\ slice rev i = sel bn i s
        /\ Z.of_nat (length (slice rev i)) = zget hist i)
  /\ zsum hist = n_valid bn nbin s
  /\ skipn (Z.to_nat (nbin + 1)) rev = s
  /\ (all_counted bn nbin s -> zget rev nbin = Z.of_nat (length rev)).

Fixpoint nondecr_b (l : list Z) : bool :=
  match l with
  | [] => true
  | a :: t => match t with [] => true | b :: _ => a <=? b end && nondecr_b t
  end.

(* -------------------------------------------------------------- data level *)
Section DataSpec.
  Variable x : list float.             (* the data, as float64 *)
  Variable lo hi : option float.       (* min= / max= as given by the caller *)
  Variable dmin bsize : float.         (* the bin specification in force *)
  Variable nbin : Z.

  Definition in_limits (v : float) : bool :=
    (match lo with Some l => PrimFloat.leb l v | None => true end) &&
    (match hi with Some h => PrimFloat.leb v h | None => true end).

  Definition bin_index (v : float) : Z := f2z_floor (PrimFloat.div (PrimFloat.sub v dmin) bsize).

  Definition counted (k : Z) : bool :=
    in_limits (fget x k) && valid_bin nbin (bin_index (fget x k)).
  Definition in_bin (i k : Z) : bool :=
    in_limits (fget x k) && (bin_index (fget x k) =? i).

  Definition indices : list Z := zseq 0 (length x).
  Definition members (i : Z) : list Z := filter (in_bin i) indices.

  (* a precedes b: smaller value, or equal value and smaller original position *)
  Definition before_v (a b : Z * float) : bool :=
    PrimFloat.ltb (snd a) (snd b) || (PrimFloat.eqb (snd a) (snd b) && (fst a <? fst b)).
  Definition before (a b : Z) : bool := before_v (a, fget x a) (b, fget x b).

  Fixpoint ordered (l : list Z) : Prop :=
    match l with
    | [] => True
    | a :: t => (forall b, In b t -> before a b = true) /\ ordered t
    end.

  Definition bin_ok (hist rev : list Z) (i : Z) : Prop :=
    0 <= zget rev i /\ 0 <= zget rev (i + 1)
    /\ Permutation (slice rev i) (members i)
    /\ ordered (slice rev i)
    /\ Z.of_nat (length (slice rev i)) = zget hist i.

  Definition hist_ok (hist rev : list Z) : Prop :=
    Z.of_nat (length hist) = nbin
    /\ (forall i, 0 <= i < nbin -> bin_ok hist rev i)
    /\ zsum hist = Z.of_nat (length (filter counted indices)).

  (* boolean checker.  It works on (index, value) and (index, bin tag) pairs prepared once, so
     that no list is indexed inside a loop (fget is linear). *)
  Definition with_values (l : list Z) : list (Z * float) := map (fun k => (k, fget x k)) l.

  Fixpoint ordered_vb (l : list (Z * float)) : bool :=
    match l with
    | [] => true
    | a :: t => forallb (before_v a) t && ordered_vb t
    end.
  Definition ordered_b (l : list Z) : bool := ordered_vb (with_values l).

  (* tag of a datum: Some (bin index) when it lies within the limits *)
  Definition tag_of (v : float) : option Z := if in_limits v then Some (bin_index v) else None.
  Fixpoint tag_from (start : Z) (l : list float) : list (Z * option Z) :=
    match l with
    | [] => []
    | v :: t => (start, tag_of v) :: tag_from (start + 1) t
    end.
  Definition tag_in (i : Z) (t : option Z) : bool := match t with Some b => b =? i | None => false end.
  Definition tag_valid (t : option Z) : bool := match t with Some b => valid_bin nbin b | None => false end.
  Definition members_t (tg : list (Z * option Z)) (i : Z) : list Z :=
    map fst (filter (fun kt => tag_in i (snd kt)) tg).

  Fixpoint nodup_b (l : list Z) : bool :=
    match l with
    | [] => true
    | a :: t => negb (existsb (Z.eqb a) t) && nodup_b t
    end.

  Definition perm_b (l m : list Z) : bool :=
    (length m <=? length l)%nat && nodup_b l && forallb (fun k => existsb (Z.eqb k) m) l.

  Definition bin_check (tg : list (Z * option Z)) (hist rev : list Z) (i : Z) : bool :=
    (0 <=? zget rev i) && (0 <=? zget rev (i + 1))
    && perm_b (slice rev i) (members_t tg i)
    && ordered_b (slice rev i)
    && (Z.of_nat (length (slice rev i)) =? zget hist i).

  Definition hist_check (hist rev : list Z) : bool :=
    let tg := tag_from 0 x in
    (Z.of_nat (length hist) =? nbin)
    && forallb (bin_check tg hist rev) (zseq 0 (Z.to_nat nbin))
    && (zsum hist =? Z.of_nat (length (filter (fun kt => tag_valid (snd kt)) tg))).
End DataSpec.

(* ------------------------------------------------ contracts of the bridge *)
(* What links the pass-level theorem to the data-level property depends on IEEE arithmetic
   (the order is total on finite data; (x - min)/binsize is non-negative and monotone on the
   selected data).  These facts are decidable for every concrete input; they are hypotheses of
   C05_model_meets_spec, evaluated on every case by the correspondence run (contract monitor). *)
Definition contracts (x : list float) (lo hi : option float) (o : outcome) : Prop :=
  let p := o_params o in
  let bn := binnum x (p_dmin p) (p_bsize p) in
  ordered x (o_sort o)
  /\ o_wsort o = filter (fun k => in_limits lo hi (fget x k)) (o_sort o)
  /\ (forall k, In k (o_wsort o) -> bn k = bin_index (p_dmin p) (p_bsize p) (fget x k))
  /\ Sorted Z.le (map bn (o_wsort o)).

Definition contracts_b (x : list float) (lo hi : option float) (o : outcome) : bool :=
  let p := o_params o in
  let bn := binnum x (p_dmin p) (p_bsize p) in
  ordered_b x (o_sort o)
  && zlist_eqb (o_wsort o) (filter (fun k => in_limits lo hi (fget x k)) (o_sort o))
  && forallb (fun k => bn k =? bin_index (p_dmin p) (p_bsize p) (fget x k)) (o_wsort o)
  && nondecr_b (map bn (o_wsort o)).

(* the inputs the property quantifies over: a bin size > 0 or a bin count >= 1 *)
Definition mode_ok (m : mode) : bool :=
  match m with
  | ByBinsize b => PrimFloat.ltb 0 b
  | ByNbin n => 1 <=? n
  end.

(* ------------------------------------------------ finite inputs (C05_contracts_hold) *)
(* The contracts above are theorems when the data and the given limits are finite floats and the
   bin specification in force is sane: max - min does not overflow, the bin size is finite and
   positive, and the quotient of the upper limit, (max - min) / binsize, is finite and below 2^63
   (so that the conversion to int64 is not out of range).  All of this is decided on the four
   numbers min, max, binsize alone. *)
Definition finite_f (f : float) : bool :=
  match Prim2SF f with S754_infinity _ | S754_nan => false | _ => true end.
Definition finite_opt (o : option float) : bool := match o with Some v => finite_f v | None => true end.
Definition two63 : float := 0x1p63%float.
Definition params_ok (p : params) : bool :=
  let d := PrimFloat.sub (p_dmax p) (p_dmin p) in
  let q := PrimFloat.div d (p_bsize p) in
  finite_f d && finite_f (p_bsize p) && PrimFloat.ltb 0 (p_bsize p) && finite_f q && PrimFloat.ltb q two63.

(* nbin mode on constant data gives binsize = (max - min) / nbin = 0: every quotient is NaN or
   infinite, no datum has a valid bin index (all counts are 0).  Also covered by theorems. *)
Definition zero_f (f : float) : bool :=
  match Prim2SF f with S754_zero _ => true | _ => false end.
Definition spec_ok (p : params) : bool := params_ok p || zero_f (p_bsize p).

(* ------------------------------------------------ weaker contracts (overflow cases) *)
(* The pass only looks at valid bin numbers, so it suffices that the bin numbers are non-decreasing
   after everything that is not a valid bin is re-labelled "beyond the last bin" (up_bin).  That
   also covers data whose quotient is NaN or outside int64 (INT64_MIN) although they come last. *)
Definition up_bin (nbin b : Z) : Z := if valid_bin nbin b then b else nbin.

Definition contracts_w (x : list float) (lo hi : option float) (o : outcome) : Prop :=
  let p := o_params o in
  let bn := binnum x (p_dmin p) (p_bsize p) in
  ordered x (o_sort o)
  /\ o_wsort o = filter (fun k => in_limits lo hi (fget x k)) (o_sort o)
  /\ (forall k, In k (o_wsort o) -> bn k = bin_index (p_dmin p) (p_bsize p) (fget x k))
  /\ Sorted Z.le (map (fun k => up_bin (p_nbin p) (bn k)) (o_wsort o)).

Definition contracts_w_b (x : list float) (lo hi : option float) (o : outcome) : bool :=
  let p := o_params o in
  let bn := binnum x (p_dmin p) (p_bsize p) in
  ordered_b x (o_sort o)
  && zlist_eqb (o_wsort o) (filter (fun k => in_limits lo hi (fget x k)) (o_sort o))
  && forallb (fun k => bn k =? bin_index (p_dmin p) (p_bsize p) (fget x k)) (o_wsort o)
  && nondecr_b (map (fun k => up_bin (p_nbin p) (bn k)) (o_wsort o)).

(* an infinite bin size: binsize=inf given by the caller, or nbin mode when max - min overflows *)
Definition posinf_f (f : float) : bool :=
  match Prim2SF f with S754_infinity false => true | _ => false end.
Definition spec_ok2 (p : params) : bool := spec_ok p || posinf_f (p_bsize p).

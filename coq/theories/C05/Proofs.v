(* C05 — checker soundness, the sort is a permutation, and the bridge from the pass-level theorem
   to the data-level property (under the decidable contracts of Spec.v). *)
From Coq Require Import PrimFloat Sorting.Permutation Sorting.Sorted ZifyBool ZifyNat.
From EsVerif.Common Require Import Base.
From EsVerif.C05 Require Import Model Spec PassProofs.
Ltac Zify.zify_post_hook ::= Z.to_euclidean_division_equations.

(* ---------------------------------------------------------------- small list facts *)
Lemma in_zseq k s n : In k (zseq s n) <-> s <= k < s + Z.of_nat n.
Proof.
  revert s; induction n as [|n IH]; intro s; cbn [zseq In]; [lia|].
  rewrite IH. lia.
Qed.

Lemma zseq_nodup s n : NoDup (zseq s n).
Proof.
  revert s; induction n as [|n IH]; intro s; cbn [zseq]; constructor; [|apply IH].
  rewrite in_zseq. lia.
Qed.

Lemma filter_filter {A} (f g : A -> bool) l : filter f (filter g l) = filter (fun a => g a && f a) l.
Proof.
  induction l as [|a t IH]; [reflexivity|]. cbn [filter]. destruct (g a); cbn [filter andb]; [|exact IH].
  destruct (f a); rewrite IH; reflexivity.
Qed.

Lemma Permutation_filter {A} (f : A -> bool) l l' : Permutation l l' -> Permutation (filter f l) (filter f l').
Proof.
  induction 1 as [|a l l' HP IH|a b l|l l' l'' H1 IH1 H2 IH2]; cbn [filter].
  - constructor.
  - destruct (f a); [constructor|]; exact IH.
  - destruct (f a); destruct (f b); try apply Permutation_refl. apply perm_swap.
  - eapply Permutation_trans; eassumption.
Qed.

(* ---------------------------------------------------------------- checker soundness *)
Section Checkers.
  Variable x : list float.
  Variable lo hi : option float.
  Variable dmin bsize : float.
  Variable nbin : Z.

  Lemma ordered_b_sound l : ordered_b x l = true -> ordered x l.
  Proof.
    unfold ordered_b. induction l as [|a t IH]; intro H; cbn [with_values map ordered_vb ordered] in *; [exact I|].
    apply andb_true_iff in H. destruct H as [H1 H2]. split; [|apply IH; exact H2].
    rewrite forallb_forall in H1. intros b Hb. unfold before. apply H1.
    apply (in_map (fun k => (k, fget x k))). exact Hb.
  Qed.

  (* the tag table lists, for every position, whether the datum is within the limits and its bin *)
  Lemma tag_from_filter (Q : option Z -> bool) l : forall s,
    map fst (filter (fun kt => Q (snd kt)) (tag_from lo hi dmin bsize s l))
    = filter (fun k => Q (tag_of lo hi dmin bsize (nth (Z.to_nat (k - s)) l nan))) (zseq s (length l)).
  Proof.
    induction l as [|v t IH]; intro s; [reflexivity|].
    assert (E : filter (fun k => Q (tag_of lo hi dmin bsize (nth (Z.to_nat (k - s)) (v :: t) nan))) (zseq (s + 1) (length t))
                = filter (fun k => Q (tag_of lo hi dmin bsize (nth (Z.to_nat (k - (s + 1))) t nan))) (zseq (s + 1) (length t))).
    { apply filter_ext_in. intros k Hk. apply in_zseq in Hk.
      replace (Z.to_nat (k - s)) with (S (Z.to_nat (k - (s + 1)))) by lia. reflexivity. }
    cbn [tag_from length zseq]. cbn [filter snd]. rewrite E. clear E.
    replace (Z.to_nat (s - s)) with O by lia. cbn [nth].
    destruct (Q (tag_of lo hi dmin bsize v)); cbn [map fst]; rewrite IH; reflexivity.
  Qed.

  Lemma members_t_eq i : members_t (tag_from lo hi dmin bsize 0 x) i = members x lo hi dmin bsize i.
  Proof.
    unfold members_t, members, indices. rewrite (tag_from_filter (tag_in i)).
    apply filter_ext_in. intros k Hk. rewrite Z.sub_0_r. unfold in_bin, tag_of, tag_in, fget.
    destruct (in_limits lo hi (nth (Z.to_nat k) x nan)); reflexivity.
  Qed.

  Lemma counted_t_eq :
    length (filter (fun kt => tag_valid nbin (snd kt)) (tag_from lo hi dmin bsize 0 x))
    = length (filter (counted x lo hi dmin bsize nbin) (indices x)).
  Proof.
    rewrite <- (map_length fst). rewrite (tag_from_filter (tag_valid nbin)). unfold indices. f_equal.
    apply filter_ext_in. intros k Hk. rewrite Z.sub_0_r. unfold counted, tag_of, tag_valid, fget.
    destruct (in_limits lo hi (nth (Z.to_nat k) x nan)); reflexivity.
  Qed.

  Lemma ordered_filter f l : ordered x l -> ordered x (filter f l).
  Proof.
    induction l as [|a t IH]; intro H; [exact I|]. cbn [ordered] in H. destruct H as [H1 H2].
    cbn [filter]. destruct (f a); [|apply IH; exact H2]. cbn [ordered]. split; [|apply IH; exact H2].
    intros b Hb. apply filter_In in Hb. apply H1. tauto.
  Qed.

  Lemma nodup_b_sound l : nodup_b l = true -> NoDup l.
  Proof.
    induction l as [|a t IH]; intro H; [constructor|]. cbn [nodup_b] in H.
    apply andb_true_iff in H. destruct H as [H1 H2]. constructor; [|apply IH; exact H2].
    intro Hin. apply negb_true_iff in H1. assert (existsb (Z.eqb a) t = true); [|congruence].
    apply existsb_exists. exists a. split; [exact Hin|apply Z.eqb_refl].
  Qed.

  Lemma perm_b_sound l m : perm_b l m = true -> Permutation l m.
  Proof.
    unfold perm_b. intro H. apply andb_true_iff in H. destruct H as [H H3].
    apply andb_true_iff in H. destruct H as [H1 H2].
    apply NoDup_Permutation_bis.
    - apply nodup_b_sound. exact H2.
    - apply Nat.leb_le. exact H1.
    - intros k Hk. rewrite forallb_forall in H3. specialize (H3 k Hk). apply existsb_exists in H3.
      destruct H3 as [k' [Hk' E]]. apply Z.eqb_eq in E. subst k'. exact Hk'.
  Qed.

  Lemma bin_check_sound hist rev i :
    bin_check x (tag_from lo hi dmin bsize 0 x) hist rev i = true -> bin_ok x lo hi dmin bsize hist rev i.
  Proof.
    unfold bin_check, bin_ok. intro H.
    apply andb_true_iff in H. destruct H as [H H5]. apply andb_true_iff in H. destruct H as [H H4].
    apply andb_true_iff in H. destruct H as [H H3]. apply andb_true_iff in H. destruct H as [H1 H2].
    split; [lia|]. split; [lia|]. split; [rewrite <- members_t_eq; apply perm_b_sound; exact H3|].
    split; [apply ordered_b_sound; exact H4|lia].
  Qed.

  Lemma hist_check_sound hist rev :
    hist_check x lo hi dmin bsize nbin hist rev = true -> hist_ok x lo hi dmin bsize nbin hist rev.
  Proof.
    unfold hist_check, hist_ok. cbv zeta. intro H.
    apply andb_true_iff in H. destruct H as [H H3]. apply andb_true_iff in H. destruct H as [H1 H2].
    split; [lia|]. split; [|rewrite <- counted_t_eq; lia]. intros i Hi. apply bin_check_sound.
    rewrite forallb_forall in H2. apply H2. apply in_zseq. lia.
  Qed.

  (* what the data-level property says about single data: every slice has no repetition and
     holds exactly the in-range indices whose datum lies within the limits and in that bin; the
     count is the number of such data *)
  Lemma hist_ok_exact hist rev : hist_ok x lo hi dmin bsize nbin hist rev ->
    forall i, 0 <= i < nbin ->
      NoDup (slice rev i)
      /\ (forall k, In k (slice rev i) <->
                    0 <= k < Z.of_nat (length x) /\ in_limits lo hi (fget x k) = true
                    /\ bin_index dmin bsize (fget x k) = i)
      /\ zget hist i = Z.of_nat (length (members x lo hi dmin bsize i)).
  Proof.
    intros [_ [H _]] i Hi. destruct (H i Hi) as [_ [_ [HP [_ HL]]]].
    assert (ND : NoDup (members x lo hi dmin bsize i)) by (apply NoDup_filter, zseq_nodup).
    split; [eapply Permutation_NoDup; [apply Permutation_sym; exact HP|exact ND]|]. split.
    - intro k. split.
      + intro Hk. apply (Permutation_in _ HP) in Hk. unfold members in Hk. apply filter_In in Hk.
        destruct Hk as [Hk1 Hk2]. unfold indices in Hk1. apply in_zseq in Hk1. unfold in_bin in Hk2.
        apply andb_true_iff in Hk2. destruct Hk2 as [Hk2 Hk3]. split; [lia|]. split; [exact Hk2|lia].
      + intros [Hk1 [Hk2 Hk3]]. apply (Permutation_in _ (Permutation_sym HP)). unfold members.
        apply filter_In. split; [unfold indices; apply in_zseq; lia|]. unfold in_bin. rewrite Hk2. cbn [andb]. lia.
    - rewrite <- HL. rewrite (Permutation_length HP). reflexivity.
  Qed.
End Checkers.

Lemma nondecr_b_sound l : nondecr_b l = true -> Sorted Z.le l.
Proof.
  induction l as [|a t IH]; intro H; [constructor|]. cbn [nondecr_b] in H.
  apply andb_true_iff in H. destruct H as [H1 H2]. constructor; [apply IH; exact H2|].
  destruct t as [|b u]; constructor. lia.
Qed.

Lemma Sorted_le_strong l : Sorted Z.le l -> StronglySorted Z.le l.
Proof. apply Sorted_StronglySorted. intros a b c. apply Z.le_trans. Qed.

Lemma contracts_b_sound x lo hi o : contracts_b x lo hi o = true -> contracts x lo hi o.
Proof.
  unfold contracts_b, contracts. intro H.
  apply andb_true_iff in H. destruct H as [H H4]. apply andb_true_iff in H. destruct H as [H H3].
  apply andb_true_iff in H. destruct H as [H1 H2].
  split; [apply ordered_b_sound; exact H1|]. split; [apply zlist_eqb_spec; exact H2|].
  split; [|apply nondecr_b_sound; exact H4].
  intros k Hk. rewrite forallb_forall in H3. specialize (H3 k Hk). lia.
Qed.

(* ---------------------------------------------------------------- argsort is a permutation *)
Lemma insert_kv_perm kv l : Permutation (insert_kv kv l) (kv :: l).
Proof.
  induction l as [|j t IH]; cbn [insert_kv]; [apply Permutation_refl|].
  destruct (PrimFloat.ltb (snd kv) (snd j)); [apply Permutation_refl|].
  eapply Permutation_trans; [apply perm_skip; exact IH|apply perm_swap].
Qed.

Lemma fold_insert_perm ks : forall acc,
  Permutation (fold_left (fun acc kv => insert_kv kv acc) ks acc) (ks ++ acc).
Proof.
  induction ks as [|k ks IH]; intro acc; cbn [fold_left app]; [apply Permutation_refl|].
  eapply Permutation_trans; [apply IH|].
  eapply Permutation_trans; [apply Permutation_app_head; apply insert_kv_perm|].
  apply Permutation_sym. apply Permutation_middle.
Qed.

Lemma enumerate_fst l : forall s, map fst (enumerate s l) = zseq s (length l).
Proof. induction l as [|v t IH]; intro s; [reflexivity|]. cbn [enumerate map fst length zseq]. rewrite IH. reflexivity. Qed.

Lemma argsort_perm x : Permutation (argsort x) (zseq 0 (length x)).
Proof.
  unfold argsort, sort_kv. rewrite <- (enumerate_fst x 0). apply Permutation_map.
  eapply Permutation_trans; [apply fold_insert_perm|]. rewrite app_nil_r. apply Permutation_refl.
Qed.

(* ---------------------------------------------------------------- the pass on both engines *)
Lemma pass_partition_both eng bn nbin s : 0 <= nbin -> Sorted Z.le (map bn s) ->
  let '(hist, rev) := match eng with EngC => chist bn nbin s | EngPy => pyhist bn nbin s end in
  pass_partition bn nbin s hist rev.
Proof.
  intros Hn HS. destruct eng; [|rewrite <- engines_equal]; apply chist_partition; try assumption;
    apply Sorted_le_strong; exact HS.
Qed.

Lemma hist_counts_both eng bn nbin s : 0 <= nbin ->
  let '(hist, rev) := match eng with EngC => chist bn nbin s | EngPy => pyhist bn nbin s end in
  Z.of_nat (length hist) = nbin
  /\ forall i, 0 <= i < nbin -> zget hist i = Z.of_nat (length (sel bn i s)).
Proof.
  intro Hn. destruct eng; [|rewrite <- engines_equal]; apply (chist_hist bn nbin Hn s).
Qed.

(* ---------------------------------------------------------------- bridge to the data level *)
Theorem model_meets_spec eng x lo hi m o :
  histogram eng x lo hi m = Ok o ->
  contracts x lo hi o ->
  hist_ok x lo hi (p_dmin (o_params o)) (p_bsize (o_params o)) (p_nbin (o_params o)) (o_hist o) (o_rev o).
Proof.
  unfold histogram. intros H HC.
  destruct (limits x (argsort x) lo hi) as [[[dmin dmax] w]|e]; [|discriminate].
  destruct (derive dmin dmax m) as [[bsize nbin]|e]; [|discriminate].
  destruct (nbin <? 0) eqn:En; [discriminate|].
  pose proof (pass_partition_both eng (binnum x dmin bsize) nbin w) as HP.
  destruct (match eng with EngC => chist (binnum x dmin bsize) nbin w | EngPy => pyhist (binnum x dmin bsize) nbin w end)
    as [hist rev].
  inversion H; subst o; clear H. unfold contracts in HC.
  cbn [o_params o_sort o_wsort o_hist o_rev p_dmin p_bsize p_nbin] in *.
  destruct HC as [K1 [K2 [K3 K4]]].
  specialize (HP ltac:(lia) K4). destruct HP as [P1 [P2 [P3 [P4 [P5 P6]]]]].
  set (bn := binnum x dmin bsize) in *.
  set (inl := fun k => in_limits lo hi (fget x k)) in *.
  assert (Hperm : forall (f g : Z -> bool), (forall k, In k w -> f k = g k) ->
            Permutation (filter f w) (filter (fun k => inl k && g k) (indices x))).
  { intros f g Hfg. rewrite (filter_ext_in f g w Hfg). rewrite K2, filter_filter.
    apply Permutation_filter. apply argsort_perm. }
  split; [exact P1|]. split.
  - intros i Hi. destruct (P3 i Hi) as [Q1 [Q2 [Q3 Q4]]]. unfold bin_ok.
    split; [lia|]. split; [lia|]. split; [|split; [|exact Q4]].
    + rewrite Q3. unfold sel, members. apply (Hperm (fun k => bn k =? i) (fun k => bin_index dmin bsize (fget x k) =? i)).
      intros k Hk. rewrite (K3 k Hk). reflexivity.
    + rewrite Q3. unfold sel. rewrite K2. apply ordered_filter, ordered_filter. exact K1.
  - rewrite P4. unfold n_valid. f_equal. apply Permutation_length.
    apply (Hperm (fun k => valid_bin nbin (bn k)) (fun k => valid_bin nbin (bin_index dmin bsize (fget x k)))).
    intros k Hk. rewrite (K3 k Hk). reflexivity.
Qed.

Lemma histogram_engines_equal x lo hi m : histogram EngC x lo hi m = histogram EngPy x lo hi m.
Proof.
  unfold histogram. destruct (limits x (argsort x) lo hi) as [[[dmin dmax] w]|e]; [|reflexivity].
  destruct (derive dmin dmax m) as [[bsize nbin]|e]; [|reflexivity].
  destruct (nbin <? 0); [reflexivity|]. rewrite engines_equal. reflexivity.
Qed.

(* ---------------------------------------------------------------- the defect that was repaired *)
(* data [0,1,2,3,4], nbin=2 (binsize 2): the datum 4 has bin number 2 = nbin and is not counted;
   the unpatched pass nevertheless puts its index into the slice of bin 1. *)
Lemma unpatched_refuted :
  let x := [0; 1; 2; 3; 4]%float in
  let bn := binnum x 0%float 2%float in
  Sorted Z.le (map bn [0; 1; 2; 3; 4])
  /\ chist_unpatched bn 2 [0; 1; 2; 3; 4] = ([2; 2], [3; 5; 8; 0; 1; 2; 3; 4])
  /\ ~ hist_ok x None None 0%float 2%float 2 [2; 2] [3; 5; 8; 0; 1; 2; 3; 4]
  /\ ~ pass_partition bn 2 [0; 1; 2; 3; 4] [2; 2] [3; 5; 8; 0; 1; 2; 3; 4].
Proof.
  cbv zeta. split; [|split; [|split]].
  - apply nondecr_b_sound. vm_compute. reflexivity.
  - vm_compute. reflexivity.
  - intros [_ [H _]]. specialize (H 1 ltac:(lia)). destruct H as [_ [_ [_ [_ HL]]]]. vm_compute in HL. discriminate.
  - intros [_ [_ [H _]]]. specialize (H 1 ltac:(lia)). destruct H as [_ [_ [_ HL]]]. vm_compute in HL. discriminate.
Qed.

(* ---------------------------------------------------------------- named constants of Model.v *)
(* each named constant is what the model's functions use (all by computation) *)
Lemma derive_binsize_const dmin dmax b :
  derive dmin dmax (ByBinsize b) = Ok (b, f2z_trunc (PrimFloat.div (PrimFloat.sub dmax dmin) b) + nbin_plus).
Proof. reflexivity. Qed.

Lemma within_const xmin xmax v :
  within xmin xmax v = (if lo_inclusive then PrimFloat.leb xmin v else PrimFloat.ltb xmin v)
                       && (if hi_inclusive then PrimFloat.leb v xmax else PrimFloat.ltb v xmax).
Proof. reflexivity. Qed.

Lemma chist_const bn nbin s :
  chist bn nbin s =
  let nrev := Z.of_nat (length s) + nbin + rev_extra in
  let '(binold, offset_end, hist, rev) :=
    c_loop bn nbin s 0 binold_init (nbin + offset_end_init) (zeros nbin) (zeros nrev) in
  (hist, fill rev (binold + 1) (Z.to_nat (nbin - binold)) offset_end).
Proof. reflexivity. Qed.

Lemma pyhist_const bn nbin s :
  pyhist bn nbin s =
  let nrev := Z.of_nat (length s) + nbin + rev_extra in
  let '(binold, offset_end, hist, rev) :=
    py_loop bn nbin s (nbin + offset_init) binold_init (nbin + offset_end_init) (zeros nbin) (zeros nrev) in
  (hist, fill rev (binold + 1) (Z.to_nat (nbin - binold)) offset_end).
Proof. reflexivity. Qed.

Lemma c_loop_const bn nbin k ss i binold oe hist rev :
  c_loop bn nbin (k :: ss) i binold oe hist rev =
  let offset := i + nbin + offset_init in
  let rev := zset rev offset k in
  if valid_bin nbin (bn k) then
    c_loop bn nbin ss (i + 1) (bn k) (offset + offset_end_step) (zset hist (bn k) (zget hist (bn k) + 1))
           (if binold <? bn k then fill rev (binold + 1) (Z.to_nat (bn k - binold)) offset else rev)
  else c_loop bn nbin ss (i + 1) binold oe hist rev.
Proof. reflexivity. Qed.

Lemma py_loop_const bn nbin k ss offset binold oe hist rev :
  py_loop bn nbin (k :: ss) offset binold oe hist rev =
  let rev := zset rev offset k in
  if valid_bin nbin (bn k) then
    py_loop bn nbin ss (offset + 1) (bn k) (offset + offset_end_step) (zset hist (bn k) (zget hist (bn k) + 1))
            (if bn k >? binold then fill rev (binold + 1) (Z.to_nat (bn k - binold)) offset else rev)
  else py_loop bn nbin ss (offset + 1) binold oe hist rev.
Proof. reflexivity. Qed.

Lemma resolve_const a k nbin :
  resolve a k nbin =
  match a with
  | ApiHistogram =>
      match (if hist_nbin_overrides then nbin else None) with
      | Some n => Some (ByNbin n)
      | None => match k with
                | KwVal v => Some (ByBinsize v)
                | KwOmit => Some (ByBinsize default_binsize)
                | KwNone => match nbin with Some n => Some (ByNbin n) | None => None end
                end
      end
  | ApiBinner =>
      match (if binner_binsize_first then match k with KwVal v => Some v | _ => None end else None) with
      | Some b => Some (ByBinsize b)
      | None => match nbin with
                | Some n => Some (ByNbin n)
                | None => match k with KwVal v => Some (ByBinsize v) | _ => None end
                end
      end
  end.
Proof. destruct a, k, nbin; reflexivity. Qed.

Lemma histogram_api_engines_equal a x lo hi k nb :
  histogram_api EngC a x lo hi k nb = histogram_api EngPy a x lo hi k nb.
Proof. unfold histogram_api. destruct (resolve a k nb); [apply histogram_engines_equal|reflexivity]. Qed.

(* ---------------------------------------------------------------- counts without reverse indices *)
Lemma c_loop_hist bn nbin s : forall i b oe h r,
  snd (fst (c_loop bn nbin s i b oe h r)) = hist_loop bn nbin s h.
Proof.
  induction s as [|k ss IH]; intros i b oe h r; cbn [c_loop hist_loop]; [reflexivity|].
  destruct (valid_bin nbin (bn k)); apply IH.
Qed.

Lemma hist_norev_chist bn nbin s :
  hist_norev bn nbin s = fst (chist bn nbin s) /\ hist_norev bn nbin s = fst (pyhist bn nbin s).
Proof.
  rewrite <- engines_equal. assert (E : hist_norev bn nbin s = fst (chist bn nbin s)); [|split; exact E].
  unfold hist_norev, chist.
  rewrite <- (c_loop_hist bn nbin s 0 (-1) (nbin + 1) (zeros nbin) (zeros (Z.of_nat (length s) + nbin + 1))).
  destruct (c_loop bn nbin s 0 (-1) (nbin + 1) (zeros nbin) (zeros (Z.of_nat (length s) + nbin + 1))) as [[[b oe] h] r].
  reflexivity.
Qed.

(* ---------------------------------------------------------------- the Binner object: history independence *)
Lemma histogram_with_argsort eng x lo hi m : histogram_with eng (argsort x) x lo hi m = histogram eng x lo hi m.
Proof. reflexivity. Qed.

Definition binner_wf (b : binner) : Prop := b_sort b = None \/ b_sort b = Some (argsort (b_x b)).

Lemma dohist_spec eng a b lo hi k nb : binner_wf b ->
  let '(b', r) := dohist eng a b lo hi k nb in
  binner_wf b' /\ b_x b' = b_x b /\ b_sort b' = Some (argsort (b_x b))
  /\ r = histogram_api eng a (b_x b) lo hi k nb.
Proof.
  intros W. unfold dohist.
  assert (E : match b_sort b with Some s => s | None => argsort (b_x b) end = argsort (b_x b)).
  { destruct W as [W|W]; rewrite W; reflexivity. }
  rewrite E. cbn [b_x b_sort]. split; [right; reflexivity|]. split; [reflexivity|]. split; [reflexivity|].
  unfold histogram_api. destruct (resolve a k nb); reflexivity.
Qed.

Lemma run_binner_spec cs : forall b, binner_wf b ->
  run_binner b cs = map (fun c => histogram_api (c_eng c) ApiBinner (b_x b) (c_lo c) (c_hi c) (c_kw c) (c_nbin c)) cs.
Proof.
  induction cs as [|c t IH]; intros b W; cbn [run_binner map]; [reflexivity|].
  pose proof (dohist_spec (c_eng c) ApiBinner b (c_lo c) (c_hi c) (c_kw c) (c_nbin c) W) as S.
  destruct (dohist (c_eng c) ApiBinner b (c_lo c) (c_hi c) (c_kw c) (c_nbin c)) as [b' r].
  destruct S as (W' & Ex & _ & Er). rewrite Er, (IH b' W'), Ex. reflexivity.
Qed.

Lemma histogram_call_spec x c :
  histogram_call x c = histogram_api (c_eng c) ApiHistogram x (c_lo c) (c_hi c) (c_kw c) (c_nbin c).
Proof.
  unfold histogram_call.
  pose proof (dohist_spec (c_eng c) ApiHistogram (binner_new x) (c_lo c) (c_hi c) (c_kw c) (c_nbin c) (or_introl eq_refl)) as S.
  destruct (dohist (c_eng c) ApiHistogram (binner_new x) (c_lo c) (c_hi c) (c_kw c) (c_nbin c)) as [b' r].
  destruct S as (_ & _ & _ & Er). exact Er.
Qed.

(* C13 — the bin number that esutil.stat.histogram computes for integer data with min = 0 and bin size 1.0 is the integer
   itself: C05.Model.binnum on the float images of the shifted ids (htmid2 - minid, all below 2^53) returns the integer
   difference.  This is the identification that C05Tie.v used as the definition of [bn]; here it is a theorem about C05's
   float model (import only: C05.Model, C05.Spec, C05.FloatFacts). *)
From Coq Require Import ZArith Reals Lia Lra List Bool.
From Coq Require Import PrimFloat FloatOps SpecFloat Uint63.
From Flocq Require Import Core.Core IEEE754.BinarySingleNaN.
Require Flocq.IEEE754.PrimFloat.
From EsVerif.Common Require Import Base.
From EsVerif.C05 Require Import Model Spec FloatFacts.
From EsVerif.C13 Require Import RootProofs C05Tie.
Import ListNotations.
Module FP := Flocq.IEEE754.PrimFloat.
Local Existing Instance FP.Hprec.
Local Existing Instance FP.Hmax.
Local Open Scope R_scope.

Notation rnd := (round radix2 (fexp prec emax) (round_mode mode_NE)).

Lemma generic_IZR z : (Z.abs z < 2 ^ 53)%Z -> generic_format radix2 (fexp prec emax) (IZR z).
Proof.
  intro Hz. replace (IZR z) with (F2R (Float radix2 z 0)) by (unfold F2R, Fnum, Fexp; simpl bpow; ring).
  apply generic_format_F2R. intro Hnz. unfold cexp, fexp, FLT_exp.
  replace (F2R (Float radix2 z 0)) with (IZR z) by (unfold F2R, Fnum, Fexp; simpl bpow; ring).
  assert (Hm : (mag radix2 (IZR z) <= 53)%Z).
  { apply mag_le_bpow; [apply IZR_neq; exact Hnz|]. rewrite <- abs_IZR. change (bpow radix2 53) with (IZR (2 ^ 53)).
    apply IZR_lt. exact Hz. }
  unfold emin, prec, emax. lia.
Qed.

Lemma float_of_Z_exact z : (0 <= z < 2 ^ 53)%Z ->
  finite_f (float_of_Z z) = true /\ rv (float_of_Z z) = IZR z.
Proof.
  intro Hz. rewrite finite_f_B. unfold rv, float_of_Z. rewrite FP.of_int63_equiv.
  assert (Ez : Uint63.to_Z (Uint63.of_Z z) = z).
  { rewrite Uint63.of_Z_spec. apply Z.mod_small. change wB with (2 ^ 63)%Z. lia. }
  rewrite Ez.
  generalize (binary_normalize_correct prec emax FP.Hprec FP.Hmax mode_NE z 0 false). cbv zeta.
  replace (F2R (Float radix2 z 0)) with (IZR z) by (unfold F2R, Fnum, Fexp; simpl bpow; ring).
  rewrite round_generic by (try typeclasses eauto; apply generic_IZR; lia).
  rewrite Rlt_bool_true.
  - intros [H1 [H2 _]]. split; [exact H2|exact H1].
  - rewrite <- abs_IZR. change (bpow radix2 emax) with (IZR (2 ^ 1024)). apply IZR_lt.
    assert ((2 ^ 53 < 2 ^ 1024)%Z) by (apply Z.pow_lt_mono_r; lia). lia.
Qed.

Lemma sub_exact a b z : finite_f a = true -> finite_f b = true -> rv a - rv b = rv z ->
  finite_f (PrimFloat.sub a b) = true /\ rv (PrimFloat.sub a b) = rv z.
Proof.
  rewrite !finite_f_B. unfold rv. rewrite FP.sub_equiv. intros Fa Fb E.
  generalize (Bminus_correct prec emax _ _ mode_NE (FP.Prim2B a) (FP.Prim2B b) Fa Fb).
  rewrite E, round_generic by (try typeclasses eauto; apply generic_format_B2R).
  rewrite Rlt_bool_true by apply abs_B2R_lt_emax.
  intros [H1 [H2 _]]. split; [exact H2|exact H1].
Qed.

Lemma div_exact a b z : finite_f a = true -> rv b <> 0 -> rv a / rv b = rv z ->
  finite_f (PrimFloat.div a b) = true /\ rv (PrimFloat.div a b) = rv z.
Proof.
  rewrite !finite_f_B. unfold rv. rewrite FP.div_equiv. intros Fa Nz E.
  generalize (Bdiv_correct prec emax _ _ mode_NE (FP.Prim2B a) (FP.Prim2B b) Nz).
  rewrite E, round_generic by (try typeclasses eauto; apply generic_format_B2R).
  rewrite Rlt_bool_true by apply abs_B2R_lt_emax.
  intros [H1 [H2 _]]. rewrite H2. split; [exact Fa|exact H1].
Qed.

(* htm.py: stat.histogram(htmid2 - minid, rev=True): data = the shifted ids as float64, min = 0.0 (the smallest shifted id),
   binsize = 1.0 *)
Theorem binnum_of_integer_data (x : list PrimFloat.float) (k z : Z) :
  (0 <= z < 2 ^ 53)%Z -> fget x k = float_of_Z z ->
  binnum x 0%float 1%float k = z.
Proof.
  intros Hz Hx. unfold binnum. rewrite Hx.
  destruct (float_of_Z_exact z Hz) as [Ff Ef].
  destruct (sub_exact (float_of_Z z) 0%float (float_of_Z z) Ff finite_zero) as [Fs Es]; [rewrite rv_zero; ring|].
  destruct (div_exact (PrimFloat.sub (float_of_Z z) 0) 1%float (float_of_Z z) Fs) as [Fd Ed];
    [rewrite rv_1; lra | rewrite Es, rv_1; field|].
  destruct (trunc_floor_R _ Fd) as [Ht _].
  - rewrite Ed, Ef. split; [apply IZR_le; lia|]. apply IZR_lt. unfold two63Z. lia.
  - rewrite Ht, Ed, Ef. apply Zfloor_IZR.
Qed.

(* the bin numbers C05Tie.bn assigns are those of C05's float model on the float images of the shifted ids *)
Theorem bn_is_C05_binnum (ids2 : list Z) (minid : Z) (x : list PrimFloat.float) (k : Z) :
  (0 <= zget ids2 k - minid < 2 ^ 53)%Z ->
  fget x k = float_of_Z (zget ids2 k - minid) ->
  binnum x 0%float 1%float k = bn ids2 minid k.
Proof. intros H Hx. unfold bn. apply binnum_of_integer_data; assumption. Qed.

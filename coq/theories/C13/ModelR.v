(* C13 — the floating-point part of cbincount (htmc.cc:218-241, 285-297, 349-354) and the bin edges
   of htm.py:log_bins, transcribed over the reals (style R: the gap between this formula chain and
   its IEEE evaluation is measured per case by the harness, not proved).  No proofs here. *)
From Coq Require Import Reals ZArith Bool.
From Flocq Require Import Raux.
Open Scope R_scope.

Definition log10 (x : R) : R := ln x / ln 10.
Definition pow10 (x : R) : R := exp (x * ln 10).

Definition D2R : R := PI / 180.
Definition R2D : R := 180 / PI.

(* scale_array: None | one value for all points | one value per point; what reaches the loop body
   for point i1 is [scale] (1 when absent) and [logscale] (0 when absent) *)
Definition scale_of (s : option R) : R := match s with None => 1 | Some x => x end.
Definition logscale_of (s : option R) : R := match s with None => 0 | Some x => log10 x end.
(* gcirc(..., degrees): degrees exactly when no scale is given *)
Definition degrees_of (s : option R) : bool := match s with None => true | Some _ => false end.
(* [theta] = the separation in radians *)
Definition dis_of (s : option R) (theta : R) : R := if degrees_of s then theta * R2D else theta.

Definition log_binsize (rmin rmax : R) (nbin : Z) : R := (log10 rmax - log10 rmin) / IZR nbin.
Definition maxangle (rmax : R) (s : option R) : R := rmax / scale_of s.
(* the number handed to SpatialDomain::setRaDecD *)
Definition cover_cos (rmax : R) (s : option R) : R :=
  if degrees_of s then cos (maxangle rmax s * D2R) else cos (maxangle rmax s).

Definition quotient (rmin rmax : R) (nbin : Z) (s : option R) (dis : R) : R :=
  (logscale_of s + log10 dis - log10 rmin) / log_binsize rmin rmax nbin.

(* [index] = Ztrunc for the C cast of the unrepaired code, Zfloor for the repaired code *)
Definition binof_R (index : R -> Z) (rmin rmax : R) (nbin : Z) (s : option R) (dis : R) : option Z :=
  if Rle_dec dis (maxangle rmax s) then
    let k := index (quotient rmin rmax nbin s dis) in
    if andb (0 <=? k)%Z (k <? nbin)%Z then Some k else None
  else None.

(* htm.py:894-905: lower edge of bin k (the upper edge is the lower edge of bin k+1) *)
Definition edge (rmin rmax : R) (nbin : Z) (k : Z) : R :=
  pow10 (log10 rmin + log_binsize rmin rmax nbin * IZR k).

(* htmc.cc (since fixes/C13/0002): the cosine handed to SpatialDomain::setRaDecD is that of maxangle (degrees when no scale was
   sent, else radians) plus a margin of [pad] degrees, clipped at pi.  c13_gen.py translates the C expression into a term and the
   check proves it equal to this definition on every run. *)
Definition search_cos (pad : R) (degrees : bool) (maxangle : R) : R :=
  let sa := (if degrees then maxangle * D2R else maxangle) + pad * D2R in
  cos (if Rlt_dec PI sa then PI else sa).

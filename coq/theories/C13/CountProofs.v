(* C13 — the traversal of the reverse indices visits every member of the listed triangles once;
   the counts of cbincount are the brute-force counts. *)
From Coq Require Import Sorting.Permutation ZifyBool ZifyNat.
From EsVerif.Common Require Import Base.
From EsVerif.C13 Require Import Model Spec Proofs.
Ltac Zify.zify_post_hook ::= Z.to_euclidean_division_equations.

(* ---- small list facts *)
Lemma filter_false {A} (l : list A) : filter (fun _ => false) l = [].
Proof. induction l; simpl; auto. Qed.

Lemma filter_or_disjoint {A} (p q : A -> bool) : forall l,
  (forall x, In x l -> p x = true -> q x = true -> False) ->
  Permutation (filter (fun x => p x || q x) l) (filter p l ++ filter q l).
Proof.
  induction l as [|a t IH]; intro H; simpl; [constructor|].
  assert (IH' := IH (fun x Hx => H x (or_intror Hx))).
  destruct (p a) eqn:Ep; destruct (q a) eqn:Eq; simpl.
  - exfalso. apply (H a); auto. left; reflexivity.
  - constructor. exact IH'.
  - eapply Permutation_trans; [constructor; exact IH'|]. apply Permutation_middle.
  - exact IH'.
Qed.

Lemma in_zseq : forall n s x, In x (zseq s n) <-> s <= x < s + Z.of_nat n.
Proof.
  induction n as [|n IH]; intros s x; simpl; [lia|].
  rewrite IH. lia.
Qed.

Lemma zseq_NoDup : forall n s, NoDup (zseq s n).
Proof.
  induction n as [|n IH]; intro s; simpl; constructor; [|apply IH].
  rewrite in_zseq. lia.
Qed.

Lemma NoDup_filter {A} (p : A -> bool) : forall l, NoDup l -> NoDup (filter p l).
Proof.
  induction l as [|a t IH]; intro H; simpl; [constructor|].
  inversion H; subst. destruct (p a); [constructor|]; auto.
  rewrite filter_In. tauto.
Qed.

(* ------------------------------------------------------------------------------------------ *)
(* traversal                                                                                   *)
(* ------------------------------------------------------------------------------------------ *)
Section TraversalProofs.
  Variable rev : Z -> Z.
  Variables minid maxid : Z.
  Variable ids2 : list Z.
  Let all2 := zseq 0 (length ids2).

  (* which points of the second list the traversal is supposed to reach *)
  Definition reached (cover : list Z) (i2 : Z) : bool :=
    memb (zget ids2 i2) cover && in_window minid maxid (zget ids2 i2).

  Theorem rev_traversal : forall cover,
    NoDup cover -> rev_ok_on rev minid maxid ids2 cover ->
    Permutation (candidates rev minid maxid cover) (filter (reached cover) all2).
  Proof.
    induction cover as [|a cover IH]; intros Hnd Hrev.
    - simpl. unfold reached. simpl. rewrite filter_false. constructor.
    - inversion Hnd as [|? ? Hnotin Hnd']; subst.
      assert (Hrev' : rev_ok_on rev minid maxid ids2 cover).
      { intros leaf Hin Hw. apply Hrev; [right; exact Hin | exact Hw]. }
      specialize (IH Hnd' Hrev').
      cbn [candidates flat_map]. fold (candidates rev minid maxid cover).
      unfold members. fold (in_window minid maxid a).
      destruct (in_window minid maxid a) eqn:Ew.
      + (* the leaf is in the window: its slice is the set of points with that id *)
        pose proof (Hrev a (or_introl eq_refl) Ew) as Hs. fold all2 in Hs.
        eapply Permutation_trans; [apply Permutation_app; [exact Hs | exact IH]|].
        apply Permutation_sym.
        assert (E1 : filter (reached (a :: cover)) all2 =
                     filter (fun i2 => (zget ids2 i2 =? a) || reached cover i2) all2).
        { apply filter_ext_in. intros i2 _. unfold reached, memb. cbn [existsb].
          destruct (zget ids2 i2 =? a) eqn:E.
          - apply Z.eqb_eq in E. simpl. rewrite E. exact Ew.
          - reflexivity. }
        rewrite E1. apply filter_or_disjoint.
        intros i2 _ Ha Hr. apply Z.eqb_eq in Ha. unfold reached in Hr.
        apply andb_true_iff in Hr as [Hr _]. apply memb_In in Hr. rewrite Ha in Hr. exact (Hnotin Hr).
      + (* outside the window: skipped, and no point of the second list is expected there *)
        simpl. eapply Permutation_trans; [exact IH|].
        assert (E1 : filter (reached (a :: cover)) all2 = filter (reached cover) all2).
        { apply filter_ext_in. intros i2 _. unfold reached, memb. cbn [existsb].
          destruct (zget ids2 i2 =? a) eqn:E; [|reflexivity].
          apply Z.eqb_eq in E. rewrite E, Ew. rewrite !andb_false_r. reflexivity. }
        rewrite E1. apply Permutation_refl.
  Qed.

  (* every member of the listed triangles is visited exactly once, nothing else is visited *)
  Theorem rev_traversal_visits_each_member_once : forall cover,
    NoDup cover -> rev_ok_on rev minid maxid ids2 cover ->
    NoDup (candidates rev minid maxid cover)
    /\ forall i2, In i2 (candidates rev minid maxid cover) <->
                  (0 <= i2 < Z.of_nat (length ids2)
                   /\ In (zget ids2 i2) cover /\ minid <= zget ids2 i2 <= maxid).
  Proof.
    intros cover Hnd Hrev. pose proof (rev_traversal cover Hnd Hrev) as HP. split.
    - eapply Permutation_NoDup; [apply Permutation_sym; exact HP|].
      apply NoDup_filter. apply zseq_NoDup.
    - intro i2. split.
      + intro Hin. apply (Permutation_in _ HP) in Hin. apply filter_In in Hin as [Hs Hr].
        unfold all2 in Hs. rewrite in_zseq in Hs. unfold reached in Hr.
        apply andb_true_iff in Hr as [H1 H2]. apply memb_In in H1. unfold in_window in H2.
        split; [lia|]. split; [exact H1 | lia].
      + intros [Hs [H1 H2]]. apply (Permutation_in _ (Permutation_sym HP)).
        apply filter_In. split; [unfold all2; rewrite in_zseq; lia|].
        unfold reached. apply andb_true_iff. split; [apply memb_In; exact H1|].
        unfold in_window. lia.
  Qed.
End TraversalProofs.

(* ------------------------------------------------------------------------------------------ *)
(* counting                                                                                    *)
(* ------------------------------------------------------------------------------------------ *)
Lemma zget_zset_eq (c : list Z) k v : 0 <= k < Z.of_nat (length c) -> zget (zset c k v) k = v.
Proof.
  intro H. unfold zget, zset. destruct (k <? 0) eqn:E; [lia|].
  apply nth_set_nth_eq. lia.
Qed.

Lemma zget_zset_neq (c : list Z) k j v : 0 <= k -> 0 <= j -> j <> k -> zget (zset c k v) j = zget c j.
Proof.
  intros Hk Hj Hne. unfold zget, zset. destruct (k <? 0) eqn:E; [lia|].
  apply nth_set_nth_neq. lia.
Qed.

Lemma zset_length (c : list Z) k v : length (zset c k v) = length c.
Proof. unfold zset. destruct (k <? 0); [reflexivity | apply set_nth_length]. Qed.

Lemma bump_length nbin c ob : length (bump nbin c ob) = length c.
Proof.
  unfold bump. destruct ob as [k|]; [|reflexivity].
  destruct ((0 <=? k) && (k <? nbin)); [apply zset_length | reflexivity].
Qed.

Lemma bump_get nbin c ob k :
  Z.of_nat (length c) = nbin -> 0 <= k < nbin ->
  zget (bump nbin c ob) k = zget c k + (if is_bin ob k then 1 else 0).
Proof.
  intros Hl Hk. unfold bump, is_bin. destruct ob as [j|]; [|lia].
  destruct ((0 <=? j) && (j <? nbin)) eqn:Ej.
  - destruct (j =? k) eqn:E.
    + apply Z.eqb_eq in E. subst j. apply zget_zset_eq. lia.
    + rewrite zget_zset_neq by lia. lia.
  - destruct (j =? k) eqn:E; lia.
Qed.

Lemma count_point_get nbin f k : forall cands c,
  Z.of_nat (length c) = nbin -> 0 <= k < nbin ->
  zget (count_point nbin f cands c) k = zget c k + count_in f k cands
  /\ length (count_point nbin f cands c) = length c.
Proof.
  unfold count_point, count_in.
  induction cands as [|x t IH]; intros c Hl Hk; simpl; [split; [lia | reflexivity]|].
  destruct (IH (bump nbin c (f x))) as [IH1 IH2]; [rewrite bump_length; exact Hl | exact Hk|].
  rewrite IH1, IH2, bump_length. rewrite bump_get by assumption.
  split; [|reflexivity]. destruct (is_bin (f x) k); simpl length; lia.
Qed.

Lemma count_in_perm f k l1 l2 : Permutation l1 l2 -> count_in f k l1 = count_in f k l2.
Proof.
  intro HP. unfold count_in. f_equal. apply Permutation_length.
  induction HP; simpl.
  - constructor.
  - destruct (is_bin (f x) k); [constructor|]; assumption.
  - destruct (is_bin (f x) k); destruct (is_bin (f y) k); try apply Permutation_refl. constructor.
  - eapply Permutation_trans; eassumption.
Qed.

Lemma is_bin_counted nbin ob k : 0 <= k < nbin -> is_bin ob k = true -> counted nbin ob = true.
Proof. unfold is_bin, counted. destruct ob as [j|]; [|discriminate]. lia. Qed.

Section CountProofs.
  Variable nbin : Z.
  Variable rev : Z -> Z.
  Variables minid maxid : Z.
  Variable ids2 : list Z.
  Variable binof : Z -> Z -> option Z.
  Hypothesis Hwin : forall i2, In i2 (zseq 0 (length ids2)) -> in_window minid maxid (zget ids2 i2) = true.

  (* one point of the first list: under H_cover the visited candidates give the same count as
     all points of the second list *)
  Lemma count_point_brute i1 cover k c :
    cover_ok nbin ids2 (binof i1) cover -> rev_ok_on rev minid maxid ids2 cover ->
    Z.of_nat (length c) = nbin -> 0 <= k < nbin ->
    zget (count_point nbin (binof i1) (candidates rev minid maxid cover) c) k
    = zget c k + count_in (binof i1) k (zseq 0 (length ids2)).
  Proof.
    intros [Hnd Hcov] Hrev Hl Hk.
    destruct (count_point_get nbin (binof i1) k (candidates rev minid maxid cover) c Hl Hk) as [E _].
    rewrite E. f_equal.
    rewrite (count_in_perm _ _ _ _ (rev_traversal rev minid maxid ids2 cover Hnd Hrev)).
    unfold count_in. f_equal. f_equal.
    (* filtering the reached points first does not lose any pair that lands in bin k *)
    generalize (zseq 0 (length ids2)) Hcov Hwin. intros l. induction l as [|x t IH]; intros Hc Hw; [reflexivity|].
    assert (IH' : filter (fun x0 => is_bin (binof i1 x0) k) (filter (reached minid maxid ids2 cover) t)
                  = filter (fun x0 => is_bin (binof i1 x0) k) t).
    { apply IH; intros; [apply Hc | apply Hw]; try right; assumption. }
    cbn [filter]. destruct (reached minid maxid ids2 cover x) eqn:Er.
    - cbn [filter]. rewrite IH'. reflexivity.
    - rewrite IH'. destruct (is_bin (binof i1 x) k) eqn:Eb; [|reflexivity].
      exfalso. unfold reached in Er.
      pose proof (Hc x (or_introl eq_refl) (is_bin_counted nbin _ k Hk Eb)) as Hin.
      apply memb_In in Hin. rewrite Hin, (Hw x (or_introl eq_refl)) in Er. discriminate.
  Qed.

  Lemma count_all_brute : forall covers i1 c k,
    covers_ok nbin rev minid maxid ids2 binof i1 covers ->
    Z.of_nat (length c) = nbin -> 0 <= k < nbin ->
    zget (count_all nbin rev minid maxid binof i1 covers c) k
    = zget c k + brute binof (length ids2) k i1 (length covers).
  Proof.
    induction covers as [|cover rest IH]; intros i1 c k Hok Hl Hk; simpl; [lia|].
    destruct Hok as [Hc [Hr Hrest]].
    rewrite IH; try assumption.
    - rewrite count_point_brute by assumption. lia.
    - destruct (count_point_get nbin (binof i1) k (candidates rev minid maxid cover) c Hl Hk) as [_ E].
      rewrite E. exact Hl.
  Qed.

  Theorem cbincount_brute covers k :
    0 <= nbin ->
    covers_ok nbin rev minid maxid ids2 binof 0 covers ->
    0 <= k < nbin ->
    zget (cbincount nbin rev minid maxid binof covers) k = brute binof (length ids2) k 0 (length covers).
  Proof.
    intros Hn Hok Hk. unfold cbincount.
    rewrite count_all_brute; try assumption.
    - unfold zget. rewrite nth_repeat. lia.
    - rewrite repeat_length. lia.
  Qed.

  Lemma count_all_length : forall covers i1 c,
    length (count_all nbin rev minid maxid binof i1 covers c) = length c.
  Proof.
    induction covers as [|cover rest IH]; intros i1 c; simpl; [reflexivity|].
    rewrite IH. unfold count_point.
    generalize (candidates rev minid maxid cover) c. intro l.
    induction l as [|x t IHl]; intro c0; simpl; [reflexivity|].
    rewrite IHl. apply bump_length.
  Qed.

  Theorem cbincount_length covers : length (cbincount nbin rev minid maxid binof covers) = Z.to_nat nbin.
  Proof. unfold cbincount. rewrite count_all_length. apply repeat_length. Qed.
End CountProofs.

(* the counts do not depend on WHICH reverse-index array with the right layout is supplied *)
Theorem cbincount_any_rev nbin rev rev' minid maxid ids2 binof covers k :
  0 <= nbin ->
  (forall i2, In i2 (zseq 0 (length ids2)) -> in_window minid maxid (zget ids2 i2) = true) ->
  covers_ok nbin rev minid maxid ids2 binof 0 covers ->
  covers_ok nbin rev' minid maxid ids2 binof 0 covers ->
  0 <= k < nbin ->
  zget (cbincount nbin rev minid maxid binof covers) k = zget (cbincount nbin rev' minid maxid binof covers) k.
Proof.
  intros Hn Hw H1 H2 Hk.
  rewrite (cbincount_brute nbin rev minid maxid ids2 binof Hw covers k Hn H1 Hk).
  rewrite (cbincount_brute nbin rev' minid maxid ids2 binof Hw covers k Hn H2 Hk).
  reflexivity.
Qed.

(* C13 — the reverse-index layout that cbincount needs (Spec.rev_ok_on) DERIVED from the verified
   single pass of esutil.stat.histogram (property C05; import only: C05.Model.chist / pyhist,
   C05.Spec.pass_partition, C05.Properties.C05_partition).

   htm.py:722  hist2, htmrev2 = stat.histogram(htmid2 - minid, rev=True)   (binsize 1, min = 0):
   the bin number of point k is the integer  ids2[k] - minid  (the data are integers below 2^53 and
   the bin size is 1.0, so the float quotient of C05's binnum is that integer: this identification is
   the one modelled step here), the index list handed to the pass is the stable argsort of the ids,
   i.e. SOME permutation of 0..n2-1 along which the ids are non-decreasing, and
   nbin = int((max - min)/1.0) + 1 = maxid - minid + 1. *)
From Coq Require Import ZArith List Bool Lia ZifyBool ZifyNat Sorting.Permutation Sorting.Sorted.
From EsVerif.Common Require Import Base.
From EsVerif.C05 Require Model Spec Properties.
From EsVerif.C13 Require Import Model Spec CountProofs.
Import ListNotations.
Open Scope Z_scope.

Lemma firstn_skipn_S {A} (d : A) : forall k (l : list A) n, (k < length l)%nat ->
  firstn (S n) (skipn k l) = nth k l d :: firstn n (skipn (S k) l).
Proof.
  induction k as [|k IH]; intros l n Hk; destruct l as [|a l]; try (cbn in Hk; lia).
  - reflexivity.
  - cbn [skipn nth]. apply IH. cbn in Hk. lia.
Qed.

(* python slice rev[lo:lo+n] inside the array = element-wise reads *)
Lemma map_zget_zseq (l : list Z) : forall n lo, 0 <= lo -> lo + Z.of_nat n <= Z.of_nat (length l) ->
  map (zget l) (zseq lo n) = firstn n (skipn (Z.to_nat lo) l).
Proof.
  induction n as [|n IH]; intros lo Hlo Hlen; [reflexivity|].
  cbn [zseq map]. rewrite (IH (lo + 1)) by lia.
  replace (Z.to_nat (lo + 1)) with (S (Z.to_nat lo)) by lia.
  rewrite (firstn_skipn_S 0) by lia. reflexivity.
Qed.

Lemma slice_compat (revl : list Z) i :
  0 <= zget revl i <= zget revl (i + 1) -> zget revl (i + 1) <= Z.of_nat (length revl) ->
  slice (zget revl) i = C05.Spec.slice revl i.
Proof.
  intros H1 H2. unfold slice, C05.Spec.slice. apply map_zget_zseq; lia.
Qed.

Lemma Permutation_filter' {A} (p : A -> bool) (l m : list A) :
  Permutation l m -> Permutation (filter p l) (filter p m).
Proof.
  induction 1 as [|a l m _ IH|a b l|l m n _ IH1 _ IH2]; cbn [filter].
  - constructor.
  - destruct (p a); [constructor|]; exact IH.
  - destruct (p a), (p b); try apply Permutation_refl. apply perm_swap.
  - eapply Permutation_trans; eassumption.
Qed.

Section Tie.
  Variable eng : C05.Model.engine.
  Variable ids2 : list Z.
  Variables minid maxid : Z.
  Variable s : list Z.                         (* the sort index handed to the pass *)

  Definition bn (k : Z) : Z := zget ids2 k - minid.
  Definition nbin : Z := maxid - minid + 1.
  Definition c05_rev : list Z :=
    snd (match eng with C05.Model.EngC => C05.Model.chist bn nbin s | C05.Model.EngPy => C05.Model.pyhist bn nbin s end).

  Hypothesis Hperm : Permutation s (zseq 0 (length ids2)).
  Hypothesis Hsorted : Sorted Z.le (map bn s).
  Hypothesis Hwin : minid <= maxid.

  Theorem rev_ok_on_from_C05 : forall leaves, rev_ok_on (zget c05_rev) minid maxid ids2 leaves.
  Proof.
    intros leaves leaf _ Hw. unfold in_window in Hw.
    pose proof (C05.Properties.C05_partition eng bn nbin s ltac:(unfold nbin; lia) Hsorted) as HP.
    unfold c05_rev.
    destruct (match eng with C05.Model.EngC => C05.Model.chist bn nbin s | C05.Model.EngPy => C05.Model.pyhist bn nbin s end)
      as [hist revl] eqn:E.
    cbn [snd]. destruct HP as [_ [_ [Hbins _]]].
    destruct (Hbins (leaf - minid) ltac:(unfold nbin; lia)) as [Ho1 [Ho2 [Hsl _]]].
    rewrite slice_compat by (unfold nbin in *; lia). rewrite Hsl. unfold C05.Spec.sel.
    eapply Permutation_trans; [apply Permutation_filter'; exact Hperm|].
    erewrite filter_ext; [apply Permutation_refl|]. intro k. unfold bn. cbv beta. lia.
  Qed.
End Tie.

(* ---- C13_bincount for the internally computed reverse indices: only H_cover is left as hypothesis *)
Fixpoint covers_H (nbinR : Z) (ids2 : list Z) (binof : Z -> Z -> option Z) (i1 : Z) (covers : list (list Z)) : Prop :=
  match covers with
  | [] => True
  | c :: rest => cover_ok nbinR ids2 (binof i1) c /\ covers_H nbinR ids2 binof (i1 + 1) rest
  end.

Lemma covers_ok_intro nbinR rev minid maxid ids2 binof :
  (forall leaves, rev_ok_on rev minid maxid ids2 leaves) ->
  forall covers i1, covers_H nbinR ids2 binof i1 covers -> covers_ok nbinR rev minid maxid ids2 binof i1 covers.
Proof.
  intros Hrev. induction covers as [|c rest IH]; intros i1 H; [exact I|].
  cbn [covers_H covers_ok] in *. destruct H as [H1 H2]. split; [exact H1|]. split; [apply Hrev|apply IH; exact H2].
Qed.

Theorem bincount_with_C05_rev eng nbinR ids2 minid maxid s binof covers k :
  0 <= nbinR ->
  Permutation s (zseq 0 (length ids2)) -> Sorted Z.le (map (bn ids2 minid) s) -> minid <= maxid ->
  (forall i2, In i2 (zseq 0 (length ids2)) -> in_window minid maxid (zget ids2 i2) = true) ->
  covers_H nbinR ids2 binof 0 covers ->
  0 <= k < nbinR ->
  zget (cbincount nbinR (zget (c05_rev eng ids2 minid maxid s)) minid maxid binof covers) k
  = brute binof (length ids2) k 0 (length covers).
Proof.
  intros Hn Hp Hs Hw Hwin HH Hk. apply (cbincount_brute nbinR _ minid maxid ids2); try assumption.
  apply covers_ok_intro; [|exact HH]. intro leaves. apply rev_ok_on_from_C05; assumption.
Qed.

(* C13 — property theorems only.  Bodies live in Proofs.v / CountProofs.v / LogBinProofs.v. *)
From Coq Require Import Reals QArith Qround Sorting.Permutation PrimFloat.
From Flocq Require Import Raux.
From EsVerif.Common Require Import Base.
From EsVerif.C13 Require Import Model Spec Proofs CountProofs ModelR LogBinProofs FloatModel FloatProofs Exec ExecProofs C05Tie ExecTie
  LoopModel LoopProofs RootProofs MoreModel MoreProofs BinTie MarginProofs.
From EsVerif.C05 Require Spec.
From EsVerif.C05 Require Model.

(* ---- ids.  [root] and [choose] are the unmodelled floating-point choices of the JHU code; the
   hypotheses (a root triangle is found, a child number is 0..3, some child always accepts the
   position) are monitored on every sampled position by the range test, which is complete for
   them (C13_range_monitor_complete). *)
Theorem C13_id_range : forall (P : Type) (root : P -> Z) (choose : Z -> P -> option Z),
  root_ok P root -> digits_ok P choose -> never_stuck P choose ->
  forall d p, (8 * 4 ^ Z.of_nat d <= lookup P root choose d p < 16 * 4 ^ Z.of_nat d)%Z.
Proof. exact id_range. Qed.

Theorem C13_hierarchy : forall (P : Type) (root : P -> Z) (choose : Z -> P -> option Z),
  digits_ok P choose -> never_stuck P choose ->
  forall d p, (lookup P root choose (S d) p / 4 = lookup P root choose d p)%Z.
Proof. exact hierarchy. Qed.

Theorem C13_range_monitor_complete : forall (P : Type) (root : P -> Z) (choose : Z -> P -> option Z),
  root_ok P root -> digits_ok P choose ->
  forall d p, (8 * 4 ^ Z.of_nat d <= lookup P root choose d p)%Z ->
  forall k, (k < d)%nat -> choose (lookup P root choose k p) p <> None.
Proof. exact range_monitor_complete. Qed.

Theorem C13_scalar_equals_array : forall (P : Type) (root : P -> Z) choose depth (ps : list P) i d,
  (i < length ps)%nat ->
  exists l1 l2, lookup_id root choose depth (length ps) (length ps) ps = Ok l1
             /\ lookup_id root choose depth 1 1 [nth i ps d] = Ok l2
             /\ l2 = [nth i l1 0%Z].
Proof. intros P root choose depth ps i d. apply lookup_id_elementwise. Qed.

(* ---- the concrete root / child choice of SpatialIndex::idByPoint, bit-exact (FloatModel.v): the
   abstract theorems above instantiated.  digits_ok holds by construction, the stored levels never get
   stuck, so the only hypothesis left is [accepted]: a root triangle accepts the position and, at the
   dynamic levels, some child does (monitored: C13_range_monitor_complete). *)
Theorem C13_concrete_digits_ok : forall eps build, digits_ok vec (chooseF eps build).
Proof. exact chooseF_digits. Qed.

Theorem C13_concrete_stored_levels_never_stuck : forall eps build id v,
  (level_of_id id < build)%Z -> chooseF eps build id v <> None.
Proof. exact chooseF_stored. Qed.

Theorem C13_concrete_id_range : forall eps save v depth, accepted eps save v depth ->
  (8 * 4 ^ Z.of_nat depth <= lookupF eps save depth v < 16 * 4 ^ Z.of_nat depth)%Z.
Proof. exact concrete_id_range. Qed.

(* HTM(d+1) and HTM(d) keep different numbers of stored levels when d < saveDepth; the ids are
   nevertheless parent and child *)
Theorem C13_concrete_hierarchy : forall eps save v d, accepted eps save v (S d) ->
  (lookupF eps save (S d) v / 4 = lookupF eps save d v)%Z.
Proof. exact concrete_hierarchy. Qed.

(* the single-pass evaluation used by the generated case files (it carries the triangle along, as the
   C++ does) is the instance of Model.lookup the theorems above are about *)
Theorem C13_concrete_fast_evaluation : forall eps save depth v, (8 <= rootF eps v < 16)%Z ->
  lookupF_fast eps save depth v = lookupF eps save depth v.
Proof. exact lookupF_fast_correct. Qed.

(* non-vacuity on numbers of the real implementation: (ra, dec) = (10, 20); x, y, z as updateXYZ
   computes them; the ids are those esutil returns at depths 0..4 *)
Example C13_concrete_nonvacuous :
  let eps := 0x1.203af9ee75616p-50%float in
  let v := mkvec 0x1.d9d033a6cb461p-1%float 0x1.4e2f2c0fa463bp-3%float 0x1.5e3a8748a0bf5p-2%float in
  rootF eps v = 15%Z
  /\ map (fun d => lookupF eps 2 d v) [0; 1; 2; 3; 4]%nat = [15; 62; 251; 1005; 4023]%Z
  /\ map (fun d => lookupF_fast eps 2 d v) [0; 1; 2; 3; 4]%nat = [15; 62; 251; 1005; 4023]%Z.
Proof. vm_compute. repeat split; reflexivity. Qed.

(* ---- intersect: the non-inclusive answer is the leading part of the inclusive one *)
Theorem C13_intersect_full_in_inclusive : forall flist plist x,
  In x (intersect_out false flist plist) -> In x (intersect_out true flist plist).
Proof. intros f p x H. simpl in *. apply in_or_app. left. exact H. Qed.

(* what the verdict of an intersect case means (Exec.intersect_ok, evaluated on the lists the real
   intersect returned and on sampled positions; code 1 = inside the circle, 2 = outside):
   strict: the triangle of EVERY inside sample is listed and no outside sample lies in a triangle
   reported as fully inside;  relaxed (used only to recognise the known finding
   C13.kf_cos_resolution): the same for every sample that is resolved against the circle *)
Theorem C13_intersect_checker_strict : forall incl full (ss : list rawsample),
  intersect_ok false incl full ss = true ->
  (forall id dcos, In (id, 1%Z, dcos) ss -> In id incl)
  /\ (forall id dcos, In (id, 2%Z, dcos) ss -> ~ In id full).
Proof.
  intros incl full ss H. unfold intersect_ok in H. apply andb_prop in H. destruct H as [H1 H2].
  apply covers_samples_sound in H1. apply full_only_inside_sound in H2. split.
  - intros id dcos Hin. apply H1. apply (in_map (side_of false)) in Hin. exact Hin.
  - intros id dcos Hin. apply H2. apply (in_map (side_of false)) in Hin. exact Hin.
Qed.

Theorem C13_intersect_outside_known : forall incl full (ss : list rawsample),
  intersect_ok true incl full ss = true ->
  (forall id dcos, In (id, 1%Z, dcos) ss -> kf_cos_resolution dcos = false -> In id incl)
  /\ (forall id dcos, In (id, 2%Z, dcos) ss -> kf_cos_resolution dcos = false -> ~ In id full).
Proof.
  intros incl full ss H. unfold intersect_ok in H. apply andb_prop in H. destruct H as [H1 H2].
  apply covers_samples_sound in H1. apply full_only_inside_sound in H2. split.
  - intros id dcos Hin Hk. apply H1. apply (in_map (side_of true)) in Hin.
    unfold side_of in Hin at 1. rewrite Hk in Hin. exact Hin.
  - intros id dcos Hin Hk. apply H2. apply (in_map (side_of true)) in Hin.
    unfold side_of in Hin at 1. rewrite Hk in Hin. exact Hin.
Qed.

(* ---- bincount, discrete part *)
Theorem C13_rev_traversal_visits_each_member_once : forall rev minid maxid ids2 cover,
  NoDup cover -> rev_ok_on rev minid maxid ids2 cover ->
  NoDup (candidates rev minid maxid cover)
  /\ forall i2, In i2 (candidates rev minid maxid cover) <->
                ((0 <= i2 < Z.of_nat (length ids2))%Z
                 /\ In (zget ids2 i2) cover /\ (minid <= zget ids2 i2 <= maxid)%Z).
Proof. exact rev_traversal_visits_each_member_once. Qed.

(* H_cover (listed triangles distinct, every pair that lands in a bin has its triangle listed),
   reverse indices with the histogram layout on the listed triangles, all ids of the second list
   inside the window  ==>  the counts are the brute-force counts over ALL pairs. *)
Theorem C13_bincount : forall nbin rev minid maxid ids2 binof covers k,
  (0 <= nbin)%Z ->
  (forall i2, In i2 (zseq 0 (length ids2)) -> in_window minid maxid (zget ids2 i2) = true) ->
  covers_ok nbin rev minid maxid ids2 binof 0 covers ->
  (0 <= k < nbin)%Z ->
  zget (cbincount nbin rev minid maxid binof covers) k = brute binof (length ids2) k 0 (length covers)
  /\ length (cbincount nbin rev minid maxid binof covers) = Z.to_nat nbin.
Proof.
  intros nbin rev minid maxid ids2 binof covers k Hn Hw Hok Hk. split.
  - apply cbincount_brute; assumption.
  - apply cbincount_length.
Qed.

(* precomputed ids / reverse indices / window: (1) handing the wrapper what it would compute itself
   changes nothing; (2) ANY reverse-index array with the right layout gives the same counts *)
Theorem C13_precomputed_equals_internal : forall ids hist_rev nbin binof covers,
  let internal := bincount_py (length ids) ids hist_rev
        {| a_htmid2 := None; a_htmrev2 := None; a_minid := None; a_maxid := None |} nbin binof covers in
  let rev := hist_rev (map (fun x => x - zmin ids)%Z ids) in
  bincount_py (length ids) ids hist_rev
     {| a_htmid2 := Some ids; a_htmrev2 := Some rev; a_minid := Some (zmin ids); a_maxid := Some (zmax ids) |}
     nbin binof covers = internal
  /\ bincount_py (length ids) ids hist_rev
     {| a_htmid2 := Some ids; a_htmrev2 := None; a_minid := None; a_maxid := None |} nbin binof covers = internal
  /\ bincount_py (length ids) ids hist_rev
     {| a_htmid2 := Some ids; a_htmrev2 := Some rev; a_minid := None; a_maxid := None |} nbin binof covers = internal
  /\ bincount_py (length ids) ids hist_rev
     {| a_htmid2 := None; a_htmrev2 := Some rev; a_minid := None; a_maxid := None |} nbin binof covers = internal.
Proof.
  intros ids hist_rev nbin binof covers. unfold bincount_py. cbn [a_htmid2 a_htmrev2 a_minid a_maxid].
  rewrite Nat.eqb_refl. repeat split; reflexivity.
Qed.

Theorem C13_any_reverse_index_layout : forall nbin rev rev' minid maxid ids2 binof covers k,
  (0 <= nbin)%Z ->
  (forall i2, In i2 (zseq 0 (length ids2)) -> in_window minid maxid (zget ids2 i2) = true) ->
  covers_ok nbin rev minid maxid ids2 binof 0 covers ->
  covers_ok nbin rev' minid maxid ids2 binof 0 covers ->
  (0 <= k < nbin)%Z ->
  zget (cbincount nbin rev minid maxid binof covers) k = zget (cbincount nbin rev' minid maxid binof covers) k.
Proof. exact cbincount_any_rev. Qed.

(* ---- the reverse-index layout DERIVED from the verified single pass of stat.histogram (property C05,
   import only): for ANY sort index s (a permutation of 0..n2-1 along which the ids are non-decreasing;
   numpy's stable argsort is one) the array C05's chist / pyhist builds for the bin numbers
   ids2[k] - minid and nbin = maxid - minid + 1 has the layout cbincount needs, for every triangle *)
Theorem C13_rev_layout_from_C05 : forall eng ids2 minid maxid s leaves,
  Permutation s (zseq 0 (length ids2)) ->
  Sorted.Sorted Z.le (map (bn ids2 minid) s) ->
  (minid <= maxid)%Z ->
  rev_ok_on (zget (c05_rev eng ids2 minid maxid s)) minid maxid ids2 leaves.
Proof. intros eng ids2 minid maxid s leaves Hp Hs Hw. apply rev_ok_on_from_C05; assumption. Qed.

(* ... so that, with the internally computed reverse indices, H_cover alone gives the brute-force counts *)
Theorem C13_bincount_with_C05_rev : forall eng nbin ids2 minid maxid s binof covers k,
  (0 <= nbin)%Z ->
  Permutation s (zseq 0 (length ids2)) -> Sorted.Sorted Z.le (map (bn ids2 minid) s) -> (minid <= maxid)%Z ->
  (forall i2, In i2 (zseq 0 (length ids2)) -> in_window minid maxid (zget ids2 i2) = true) ->
  covers_H nbin ids2 binof 0 covers ->
  (0 <= k < nbin)%Z ->
  zget (cbincount nbin (zget (c05_rev eng ids2 minid maxid s)) minid maxid binof covers) k
  = brute binof (length ids2) k 0 (length covers).
Proof. exact bincount_with_C05_rev. Qed.

(* the per-case tie (ExecTie.rev_tie, evaluated on the REAL array returned by stat.histogram): the real array
   equals C05's pass on its own sort index, which is a sorting permutation  ==>  the layout holds *)
Theorem C13_rev_tie_sound : forall ids2 minid maxid runs, rev_tie ids2 minid maxid runs = true ->
  forall leaves,
    rev_ok_on (zget (real_rev runs (Z.to_nat (C05Tie.nbin minid maxid + 1) + length ids2))) minid maxid ids2 leaves.
Proof. exact rev_tie_sound. Qed.

(* what the verdict of a bincount case means (Exec.bc_ok, evaluated on the counts the real bincount
   returned, [o] from the plain call and [rest] from the calls with precomputed ids / reverse indices /
   window, and on the brute-force classification of ALL pairs by the independent oracle):
   per bin, #pairs determined to be in bin k <= count <= that + #pairs within 1e-9 relative of an edge
   of bin k; all calls agree; the hypotheses of C13_bincount hold on the case *)
Theorem C13_bincount_checker : forall nbin minid maxid runs ids2 covers pairs o rest,
  (0 <= nbin)%Z ->
  bc_ok false nbin minid maxid runs ids2 covers pairs [] (o :: rest) = true ->
  let binof := binof_def false nbin pairs [] in
  length o = Z.to_nat nbin
  /\ (forall k, (0 <= k < nbin)%Z ->
        (brute binof (length ids2) k 0 (length covers) <= zget o k
         <= brute binof (length ids2) k 0 (length covers)
            + amb_count (all_ranges false nbin ids2 covers pairs []) k)%Z)
  /\ (forall r, In r rest -> r = o)
  /\ covers_ok nbin (revf runs) minid maxid ids2 binof 0 covers
  /\ (forall i2, In i2 (zseq 0 (length ids2)) -> in_window minid maxid (zget ids2 i2) = true).
Proof. exact bc_ok_sound. Qed.

(* ---- bincount, log-bin arithmetic *)
(* on the exact rationals of the discrete model: floor gives k iff k <= q < k+1; the C cast agrees
   with floor exactly when q is not a negative non-integer *)
Theorem C13_radbin_spec : forall (q : Q) (k : Z),
  radbin q = k <-> (inject_Z k <= q /\ q < inject_Z (k + 1))%Q.
Proof. exact radbin_spec. Qed.

Theorem C13_cast_vs_floor : forall q : Q,
  radbin_cast q = radbin q <-> (0 <= Qnum q \/ (Qnum q) mod (Zpos (Qden q)) = 0)%Z.
Proof. exact cast_vs_floor. Qed.

(* over the reals, with the formula chain of the C code (ModelR.v): a pair is given bin number k
   iff 0 <= k < nbin and edge(k) <= scale*separation < edge(k+1), the edges being those of
   htm.log_bins; the test dis <= maxangle is implied *)
Theorem C13_logbin : forall rmin rmax nbin s dis k,
  (0 < rmin)%R -> (rmin < rmax)%R -> (0 < nbin)%Z -> (0 < scale_of s)%R -> (0 < dis)%R ->
  (binof_R Zfloor rmin rmax nbin s dis = Some k
   <-> (0 <= k < nbin)%Z /\ (edge rmin rmax nbin k <= scale_of s * dis < edge rmin rmax nbin (k + 1))%R).
Proof. intros. apply logbin; assumption. Qed.

Theorem C13_edges : forall rmin rmax nbin,
  (0 < rmin)%R -> (rmin < rmax)%R -> (0 < nbin)%Z ->
  edge rmin rmax nbin 0 = rmin /\ edge rmin rmax nbin nbin = rmax.
Proof. intros. split; [apply edge_0 | apply edge_nbin]; assumption. Qed.

Theorem C13_trunc_vs_floor : forall x : R, Ztrunc x = Zfloor x <-> ((0 <= x)%R \/ IZR (Zfloor x) = x).
Proof. exact trunc_vs_floor. Qed.

(* the defect repaired by fixes/C13/0001: with the C cast every separation in (edge(-1), rmin) was
   counted in bin 0; with floor it is not counted *)
Theorem C13_bincount_cast_refuted : forall rmin rmax nbin s dis,
  (0 < rmin)%R -> (rmin < rmax)%R -> (0 < nbin)%Z -> (0 < scale_of s)%R -> (0 < dis)%R ->
  (edge rmin rmax nbin (-1) < scale_of s * dis < rmin)%R ->
  binof_R Ztrunc rmin rmax nbin s dis = Some 0%Z /\ binof_R Zfloor rmin rmax nbin s dis = None.
Proof. intros. apply cast_refuted; assumption. Qed.

Theorem C13_floor_real_rational : forall q : Q, Zfloor (Q2R q) = radbin q.
Proof. exact Zfloor_Q2R. Qed.

(* ---- the checkers and monitors evaluated on the implementation's outputs are sound *)
Theorem C13_checkers_sound :
  (forall ids d, ids_check d ids = true -> ids_ok d ids)
  /\ (forall incl ss, covers_samples_b incl ss = true -> covers_samples incl ss)
  /\ (forall full ss, full_only_inside_b full ss = true -> full_only_inside full ss)
  /\ (forall nbin rev minid maxid ids2 binof covers i1,
        covers_check nbin rev minid maxid ids2 binof i1 covers = true ->
        covers_ok nbin rev minid maxid ids2 binof i1 covers)
  /\ (forall minid maxid ids2, window_check minid maxid ids2 = true ->
        forall i2, In i2 (zseq 0 (length ids2)) -> in_window minid maxid (zget ids2 i2) = true).
Proof.
  split; [exact ids_check_sound|]. split; [exact covers_samples_sound|].
  split; [exact full_only_inside_sound|].
  split; [intros; apply covers_check_sound; assumption | exact window_check_sound].
Qed.

(* ---- non-vacuity *)
(* a choice function meeting the hypotheses, with ids that move *)
Example C13_lookup_nonvacuous :
  let root := fun _ : unit => 13%Z in
  let choose := fun (id : Z) (_ : unit) => Some ((id + 3) mod 4)%Z in
  root_ok unit root /\ digits_ok unit choose /\ never_stuck unit choose
  /\ map (fun d => lookup unit root choose d tt) [0; 1; 2; 3]%nat = [13; 52; 211; 846]%Z.
Proof.
  cbv zeta. split; [intro p; lia|]. split.
  - intros id p c H. injection H as <-. apply Z.mod_pos_bound. lia.
  - split; [intros id p H; discriminate | reflexivity].
Qed.

(* a reverse-index array in the histogram layout (ids 5,7,5 -> bins 0,2,0), two points with covers
   that satisfy H_cover, and counts that are not zero *)
Example C13_bincount_nonvacuous :
  let revl := [4; 6; 6; 7; 0; 2; 1]%Z in
  let rev := fun i => zget revl i in
  let ids2 := [5; 7; 5]%Z in
  let covers := [[5; 7]; [7; 6]]%Z in
  let binof := fun i1 i2 : Z => nth (Z.to_nat i2) (nth (Z.to_nat i1) [[Some 0; Some 1; Some 0]; [None; Some 1; Some 5]] [])%Z None in
  covers_ok 2 rev 5 7 ids2 binof 0 covers
  /\ cbincount 2 rev 5 7 binof covers = [2; 2]%Z
  /\ map (fun k => brute binof 3 k 0 2) [0; 1]%Z = [2; 2]%Z.
Proof.
  cbv zeta. split; [apply covers_check_sound; vm_compute; reflexivity|].
  split; vm_compute; reflexivity.
Qed.

(* the log-bin hypotheses are satisfiable and the repaired defect is real: quotient -1/2 *)
Example C13_cast_nonvacuous : radbin_cast (-1 # 2) = 0%Z /\ radbin (-1 # 2) = (-1)%Z /\ radbin (3 # 2) = 1%Z.
Proof. vm_compute. repeat split; reflexivity. Qed.

(* ================================================================================================= *)
(* Theorems added in the proof-deepening round                                                        *)
(* ================================================================================================= *)

(* ---- the root loop of idByPoint accepts EVERY finite position (any finite gEpsilon >= 0): the first half of
   [accepted] is no longer a hypothesis.  [eps_ok] / [finite_vb] are computable (evaluated in every lookup_id case). *)
Theorem C13_concrete_root_total : forall eps v, eps_ok eps = true -> finite_vb v = true ->
  (8 <= rootF eps v < 16)%Z.
Proof. exact rootF_total_b. Qed.

Theorem C13_concrete_accepted_from_dynamic : forall eps save v depth, eps_ok eps = true -> finite_vb v = true ->
  (forall id, chooseF eps (buildlevel save (Z.of_nat depth)) id v <> None) -> accepted eps save v depth.
Proof. exact accepted_from_dynamic_b. Qed.

(* HTM(0), HTM(1), HTM(2) (every level is a stored level): ids in range for every finite position, no hypothesis left *)
Theorem C13_stored_depths_unconditional : forall eps save v depth, eps_ok eps = true -> finite_vb v = true ->
  (save = 0 \/ Z.of_nat depth <= save)%Z ->
  (8 * 4 ^ Z.of_nat depth <= lookupF eps save depth v < 16 * 4 ^ Z.of_nat depth)%Z.
Proof. exact stored_depth_unconditional_b. Qed.

Example C13_root_total_nonvacuous :
  eps_ok 0x1.203af9ee75616p-50%float = true
  /\ finite_vb (mkvec 0x1.d9d033a6cb461p-1%float 0x1.4e2f2c0fa463bp-3%float 0x1.5e3a8748a0bf5p-2%float) = true
  /\ finite_vb (mkvec (-0)%float 1%float (-0)%float) = true.
Proof. vm_compute. repeat split; reflexivity. Qed.

(* ---- the loop of cbincount with its mutable (scale, logscale) state: the cap searched for point i and the bin numbers of
   its pairs are those of the scale of point i (per-point array), of the one scale (size-1 array) or of scale 1 (None) *)
Theorem C13_cap_loop : forall (S L D P : Type) (one : S) (zeroL : L) (log10S : S -> L) (cap : bool -> S -> D)
    (cover : P -> D -> list Z) (binof_s : bool -> S -> L -> P -> Z -> option Z) (dS : S)
    (scales : option (list S)) (pt : Z -> P) nbin rev minid maxid n1,
  cbincount_loop S L D P one zeroL log10S cap cover binof_s dS scales pt nbin rev minid maxid n1
  = cbincount nbin rev minid maxid (binof_of S L P one zeroL log10S binof_s dS scales pt)
              (map (cover_of S L D P one zeroL log10S cap cover dS scales pt) (zseq 0 n1)).
Proof. exact loop_spec. Qed.

Theorem C13_cap_loop_state : forall (S L : Type) (one : S) (zeroL : L) (log10S : S -> L) (dS : S) (scales : option (list S)) i,
  (scales = None -> state_of S L one zeroL log10S dS scales i = (one, zeroL))
  /\ (forall s, scales = Some [s] -> state_of S L one zeroL log10S dS scales i = (s, log10S s))
  /\ (forall l, scales = Some l -> (1 < length l)%nat ->
        state_of S L one zeroL log10S dS scales i = (nth (Z.to_nat i) l dS, log10S (nth (Z.to_nat i) l dS))).
Proof. exact state_of_cases. Qed.

(* a stale scale is visible: with per-point scales [2; 3] (toy types: S = L = D = Z, cap = the scale itself) the loop
   searches cap 2 for point 0 and cap 3 for point 1 *)
Example C13_cap_loop_nonvacuous :
  let scales := Some [2; 3]%Z in
  map (cover_of Z Z Z Z 1 0 (fun s => s) (fun _ s => s) (fun p d => [p; d]) 0 scales (fun i => 10 + i)) [0; 1]%Z
  = [[10; 2]; [11; 3]]%Z
  /\ cbincount_loop Z Z Z Z 1 0 (fun s => s) (fun _ s => s) (fun p d => [5]) (fun _ s _ _ i2 => Some (s - 2 + i2 - i2)) 0 scales
       (fun i => 10 + i) 2 (fun i => zget [1; 2; 0]%Z i) 5 5 2 = [1; 1]%Z.
Proof. vm_compute. split; reflexivity. Qed.

(* ---- which calls are rejected, with which error class *)
Theorem C13_lookup_rejections : forall n_ra n_dec,
  (lookup_validate n_ra n_dec = Err EValue <-> n_ra <> n_dec) /\ (lookup_validate n_ra n_dec = Ok tt <-> n_ra = n_dec).
Proof. exact lookup_rejects. Qed.

Theorem C13_lookup_id_rejects_iff : forall (P : Type) (root : P -> Z) choose depth n_ra n_dec ps,
  (exists l, lookup_id root choose depth n_ra n_dec ps = Ok l) <-> lookup_validate n_ra n_dec = Ok tt.
Proof. intros P. exact (@lookup_id_agrees_with_validation P). Qed.

Theorem C13_bincount_rejections : forall typo z,
  bincount_validate typo z = Err EValue <->
    (n_ra1 z <> n_dec1 z
     \/ (typo = false /\ n_ra2 z <> n_dec2 z)
     \/ (exists k, n_scale z = Some k /\ k <> 1 /\ k <> n_ra1 z)
     \/ (exists k, n_htmid2 z = Some k /\ k <> n_ra2 z)
     \/ (n_htmid2 z = None /\ n_ra2 z <> n_dec2 z))%nat.
Proof. exact bincount_rejects. Qed.

(* finding (not a violation of C13: invalid input): the as-found spelling `ra2.size != ra2.size` does not reject a second
   list whose ra and dec differ in length when precomputed ids are supplied; without them the internal lookup_id does.
   (A first version of this model claimed "never rejected"; the correspondence run on the real code refuted it.) *)
Theorem C13_ra2_dec2_mismatch_not_rejected : forall n1 n2 n2', (n2 <> n2')%nat ->
  bincount_validate true {| n_ra1 := n1; n_dec1 := n1; n_ra2 := n2; n_dec2 := n2'; n_scale := None; n_htmid2 := Some n2 |} = Ok tt
  /\ bincount_validate true {| n_ra1 := n1; n_dec1 := n1; n_ra2 := n2; n_dec2 := n2'; n_scale := None; n_htmid2 := None |} = Err EValue
  /\ bincount_validate false {| n_ra1 := n1; n_dec1 := n1; n_ra2 := n2; n_dec2 := n2'; n_scale := None; n_htmid2 := Some n2 |} = Err EValue.
Proof. exact ra2_dec2_mismatch_not_rejected. Qed.

(* ---- N-d coordinate arrays (fixes/C13/0003: `.ravel()`, C order): element (i, j) of the ids is the id of position (i, j) *)
Theorem C13_lookup_id_2d : forall (P : Type) (root : P -> Z) choose depth (rows : list (list P)) ncols (dP : P),
  (forall r, In r rows -> length r = ncols) ->
  exists l, lookup_id_2d root choose depth rows = Ok l
    /\ length l = (length rows * ncols)%nat
    /\ forall i j, (i < length rows)%nat -> (j < ncols)%nat ->
         nth (i * ncols + j) l 0%Z = lookup P root choose depth (nth j (nth i rows []) dP).
Proof. intros P. exact (@lookup_id_2d_spec P). Qed.

(* memory order of a Fortran-ordered array (what ravel(order='K') would give) is a different flattening *)
Example C13_ravel_order_matters :
  ravel_c [[1; 2]; [3; 4]]%Z = [1; 2; 3; 4]%Z /\ ravel_f 2 [[1; 2]; [3; 4]]%Z = [1; 3; 2; 4]%Z.
Proof. split; reflexivity. Qed.

(* ---- history: an HTM object is its depth; no call changes it, so the answers of any sequence of calls are the answers
   of the same calls made alone *)
Theorem C13_history_independent : forall (P C : Type) (root : P -> Z) (choose : nat -> Z -> P -> option Z)
    (cover : nat -> C -> list Z * list Z) cs o,
  run P C root choose cover o cs = (o, map (answer_of P C root choose cover o) cs).
Proof. exact run_history_independent. Qed.

(* ---- the checkers of the property are decision procedures (soundness was C13_checkers_sound) *)
Theorem C13_checkers_decide :
  (forall ids d, ids_check d ids = true <-> ids_ok d ids)
  /\ (forall incl ss, covers_samples_b incl ss = true <-> covers_samples incl ss)
  /\ (forall full ss, full_only_inside_b full ss = true <-> full_only_inside full ss).
Proof. exact checkers_decide. Qed.

(* ---- the identification used by C13_rev_layout_from_C05 is a theorem about C05's float model: for shifted ids below 2^53,
   given to stat.histogram as float64 with min = 0.0 and bin size 1.0, C05.Model.binnum IS the integer difference *)
Theorem C13_bin_number_of_integer_ids : forall (ids2 : list Z) (minid : Z) (x : list PrimFloat.float) (k : Z),
  (0 <= zget ids2 k - minid < 2 ^ 53)%Z ->
  C05.Model.fget x k = C05.Model.float_of_Z (zget ids2 k - minid) ->
  C05.Model.binnum x 0%float 1%float k = bn ids2 minid k.
Proof. exact bn_is_C05_binnum. Qed.

Example C13_bin_number_nonvacuous :
  let ids2 := [8796093022208; 8796093022215; 8796093022208]%Z in
  let x := map (fun i => C05.Model.float_of_Z (i - 8796093022208)) ids2 in
  map (C05.Model.binnum x 0%float 1%float) [0; 1; 2]%Z = [0; 7; 0]%Z /\ map (bn ids2 8796093022208) [0; 1; 2]%Z = [0; 7; 0]%Z.
Proof. vm_compute. split; reflexivity. Qed.

(* ================================================================================================= *)
(* Round 6                                                                                            *)
(* ================================================================================================= *)
(* the search cap of cbincount (ModelR.search_cos; the C expression is translated and proved equal to it on every run): its
   margin only enlarges the cap -- the cosine handed to SpatialDomain is at most the cosine of the search angle itself *)
Theorem C13_search_cap_contains_cap : forall (pad : R) (degrees : bool) (maxangle : R),
  (0 <= pad)%R ->
  let a := (if degrees then maxangle * D2R else maxangle)%R in
  (0 <= a <= PI)%R ->
  (search_cos pad degrees maxangle <= cos a)%R.
Proof. exact search_cap_contains_cap. Qed.

Theorem C13_search_cos_no_margin : forall (degrees : bool) (maxangle : R),
  let a := (if degrees then maxangle * D2R else maxangle)%R in
  (a <= PI)%R -> search_cos 0 degrees maxangle = cos a.
Proof. exact search_cos_no_margin. Qed.

Example C13_search_cap_nonvacuous : (0 <= 1 / 10000)%R /\ (0 <= 1 * D2R <= PI)%R.
Proof. exact margin_example. Qed.

(* C13 — executable model of the HTM id lookup, of the circle-intersection output and of the pair
   counting of esutil.htm (htm.py:59-109, 552-736; htmc.cc:126-387; SpatialIndex.cpp:499-560).
   No proofs here.

   What is NOT modelled (Section variables; hypotheses are stated where they are used and are
   monitored by the harness on every case):
     - which root / child triangle the floating-point JHU code picks for a position ([root], [choose]);
     - the geometric cover SpatialDomain::intersect ([covers]: the id lists it returned);
     - the floating-point separation, log10 and division: a pair enters the model through its
       quotient (logr - logrmin)/log_binsize as an exact rational (see ModelR.v for the formula
       chain over the reals). *)
From Coq Require Import QArith Qround.
From EsVerif.Common Require Import Base.

(* ------------------------------------------------------------------------------------------ *)
(* 1. lookup_id: descent through the triangle hierarchy (SpatialIndex::idByPoint)              *)
(* ------------------------------------------------------------------------------------------ *)
Section Lookup.
  Variable P : Type.                       (* sky positions *)
  Variable root : P -> Z.                  (* id of the root triangle found by the first loop: S0..N3 = 8..15 *)
  Variable choose : Z -> P -> option Z.    (* [choose id p]: number of the child of triangle [id] whose
                                              inside-test accepts p; None when all four tests fail *)

  (* one level: the id gets two more bits; when no child accepts the point the dynamic part of
     idByPoint (lines 535-557) consumes the level without appending anything *)
  Definition step (id : Z) (p : P) : Z :=
    match choose id p with
    | Some c => 4 * id + c
    | None => id
    end.

  Fixpoint descend (n : nat) (id : Z) (p : P) : Z :=
    match n with
    | O => id
    | S k => descend k (step id p) p
    end.

  Definition lookup (depth : nat) (p : P) : Z := descend depth (root p) p.
End Lookup.

(* HTM.lookup_id: atleast_1d on both arguments, size test, one id per element *)
Definition lookup_id {P} (root : P -> Z) (choose : Z -> P -> option Z) (depth : nat)
           (ra_size dec_size : nat) (ps : list P) : result (list Z) :=
  if Nat.eqb ra_size dec_size then Ok (map (lookup P root choose depth) ps) else Err EValue.

(* ------------------------------------------------------------------------------------------ *)
(* 2. intersect: what is returned from the two lists of SpatialDomain::intersect               *)
(* ------------------------------------------------------------------------------------------ *)
(* htmc.cc:166-197: the fully-inside triangles first; the partially covered ones only when
   [inclusive] *)
Definition intersect_out (inclusive : bool) (flist plist : list Z) : list Z :=
  if inclusive then flist ++ plist else flist.

(* ------------------------------------------------------------------------------------------ *)
(* 3. bincount                                                                                 *)
(* ------------------------------------------------------------------------------------------ *)
(* the logarithmic bin number.  The unrepaired code used a C cast, (int)x, which truncates toward
   zero; the repaired code (fixes/C13/0001) takes floor first. *)
Definition radbin_cast (q : Q) : Z := Z.quot (Qnum q) (Zpos (Qden q)).
Definition radbin (q : Q) : Z := Qfloor q.

(* htmc.cc:354-357 *)
Definition bump (nbin : Z) (counts : list Z) (ob : option Z) : list Z :=
  match ob with
  | Some k => if (0 <=? k) && (k <? nbin) then zset counts k (zget counts k + 1) else counts
  | None => counts
  end.

Section Traversal.
  Variable rev : Z -> Z.          (* htmrev2[i]; the C code reads it unchecked *)
  Variables minid maxid : Z.      (* minmax_ids *)

  (* htmc.cc:332-343: the members of bin b are rev[rev[b] .. rev[b+1]-1] *)
  Definition slice (b : Z) : list Z :=
    let lo := rev b in
    let hi := rev (b + 1) in
    map rev (zseq lo (Z.to_nat (hi - lo))).

  (* htmc.cc:328-329: only leaves inside the id window of the second list are looked at *)
  Definition members (leaf : Z) : list Z :=
    if (minid <=? leaf) && (leaf <=? maxid) then slice (leaf - minid) else [].

  (* htmc.cc:324: all listed triangles, full ones first (the order is irrelevant for the counts) *)
  Definition candidates (cover : list Z) : list Z := flat_map members cover.
End Traversal.

(* one point of the first list: htmc.cc:340-362.  [binof i2] is the bin number computed for the
   pair, None when the pair is skipped before binning (dis > maxangle) or the number is not a
   number of a bin at all (dis = 0: log10 gives -inf, whose conversion is negative) *)
Definition count_point (nbin : Z) (binof : Z -> option Z) (cands : list Z) (counts : list Z) : list Z :=
  fold_left (fun c i2 => bump nbin c (binof i2)) cands counts.

(* the loop over the first list: htmc.cc:279 *)
Fixpoint count_all (nbin : Z) (rev : Z -> Z) (minid maxid : Z) (binof : Z -> Z -> option Z)
         (i1 : Z) (covers : list (list Z)) (counts : list Z) : list Z :=
  match covers with
  | [] => counts
  | cover :: rest =>
      count_all nbin rev minid maxid binof (i1 + 1) rest
                (count_point nbin (binof i1) (candidates rev minid maxid cover) counts)
  end.

Definition cbincount (nbin : Z) (rev : Z -> Z) (minid maxid : Z) (binof : Z -> Z -> option Z)
           (covers : list (list Z)) : list Z :=
  count_all nbin rev minid maxid binof 0 covers (repeat 0 (Z.to_nat nbin)).

(* the bin number of a pair from its quotient *)
Definition binof_q (index : Q -> Z) (pq : Z -> Z -> option Q) (i1 i2 : Z) : option Z :=
  option_map index (pq i1 i2).

(* ---- the python wrapper HTM.bincount (htm.py:700-731): which ids, window and reverse indices
        reach cbincount.  [ids_of_lookup] = self.lookup_id(ra2, dec2); [hist_rev data] = the reverse
        indices stat.histogram(data, rev=True) returns *)
Definition zmin (l : list Z) : Z := match l with [] => 0 | x :: t => fold_left Z.min t x end.
Definition zmax (l : list Z) : Z := match l with [] => 0 | x :: t => fold_left Z.max t x end.

Record bc_args := {
  a_htmid2 : option (list Z);
  a_htmrev2 : option (Z -> Z);
  a_minid : option Z;
  a_maxid : option Z
}.

Definition bincount_py (n2 : nat) (ids_of_lookup : list Z) (hist_rev : list Z -> Z -> Z) (a : bc_args)
           (nbin : Z) (binof : Z -> Z -> option Z) (covers : list (list Z)) : result (list Z) :=
  let r :=
    match a_htmid2 a with
    | None => Ok (ids_of_lookup, zmin ids_of_lookup, zmax ids_of_lookup)
    | Some ids =>
        if Nat.eqb (length ids) n2
        then Ok (ids, match a_minid a with Some m => m | None => zmin ids end,
                      match a_maxid a with Some m => m | None => zmax ids end)
        else Err EValue
    end in
  match r with
  | Err e => Err e
  | Ok (ids, mn, mx) =>
      let rev := match a_htmrev2 a with
                 | Some r => r
                 | None => hist_rev (map (fun x => x - mn) ids)
                 end in
      Ok (cbincount nbin rev mn mx binof covers)
  end.

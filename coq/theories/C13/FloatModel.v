(* C13 — bit-exact model (style F, PrimFloat) of the CONCRETE root / child choice of
   SpatialIndex::idByPoint (SpatialIndex.cpp:499-574), i.e. an instance of the Section variables
   [root] and [choose] of Model.v.  No proofs here.

   Transcribed: the 6 octahedron vertices and the 8 root triangles (SpatialIndex.cpp:75-96), the
   root loop (504-509), the stored levels (511-520; htmInterface::init keeps saveDepth = 2 levels,
   SpatialInterface.h:60, built by SpatialEdge::getMidPoint / SpatialIndex::makeNewLayer with the
   same mid-point arithmetic and the same child order as the dynamic part), the dynamic levels
   (534-557), isInside (566-574), and SpatialVector's  +  ^  *  normalize  (SpatialVector.cpp:
   140-147, 252-282) with the evaluation order of the C++ expressions.  The code is compiled for
   baseline x86-64 (SSE2 doubles, no FMA contraction), so + - * / sqrt are the IEEE operations of
   PrimFloat.

   NOT modelled: SpatialVector::updateXYZ (cos/sin of libm): the unit vector (x, y, z) of a position
   is an input, recomputed by the harness with the same libm calls in the same order.
   gEpsilon is an argument: the harness passes the value it reads from SpatialGeneral.h. *)
From Coq Require Import ZArith List Bool PrimFloat.
From EsVerif.Common Require Import Base.
From EsVerif.C13 Require Import Model.
Import ListNotations.
Open Scope Z_scope.

Record vec := mkvec { vx : float; vy : float; vz : float }.

Open Scope float_scope.

(* SpatialVector::operator + *)
Definition vadd (a b : vec) : vec := mkvec (vx a + vx b) (vy a + vy b) (vz a + vz b).
(* SpatialVector::operator ^ : (y*v.z - v.y*z, z*v.x - v.z*x, x*v.y - v.x*y) *)
Definition cross (a b : vec) : vec :=
  mkvec (vy a * vz b - vy b * vz a) (vz a * vx b - vz b * vx a) (vx a * vy b - vx b * vy a).
(* SpatialVector::operator * : (x*v.x)+(y*v.y)+(z*v.z) *)
Definition dot (a b : vec) : float := (vx a * vx b + vy a * vy b) + vz a * vz b.
(* SpatialVector::normalize *)
Definition normalize (a : vec) : vec :=
  let s := sqrt ((vx a * vx a + vy a * vy a) + vz a * vz a) in
  mkvec (vx a / s) (vy a / s) (vz a / s).
Definition midpoint (a b : vec) : vec := normalize (vadd a b).

(* one inside test: NOT ((a ^ b) * v < -gEpsilon) *)
Definition edge_ok (eps : float) (a b v : vec) : bool := negb (dot (cross a b) v <? - eps).
(* SpatialIndex::isInside, and the three tests of the loops at 505-507 / 515-517 *)
Definition inside (eps : float) (v v0 v1 v2 : vec) : bool :=
  edge_ok eps v0 v1 v && edge_ok eps v1 v2 v && edge_ok eps v2 v0 v.

Definition tri := (vec * vec * vec)%type.

(* SpatialIndex.cpp:75-82 *)
Definition V0 := mkvec 0 0 1.
Definition V1 := mkvec 1 0 0.
Definition V2 := mkvec 0 1 0.
Definition V3 := mkvec (-1) 0 0.
Definition V4 := mkvec 0 (-1) 0.
Definition V5 := mkvec 0 0 (-1).

Close Scope float_scope.

(* SpatialIndex.cpp:89-96: S0..S3, N0..N3 with ids 8..15, in the order of the root loop *)
Definition roots : list (Z * tri) :=
  [(8, (V1, V5, V2)); (9, (V2, V5, V3)); (10, (V3, V5, V4)); (11, (V4, V5, V1));
   (12, (V1, V0, V4)); (13, (V4, V0, V3)); (14, (V3, V0, V2)); (15, (V2, V0, V1))].

Definition tri_of_root (r : Z) : tri :=
  match find (fun e : Z * tri => fst e =? r) roots with
  | Some e => snd e
  | None => (V1, V5, V2)
  end.

(* the four children of a triangle: makeNewLayer 211-214 = idByPoint 540-555 *)
Definition child_tri (t : tri) (c : Z) : tri :=
  let '(v0, v1, v2) := t in
  let w0 := midpoint v1 v2 in
  let w1 := midpoint v0 v2 in
  let w2 := midpoint v1 v0 in
  if c =? 0 then (v0, w2, w1)
  else if c =? 1 then (v1, w0, w2)
  else if c =? 2 then (v2, w1, w0)
  else (w0, w1, w2).

(* the first child (0,1,2,3) whose three tests pass *)
Definition first_inside (eps : float) (t : tri) (v : vec) : option Z :=
  let test c := let '(a, b, d) := child_tri t c in inside eps v a b d in
  if test 0 then Some 0 else if test 1 then Some 1 else if test 2 then Some 2 else if test 3 then Some 3 else None.

(* the root loop; when no root accepts the position the C++ loop leaves index = 9, which is not a
   root: modelled as 0 (outside 8..15, so [root_ok] fails and the range monitor reports it) *)
Definition rootF (eps : float) (v : vec) : Z :=
  match find (fun e : Z * tri => let '(a, b, d) := snd e in inside eps v a b d) roots with
  | Some e => fst e
  | None => 0
  end.

(* level of a triangle id (root = 0) and its base-4 digits below the root, most significant first *)
Definition level_of_id (id : Z) : Z := (Z.log2 id - 3) / 2.
Fixpoint digits_from (n : nat) (id : Z) (acc : list Z) : list Z :=
  match n with
  | O => acc
  | S k => digits_from k (id / 4) (id mod 4 :: acc)
  end.
Definition tri_of_id (id : Z) : tri :=
  let l := Z.to_nat (level_of_id id) in
  fold_left child_tri (digits_from l id []) (tri_of_root (id / 4 ^ Z.of_nat l)).

(* [chooseF eps build id v]: the child of triangle [id] the code picks for v.
   Stored levels (level of id < build): loop 513-519 — when all four children fail, the loop ends
   with index = childID_[3], i.e. child 3 is taken.
   Dynamic levels: the if-chain 540-556 — when all four fail, nothing is appended (None). *)
Definition chooseF (eps : float) (build : Z) (id : Z) (v : vec) : option Z :=
  match first_inside eps (tri_of_id id) v with
  | Some c => Some c
  | None => if level_of_id id <? build then Some 3 else None
  end.

(* htmInterface::init(depth, saveDepth = 2); SpatialIndex::SpatialIndex: buildlevel =
   (save = 0 or save > depth) ? depth : save *)
Definition buildlevel (save depth : Z) : Z := if (save =? 0) || (depth <? save) then depth else save.

(* the instance of Model.lookup *)
Definition lookupF (eps : float) (save : Z) (depth : nat) (v : vec) : Z :=
  lookup vec (rootF eps) (chooseF eps (buildlevel save (Z.of_nat depth))) depth v.

(* ---- an equivalent single pass that carries the triangle along (what the C++ does); used by the
   case files because it does not rebuild the triangle from the id at every level *)
Fixpoint descendF (eps : float) (build : Z) (n : nat) (lev : Z) (id : Z) (t : tri) (v : vec) : Z :=
  match n with
  | O => id
  | S k =>
      match first_inside eps t v with
      | Some c => descendF eps build k (lev + 1) (4 * id + c) (child_tri t c) v
      | None =>
          if lev <? build then descendF eps build k (lev + 1) (4 * id + 3) (child_tri t 3) v
          else descendF eps build k (lev + 1) id t v
      end
  end.
Definition lookupF_fast (eps : float) (save : Z) (depth : nat) (v : vec) : Z :=
  let r := rootF eps v in
  descendF eps (buildlevel save (Z.of_nat depth)) depth 0 r (tri_of_root r) v.

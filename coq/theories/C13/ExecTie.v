(* C13 — per-case tie of the real reverse-index array to the C05 model: the array returned by the
   real esutil.stat.histogram(htmid2 - minid, rev=True) must be, entry for entry, what C05's verified
   single pass (C05.Model.chist) produces on the real array's own sort index, that sort index must be
   a permutation of 0..n2-1 along which the ids are non-decreasing; then C13_rev_layout_from_C05
   DERIVES the layout Spec.rev_ok_on for every triangle (rev_tie_sound). *)
From Coq Require Import ZArith List Bool Lia ZifyBool ZifyNat Sorting.Permutation Sorting.Sorted.
From EsVerif.Common Require Import Base.
From EsVerif.C05 Require Model Spec.
From EsVerif.C13 Require Import Model Spec Proofs Exec C05Tie.
Import ListNotations.
Open Scope Z_scope.

Fixpoint nondecr_b (l : list Z) : bool :=
  match l with
  | [] => true
  | a :: t => match t with [] => true | b :: _ => a <=? b end && nondecr_b t
  end.

Lemma nondecr_b_sound l : nondecr_b l = true -> Sorted Z.le l.
Proof.
  induction l as [|a t IH]; intro H; [constructor|]. cbn [nondecr_b] in H.
  apply andb_prop in H. destruct H as [H1 H2]. constructor; [apply IH; exact H2|].
  destruct t as [|b u]; constructor. lia.
Qed.

(* [runs] = the real array, run-length encoded as in Exec.v *)
Definition real_rev (runs : list (Z * Z)) (len : nat) : list Z := map (rle_get runs) (zseq 0 len).

Definition rev_tie (ids2 : list Z) (minid maxid : Z) (runs : list (Z * Z)) : bool :=
  let nb := nbin minid maxid in
  let n2 := length ids2 in
  let len := (Z.to_nat (nb + 1) + n2)%nat in
  let s := map (rle_get runs) (zseq (nb + 1) n2) in            (* the sort index stored in the real array *)
  (minid <=? maxid)
  && perm_b s (zseq 0 n2)
  && nondecr_b (map (bn ids2 minid) s)
  && zlist_eqb (c05_rev C05.Model.EngC ids2 minid maxid s) (real_rev runs len).

Theorem rev_tie_sound ids2 minid maxid runs : rev_tie ids2 minid maxid runs = true ->
  forall leaves,
    rev_ok_on (zget (real_rev runs (Z.to_nat (nbin minid maxid + 1) + length ids2))) minid maxid ids2 leaves.
Proof.
  intros H leaves. unfold rev_tie in H.
  apply andb_prop in H. destruct H as [H H4]. apply andb_prop in H. destruct H as [H H3].
  apply andb_prop in H. destruct H as [H1 H2].
  apply zlist_eqb_spec in H4. rewrite <- H4.
  apply rev_ok_on_from_C05; [apply perm_b_sound; exact H2 | apply nondecr_b_sound; exact H3 | lia].
Qed.

(* a failed tie makes the verdict "model <> implementation" *)
Definition with_tie (v : Z) (tie : bool) : Z := if tie then v else if Z.even v then v + 1 else v.

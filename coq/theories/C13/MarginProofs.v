(* C13 — the margin of the search cap only ever ENLARGES the cap: its cosine is not larger than the cosine of the search angle
   itself (so every triangle that meets the cap of radius maxangle meets the searched cap as well). *)
From Coq Require Import Reals Lra.
From EsVerif.C13 Require Import ModelR.
Local Open Scope R_scope.

Lemma D2R_pos : 0 < D2R.
Proof. unfold D2R. apply Rdiv_lt_0_compat; [apply PI_RGT_0|lra]. Qed.

Theorem search_cap_contains_cap (pad : R) (degrees : bool) (maxangle : R) :
  0 <= pad ->
  let a := if degrees then maxangle * D2R else maxangle in       (* the search angle in radians *)
  0 <= a <= PI ->
  search_cos pad degrees maxangle <= cos a.
Proof.
  intros Hp a Ha. unfold search_cos. fold a.
  assert (Hs : a <= a + pad * D2R).
  { pose proof D2R_pos. assert (0 <= pad * D2R) by (apply Rmult_le_pos; lra). lra. }
  destruct (Rlt_dec PI (a + pad * D2R)) as [H|H].
  - rewrite cos_PI. pose proof (COS_bound a). lra.
  - apply cos_decr_1; lra.
Qed.

(* without margin the searched cap is the cap itself *)
Theorem search_cos_no_margin (degrees : bool) (maxangle : R) :
  let a := if degrees then maxangle * D2R else maxangle in
  a <= PI -> search_cos 0 degrees maxangle = cos a.
Proof.
  intros a Ha. unfold search_cos. fold a. destruct (Rlt_dec PI (a + 0 * D2R)) as [H|H]; [exfalso; lra|]. f_equal. lra.
Qed.

(* the hypotheses are satisfiable: the margin of the source (1e-4 degree) and a search angle of one degree *)
Lemma margin_example : 0 <= 1 / 10000 /\ 0 <= 1 * D2R <= PI.
Proof.
  pose proof PI_RGT_0. unfold D2R. split; [lra|]. split; [lra|].
  apply Rmult_le_reg_r with 180; [lra|]. field_simplify. lra.
Qed.

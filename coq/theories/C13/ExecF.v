(* C13 — verdict functions for the bit-exact id model (FloatModel.v), evaluated by the generated
   case files of entry lookup_id. *)
From Coq Require Import ZArith List Bool PrimFloat.
From EsVerif.Common Require Import Base.
From EsVerif.C13 Require Import Model Spec FloatModel Exec.
Import ListNotations.
Open Scope Z_scope.

(* one position: its unit vector (x, y, z) as SpatialVector::updateXYZ computes it, the ids the array
   call returned at depths 0..D, the ids the scalar calls returned *)
Definition fpoint := (vec * list Z * list Z)%type.

(* model = implementation, bit for bit, at every depth; at the deepest depth the single-pass
   evaluation is also compared with the instance of Model.lookup (FloatModel.lookupF) *)
Definition ids_point_agree_f (eps : float) (save : Z) (p : fpoint) : bool :=
  let '(v, ids, _) := p in
  zlist_eqb (map (fun d => lookupF_fast eps save d v) (seq 0 (length ids))) ids
  && (lookupF eps save (length ids - 1) v =? last ids 0).

Definition v_ids_f (eps : float) (save : Z) (pts : list fpoint) : Z :=
  verdict (forallb (ids_point_agree_f eps save) pts)
          (forallb (fun p : fpoint => ids_point_ok (snd (fst p), snd p)) pts).

Definition show_ids_f (eps : float) (save : Z) (pts : list fpoint) :=
  map (fun p : fpoint => let '(v, ids, sc) := p in
         (map (fun d => lookupF_fast eps save d v) (seq 0 (length ids)), ids_point_ok (ids, sc))) pts.

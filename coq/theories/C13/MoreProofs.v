(* C13 — proofs about MoreModel.v, and completeness of the boolean checkers of Spec.v. *)
From Coq Require Import ZArith List Bool Lia ZifyBool ZifyNat.
From EsVerif.Common Require Import Base.
From EsVerif.C13 Require Import Model Spec Proofs MoreModel.
Import ListNotations.
Open Scope Z_scope.

(* ---- rejections: exactly which calls raise ValueError *)
Theorem lookup_rejects n_ra n_dec :
  (lookup_validate n_ra n_dec = Err EValue <-> n_ra <> n_dec)
  /\ (lookup_validate n_ra n_dec = Ok tt <-> n_ra = n_dec).
Proof.
  unfold lookup_validate. destruct (Nat.eqb_spec n_ra n_dec); split; split; intro H; try congruence; try discriminate.
Qed.

Theorem lookup_id_agrees_with_validation {P} (root : P -> Z) choose depth n_ra n_dec ps :
  (exists l, lookup_id root choose depth n_ra n_dec ps = Ok l) <-> lookup_validate n_ra n_dec = Ok tt.
Proof.
  unfold lookup_id, lookup_validate. destruct (Nat.eqb n_ra n_dec); split; intro H; try reflexivity; try discriminate.
  - eexists. reflexivity.
  - destruct H as [l H]. discriminate.
Qed.

Theorem bincount_rejects typo z :
  bincount_validate typo z = Err EValue <->
    (n_ra1 z <> n_dec1 z
     \/ (typo = false /\ n_ra2 z <> n_dec2 z)
     \/ (exists k, n_scale z = Some k /\ k <> 1 /\ k <> n_ra1 z)
     \/ (exists k, n_htmid2 z = Some k /\ k <> n_ra2 z)
     \/ (n_htmid2 z = None /\ n_ra2 z <> n_dec2 z))%nat.
Proof.
  unfold bincount_validate, lookup_validate. destruct z as [a b c d s h]; cbn [n_ra1 n_dec1 n_ra2 n_dec2 n_scale n_htmid2].
  destruct typo, s as [ks|], h as [kh|];
    try destruct (Nat.eqb_spec ks 1); try destruct (Nat.eqb_spec ks a); try destruct (Nat.eqb_spec kh c);
    destruct (Nat.eqb_spec a b), (Nat.eqb_spec c d); rewrite ?Nat.eqb_refl; cbn [negb orb andb];
    (split; intro H;
     [ first [ discriminate H
             | left; lia
             | right; left; split; [reflexivity|lia]
             | right; right; left; eexists; split; [reflexivity|lia]
             | right; right; right; left; eexists; split; [reflexivity|lia]
             | right; right; right; right; split; [reflexivity|lia] ]
     | first [ reflexivity
             | exfalso; destruct H as [H|[[H1 H2]|[[k [H1 H2]]|[[k [H1 H2]]|[H1 H2]]]]];
               try discriminate H1; try (injection H1 as <-); try lia; try congruence ] ]).
Qed.

(* the finding: with the spelling of the as-found source (ra2.size compared with itself) a second list whose ra and dec
   differ in length is NOT rejected when precomputed ids of the right length are supplied (without them the internal
   lookup_id rejects it) *)
Theorem ra2_dec2_mismatch_not_rejected : forall n1 n2 n2', (n2 <> n2')%nat ->
  bincount_validate true {| n_ra1 := n1; n_dec1 := n1; n_ra2 := n2; n_dec2 := n2'; n_scale := None; n_htmid2 := Some n2 |} = Ok tt
  /\ bincount_validate true {| n_ra1 := n1; n_dec1 := n1; n_ra2 := n2; n_dec2 := n2'; n_scale := None; n_htmid2 := None |} = Err EValue
  /\ bincount_validate false {| n_ra1 := n1; n_dec1 := n1; n_ra2 := n2; n_dec2 := n2'; n_scale := None; n_htmid2 := Some n2 |} = Err EValue.
Proof.
  intros n1 n2 n2' H. unfold bincount_validate, lookup_validate. cbn [n_ra1 n_dec1 n_ra2 n_dec2 n_scale n_htmid2].
  rewrite !Nat.eqb_refl. cbn [negb orb]. destruct (Nat.eqb_spec n2 n2'); [contradiction|]. repeat split; reflexivity.
Qed.

(* the wrapper agrees with the validation on the htmid2 size (the part Model.bincount_py already had) *)
Theorem bincount_py_rejects_ids n2 ids_of_lookup hist_rev a nbin binof covers ids :
  a_htmid2 a = Some ids -> length ids <> n2 ->
  bincount_py n2 ids_of_lookup hist_rev a nbin binof covers = Err EValue.
Proof.
  intros Ha Hl. unfold bincount_py. rewrite Ha. destruct (Nat.eqb_spec (length ids) n2); [contradiction|reflexivity].
Qed.

(* ---- N-d arrays *)
Lemma nth_concat_rect {A} (d : A) (ncols : nat) : forall (rows : list (list A)) i j,
  (forall r, In r rows -> length r = ncols) -> (i < length rows)%nat -> (j < ncols)%nat ->
  nth (i * ncols + j) (concat rows) d = nth j (nth i rows []) d.
Proof.
  induction rows as [|r rows IH]; intros i j Hr Hi Hj; [cbn in Hi; lia|].
  cbn [concat]. assert (Hlr : length r = ncols) by (apply Hr; left; reflexivity).
  destruct i as [|i].
  - cbn [nth Nat.mul Nat.add]. rewrite app_nth1 by lia. reflexivity.
  - cbn [nth]. rewrite app_nth2 by (rewrite Hlr; lia).
    replace (S i * ncols + j - length r)%nat with (i * ncols + j)%nat by (rewrite Hlr; lia).
    apply IH; [intros r' Hin; apply Hr; right; exact Hin | cbn in Hi; lia | exact Hj].
Qed.

Theorem lookup_id_2d_spec {P} (root : P -> Z) choose depth (rows : list (list P)) ncols (dP : P) :
  (forall r, In r rows -> length r = ncols) ->
  exists l, lookup_id_2d root choose depth rows = Ok l
    /\ length l = (length rows * ncols)%nat
    /\ forall i j, (i < length rows)%nat -> (j < ncols)%nat ->
         nth (i * ncols + j) l 0 = lookup P root choose depth (nth j (nth i rows []) dP).
Proof.
  intro Hr. unfold lookup_id_2d, lookup_id, ravel_c. rewrite Nat.eqb_refl. eexists. split; [reflexivity|]. split.
  - rewrite map_length. clear dP. induction rows as [|r rows IH]; [reflexivity|].
    cbn [concat length]. rewrite app_length, IH by (intros r' Hin; apply Hr; right; exact Hin).
    rewrite (Hr r) by (left; reflexivity). lia.
  - intros i j Hi Hj.
    assert (Hlen : (i * ncols + j < length (concat rows))%nat).
    { clear dP. revert i Hi. induction rows as [|r rows IH]; intros i Hi; [cbn in Hi; lia|].
      cbn [concat]. rewrite app_length, (Hr r) by (left; reflexivity). destruct i as [|i]; [lia|].
      cbn [length] in Hi. specialize (IH (fun r' Hin => Hr r' (or_intror Hin)) i ltac:(lia)). lia. }
    rewrite (nth_indep _ 0 (lookup P root choose depth dP)) by (rewrite map_length; exact Hlen).
    rewrite map_nth. f_equal. apply nth_concat_rect; assumption.
Qed.

(* ---- the object: no call changes the state, every answer depends on the depth and on the call alone *)
Section ObjectProofs.
  Variable P C : Type.
  Variable root : P -> Z.
  Variable choose : nat -> Z -> P -> option Z.
  Variable cover : nat -> C -> list Z * list Z.
  Notation run := (run P C root choose cover).
  Notation answer_of := (answer_of P C root choose cover).

  Theorem run_history_independent : forall cs o,
    run o cs = (o, map (answer_of o) cs).
  Proof.
    induction cs as [|c cs IH]; intro o; [reflexivity|].
    cbn [MoreModel.run map]. unfold step. rewrite IH. reflexivity.
  Qed.

End ObjectProofs.

(* ---- completeness of the checkers of the property (they decide it: sound in Proofs.v, complete here) *)
Lemma ids_check_complete : forall ids d, ids_ok d ids -> ids_check d ids = true.
Proof.
  induction ids as [|x t IH]; intros d H; simpl in *; [reflexivity|].
  destruct H as [H1 [H2 H3]]. apply andb_true_iff. split; [apply andb_true_iff; split|apply IH; exact H3].
  - unfold id_in_range in H1. unfold id_in_range_b. lia.
  - destruct t; [reflexivity|lia].
Qed.

Lemma side_eqb_eq a b : side_eqb a b = true <-> a = b.
Proof. destruct a, b; cbn; split; intro H; try reflexivity; try discriminate. Qed.

Lemma covers_samples_complete incl ss : covers_samples incl ss -> covers_samples_b incl ss = true.
Proof.
  unfold covers_samples_b, covers_samples. intro H. apply forallb_forall. intros [id sd] Hin. cbn [fst snd].
  destruct (side_eqb sd Inside) eqn:E; [|reflexivity]. apply side_eqb_eq in E. subst sd. apply memb_In. apply H. exact Hin.
Qed.

Lemma full_only_inside_complete full ss : full_only_inside full ss -> full_only_inside_b full ss = true.
Proof.
  unfold full_only_inside_b, full_only_inside. intro H. apply forallb_forall. intros [id sd] Hin. cbn [fst snd].
  destruct (side_eqb sd Outside) eqn:E; [|reflexivity]. apply side_eqb_eq in E. subst sd.
  destruct (memb id full) eqn:M; [|reflexivity]. exfalso. apply memb_In in M. exact (H id Hin M).
Qed.

Theorem checkers_decide :
  (forall ids d, ids_check d ids = true <-> ids_ok d ids)
  /\ (forall incl ss, covers_samples_b incl ss = true <-> covers_samples incl ss)
  /\ (forall full ss, full_only_inside_b full ss = true <-> full_only_inside full ss).
Proof.
  split; [|split]; intros; split;
    first [apply ids_check_sound | apply ids_check_complete | apply covers_samples_sound | apply covers_samples_complete
          | apply full_only_inside_sound | apply full_only_inside_complete].
Qed.

(* C13 — the log-bin arithmetic over the reals: with floor a separation is counted in bin k iff it
   lies between the edges of bin k; the C cast differs from floor exactly on negative non-integers. *)
From Coq Require Import Reals ZArith Bool Lra Lia.
From Flocq Require Import Raux.
From EsVerif.C13 Require Import ModelR.
Open Scope R_scope.

Lemma ln10_pos : 0 < ln 10.
Proof. rewrite <- ln_1. apply ln_increasing; lra. Qed.

Lemma pow10_pos x : 0 < pow10 x.
Proof. apply exp_pos. Qed.

Lemma pow10_log10 x : 0 < x -> pow10 (log10 x) = x.
Proof.
  intro H. unfold pow10, log10. pose proof ln10_pos.
  replace (ln x / ln 10 * ln 10) with (ln x) by (field; lra). apply exp_ln. exact H.
Qed.

Lemma log10_pow10 x : log10 (pow10 x) = x.
Proof. unfold pow10, log10. rewrite ln_exp. pose proof ln10_pos. field. lra. Qed.

Lemma pow10_lt x y : x < y -> pow10 x < pow10 y.
Proof.
  intro H. unfold pow10. apply exp_increasing. pose proof ln10_pos.
  apply Rmult_lt_compat_r; assumption.
Qed.

Lemma pow10_le x y : x <= y -> pow10 x <= pow10 y.
Proof. intros [H| ->]; [left; apply pow10_lt; exact H | right; reflexivity]. Qed.

Lemma log10_lt x y : 0 < x -> x < y -> log10 x < log10 y.
Proof.
  intros Hx H. unfold log10. pose proof ln10_pos.
  apply Rmult_lt_compat_r; [apply Rinv_0_lt_compat; assumption | apply ln_increasing; assumption].
Qed.

Lemma log10_le x y : 0 < x -> x <= y -> log10 x <= log10 y.
Proof. intros Hx [H| ->]; [left; apply log10_lt; assumption | right; reflexivity]. Qed.

Lemma log10_mult x y : 0 < x -> 0 < y -> log10 (x * y) = log10 x + log10 y.
Proof. intros Hx Hy. unfold log10. rewrite ln_mult by assumption. pose proof ln10_pos. field. lra. Qed.

Lemma log10_1 : log10 1 = 0.
Proof. unfold log10. rewrite ln_1. pose proof ln10_pos. field. lra. Qed.

(* x <= log10 r <-> pow10 x <= r, and the strict version *)
Lemma le_log10_iff x r : 0 < r -> (x <= log10 r <-> pow10 x <= r).
Proof.
  intro Hr. split; intro H.
  - rewrite <- (pow10_log10 r Hr). apply pow10_le. exact H.
  - rewrite <- (log10_pow10 x). apply log10_le; [apply pow10_pos | exact H].
Qed.

Lemma log10_lt_iff x r : 0 < r -> (log10 r < x <-> r < pow10 x).
Proof.
  intro Hr. split; intro H.
  - rewrite <- (pow10_log10 r Hr). apply pow10_lt. exact H.
  - rewrite <- (log10_pow10 x). apply log10_lt; assumption.
Qed.

Lemma Zfloor_iff x k : Zfloor x = k <-> IZR k <= x < IZR k + 1.
Proof.
  split.
  - intros <-. split; [apply Zfloor_lb | apply Zfloor_ub].
  - intro H. apply Zfloor_imp. rewrite plus_IZR. exact H.
Qed.

(* the C conversion (int)x truncates toward zero; it agrees with floor exactly when x is not a
   negative non-integer *)
Theorem trunc_vs_floor x : Ztrunc x = Zfloor x <-> (0 <= x \/ IZR (Zfloor x) = x).
Proof.
  split.
  - intro H. destruct (Rle_dec 0 x) as [Hx|Hx]; [left; exact Hx | right].
    destruct (Req_dec (IZR (Zfloor x)) x) as [E|E]; [exact E|].
    rewrite Ztrunc_ceil in H by lra. rewrite (Zceil_floor_neq x E) in H. lia.
  - intros [Hx|E]; [apply Ztrunc_floor; exact Hx|].
    rewrite <- E. rewrite Ztrunc_IZR, Zfloor_IZR. reflexivity.
Qed.

(* the repaired defect: quotients in (-1,0), i.e. separations in (rmin*10^-binsize, rmin), were
   given bin number 0 *)
Theorem trunc_below_rmin x : -1 < x < 0 -> Ztrunc x = 0%Z /\ Zfloor x = (-1)%Z.
Proof.
  intro H. split.
  - rewrite Ztrunc_ceil by lra. apply Zceil_imp. simpl. lra.
  - apply Zfloor_imp. simpl. lra.
Qed.

Section LogBin.
  Variables rmin rmax : R.
  Variable nbin : Z.
  Variable s : option R.
  Hypothesis Hrmin : 0 < rmin.
  Hypothesis Hrmax : rmin < rmax.
  Hypothesis Hnbin : (0 < nbin)%Z.
  Hypothesis Hs : 0 < scale_of s.

  Let D := log_binsize rmin rmax nbin.

  Lemma binsize_pos : 0 < D.
  Proof.
    unfold D, log_binsize. apply Rdiv_lt_0_compat; [|apply IZR_lt; exact Hnbin].
    pose proof (log10_lt rmin rmax Hrmin Hrmax). lra.
  Qed.

  Lemma logscale_eq : logscale_of s = log10 (scale_of s).
  Proof. destruct s; simpl; [reflexivity | symmetry; apply log10_1]. Qed.

  Lemma edge_nbin : edge rmin rmax nbin nbin = rmax.
  Proof.
    unfold edge, log_binsize.
    replace (log10 rmin + (log10 rmax - log10 rmin) / IZR nbin * IZR nbin) with (log10 rmax).
    - apply pow10_log10. lra.
    - field. apply not_0_IZR. lia.
  Qed.

  Lemma edge_mono j k : (j <= k)%Z -> edge rmin rmax nbin j <= edge rmin rmax nbin k.
  Proof.
    intro H. unfold edge. apply pow10_le. fold D. pose proof binsize_pos.
    apply IZR_le in H. nra.
  Qed.

  Lemma edge_0 : edge rmin rmax nbin 0 = rmin.
  Proof. unfold edge. rewrite Rmult_0_r, Rplus_0_r. apply pow10_log10. exact Hrmin. Qed.

  (* floor of the quotient is k iff the scaled separation lies between the edges of bin k *)
  Lemma floor_quotient dis k : 0 < dis ->
    (Zfloor (quotient rmin rmax nbin s dis) = k
     <-> edge rmin rmax nbin k <= scale_of s * dis < edge rmin rmax nbin (k + 1)).
  Proof.
    intro Hd. rewrite Zfloor_iff. unfold quotient, edge. fold D. pose proof binsize_pos as HD.
    rewrite logscale_eq. rewrite <- log10_mult by assumption.
    assert (Hr : 0 < scale_of s * dis) by (apply Rmult_lt_0_compat; assumption).
    set (lr := log10 (scale_of s * dis)). set (l0 := log10 rmin).
    rewrite plus_IZR. simpl (IZR 1).
    rewrite <- (le_log10_iff _ _ Hr). rewrite <- (log10_lt_iff _ _ Hr). fold lr.
    assert (E : lr = l0 + (lr - l0) / D * D) by (field; lra).
    set (q := (lr - l0) / D) in *. split; intros [H1 H2]; split.
    - rewrite E. nra.
    - rewrite E. nra.
    - rewrite E in H1. nra.
    - rewrite E in H2. nra.
  Qed.

  (* C13, log-bin arithmetic: with the repaired index function a pair of separation [dis] (in the
     unit the code uses: degrees without scale, radians with) is given bin number k by the loop
     body iff 0 <= k < nbin and lower_edge(k) <= scale*dis < lower_edge(k+1) *)
  Theorem logbin dis k : 0 < dis ->
    (binof_R Zfloor rmin rmax nbin s dis = Some k
     <-> (0 <= k < nbin)%Z /\ edge rmin rmax nbin k <= scale_of s * dis < edge rmin rmax nbin (k + 1)).
  Proof.
    intro Hd. unfold binof_R. split.
    - destruct (Rle_dec dis (maxangle rmax s)) as [Hw|Hw]; [|discriminate].
      cbv zeta. destruct ((0 <=? _)%Z && (_ <? nbin)%Z) eqn:Eb; [|discriminate].
      intro E. injection E as E. split; [rewrite <- E; lia|].
      apply floor_quotient; assumption.
    - intros [Hk Hb]. destruct (Rle_dec dis (maxangle rmax s)) as [Hw|Hw].
      + cbv zeta. apply floor_quotient in Hb; [|exact Hd]. rewrite Hb.
        replace ((0 <=? k)%Z && (k <? nbin)%Z) with true by (symmetry; apply andb_true_iff; lia).
        reflexivity.
      + exfalso. apply Hw. unfold maxangle.
        assert (Hu : scale_of s * dis < rmax).
        { assert (Hm : edge rmin rmax nbin (k + 1) <= edge rmin rmax nbin nbin) by (apply edge_mono; lia).
          rewrite edge_nbin in Hm. lra. }
        apply Rmult_le_reg_l with (scale_of s); [exact Hs|].
        replace (scale_of s * (rmax / scale_of s)) with rmax by (field; lra). lra.
  Qed.

  (* the unrepaired code: every separation in (edge(-1), rmin) was counted in bin 0 *)
  Theorem cast_refuted dis : 0 < dis ->
    edge rmin rmax nbin (-1) < scale_of s * dis < rmin ->
    binof_R Ztrunc rmin rmax nbin s dis = Some 0%Z /\ binof_R Zfloor rmin rmax nbin s dis = None.
  Proof.
    intros Hd [H1 H2].
    assert (Hr : 0 < scale_of s * dis) by (apply Rmult_lt_0_compat; assumption).
    assert (Hq : -1 < quotient rmin rmax nbin s dis < 0).
    { unfold quotient. fold D. pose proof binsize_pos as HD.
      rewrite logscale_eq. rewrite <- log10_mult by assumption.
      unfold edge in H1. fold D in H1.
      apply (log10_lt _ _ (pow10_pos _)) in H1. rewrite log10_pow10 in H1.
      pose proof (log10_lt _ _ Hr H2) as H3.
      set (lr := log10 (scale_of s * dis)) in *. set (l0 := log10 rmin) in *.
      assert (E : lr - l0 = (lr - l0) / D * D) by (field; lra).
      set (q := (lr - l0) / D) in *. simpl (IZR (-1)) in H1. split; nra. }
    assert (Hw : dis <= maxangle rmax s).
    { unfold maxangle. apply Rmult_le_reg_l with (scale_of s); [exact Hs|].
      replace (scale_of s * (rmax / scale_of s)) with rmax by (field; lra). lra. }
    destruct (trunc_below_rmin _ Hq) as [Et Ef]. unfold binof_R.
    destruct (Rle_dec dis (maxangle rmax s)) as [_|Hn]; [|contradiction].
    cbv zeta. rewrite Et, Ef. split.
    - replace ((0 <=? 0)%Z && (0 <? nbin)%Z) with true by (symmetry; apply andb_true_iff; lia). reflexivity.
    - reflexivity.
  Qed.
End LogBin.

(* floor on the reals and on the exact rationals of the discrete model coincide *)
From Coq Require Import QArith Qround Qreals.
Lemma Zfloor_Q2R (q : Q) : Zfloor (Q2R q) = Qfloor q.
Proof.
  destruct q as [n d]. unfold Q2R, Qfloor. cbn [Qnum Qden].
  change (IZR n * / IZR (Zpos d))%R with (IZR n / IZR (Zpos d))%R.
  apply Zfloor_div. discriminate.
Qed.

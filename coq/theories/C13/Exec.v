(* C13 — glue evaluated by the generated case files: verdict = (model = impl?) + 2*(checker rejects impl).
   Every function has a [relaxed] variant used only to CLASSIFY a failing case: it treats the items
   of the known-finding class C13.kf_cos_resolution (Spec.v) as unconstrained. *)
From Coq Require Import QArith Qround.
From EsVerif.Common Require Import Base.
From EsVerif.C13 Require Import Model Spec.

(* ------------------------------------------------------------------------------------------ *)
(* ids                                                                                         *)
(* ------------------------------------------------------------------------------------------ *)
(* The choice function is not modelled; the one the implementation used for a position is read off
   the id it returned at the deepest level (root = leading digits, child at level l = l-th pair of
   bits).  The model run with that choice function must reproduce the ids at ALL depths. *)
Definition level_of (id : Z) : Z := (Z.log2 id - 3) / 2.
Definition root_from (D deep : Z) (_ : unit) : Z := deep / 4 ^ D.
Definition choose_from (D deep : Z) (id : Z) (_ : unit) : option Z :=
  let l := level_of id in
  if (0 <=? l) && (l <? D) then Some ((deep / 4 ^ (D - l - 1)) mod 4) else None.

Definition model_ids (D : nat) (deep : Z) : list Z :=
  map (fun d => lookup unit (root_from (Z.of_nat D) deep) (choose_from (Z.of_nat D) deep) d tt)
      (seq 0 (S D)).

(* one position: [ids] = element of the array call at depths 0..D, [sc] = scalar call at depths 0..D *)
Definition ids_point_agree (p : list Z * list Z) : bool :=
  let ids := fst p in
  zlist_eqb (model_ids (length ids - 1) (last ids 0)) ids.
Definition ids_point_ok (p : list Z * list Z) : bool :=
  ids_check 0 (fst p) && zlist_eqb (fst p) (snd p).

Definition v_ids (pts : list (list Z * list Z)) : Z :=
  verdict (forallb ids_point_agree pts) (forallb ids_point_ok pts).

(* ------------------------------------------------------------------------------------------ *)
(* intersect                                                                                   *)
(* ------------------------------------------------------------------------------------------ *)
Fixpoint prefix_b (a b : list Z) : bool :=
  match a, b with
  | [], _ => true
  | x :: s, y :: t => (x =? y) && prefix_b s t
  | _ :: _, [] => false
  end.

(* a sampled position as the harness sends it: id of its triangle, side code (1 inside, 2 outside,
   0 closer to the circle than 1e-9 relative) and dcos = cos(sep) - cos(radius) *)
Definition rawsample := (Z * Z * Q)%type.
Definition side_of (relaxed : bool) (s : rawsample) : sample :=
  let '(id, code, dcos) := s in
  (id, if relaxed && kf_cos_resolution dcos then Border
       else if code =? 1 then Inside else if code =? 2 then Outside else Border).

(* incl = intersect(..., inclusive=True), full = intersect(..., inclusive=False) *)
Definition intersect_agree (depth : Z) (incl full : list Z) : bool :=
  prefix_b full incl                                   (* = intersect_out true full plist for some plist *)
  && forallb (id_in_range_b depth) incl && nodup_b incl.
Definition intersect_ok (relaxed : bool) (incl full : list Z) (ss : list rawsample) : bool :=
  let ss' := map (side_of relaxed) ss in
  covers_samples_b incl ss' && full_only_inside_b full ss'.

Definition v_intersect (depth : Z) (incl full : list Z) (ss : list rawsample) : Z :=
  verdict (intersect_agree depth incl full) (intersect_ok false incl full ss).
(* 1 when the case fails only through samples of the known class *)
Definition k_intersect (depth : Z) (incl full : list Z) (ss : list rawsample) : Z :=
  if negb (intersect_ok false incl full ss) && intersect_ok true incl full ss then 1 else 0.

(* what the replay file shows: the uncovered inside samples and the outside samples in full triangles *)
Definition show_intersect (depth : Z) (incl full : list Z) (ss : list rawsample) :=
  (intersect_agree depth incl full,
   filter (fun s : sample => side_eqb (snd s) Inside && negb (memb (fst s) incl)) (map (side_of false) ss),
   filter (fun s : sample => side_eqb (snd s) Outside && memb (fst s) full) (map (side_of false) ss)).

(* ------------------------------------------------------------------------------------------ *)
(* bincount                                                                                    *)
(* ------------------------------------------------------------------------------------------ *)
(* htmrev2 arrives run-length encoded (its first maxid-minid+2 entries are a step function) *)
Fixpoint rle_get (runs : list (Z * Z)) (i : Z) : Z :=
  match runs with
  | [] => 0
  | (n, v) :: t => if i <? n then v else rle_get t (i - n)
  end.

(* a pair as the harness sends it (brute force, independent oracle for the separation):
     (0, _)  zero separation
     (1, v)  quotient (log10(scale*sep) - log10 rmin)/log_binsize = v / 2^40 (rounded down), farther
             than 1e-9 relative from every bin edge
     (2, e)  within 1e-9 relative of edge e: not constrained between bins e-1 and e *)
Definition rawpair := (Z * Z)%type.
Definition q_of (v : Z) : Q := v # 1099511627776.

(* the bins a pair may be counted in, as a closed range; -1 and nbin stand for "not counted" *)
Definition clip (nbin : Z) (r : Z * Z) : Z * Z := (Z.max (-1) (Z.min nbin (fst r)), Z.max (-1) (Z.min nbin (snd r))).
Definition range_strict (nbin : Z) (p : rawpair) : Z * Z :=
  let '(tag, v) := p in
  clip nbin (if tag =? 1 then let k := radbin (q_of v) in (k, k)
             else if tag =? 2 then (v - 1, v) else (-1, -1)).

(* relaxed: [zone] = |cos(sep) - cos(edge_j angle)| for j = 0..nbin; an edge the pair is not
   resolved against may be crossed *)
Fixpoint widen_down (fuel : nat) (zone : list Q) (lo : Z) : Z :=
  match fuel with
  | O => lo
  | S f => if (0 <=? lo) && kf_cos_resolution (nth (Z.to_nat lo) zone 1%Q) then widen_down f zone (lo - 1) else lo
  end.
Fixpoint widen_up (fuel : nat) (nbin : Z) (zone : list Q) (hi : Z) : Z :=
  match fuel with
  | O => hi
  | S f => if (hi <? nbin) && kf_cos_resolution (nth (Z.to_nat (hi + 1)) zone 1%Q) then widen_up f nbin zone (hi + 1) else hi
  end.
(* The class concerns the COVER only (the circle of radius rmax/scale handed to SpatialDomain as the
   double cos(maxangle)): a pair that lies inside the last bin but is not resolved against the outer
   edge rmax may be missing from the cover, i.e. may be left uncounted.  Nothing else is relaxed: the
   inner edges are decided by the repaired gcirc, which resolves separations, not cosines.
   (widen_down / widen_up above are no longer used; they relaxed every edge, which also hid the
   repaired gcirc defect.) *)
Definition range_relaxed (nbin : Z) (p : rawpair) (zone : list Q) : Z * Z :=
  let r := range_strict nbin p in
  if fst p =? 0 then r
  else if (snd r =? nbin - 1) && kf_cos_resolution (nth (Z.to_nat nbin) zone 1%Q) then (fst r, nbin)
  else r.

Definition zpair_eqb (a b : Z * Z) : bool := (fst a =? fst b) && (snd a =? snd b).
Fixpoint assoc (key : Z * Z) (l : list ((Z * Z) * list Q)) : option (list Q) :=
  match l with
  | [] => None
  | (k, v) :: t => if zpair_eqb k key then Some v else assoc key t
  end.

Section BC.
  Variable relaxed : bool.
  Variable nbin minid maxid : Z.
  Variable runs : list (Z * Z).
  Variable ids2 : list Z.
  Variable covers : list (list Z).
  Variable pairs : list (list rawpair).
  Variable zones : list ((Z * Z) * list Q).

  Definition revf := rle_get runs.
  Definition n1 := length covers.
  Definition n2 := length ids2.

  Definition pair_at (i1 i2 : Z) : rawpair := nth (Z.to_nat i2) (nth (Z.to_nat i1) pairs []) (0, 0).
  Definition range_of (i1 i2 : Z) : Z * Z :=
    if relaxed then
      match assoc (i1, i2) zones with
      | Some z => range_relaxed nbin (pair_at i1 i2) z
      | None => range_strict nbin (pair_at i1 i2)
      end
    else range_strict nbin (pair_at i1 i2).

  (* the pairs whose bin is determined: the bin number the (repaired) code must compute *)
  Definition binof_def (i1 i2 : Z) : option Z :=
    let r := range_of i1 i2 in
    if fst r =? snd r then Some (fst r) else None.

  (* pairs that may or may not be counted in bin b *)
  Definition ambiguous (b : Z) (r : Z * Z) : bool := (fst r <? snd r) && (fst r <=? b) && (b <=? snd r).
  Definition amb_count (rs : list (Z * Z)) (b : Z) : Z := Z.of_nat (length (filter (ambiguous b) rs)).

  Definition visited_ranges : list (Z * Z) :=
    flat_map (fun ic => map (range_of (fst ic)) (candidates revf minid maxid (snd ic)))
             (combine (zseq 0 n1) covers).
  Definition all_ranges : list (Z * Z) :=
    flat_map (fun i1 => map (range_of i1) (zseq 0 n2)) (zseq 0 n1).

  Definition bins : list Z := zseq 0 (Z.to_nat nbin).

  (* the model: cbincount on the determined pairs through covers and reverse indices *)
  Definition model_lo : list Z := cbincount nbin revf minid maxid binof_def covers.
  Definition model_amb : list Z := map (amb_count visited_ranges) bins.
  (* the property: brute force over ALL pairs *)
  Definition brute_lo : list Z := map (fun k => brute binof_def n2 k 0 n1) bins.
  Definition brute_amb : list Z := map (amb_count all_ranges) bins.

  Fixpoint between (lo amb out : list Z) : bool :=
    match lo, amb, out with
    | [], [], [] => true
    | l :: lt, a :: at_, o :: ot => (l <=? o) && (o <=? l + a) && between lt at_ ot
    | _, _, _ => false
    end.

  Definition monitors : bool :=
    window_check minid maxid ids2
    && covers_check nbin revf minid maxid ids2 binof_def 0 covers.

  (* outs = counts returned by the implementation: plain call first, then the calls with
     precomputed htmid2 / htmrev2 / minid / maxid *)
  Definition bc_agree (outs : list (list Z)) : bool :=
    match outs with [] => false | o :: _ => between model_lo model_amb o end.
  Definition bc_ok (outs : list (list Z)) : bool :=
    match outs with
    | [] => false
    | o :: rest => between brute_lo brute_amb o && forallb (zlist_eqb o) rest && monitors
    end.
End BC.

Definition v_bincount nbin minid maxid runs ids2 covers pairs (outs : list (list Z)) : Z :=
  verdict (bc_agree false nbin minid maxid runs covers pairs [] outs)
          (bc_ok false nbin minid maxid runs ids2 covers pairs [] outs).
Definition k_bincount nbin minid maxid runs ids2 covers pairs zones (outs : list (list Z)) : Z :=
  if negb (bc_ok false nbin minid maxid runs ids2 covers pairs [] outs)
     && bc_ok true nbin minid maxid runs ids2 covers pairs zones outs
     && bc_agree true nbin minid maxid runs covers pairs zones outs
  then 1 else 0.

(* everything the replay file shows for a bincount case *)
Definition show_bincount nbin minid maxid runs ids2 covers pairs :=
  (model_lo false nbin minid maxid runs covers pairs [],
   model_amb false nbin minid maxid runs covers pairs [],
   brute_lo false nbin ids2 covers pairs [],
   brute_amb false nbin ids2 covers pairs [],
   (window_check minid maxid ids2,
    covers_check nbin (revf runs) minid maxid ids2 (binof_def false nbin pairs []) 0 covers)).

(* ------------------------------------------------------------------------------------------ *)
(* bincount with the bin-number function read from the source on every run                     *)
(* ------------------------------------------------------------------------------------------ *)
(* harness/props/c13_translate.py reads `int radbin = (int) floor(q)` / `(int) (q)` out of htmc.cc and
   passes [radbin] / [radbin_cast] as [index]: the MODEL side follows the code under test, the
   PROPERTY side (brute_lo / brute_amb above) is always the floor of the statement. *)
Definition xrange_strict (index : Q -> Z) (nbin : Z) (p : rawpair) : Z * Z :=
  let '(tag, v) := p in
  clip nbin (if tag =? 1 then let k := index (q_of v) in (k, k)
             else if tag =? 2 then (index ((2 * v - 1) # 2), v) else (-1, -1)).
Definition xrange_relaxed (index : Q -> Z) (nbin : Z) (p : rawpair) (zone : list Q) : Z * Z :=
  let r := xrange_strict index nbin p in
  if fst p =? 0 then r
  else if (snd r =? nbin - 1) && kf_cos_resolution (nth (Z.to_nat nbin) zone 1%Q) then (fst r, nbin)
  else r.

Section BCX.
  Variable index : Q -> Z.
  Variable relaxed : bool.
  Variable nbin minid maxid : Z.
  Variable runs : list (Z * Z).
  Variable covers : list (list Z).
  Variable pairs : list (list rawpair).
  Variable zones : list ((Z * Z) * list Q).

  Definition xrange_of (i1 i2 : Z) : Z * Z :=
    if relaxed then
      match assoc (i1, i2) zones with
      | Some z => xrange_relaxed index nbin (pair_at pairs i1 i2) z
      | None => xrange_strict index nbin (pair_at pairs i1 i2)
      end
    else xrange_strict index nbin (pair_at pairs i1 i2).
  Definition xbinof_def (i1 i2 : Z) : option Z :=
    let r := xrange_of i1 i2 in
    if fst r =? snd r then Some (fst r) else None.
  Definition xvisited_ranges : list (Z * Z) :=
    flat_map (fun ic => map (xrange_of (fst ic)) (candidates (revf runs) minid maxid (snd ic)))
             (combine (zseq 0 (n1 covers)) covers).
  Definition xmodel_lo : list Z := cbincount nbin (revf runs) minid maxid xbinof_def covers.
  Definition xmodel_amb : list Z := map (amb_count xvisited_ranges) (bins nbin).
  Definition xbc_agree (outs : list (list Z)) : bool :=
    match outs with [] => false | o :: _ => between xmodel_lo xmodel_amb o end.
End BCX.

(* code 0 = floor, 1 = C cast *)
Definition index_of (code : Z) : Q -> Z := if code =? 1 then radbin_cast else radbin.

Definition v_bincount_x code nbin minid maxid runs ids2 covers pairs (outs : list (list Z)) : Z :=
  verdict (xbc_agree (index_of code) false nbin minid maxid runs covers pairs [] outs)
          (bc_ok false nbin minid maxid runs ids2 covers pairs [] outs).
Definition k_bincount_x code nbin minid maxid runs ids2 covers pairs zones (outs : list (list Z)) : Z :=
  if negb (bc_ok false nbin minid maxid runs ids2 covers pairs [] outs)
     && bc_ok true nbin minid maxid runs ids2 covers pairs zones outs
     && xbc_agree (index_of code) true nbin minid maxid runs covers pairs zones outs
  then 1 else 0.
Definition show_bincount_x code nbin minid maxid runs ids2 covers pairs :=
  (xmodel_lo (index_of code) false nbin minid maxid runs covers pairs [],
   xmodel_amb (index_of code) false nbin minid maxid runs covers pairs [],
   brute_lo false nbin ids2 covers pairs [],
   brute_amb false nbin ids2 covers pairs [],
   (window_check minid maxid ids2,
    covers_check nbin (revf runs) minid maxid ids2 (binof_def false nbin pairs []) 0 covers)).

(* C13 — the root loop of SpatialIndex::idByPoint (FloatModel.rootF) finds a root triangle for EVERY
   position whose unit vector has finite components (any gEpsilon >= 0): half of the hypothesis
   [accepted] of the concrete id theorems becomes a theorem.  Uses Flocq's link between primitive
   floats and IEEE-754 (as C05/FloatFacts.v does; its rv / finite_f / ltb_R are imported). *)
From Coq Require Import ZArith Reals Lia Lra List Bool.
From Coq Require Import PrimFloat FloatOps SpecFloat.
From Flocq Require Import Core.Core IEEE754.BinarySingleNaN.
Require Flocq.IEEE754.PrimFloat.
From EsVerif.Common Require Import Base.
From EsVerif.C05 Require Import Spec FloatFacts.
From EsVerif.C13 Require Import Model Proofs FloatModel FloatProofs.
Import ListNotations.
Module FP := Flocq.IEEE754.PrimFloat.
Local Existing Instance FP.Hprec.
Local Existing Instance FP.Hmax.
Local Open Scope R_scope.

Notation rnd := (round radix2 (fexp prec emax) (round_mode mode_NE)).

Lemma rv_opp f : rv (PrimFloat.opp f) = - rv f.
Proof. unfold rv. rewrite FP.opp_equiv. apply B2R_Bopp. Qed.
Lemma finite_opp f : finite_f (PrimFloat.opp f) = finite_f f.
Proof. rewrite !finite_f_B, FP.opp_equiv. apply is_finite_Bopp. Qed.

(* an operation whose exact result is the value of some float is exact and finite *)
Lemma mul_exact a b z : finite_f a = true -> finite_f b = true -> rv a * rv b = rv z ->
  finite_f (PrimFloat.mul a b) = true /\ rv (PrimFloat.mul a b) = rv z.
Proof.
  rewrite !finite_f_B. unfold rv. rewrite FP.mul_equiv. intros Fa Fb E.
  generalize (Bmult_correct prec emax _ _ mode_NE (FP.Prim2B a) (FP.Prim2B b)).
  rewrite E, round_generic by (try typeclasses eauto; apply generic_format_B2R).
  rewrite Rlt_bool_true by apply abs_B2R_lt_emax.
  intros [H1 [H2 _]]. rewrite H2, Fa, Fb. split; [reflexivity|exact H1].
Qed.

Lemma add_exact a b z : finite_f a = true -> finite_f b = true -> rv a + rv b = rv z ->
  finite_f (PrimFloat.add a b) = true /\ rv (PrimFloat.add a b) = rv z.
Proof.
  rewrite !finite_f_B. unfold rv. rewrite FP.add_equiv. intros Fa Fb E.
  generalize (Bplus_correct prec emax _ _ mode_NE (FP.Prim2B a) (FP.Prim2B b) Fa Fb).
  rewrite E, round_generic by (try typeclasses eauto; apply generic_format_B2R).
  rewrite Rlt_bool_true by apply abs_B2R_lt_emax.
  intros [H1 [H2 _]]. split; [exact H2|exact H1].
Qed.

Definition unitR (c : R) : Prop := c = 0 \/ c = 1 \/ c = -1.

Lemma mul_unit a b : finite_f a = true -> finite_f b = true -> unitR (rv a) ->
  finite_f (PrimFloat.mul a b) = true /\ rv (PrimFloat.mul a b) = rv a * rv b.
Proof.
  intros Fa Fb [H|[H|H]].
  - destruct (mul_exact a b 0%float Fa Fb) as [F E]; [rewrite H, rv_zero; ring|]. split; [exact F|]. rewrite E, H, rv_zero. ring.
  - destruct (mul_exact a b b Fa Fb) as [F E]; [rewrite H; ring|]. split; [exact F|]. rewrite E, H. ring.
  - destruct (mul_exact a b (PrimFloat.opp b) Fa Fb) as [F E]; [rewrite H, rv_opp; ring|]. split; [exact F|]. rewrite E, H, rv_opp. ring.
Qed.

Lemma add_zero a b : finite_f a = true -> finite_f b = true -> (rv a = 0 \/ rv b = 0) ->
  finite_f (PrimFloat.add a b) = true /\ rv (PrimFloat.add a b) = rv a + rv b.
Proof.
  intros Fa Fb [H|H].
  - destruct (add_exact a b b Fa Fb) as [F E]; [rewrite H; ring|]. split; [exact F|]. rewrite E, H. ring.
  - destruct (add_exact a b a Fa Fb) as [F E]; [rewrite H; ring|]. split; [exact F|]. rewrite E, H. ring.
Qed.

Definition finite_v (v : vec) : Prop := finite_f (vx v) = true /\ finite_f (vy v) = true /\ finite_f (vz v) = true.

(* the dot product with an axis normal (components 0, 1 or -1, at most one of them non-zero) is exact *)
Lemma dot_axis n v cx cy cz : finite_v n -> finite_v v ->
  rv (vx n) = cx -> rv (vy n) = cy -> rv (vz n) = cz ->
  unitR cx -> unitR cy -> unitR cz ->
  ((cx = 0 /\ cy = 0) \/ (cx = 0 /\ cz = 0) \/ (cy = 0 /\ cz = 0)) ->
  finite_f (dot n v) = true /\ rv (dot n v) = cx * rv (vx v) + cy * rv (vy v) + cz * rv (vz v).
Proof.
  intros [Fnx [Fny Fnz]] [Fx [Fy Fz]] Ex Ey Ez Ux Uy Uz H1. unfold dot.
  destruct (mul_unit (vx n) (vx v) Fnx Fx) as [F1 E1]; [rewrite Ex; exact Ux|].
  destruct (mul_unit (vy n) (vy v) Fny Fy) as [F2 E2]; [rewrite Ey; exact Uy|].
  destruct (mul_unit (vz n) (vz v) Fnz Fz) as [F3 E3]; [rewrite Ez; exact Uz|].
  rewrite Ex in E1. rewrite Ey in E2. rewrite Ez in E3.
  destruct (add_zero _ _ F1 F2) as [F12 E12].
  { rewrite E1, E2. destruct H1 as [[A B]|[[A B]|[A B]]]; [left; rewrite A; ring | left; rewrite A; ring | right; rewrite A; ring]. }
  destruct (add_zero _ _ F12 F3) as [F E].
  { rewrite E12, E1, E2, E3. destruct H1 as [[A B]|[[A B]|[A B]]]; [left; rewrite A, B; ring | right; rewrite B; ring | right; rewrite B; ring]. }
  split; [exact F|]. rewrite E, E12, E1, E2, E3. ring.
Qed.

(* one test of the root loop passes when the exact dot product is non-negative *)
Lemma edge_test eps n v cx cy cz : finite_f eps = true -> 0 <= rv eps -> finite_v n -> finite_v v ->
  rv (vx n) = cx -> rv (vy n) = cy -> rv (vz n) = cz ->
  unitR cx -> unitR cy -> unitR cz ->
  ((cx = 0 /\ cy = 0) \/ (cx = 0 /\ cz = 0) \/ (cy = 0 /\ cz = 0)) ->
  0 <= cx * rv (vx v) + cy * rv (vy v) + cz * rv (vz v) ->
  negb (PrimFloat.ltb (dot n v) (PrimFloat.opp eps)) = true.
Proof.
  intros Fe He Fn Fv Ex Ey Ez Ux Uy Uz H1 Hpos.
  destruct (dot_axis n v cx cy cz Fn Fv Ex Ey Ez Ux Uy Uz H1) as [F E].
  destruct (PrimFloat.ltb (dot n v) (PrimFloat.opp eps)) eqn:L; [|reflexivity].
  apply ltb_R in L; [|exact F|rewrite finite_opp; exact Fe]. rewrite rv_opp, E in L. lra.
Qed.

(* the literals that occur in the normals of the eight root triangles *)
Lemma rv_lit (s : bool) (m : positive) (e : Z) f : Prim2SF f = S754_finite s m e -> rv f = SF2R radix2 (S754_finite s m e).
Proof. intro H. unfold rv, FP.Prim2B. rewrite B2R_SF2B, H. reflexivity. Qed.
Lemma rv_1 : rv 1%float = 1.
Proof. rewrite (rv_lit false 4503599627370496 (-52)) by (vm_compute; reflexivity). unfold SF2R, F2R, cond_Zopp, Fnum, Fexp. simpl bpow. lra. Qed.
Lemma rv_m1 : rv (-1)%float = -1.
Proof. rewrite (rv_lit true 4503599627370496 (-52)) by (vm_compute; reflexivity). unfold SF2R, F2R, cond_Zopp, Fnum, Fexp. simpl bpow. simpl IZR. lra. Qed.
Lemma rv_m0 : rv (-0)%float = 0.
Proof. unfold rv, FP.Prim2B. rewrite B2R_SF2B. reflexivity. Qed.

Lemma rootF_found eps v r a b d : In (r, (a, b, d)) roots -> inside eps v a b d = true ->
  (8 <= rootF eps v < 16)%Z.
Proof.
  intros Hin Hok. unfold rootF.
  destruct (find (fun e : Z * tri => let '(a0, b0, d0) := snd e in inside eps v a0 b0 d0) roots) as [e|] eqn:E.
  - apply find_some in E. destruct E as [He _]. unfold roots in He. cbn [In] in He.
    repeat (destruct He as [<-|He]; [cbn [fst]; lia|]). contradiction.
  - exfalso. pose proof (find_none _ _ E _ Hin) as H. cbn [snd] in H. rewrite Hok in H. discriminate.
Qed.

Ltac edge_goal :=
  match goal with
  | |- negb (PrimFloat.ltb (dot (cross ?a ?b) ?v) (PrimFloat.opp ?eps)) = true =>
      let n := eval vm_compute in (cross a b) in
      change (cross a b) with n;
      eapply edge_test;
      [ assumption | assumption
      | repeat split; vm_compute; reflexivity
      | assumption
      | first [exact rv_zero | exact rv_m0 | exact rv_1 | exact rv_m1]
      | first [exact rv_zero | exact rv_m0 | exact rv_1 | exact rv_m1]
      | first [exact rv_zero | exact rv_m0 | exact rv_1 | exact rv_m1]
      | unfold unitR; lra | unfold unitR; lra | unfold unitR; lra
      | lra
      | lra ]
  end.

Ltac inside_goal :=
  unfold inside, edge_ok; rewrite !andb_true_iff; repeat split; edge_goal.

Theorem rootF_total eps v : finite_f eps = true -> 0 <= rv eps -> finite_v v ->
  (8 <= rootF eps v < 16)%Z.
Proof.
  intros Fe He Fv.
  destruct (Rle_lt_dec 0 (rv (vx v))) as [Hx|Hx], (Rle_lt_dec 0 (rv (vy v))) as [Hy|Hy], (Rle_lt_dec 0 (rv (vz v))) as [Hz|Hz].
  - apply (rootF_found eps v 15%Z V2 V0 V1); [unfold roots; cbn [In]; auto 10|inside_goal].
  - apply (rootF_found eps v 8%Z V1 V5 V2); [unfold roots; cbn [In]; auto 10|inside_goal].
  - apply (rootF_found eps v 12%Z V1 V0 V4); [unfold roots; cbn [In]; auto 10|inside_goal].
  - apply (rootF_found eps v 11%Z V4 V5 V1); [unfold roots; cbn [In]; auto 10|inside_goal].
  - apply (rootF_found eps v 14%Z V3 V0 V2); [unfold roots; cbn [In]; auto 10|inside_goal].
  - apply (rootF_found eps v 9%Z V2 V5 V3); [unfold roots; cbn [In]; auto 10|inside_goal].
  - apply (rootF_found eps v 13%Z V4 V0 V3); [unfold roots; cbn [In]; auto 10|inside_goal].
  - apply (rootF_found eps v 10%Z V3 V5 V4); [unfold roots; cbn [In]; auto 10|inside_goal].
Qed.

(* ---- consequences for the concrete id theorems *)
Local Open Scope Z_scope.

(* [accepted] with its first half proved: only "some child accepts the position at every dynamic level" is left *)
Theorem accepted_from_dynamic eps save v depth :
  finite_f eps = true -> (0 <= rv eps)%R -> finite_v v ->
  (forall id, chooseF eps (buildlevel save (Z.of_nat depth)) id v <> None) ->
  accepted eps save v depth.
Proof. intros Fe He Fv Hs. split; [apply rootF_total; assumption|exact Hs]. Qed.

(* chooseF with the fall-through of the stored levels applied everywhere: total *)
Definition chooseT (eps : PrimFloat.float) (id : Z) (v : vec) : option Z :=
  match first_inside eps (tri_of_id id) v with Some c => Some c | None => Some 3 end.

Lemma chooseT_digits eps : digits_ok vec (chooseT eps).
Proof.
  intros id v c. unfold chooseT. destruct (first_inside eps (tri_of_id id) v) as [c'|] eqn:E.
  - intro H. injection H as <-. exact (first_inside_digit _ _ _ _ E).
  - intro H. injection H as <-. lia.
Qed.

(* when every level of the descent is a stored level (depth <= saveDepth, i.e. HTM(0), HTM(1), HTM(2)), nothing is
   left to assume: every finite position gets an id in range, and the ids are hierarchical *)
Theorem stored_depth_unconditional eps save v depth :
  finite_f eps = true -> (0 <= rv eps)%R -> finite_v v ->
  (save = 0 \/ Z.of_nat depth <= save) ->
  8 * 4 ^ Z.of_nat depth <= lookupF eps save depth v < 16 * 4 ^ Z.of_nat depth.
Proof.
  intros Fe He Fv Hd.
  assert (Hr : 8 <= rootF eps v < 16) by (apply rootF_total; assumption).
  assert (Hb : buildlevel save (Z.of_nat depth) = Z.of_nat depth \/ Z.of_nat depth <= buildlevel save (Z.of_nat depth)).
  { unfold buildlevel. destruct (save =? 0) eqn:E1, (Z.of_nat depth <? save) eqn:E2; cbn [orb]; lia. }
  assert (E : lookupF eps save depth v = lookup vec (rootF eps) (chooseT eps) depth v).
  { unfold lookupF, lookup. symmetry. apply (descend_ext _ _ v) with (l := 0).
    - intros id c. apply chooseT_digits.
    - intros id. unfold chooseT. destruct (first_inside eps (tri_of_id id) v); discriminate.
    - lia.
    - unfold in_level. change (4 ^ 0) with 1. lia.
    - intros id' l' Hl' Hin. unfold chooseT, chooseF.
      destruct (first_inside eps (tri_of_id id') v); [reflexivity|].
      rewrite (level_of_id_in_level l' id') by (try assumption; lia).
      destruct (l' <? buildlevel save (Z.of_nat depth)) eqn:El; [reflexivity|lia]. }
  rewrite E. rewrite <- (lookup_at vec (rootF eps) (chooseT eps) v depth).
  apply id_range.
  - intros []. exact Hr.
  - intros id [] c. apply chooseT_digits.
  - intros id []. unfold choose_at, chooseT. destruct (first_inside eps (tri_of_id id) v); discriminate.
Qed.

(* ---- the same with computable hypotheses (what the case files can evaluate) *)
Definition eps_ok (eps : PrimFloat.float) : bool := finite_f eps && negb (PrimFloat.ltb eps 0).
Definition finite_vb (v : vec) : bool := finite_f (vx v) && finite_f (vy v) && finite_f (vz v).

Lemma eps_ok_spec eps : eps_ok eps = true -> finite_f eps = true /\ (0 <= rv eps)%R.
Proof.
  unfold eps_ok. intro H. apply andb_prop in H. destruct H as [F N]. split; [exact F|].
  destruct (Rle_lt_dec 0 (rv eps)) as [H|H]; [exact H|]. exfalso.
  assert (L : PrimFloat.ltb eps 0 = true) by (apply ltb_R; [exact F|apply finite_zero|rewrite rv_zero; exact H]).
  rewrite L in N. discriminate.
Qed.

Lemma finite_vb_spec v : finite_vb v = true -> finite_v v.
Proof.
  unfold finite_vb, finite_v. intro H. apply andb_prop in H. destruct H as [H H3]. apply andb_prop in H. destruct H as [H1 H2]. auto.
Qed.

Theorem rootF_total_b eps v : eps_ok eps = true -> finite_vb v = true -> 8 <= rootF eps v < 16.
Proof. intros He Hv. destruct (eps_ok_spec _ He). apply rootF_total; [assumption|assumption|apply finite_vb_spec; exact Hv]. Qed.

Theorem accepted_from_dynamic_b eps save v depth : eps_ok eps = true -> finite_vb v = true ->
  (forall id, chooseF eps (buildlevel save (Z.of_nat depth)) id v <> None) -> accepted eps save v depth.
Proof. intros He Hv. destruct (eps_ok_spec _ He). apply accepted_from_dynamic; [assumption|assumption|apply finite_vb_spec; exact Hv]. Qed.

Theorem stored_depth_unconditional_b eps save v depth : eps_ok eps = true -> finite_vb v = true ->
  (save = 0 \/ Z.of_nat depth <= save) ->
  8 * 4 ^ Z.of_nat depth <= lookupF eps save depth v < 16 * 4 ^ Z.of_nat depth.
Proof. intros He Hv. destruct (eps_ok_spec _ He). apply stored_depth_unconditional; [assumption|assumption|apply finite_vb_spec; exact Hv]. Qed.

(* C13 — proofs about the id descent, and soundness of the boolean checkers/monitors. *)
From Coq Require Import QArith Qround Sorting.Permutation ZifyBool ZifyNat.
From EsVerif.Common Require Import Base.
From EsVerif.C13 Require Import Model Spec.
Ltac Zify.zify_post_hook ::= Z.to_euclidean_division_equations.

(* ------------------------------------------------------------------------------------------ *)
(* lookup                                                                                      *)
(* ------------------------------------------------------------------------------------------ *)
Section LookupProofs.
  Variable P : Type.
  Variable root : P -> Z.
  Variable choose : Z -> P -> option Z.

  (* the hypotheses on the (unmodelled) floating-point choice *)
  Definition root_ok : Prop := forall p, 8 <= root p < 16.
  Definition digits_ok : Prop := forall id p c, choose id p = Some c -> 0 <= c < 4.
  Definition never_stuck : Prop := forall id p, choose id p <> None.

  Lemma descend_S_end n : forall id p,
    descend P choose (S n) id p = step P choose (descend P choose n id p) p.
  Proof.
    induction n as [|n IH]; intros id p; [reflexivity|].
    change (descend P choose (S (S n)) id p) with (descend P choose (S n) (step P choose id p) p).
    rewrite IH. reflexivity.
  Qed.

  Lemma descend_add a : forall b id p,
    descend P choose (a + b) id p = descend P choose b (descend P choose a id p) p.
  Proof. induction a as [|a IH]; intros b id p; [reflexivity|]. simpl. apply IH. Qed.

  Lemma step_range id p d :
    digits_ok -> never_stuck -> 0 <= d -> 8 * 4 ^ d <= id < 16 * 4 ^ d ->
    8 * 4 ^ (d + 1) <= step P choose id p < 16 * 4 ^ (d + 1).
  Proof.
    intros Hd Hs Hd0 Hr. unfold step. destruct (choose id p) as [c|] eqn:E.
    - apply Hd in E. rewrite Z.pow_add_r by lia. change (4 ^ 1) with 4. lia.
    - exfalso. exact (Hs _ _ E).
  Qed.

  Lemma descend_range n : digits_ok -> never_stuck -> forall id p d,
    0 <= d -> 8 * 4 ^ d <= id < 16 * 4 ^ d ->
    8 * 4 ^ (d + Z.of_nat n) <= descend P choose n id p < 16 * 4 ^ (d + Z.of_nat n).
  Proof.
    intros Hd Hs. induction n as [|n IH]; intros id p d Hd0 Hr.
    - simpl. rewrite Z.add_0_r. exact Hr.
    - cbn [descend]. replace (d + Z.of_nat (S n)) with ((d + 1) + Z.of_nat n) by lia.
      apply IH; [lia|]. apply step_range; assumption.
  Qed.

  Theorem id_range : root_ok -> digits_ok -> never_stuck -> forall d p,
    8 * 4 ^ Z.of_nat d <= lookup P root choose d p < 16 * 4 ^ Z.of_nat d.
  Proof.
    intros Hr Hd Hs d p. unfold lookup.
    pose proof (descend_range d Hd Hs (root p) p 0 (Z.le_refl 0)) as H.
    rewrite Z.add_0_l in H. apply H. change (4 ^ 0) with 1. specialize (Hr p). lia.
  Qed.

  Theorem hierarchy : digits_ok -> never_stuck -> forall d p,
    lookup P root choose (S d) p / 4 = lookup P root choose d p.
  Proof.
    intros Hd Hs d p. unfold lookup. rewrite descend_S_end. unfold step.
    destruct (choose (descend P choose d (root p) p) p) as [c|] eqn:E.
    - apply Hd in E. lia.
    - exfalso. exact (Hs _ _ E).
  Qed.

  (* the range test on the implementation's ids is a complete monitor of [never_stuck]: a level
     at which no child accepted the point leaves an id that is too small *)
  Lemma stuck_forever n : forall id p, choose id p = None -> descend P choose n id p = id.
  Proof.
    induction n as [|n IH]; intros id p E; [reflexivity|].
    cbn [descend]. unfold step. rewrite E. apply IH. exact E.
  Qed.

  Lemma descend_upper n : digits_ok -> forall id p d,
    0 <= d -> id < 16 * 4 ^ d -> descend P choose n id p < 16 * 4 ^ (d + Z.of_nat n).
  Proof.
    intros Hd. induction n as [|n IH]; intros id p d Hd0 Hr.
    - simpl. rewrite Z.add_0_r. exact Hr.
    - cbn [descend]. replace (d + Z.of_nat (S n)) with ((d + 1) + Z.of_nat n) by lia.
      apply IH; [lia|]. unfold step. rewrite Z.pow_add_r by lia. change (4 ^ 1) with 4.
      assert (0 < 4 ^ d) by (apply Z.pow_pos_nonneg; lia).
      destruct (choose id p) as [c|] eqn:E; [apply Hd in E; lia | lia].
  Qed.

  Theorem range_monitor_complete : root_ok -> digits_ok -> forall d p,
    8 * 4 ^ Z.of_nat d <= lookup P root choose d p ->
    forall k, (k < d)%nat -> choose (lookup P root choose k p) p <> None.
  Proof.
    intros Hr Hd d p Hlow k Hk E. unfold lookup in *.
    replace d with (k + (d - k))%nat in Hlow at 2 by lia.
    rewrite descend_add in Hlow. rewrite (stuck_forever _ _ _ E) in Hlow.
    pose proof (descend_upper k Hd (root p) p 0 (Z.le_refl 0)) as Hu.
    rewrite Z.add_0_l in Hu. change (4 ^ 0) with 1 in Hu. specialize (Hr p).
    assert (Hu' : descend P choose k (root p) p < 16 * 4 ^ Z.of_nat k) by (apply Hu; lia).
    assert (Hp : 4 ^ Z.of_nat k <= 4 ^ (Z.of_nat d - 1)) by (apply Z.pow_le_mono_r; lia).
    assert (Hq : 4 ^ Z.of_nat d = 4 * 4 ^ (Z.of_nat d - 1)).
    { replace (Z.of_nat d) with (1 + (Z.of_nat d - 1)) at 1 by lia.
      rewrite Z.pow_add_r by lia. reflexivity. }
    lia.
  Qed.
End LookupProofs.

(* scalar call = array call: both go through atleast_1d and the same loop *)
Lemma lookup_id_elementwise {P} (root : P -> Z) choose depth (ps : list P) i d :
  (i < length ps)%nat ->
  exists l1 l2, lookup_id root choose depth (length ps) (length ps) ps = Ok l1
             /\ lookup_id root choose depth 1 1 [nth i ps d] = Ok l2
             /\ l2 = [nth i l1 0].
Proof.
  intro Hi. unfold lookup_id. rewrite !Nat.eqb_refl. eexists; eexists.
  split; [reflexivity|]. split; [reflexivity|]. simpl.
  rewrite (nth_indep _ 0 (lookup P root choose depth d)) by (rewrite map_length; exact Hi).
  rewrite map_nth. reflexivity.
Qed.

(* ------------------------------------------------------------------------------------------ *)
(* checkers                                                                                    *)
(* ------------------------------------------------------------------------------------------ *)
Lemma ids_check_sound : forall ids d, ids_check d ids = true -> ids_ok d ids.
Proof.
  induction ids as [|x t IH]; intros d H; simpl in *; [exact I|].
  apply andb_true_iff in H as [H H3]. apply andb_true_iff in H as [H1 H2].
  split; [unfold id_in_range_b in H1; unfold id_in_range; lia|].
  split; [destruct t; [exact I | lia] | apply IH; exact H3].
Qed.

Lemma memb_In x l : memb x l = true <-> In x l.
Proof.
  unfold memb. rewrite existsb_exists. split.
  - intros [y [Hy E]]. apply Z.eqb_eq in E. subst. exact Hy.
  - intro H. exists x. split; [exact H | apply Z.eqb_refl].
Qed.

Lemma covers_samples_sound incl ss : covers_samples_b incl ss = true -> covers_samples incl ss.
Proof.
  unfold covers_samples_b, covers_samples. rewrite forallb_forall. intros H id Hin.
  specialize (H _ Hin). simpl in H. apply memb_In. exact H.
Qed.

Lemma full_only_inside_sound full ss : full_only_inside_b full ss = true -> full_only_inside full ss.
Proof.
  unfold full_only_inside_b, full_only_inside. rewrite forallb_forall. intros H id Hin Hf.
  specialize (H _ Hin). simpl in H. apply memb_In in Hf. rewrite Hf in H. discriminate.
Qed.

Lemma strictly_incr_lb : forall l x, strictly_incr_b (x :: l) = true -> forall y, In y l -> x < y.
Proof.
  induction l as [|a t IH]; intros x H y Hy; [destruct Hy|].
  cbn [strictly_incr_b] in H. apply andb_true_iff in H as [H1 H2].
  destruct Hy as [->|Hy]; [lia|]. specialize (IH a H2 y Hy). lia.
Qed.

Lemma strictly_incr_NoDup : forall l, strictly_incr_b l = true -> NoDup l.
Proof.
  induction l as [|x t IH]; intro H; [constructor|].
  constructor.
  - intro Hin. pose proof (strictly_incr_lb t x H x Hin). lia.
  - apply IH. cbn [strictly_incr_b] in H. apply andb_true_iff in H as [_ H]. exact H.
Qed.

Lemma nodup_b_sound l : nodup_b l = true -> NoDup l.
Proof.
  unfold nodup_b. intro H. apply strictly_incr_NoDup in H.
  eapply Permutation_NoDup; [apply Permutation_sym, ZSort.Permuted_sort | exact H].
Qed.

Lemma perm_b_sound l1 l2 : perm_b l1 l2 = true -> Permutation l1 l2.
Proof.
  unfold perm_b. intro H. apply zlist_eqb_spec in H.
  eapply Permutation_trans; [apply ZSort.Permuted_sort|]. rewrite H.
  apply Permutation_sym, ZSort.Permuted_sort.
Qed.

Lemma rev_check_sound rev minid maxid ids2 leaves :
  rev_check rev minid maxid ids2 leaves = true -> rev_ok_on rev minid maxid ids2 leaves.
Proof.
  unfold rev_check, rev_ok_on. rewrite forallb_forall. intros H leaf Hin Hw.
  specialize (H _ Hin). rewrite Hw in H. apply perm_b_sound. exact H.
Qed.

Lemma cover_check_sound nbin ids2 binof cover :
  cover_check nbin ids2 binof cover = true -> cover_ok nbin ids2 binof cover.
Proof.
  unfold cover_check, cover_ok. intro H. apply andb_true_iff in H as [H1 H2].
  split; [apply nodup_b_sound; exact H1|].
  rewrite forallb_forall in H2. intros i2 Hin Hc. specialize (H2 _ Hin).
  rewrite Hc in H2. apply memb_In. exact H2.
Qed.

Lemma covers_check_sound nbin rev minid maxid ids2 binof : forall covers i1,
  covers_check nbin rev minid maxid ids2 binof i1 covers = true ->
  covers_ok nbin rev minid maxid ids2 binof i1 covers.
Proof.
  induction covers as [|c rest IH]; intros i1 H; simpl in *; [exact I|].
  apply andb_true_iff in H as [H H3]. apply andb_true_iff in H as [H1 H2].
  split; [apply cover_check_sound; exact H1|].
  split; [apply rev_check_sound; exact H2 | apply IH; exact H3].
Qed.

Lemma window_check_sound minid maxid ids2 :
  window_check minid maxid ids2 = true ->
  forall i2, In i2 (zseq 0 (length ids2)) -> in_window minid maxid (zget ids2 i2) = true.
Proof.
  unfold window_check. rewrite forallb_forall. intros H i2 Hin. apply H.
  assert (Hz : forall n s x, In x (zseq s n) -> s <= x < s + Z.of_nat n).
  { induction n as [|n IHn]; intros s x Hx; simpl in Hx; [destruct Hx|].
    destruct Hx as [<-|Hx]; [lia|]. apply IHn in Hx. lia. }
  apply Hz in Hin. unfold zget. apply nth_In. lia.
Qed.

(* ------------------------------------------------------------------------------------------ *)
(* the bin number: C cast versus floor, on exact rationals                                     *)
(* ------------------------------------------------------------------------------------------ *)
(* the cast and floor differ exactly on the negative non-integers *)
Theorem cast_vs_floor (q : Q) :
  radbin_cast q = radbin q <-> (0 <= Qnum q \/ (Qnum q) mod (Zpos (Qden q)) = 0).
Proof.
  unfold radbin_cast, radbin, Qfloor. destruct q as [n d]. cbn [Qnum Qden].
  pose proof (Pos2Z.is_pos d) as Hd. split.
  - intro H. destruct (Z_lt_le_dec n 0) as [Hn|Hn]; [right | left; exact Hn].
    pose proof (Z.quot_rem' n (Zpos d)) as Hq.
    pose proof (Z.rem_bound_pos_neg n (Zpos d) Hd (Z.lt_le_incl _ _ Hn)) as Hr.
    pose proof (Z.div_mod n (Zpos d)) as Hm.
    pose proof (Z.mod_pos_bound n (Zpos d) Hd) as Hb. nia.
  - intros [Hn|Hm]; [apply Z.quot_div_nonneg; lia|].
    apply Z.quot_div_exact; [lia|]. apply Z.mod_divide; [lia | exact Hm].
Qed.

(* floor on rationals: the bin number is k iff k <= q < k+1 *)
Theorem radbin_spec (q : Q) (k : Z) : radbin q = k <-> (inject_Z k <= q /\ q < inject_Z (k + 1))%Q.
Proof.
  unfold radbin. split.
  - intros <-. split; [apply Qfloor_le|]. apply Qlt_floor.
  - intros [H1 H2]. apply Z.le_antisymm.
    + assert (H : Qfloor q < k + 1).
      { apply Z.lt_nge. intro Hc. rewrite Zle_Qle in Hc.
        pose proof (Qfloor_le q). apply (Qlt_irrefl q).
        eapply Qlt_le_trans; [exact H2|]. eapply Qle_trans; [exact Hc | exact H]. }
      lia.
    + rewrite <- (Qfloor_Z k). apply Qfloor_resp_le. exact H1.
Qed.

(* the defect that was repaired: a quotient in (-1, 0) — a separation just below rmin — gets
   number 0 from the cast and -1 from floor *)
Theorem cast_counts_below_rmin (q : Q) : (inject_Z (-1) < q)%Q -> (q < 0)%Q ->
  radbin_cast q = 0 /\ radbin q = -1.
Proof.
  intros H1 H2. split.
  - unfold radbin_cast. destruct q as [n d]. unfold Qlt in *. cbn [Qnum Qden inject_Z] in *.
    apply Z.quot_small_iff; lia.
  - apply radbin_spec. split; [apply Qlt_le_weak; exact H1 | exact H2].
Qed.

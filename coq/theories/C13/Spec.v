(* C13 — the property as Props, the boolean checkers run on the implementation's outputs, and the
   decidable class of the known finding. *)
From Coq Require Import QArith Qround Qabs Sorting.Permutation Sorting.Mergesort Orders.
From EsVerif.Common Require Import Base.
From EsVerif.C13 Require Import Model.

(* ---------------------------------------------------------------------------------------- *)
(* ids                                                                                        *)
(* ---------------------------------------------------------------------------------------- *)
Definition id_in_range (d : Z) (id : Z) : Prop := 8 * 4 ^ d <= id < 16 * 4 ^ d.
Definition id_in_range_b (d : Z) (id : Z) : bool := (8 * 4 ^ d <=? id) && (id <? 16 * 4 ^ d).

(* the ids of ONE position at depths d0, d0+1, ... : each in range, each the parent of the next *)
Fixpoint ids_ok (d : Z) (ids : list Z) : Prop :=
  match ids with
  | [] => True
  | x :: t => id_in_range d x
              /\ match t with [] => True | y :: _ => y / 4 = x end
              /\ ids_ok (d + 1) t
  end.
Fixpoint ids_check (d : Z) (ids : list Z) : bool :=
  match ids with
  | [] => true
  | x :: t => id_in_range_b d x
              && match t with [] => true | y :: _ => y / 4 =? x end
              && ids_check (d + 1) t
  end.

(* ---------------------------------------------------------------------------------------- *)
(* intersect                                                                                  *)
(* ---------------------------------------------------------------------------------------- *)
Definition memb (x : Z) (l : list Z) : bool := existsb (Z.eqb x) l.

(* A sampled position: the id of its triangle (from lookup_id at the same depth) and on which side
   of the circle it lies.  [Border] = closer to the circle than the statement constrains. *)
Inductive side := Inside | Outside | Border.
Definition sample := (Z * side)%type.

(* every position inside the circle has its triangle in the inclusive list *)
Definition covers_samples (incl : list Z) (ss : list sample) : Prop :=
  forall id, In (id, Inside) ss -> In id incl.
(* the triangles reported as fully inside contain only positions inside the circle *)
Definition full_only_inside (full : list Z) (ss : list sample) : Prop :=
  forall id, In (id, Outside) ss -> ~ In id full.

Definition side_eqb (a b : side) : bool :=
  match a, b with Inside, Inside | Outside, Outside | Border, Border => true | _, _ => false end.
Definition covers_samples_b (incl : list Z) (ss : list sample) : bool :=
  forallb (fun s : sample => if side_eqb (snd s) Inside then memb (fst s) incl else true) ss.
Definition full_only_inside_b (full : list Z) (ss : list sample) : bool :=
  forallb (fun s : sample => if side_eqb (snd s) Outside then negb (memb (fst s) full) else true) ss.

(* ---------------------------------------------------------------------------------------- *)
(* reverse indices, covers                                                                    *)
(* ---------------------------------------------------------------------------------------- *)
Definition in_window (minid maxid x : Z) : bool := (minid <=? x) && (x <=? maxid).

(* What the pair counting needs of the reverse-index array of esutil.stat.histogram
   (C05's layout): for a leaf id inside the window, rev[rev[b] .. rev[b+1]-1] with
   b = leaf - minid lists exactly the points of the second list whose id is that leaf,
   each once (any order). *)
Definition rev_ok_on (rev : Z -> Z) (minid maxid : Z) (ids2 : list Z) (leaves : list Z) : Prop :=
  forall leaf, In leaf leaves -> in_window minid maxid leaf = true ->
    Permutation (slice rev (leaf - minid))
                (filter (fun i2 => zget ids2 i2 =? leaf) (zseq 0 (length ids2))).

(* the pair is counted in some bin *)
Definition counted (nbin : Z) (ob : option Z) : bool :=
  match ob with Some k => (0 <=? k) && (k <? nbin) | None => false end.

(* H_cover for one point of the first list: the listed triangles are distinct and every point of
   the second list that lands in a bin lies in a listed triangle *)
Definition cover_ok (nbin : Z) (ids2 : list Z) (binof : Z -> option Z) (cover : list Z) : Prop :=
  NoDup cover
  /\ forall i2, In i2 (zseq 0 (length ids2)) -> counted nbin (binof i2) = true -> In (zget ids2 i2) cover.

Fixpoint covers_ok (nbin : Z) (rev : Z -> Z) (minid maxid : Z) (ids2 : list Z) (binof : Z -> Z -> option Z)
         (i1 : Z) (covers : list (list Z)) : Prop :=
  match covers with
  | [] => True
  | c :: rest => cover_ok nbin ids2 (binof i1) c /\ rev_ok_on rev minid maxid ids2 c
                 /\ covers_ok nbin rev minid maxid ids2 binof (i1 + 1) rest
  end.

(* brute force: the number of ALL pairs (i1, i2) whose bin number is k *)
Definition is_bin (ob : option Z) (k : Z) : bool :=
  match ob with Some j => j =? k | None => false end.
Definition count_in (f : Z -> option Z) (k : Z) (l : list Z) : Z :=
  Z.of_nat (length (filter (fun x => is_bin (f x) k) l)).
Fixpoint brute (binof : Z -> Z -> option Z) (n2 : nat) (k : Z) (i1 : Z) (n1 : nat) : Z :=
  match n1 with
  | O => 0
  | S m => count_in (binof i1) k (zseq 0 n2) + brute binof n2 k (i1 + 1) m
  end.

(* ---- boolean monitors of the hypotheses, evaluated on every case *)
Module ZOrder <: TotalLeBool.
  Definition t := Z.
  Definition leb := Z.leb.
  Theorem leb_total : forall a1 a2, leb a1 a2 = true \/ leb a2 a1 = true.
  Proof. intros a b. unfold leb. destruct (Z.leb_spec a b); [left; reflexivity | right; apply Z.leb_le; lia]. Qed.
End ZOrder.
Module ZSort := Sort ZOrder.

Fixpoint strictly_incr_b (l : list Z) : bool :=
  match l with
  | [] => true
  | x :: t => match t with [] => true | y :: _ => x <? y end && strictly_incr_b t
  end.
Definition nodup_b (l : list Z) : bool := strictly_incr_b (ZSort.sort l).
Definition perm_b (l1 l2 : list Z) : bool := zlist_eqb (ZSort.sort l1) (ZSort.sort l2).

Definition rev_check (rev : Z -> Z) (minid maxid : Z) (ids2 : list Z) (leaves : list Z) : bool :=
  forallb (fun leaf =>
             if in_window minid maxid leaf
             then perm_b (slice rev (leaf - minid))
                         (filter (fun i2 => zget ids2 i2 =? leaf) (zseq 0 (length ids2)))
             else true) leaves.

Definition cover_check (nbin : Z) (ids2 : list Z) (binof : Z -> option Z) (cover : list Z) : bool :=
  nodup_b cover
  && forallb (fun i2 => if counted nbin (binof i2) then memb (zget ids2 i2) cover else true)
             (zseq 0 (length ids2)).

Fixpoint covers_check (nbin : Z) (rev : Z -> Z) (minid maxid : Z) (ids2 : list Z) (binof : Z -> Z -> option Z)
         (i1 : Z) (covers : list (list Z)) : bool :=
  match covers with
  | [] => true
  | c :: rest => cover_check nbin ids2 (binof i1) c && rev_check rev minid maxid ids2 c
                 && covers_check nbin rev minid maxid ids2 binof (i1 + 1) rest
  end.

Definition window_check (minid maxid : Z) (ids2 : list Z) : bool :=
  forallb (in_window minid maxid) ids2.

(* ---------------------------------------------------------------------------------------- *)
(* known finding C13.kf_cos_resolution                                                        *)
(* ---------------------------------------------------------------------------------------- *)
(* The HTM code represents a circle by the double nearest to the cosine of its radius (htmc.cc:
   d = cos(radius*D2R), SpatialDomain::setRaDecD).  A position is *unresolved* with respect to a
   circle when the cosines of its separation from the centre and of the radius differ by at most
   2e-15 (about 18 half-ulps of a cosine near 1): such a position may be treated as lying on either
   side by intersect, and a pair at such a separation from the outer edge rmax may be missing from
   the cover used by bincount.  [dcos] = cos(sep) - cos(circle radius). *)
Definition kf_cos_resolution (dcos : Q) : bool := Qle_bool (Qabs dcos) (2 # 1000000000000000).

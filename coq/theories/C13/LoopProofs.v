(* C13 — the stateful loop of LoopModel.v equals Model.count_all on the covers and bin numbers that
   belong to each point's OWN scale. *)
From Coq Require Import ZArith List Bool Lia ZifyBool ZifyNat.
From EsVerif.Common Require Import Base.
From EsVerif.C13 Require Import Model LoopModel.
Import ListNotations.
Open Scope Z_scope.

Section CapLoopProofs.
  Variables S L D P : Type.
  Variable one : S.
  Variable zeroL : L.
  Variable log10S : S -> L.
  Variable cap : bool -> S -> D.
  Variable cover : P -> D -> list Z.
  Variable binof_s : bool -> S -> L -> P -> Z -> option Z.
  Variable dS : S.
  Variable scales : option (list S).
  Variable pt : Z -> P.
  Variable nbin : Z.
  Variable rev : Z -> Z.
  Variables minid maxid : Z.

  Notation state_of := (state_of S L one zeroL log10S dS scales).
  Notation cover_of := (cover_of S L D P one zeroL log10S cap cover dS scales pt).
  Notation binof_of := (binof_of S L P one zeroL log10S binof_s dS scales pt).
  Notation loop := (loop S L D P log10S cap cover binof_s dS scales pt nbin rev minid maxid).
  Notation st0 := (st0 S L one zeroL log10S dS scales).
  Notation nscale := (nscale S scales).

  (* the only thing the loop remembers from earlier iterations is irrelevant or constant *)
  Lemma loop_spec_gen : forall n i st counts,
    (1 <? nscale = false -> st = st0) ->
    loop n i st counts
    = count_all nbin rev minid maxid binof_of i (map cover_of (zseq i n)) counts.
  Proof.
    induction n as [|n IH]; intros i st counts Hst; [reflexivity|].
    cbn [LoopModel.loop zseq map count_all]. unfold iter.
    assert (E : (if 1 <? nscale then (scale_at S dS scales i, log10S (scale_at S dS scales i)) else st) = state_of i).
    { unfold LoopModel.state_of. destruct (1 <? nscale) eqn:Em; [reflexivity|]. apply Hst. reflexivity. }
    rewrite E. rewrite IH.
    - reflexivity.
    - intro Em. unfold LoopModel.state_of. rewrite Em. reflexivity.
  Qed.

  Theorem loop_spec n1 :
    cbincount_loop S L D P one zeroL log10S cap cover binof_s dS scales pt nbin rev minid maxid n1
    = cbincount nbin rev minid maxid binof_of (map cover_of (zseq 0 n1)).
  Proof. unfold cbincount_loop, cbincount. apply loop_spec_gen. intros _. reflexivity. Qed.

End CapLoopProofs.

(* which scale is in force for point i *)
Theorem state_of_cases (S L : Type) (one : S) (zeroL : L) (log10S : S -> L) (dS : S) (scales : option (list S)) i :
  (scales = None -> state_of S L one zeroL log10S dS scales i = (one, zeroL))
  /\ (forall s, scales = Some [s] -> state_of S L one zeroL log10S dS scales i = (s, log10S s))
  /\ (forall l, scales = Some l -> (1 < length l)%nat ->
        state_of S L one zeroL log10S dS scales i = (nth (Z.to_nat i) l dS, log10S (nth (Z.to_nat i) l dS))).
Proof.
  unfold LoopModel.state_of, LoopModel.st0, LoopModel.nscale, LoopModel.scale_at. split; [|split].
  - intros ->. reflexivity.
  - intros s ->. reflexivity.
  - intros l -> Hl. destruct (1 <? Z.of_nat (length l)) eqn:E; [reflexivity|lia].
Qed.

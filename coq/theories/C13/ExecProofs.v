(* C13 — what the verdict of a bincount case means: soundness of Exec.bc_ok with respect to the
   brute-force counts of Spec.v. *)
From Coq Require Import QArith ZifyBool ZifyNat Lia.
From EsVerif.Common Require Import Base.
From EsVerif.C13 Require Import Model Spec Proofs CountProofs Exec.
Open Scope Z_scope.

Lemma between_spec (f g : Z -> Z) : forall n s o,
  between (map f (zseq s n)) (map g (zseq s n)) o = true ->
  length o = n /\ forall k, s <= k < s + Z.of_nat n -> f k <= zget o (k - s) <= f k + g k.
Proof.
  induction n as [|n IH]; intros s o H.
  - destruct o; [|discriminate]. split; [reflexivity|]. intros k Hk. lia.
  - cbn [zseq map between] in H. destruct o as [|x o]; [discriminate|].
    apply andb_prop in H. destruct H as [H H3]. apply andb_prop in H. destruct H as [H1 H2].
    apply IH in H3. destruct H3 as [Hl Hk]. split; [cbn [length]; lia|].
    intros k Hr. destruct (Z.eq_dec k s) as [->|Hne].
    + replace (s - s) with 0 by lia. unfold zget. cbn [Z.to_nat nth]. lia.
    + specialize (Hk k ltac:(lia)). unfold zget in *.
      replace (Z.to_nat (k - s)) with (S (Z.to_nat (k - (s + 1)))) by lia. cbn [nth]. exact Hk.
Qed.

Lemma forallb_eqb_all (o : list Z) : forall rest, forallb (zlist_eqb o) rest = true -> forall r, In r rest -> r = o.
Proof.
  induction rest as [|a rest IH]; intros H r Hin; [destruct Hin|].
  cbn [forallb] in H. apply andb_prop in H. destruct H as [Ha Hr]. destruct Hin as [<-|Hin].
  - apply zlist_eqb_spec in Ha. symmetry. exact Ha.
  - apply IH; assumption.
Qed.

(* strict verdict: for every bin, (number of ALL pairs whose bin is determined to be k) <= count <=
   that number + (number of ALL pairs within 1e-9 relative of an edge of bin k); every call with
   precomputed ids / reverse indices / window returned the same counts; and the hypotheses of
   C13_bincount (H_cover, reverse-index layout, window) hold on this case *)
Theorem bc_ok_sound nbin minid maxid runs ids2 covers pairs o rest :
  0 <= nbin ->
  bc_ok false nbin minid maxid runs ids2 covers pairs [] (o :: rest) = true ->
  let binof := binof_def false nbin pairs [] in
  length o = Z.to_nat nbin
  /\ (forall k, 0 <= k < nbin ->
        brute binof (length ids2) k 0 (length covers) <= zget o k
        <= brute binof (length ids2) k 0 (length covers)
           + amb_count (all_ranges false nbin ids2 covers pairs []) k)
  /\ (forall r, In r rest -> r = o)
  /\ covers_ok nbin (revf runs) minid maxid ids2 binof 0 covers
  /\ (forall i2, In i2 (zseq 0 (length ids2)) -> in_window minid maxid (zget ids2 i2) = true).
Proof.
  intros Hn H binof. unfold bc_ok in H.
  apply andb_prop in H. destruct H as [H Hm]. apply andb_prop in H. destruct H as [Hb Hr].
  unfold brute_lo, brute_amb, bins in Hb. apply between_spec in Hb. destruct Hb as [Hl Hk].
  unfold monitors in Hm. apply andb_prop in Hm. destruct Hm as [Hw Hc].
  split; [exact Hl|]. split.
  - intros k Hk0. specialize (Hk k ltac:(lia)). replace (k - 0) with k in Hk by lia.
    unfold n1, n2 in Hk. exact Hk.
  - split; [apply forallb_eqb_all; exact Hr|]. split.
    + apply covers_check_sound. exact Hc.
    + apply window_check_sound. exact Hw.
Qed.

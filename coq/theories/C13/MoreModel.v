(* C13 — further parts of htm.py in the model (no proofs here):
   1. the argument validation of HTM.lookup_id / HTM.bincount (which calls are rejected, with which error class);
   2. N-d coordinate arrays: `.astype('f8').ravel()` flattens in C (row-major) order;
   3. an HTM object as a state machine: the state is the depth given at construction; no call changes it. *)
From Coq Require Import ZArith List Bool.
From EsVerif.Common Require Import Base.
From EsVerif.C13 Require Import Model.
Import ListNotations.
Open Scope Z_scope.

(* ---- 1. validation (htm.py: lookup_id `if ra.size != dec.size: raise ValueError`; bincount, in this order:
   `if ra1.size != dec1.size or ra2.size != ra2.size: raise ValueError`  (sic: ra2 is compared with itself; [typo] =
   true models that spelling, false the spelling `ra2.size != dec2.size`; the translator reports which one the
   source has), `if scale is not None: ... if scale.size != 1 and scale.size != ra1.size: raise ValueError`,
   `if htmid2 is None: htmid2 = self.lookup_id(ra2, dec2)` (which raises ValueError when ra2.size != dec2.size)
   `else: ... if htmid2.size != ra2.size: raise ValueError`) *)
Record bc_sizes := { n_ra1 : nat; n_dec1 : nat; n_ra2 : nat; n_dec2 : nat; n_scale : option nat; n_htmid2 : option nat }.

Definition lookup_validate (n_ra n_dec : nat) : result unit :=
  if Nat.eqb n_ra n_dec then Ok tt else Err EValue.

Definition bincount_validate (typo : bool) (z : bc_sizes) : result unit :=
  if negb (Nat.eqb (n_ra1 z) (n_dec1 z)) || negb (Nat.eqb (n_ra2 z) (if typo then n_ra2 z else n_dec2 z)) then Err EValue
  else if match n_scale z with
          | Some k => negb (Nat.eqb k 1) && negb (Nat.eqb k (n_ra1 z))
          | None => false
          end then Err EValue
  else match n_htmid2 z with
       | Some k => if negb (Nat.eqb k (n_ra2 z)) then Err EValue else Ok tt
       | None => lookup_validate (n_ra2 z) (n_dec2 z)      (* htmid2 = self.lookup_id(ra2, dec2) has its own size test *)
       end.

(* 0 = accepted, 1 = ValueError; what the generated case files compare with the real code *)
Definition result_code (r : result unit) : Z := match r with Ok _ => 0 | Err EValue => 1 | Err _ => 2 end.

(* ---- 2. N-d arrays, as the list of their rows (2-d) *)
Definition ravel_c {A} (rows : list (list A)) : list A := concat rows.
Definition lookup_id_2d {P} (root : P -> Z) (choose : Z -> P -> option Z) (depth : nat) (rows : list (list P)) : result (list Z) :=
  let flat := ravel_c rows in lookup_id root choose depth (length flat) (length flat) flat.
(* what numpy's ravel(order='K') does to a Fortran-ordered array: memory (column-major) order *)
Fixpoint heads {A} (rows : list (list A)) : list A :=
  match rows with [] => [] | [] :: r => heads r | (x :: _) :: r => x :: heads r end.
Fixpoint tails {A} (rows : list (list A)) : list (list A) :=
  match rows with [] => [] | [] :: r => tails r | (_ :: t) :: r => t :: tails r end.
Fixpoint ravel_f {A} (ncols : nat) (rows : list (list A)) : list A :=
  match ncols with O => [] | S k => heads rows ++ ravel_f k (tails rows) end.

(* ---- 3. the object *)
Record htm_obj := { o_depth : nat }.

Section Object.
  Variable P C : Type.                           (* positions; circles (centre, radius) *)
  Variable root : P -> Z.
  Variable choose : nat -> Z -> P -> option Z.   (* the child choice depends on the depth through the stored levels *)
  Variable cover : nat -> C -> list Z * list Z.  (* SpatialDomain::intersect at this depth: (full, partial) *)

  Inductive call :=
  | CLookup (n_ra n_dec : nat) (ps : list P)
  | CIntersect (c : C) (inclusive : bool).

  Inductive answer :=
  | AIds (r : result (list Z))
  | AList (l : list Z).

  Definition answer_of (o : htm_obj) (c : call) : answer :=
    match c with
    | CLookup n_ra n_dec ps => AIds (lookup_id root (choose (o_depth o)) (o_depth o) n_ra n_dec ps)
    | CIntersect ci inclusive => let '(f, p) := cover (o_depth o) ci in AList (intersect_out inclusive f p)
    end.

  (* one call on the object: the new state and the answer *)
  Definition step (o : htm_obj) (c : call) : htm_obj * answer := (o, answer_of o c).

  Fixpoint run (o : htm_obj) (cs : list call) : htm_obj * list answer :=
    match cs with
    | [] => (o, [])
    | c :: rest => let '(o1, a) := step o c in let '(o2, l) := run o1 rest in (o2, a :: l)
    end.
End Object.

(* C13 — the loop of HTMC::cbincount over the first list WITH its mutable state (htmc.cc: `double
   scale=1, logscale=0;` before the loop; `if (nscale==1) {scale = ...; logscale = log10(scale);}`
   once; inside the loop, in this order: `if (nscale > 1) {scale = scale_array[i1]; logscale =
   log10(scale);}`, `maxangle = rmax/scale`, the search cap d from maxangle, `ra1/dec1 = ...[i1]`,
   `domain.setRaDecD(ra1,dec1,d); domain.intersect(...)`, the traversal of the listed triangles and,
   per pair, `dis <= maxangle`, `logr = logscale + log10(dis)`).  Model.count_all takes the covers as
   a given list; here they are COMPUTED inside the loop from the state, so that "the cap and the bin
   numbers of point i use the scale of point i" is a theorem (LoopProofs.loop_spec) instead of a
   convention of the harness.  No proofs here.

   Abstract (Section variables, no hypotheses needed): the type S of scale values, L of their
   logarithms, D of cap cosines, P of positions; [log10S], [cap], [cover] (SpatialDomain::intersect,
   full nodes then partial nodes) and [binof_s] (the bin number of a pair from maxangle's scale, the
   logscale, the point and the index of the second point) stand for the floating-point code. *)
From Coq Require Import ZArith List Bool.
From EsVerif.Common Require Import Base.
From EsVerif.C13 Require Import Model.
Import ListNotations.
Open Scope Z_scope.

Section CapLoop.
  Variables S L D P : Type.
  Variable one : S.                         (* double scale = 1 *)
  Variable zeroL : L.                       (* double logscale = 0 *)
  Variable log10S : S -> L.
  Variable cap : bool -> S -> D.            (* degrees? -> scale -> d = cos(maxangle [*D2R] + margin) *)
  Variable cover : P -> D -> list Z.
  Variable binof_s : bool -> S -> L -> P -> Z -> option Z.
  Variable dS : S.                          (* what an out-of-range read of scale_array would give (never used) *)

  Variable scales : option (list S).        (* scale_array: None | the array *)
  Variable pt : Z -> P.                     (* (ra1[i], dec1[i]) *)
  Variable nbin : Z.
  Variable rev : Z -> Z.
  Variables minid maxid : Z.

  Definition degrees : bool := match scales with None => true | Some _ => false end.
  Definition nscale : Z := match scales with None => 0 | Some l => Z.of_nat (length l) end.
  Definition scale_at (i : Z) : S := match scales with None => dS | Some l => nth (Z.to_nat i) l dS end.

  (* the state before the loop *)
  Definition st0 : S * L :=
    if nscale =? 1 then (scale_at 0, log10S (scale_at 0)) else (one, zeroL).

  (* one iteration: returns the new state and the new counts *)
  Definition iter (i1 : Z) (st : S * L) (counts : list Z) : (S * L) * list Z :=
    let st' := if 1 <? nscale then (scale_at i1, log10S (scale_at i1)) else st in
    let d := cap degrees (fst st') in
    let p := pt i1 in
    let cv := cover p d in
    (st', count_point nbin (binof_s degrees (fst st') (snd st') p) (candidates rev minid maxid cv) counts).

  Fixpoint loop (n : nat) (i1 : Z) (st : S * L) (counts : list Z) : list Z :=
    match n with
    | O => counts
    | Datatypes.S m => let '(st', c') := iter i1 st counts in loop m (i1 + 1) st' c'
    end.

  Definition cbincount_loop (n1 : nat) : list Z := loop n1 0 st0 (repeat 0 (Z.to_nat nbin)).

  (* ---- the specification: the state in force for point i, as a function of i alone *)
  Definition state_of (i : Z) : S * L :=
    if 1 <? nscale then (scale_at i, log10S (scale_at i)) else st0.
  Definition cover_of (i : Z) : list Z := cover (pt i) (cap degrees (fst (state_of i))).
  Definition binof_of (i1 i2 : Z) : option Z :=
    binof_s degrees (fst (state_of i1)) (snd (state_of i1)) (pt i1) i2.
End CapLoop.

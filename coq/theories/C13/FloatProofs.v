(* C13 — proofs about the concrete (PrimFloat) choice function of FloatModel.v: it is an instance of
   the abstract descent of Model.v for which digits_ok holds by construction, so that the id range
   and the hierarchy hold under the ONLY hypothesis that some root / child triangle accepts the
   position (which the range test monitors, C13_range_monitor_complete). *)
From Coq Require Import ZArith List Bool Lia ZifyBool ZifyNat PrimFloat.
From EsVerif.Common Require Import Base.
From EsVerif.C13 Require Import Model Spec Proofs FloatModel.
Import ListNotations.
Open Scope Z_scope.

(* ---- the descent looks at [root] and [choose] only at the position it is run on *)
Section AtPoint.
  Variable P : Type.
  Variable root : P -> Z.
  Variable choose : Z -> P -> option Z.
  Variable p : P.

  Definition root_at : unit -> Z := fun _ => root p.
  Definition choose_at : Z -> unit -> option Z := fun id _ => choose id p.

  Lemma descend_at n : forall id, descend unit choose_at n id tt = descend P choose n id p.
  Proof. induction n as [|n IH]; intro id; [reflexivity|]. cbn [descend]. rewrite <- IH. reflexivity. Qed.

  Lemma lookup_at d : lookup unit root_at choose_at d tt = lookup P root choose d p.
  Proof. unfold lookup, root_at. apply descend_at. Qed.
End AtPoint.

(* ---- two choice functions that agree on the ids of the levels visited give the same descent *)
Definition in_level (l : Z) (id : Z) : Prop := 8 * 4 ^ l <= id < 16 * 4 ^ l.

Lemma descend_ext {P} (c1 c2 : Z -> P -> option Z) (p : P) :
  (forall id c, c1 id p = Some c -> 0 <= c < 4) -> (forall id, c1 id p <> None) ->
  forall n id l, 0 <= l -> in_level l id ->
    (forall id' l', l <= l' < l + Z.of_nat n -> in_level l' id' -> c1 id' p = c2 id' p) ->
    descend P c1 n id p = descend P c2 n id p.
Proof.
  intros Hd Hs. induction n as [|n IH]; intros id l Hl Hin Hag; [reflexivity|].
  cbn [descend].
  assert (Es : step P c2 id p = step P c1 id p).
  { unfold step. rewrite <- (Hag id l) by (try assumption; lia). reflexivity. }
  rewrite Es. unfold step.
  destruct (c1 id p) as [c|] eqn:E; [|exfalso; exact (Hs _ E)].
  apply (IH _ (l + 1)); [lia| |].
  - apply Hd in E. unfold in_level in *. rewrite Z.pow_add_r by lia. change (4 ^ 1) with 4. lia.
  - intros id' l' Hl' Hin'. apply (Hag id' l'); [lia | exact Hin'].
Qed.

(* ---- the level of an id *)
Lemma level_of_id_in_level l id : 0 <= l -> in_level l id -> level_of_id id = l.
Proof.
  intros Hl [Hlo Hhi]. unfold level_of_id.
  assert (E : 4 ^ l = 2 ^ (2 * l)) by (rewrite Z.pow_mul_r by lia; reflexivity).
  assert (Hlog : Z.log2 id = 2 * l + 3).
  { apply Z.log2_unique; [lia|]. replace (Z.succ (2 * l + 3)) with (2 * l + 4) by lia.
    rewrite !Z.pow_add_r by lia. rewrite <- E.
    change (2 ^ 3) with 8. change (2 ^ 4) with 16. lia. }
  rewrite Hlog. replace (2 * l + 3 - 3) with (l * 2) by lia. apply Z.div_mul. lia.
Qed.

(* ---- digits_ok by construction *)
Lemma first_inside_digit eps t v c : first_inside eps t v = Some c -> 0 <= c < 4.
Proof.
  unfold first_inside.
  repeat match goal with |- context [if ?b then _ else _] => destruct b end;
    intro H; inversion H; lia.
Qed.

Lemma chooseF_digits eps build : digits_ok vec (chooseF eps build).
Proof.
  intros id v c. unfold chooseF. destruct (first_inside eps (tri_of_id id) v) as [c'|] eqn:E.
  - intro H. injection H as <-. exact (first_inside_digit _ _ _ _ E).
  - destruct (level_of_id id <? build); intro H; inversion H; lia.
Qed.

(* the stored levels never get stuck (SpatialIndex.cpp:513-519 falls through to child 3) *)
Lemma chooseF_stored eps build id v : level_of_id id < build -> chooseF eps build id v <> None.
Proof.
  intro H. unfold chooseF. destruct (first_inside eps (tri_of_id id) v); [discriminate|].
  destruct (Z.ltb_spec (level_of_id id) build); [discriminate | lia].
Qed.

(* the root loop returns 0 or one of 8..15 *)
Lemma rootF_cases eps v : rootF eps v = 0 \/ 8 <= rootF eps v < 16.
Proof.
  unfold rootF. destruct (find _ roots) as [e|] eqn:E; [|left; reflexivity]. right.
  apply find_some in E. destruct E as [Hin _]. unfold roots in Hin. cbn [In] in Hin.
  repeat (destruct Hin as [<-|Hin]; [cbn [fst]; lia|]). contradiction.
Qed.

(* two build levels that classify the levels below d in the same way *)
Lemma buildlevel_below save d l : 0 <= l < d ->
  (l <? buildlevel save d) = (l <? buildlevel save (d + 1)).
Proof. intro H. unfold buildlevel. destruct (save =? 0) eqn:E1, (d <? save) eqn:E2, (d + 1 <? save) eqn:E3; cbn [orb]; lia. Qed.

Section Concrete.
  Variable eps : float.
  Variable save : Z.
  Variable v : vec.

  (* "some root triangle and, at every dynamic level, some child accepts the position" *)
  Definition accepted (depth : nat) : Prop :=
    8 <= rootF eps v < 16 /\ forall id, chooseF eps (buildlevel save (Z.of_nat depth)) id v <> None.

  Theorem concrete_id_range depth : accepted depth ->
    8 * 4 ^ Z.of_nat depth <= lookupF eps save depth v < 16 * 4 ^ Z.of_nat depth.
  Proof.
    intros [Hr Hs]. unfold lookupF.
    rewrite <- (lookup_at vec (rootF eps) (chooseF eps (buildlevel save (Z.of_nat depth))) v depth).
    apply id_range.
    - intros []. exact Hr.
    - intros id [] c. apply chooseF_digits.
    - intros id []. apply Hs.
  Qed.

  (* the id at depth d+1 is a child of the id at depth d, although the two calls keep different
     numbers of stored levels when d < saveDepth *)
  Theorem concrete_hierarchy d : accepted (S d) ->
    lookupF eps save (S d) v / 4 = lookupF eps save d v.
  Proof.
    intros [Hr Hs]. unfold lookupF.
    set (b2 := buildlevel save (Z.of_nat (S d))) in *.
    set (b1 := buildlevel save (Z.of_nat d)).
    transitivity (lookup vec (rootF eps) (chooseF eps b2) d v).
    - rewrite <- (lookup_at vec (rootF eps) (chooseF eps b2) v (S d)).
      rewrite <- (lookup_at vec (rootF eps) (chooseF eps b2) v d).
      apply hierarchy.
      + intros id [] c. apply chooseF_digits.
      + intros id []. apply Hs.
    - unfold lookup. apply (descend_ext _ _ v) with (l := 0).
      + intros id c. apply chooseF_digits.
      + exact Hs.
      + lia.
      + unfold in_level. change (4 ^ 0) with 1. lia.
      + intros id' l' Hl' Hin. unfold chooseF.
        rewrite (level_of_id_in_level l' id') by (try assumption; lia).
        unfold b1, b2. replace (Z.of_nat (S d)) with (Z.of_nat d + 1) by lia.
        rewrite (buildlevel_below save (Z.of_nat d) l') by lia. reflexivity.
  Qed.
End Concrete.

(* ------------------------------------------------------------------------------------------ *)
(* the single-pass evaluation used by the case files (the triangle is carried along, as in the  *)
(* C++) equals the instance of Model.lookup                                                     *)
(* ------------------------------------------------------------------------------------------ *)
Lemma digits_from_acc n : forall id acc, digits_from n id acc = digits_from n id [] ++ acc.
Proof.
  induction n as [|n IH]; intros id acc; [reflexivity|].
  cbn [digits_from]. rewrite (IH (id / 4) (id mod 4 :: acc)), (IH (id / 4) [id mod 4]).
  rewrite <- app_assoc. reflexivity.
Qed.

Lemma in_level_child l id c : 0 <= l -> in_level l id -> 0 <= c < 4 -> in_level (l + 1) (4 * id + c).
Proof. intros Hl H Hc. unfold in_level in *. rewrite Z.pow_add_r by lia. change (4 ^ 1) with 4. lia. Qed.

Lemma tri_of_id_child l id c : 0 <= l -> in_level l id -> 0 <= c < 4 ->
  tri_of_id (4 * id + c) = child_tri (tri_of_id id) c.
Proof.
  intros Hl Hin Hc. unfold tri_of_id.
  rewrite (level_of_id_in_level (l + 1) (4 * id + c)) by (try apply in_level_child; try assumption; lia).
  rewrite (level_of_id_in_level l id) by assumption.
  replace (Z.to_nat (l + 1)) with (S (Z.to_nat l)) by lia.
  cbn [digits_from]. rewrite digits_from_acc.
  replace ((4 * id + c) / 4) with id by lia. replace ((4 * id + c) mod 4) with c by lia.
  rewrite fold_left_app. cbn [fold_left]. f_equal. f_equal. f_equal.
  rewrite !Z2Nat.id by lia. replace (Z.of_nat (S (Z.to_nat l))) with (l + 1) by lia.
  rewrite Z.pow_add_r by lia. change (4 ^ 1) with 4.
  assert (0 < 4 ^ l) by (apply Z.pow_pos_nonneg; lia).
  rewrite (Z.mul_comm (4 ^ l) 4). rewrite <- Z.div_div by lia.
  replace ((4 * id + c) / 4) with id by lia. reflexivity.
Qed.

Lemma descendF_descend eps build v : forall n lev l id,
  0 <= l -> in_level l id -> (l = lev \/ build <= l <= lev) ->
  descendF eps build n lev id (tri_of_id id) v = descend vec (chooseF eps build) n id v.
Proof.
  induction n as [|n IH]; intros lev l id Hl Hin Hlev; [reflexivity|].
  cbn [descendF descend]. unfold step, chooseF. rewrite (level_of_id_in_level l id) by assumption.
  destruct (first_inside eps (tri_of_id id) v) as [c|] eqn:E.
  - pose proof (first_inside_digit _ _ _ _ E) as Hc.
    rewrite <- (tri_of_id_child l id c) by assumption.
    apply (IH (lev + 1) (l + 1)); [lia | apply in_level_child; assumption | lia].
  - assert (Eb : (lev <? build) = (l <? build)) by lia. rewrite Eb.
    destruct (l <? build) eqn:Eq.
    + rewrite <- (tri_of_id_child l id 3) by (try assumption; lia).
      apply (IH (lev + 1) (l + 1)); [lia | apply in_level_child; try assumption; lia | lia].
    + apply (IH (lev + 1) l); [lia | assumption | lia].
Qed.

Lemma tri_of_id_root r : 8 <= r < 16 -> tri_of_id r = tri_of_root r.
Proof.
  intro H. unfold tri_of_id. rewrite (level_of_id_in_level 0 r); [|lia|unfold in_level; change (4 ^ 0) with 1; lia].
  cbn [Z.to_nat digits_from fold_left]. change (4 ^ Z.of_nat 0) with 1. rewrite Z.div_1_r. reflexivity.
Qed.

Theorem lookupF_fast_correct eps save depth v : 8 <= rootF eps v < 16 ->
  lookupF_fast eps save depth v = lookupF eps save depth v.
Proof.
  intro Hr. unfold lookupF_fast, lookupF, lookup. rewrite <- (tri_of_id_root _ Hr).
  apply (descendF_descend eps _ v depth 0 0); [lia | unfold in_level; change (4 ^ 0) with 1; lia | left; reflexivity].
Qed.

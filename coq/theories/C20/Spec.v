(* C20 — the property as Props, with boolean checkers proved sound (used on the
   implementation's outputs by the correspondence run). *)
From Coq Require Import Sorting.Permutation Sorting.Sorted.
From EsVerif.Common Require Import Base.
From EsVerif.C20 Require Import Model.

(* ---- isplit: nchunks contiguous [start,end) ranges covering 0..num in order,
        sizes differ by at most one, larger first *)
Fixpoint chain (s e : Z) (l : list (Z * Z)) : Prop :=
  match l with
  | [] => s = e
  | (a, b) :: t => a = s /\ chain b e t
  end.

Definition sizes (l : list (Z * Z)) : list Z := map (fun p => snd p - fst p) l.

Fixpoint nonincr (l : list Z) : Prop :=
  match l with
  | [] => True
  | x :: t => match t with [] => True | y :: _ => y <= x end /\ nonincr t
  end.

Definition isplit_ok (num nchunks : Z) (l : list (Z * Z)) : Prop :=
  Z.of_nat (length l) = nchunks
  /\ chain 0 num l
  /\ nonincr (sizes l)
  /\ (forall x y, In x (sizes l) -> In y (sizes l) -> 0 <= y /\ x - y <= 1).

Fixpoint chain_b (s e : Z) (l : list (Z * Z)) : bool :=
  match l with
  | [] => s =? e
  | (a, b) :: t => (a =? s) && chain_b b e t
  end.
Fixpoint nonincr_b (l : list Z) : bool :=
  match l with
  | [] => true
  | x :: t => match t with [] => true | y :: _ => y <=? x end && nonincr_b t
  end.
Definition isplit_check (num nchunks : Z) (l : list (Z * Z)) : bool :=
  (Z.of_nat (length l) =? nchunks) && chain_b 0 num l && nonincr_b (sizes l)
  && forallb (fun x => forallb (fun y => (0 <=? y) && (x - y <=? 1)) (sizes l)) (sizes l).

(* ---- splitarray: consecutive chunks of exactly nper (last possibly shorter, never
        empty) whose concatenation is the input *)
Definition splitarray_ok (nper : Z) (var : list Z) (cs : list (list Z)) : Prop :=
  concat cs = var
  /\ (forall i, (i < length cs)%nat -> 1 <= Z.of_nat (length (nth i cs [])) <= nper)
  /\ (forall i, (S i < length cs)%nat -> Z.of_nat (length (nth i cs [])) = nper).

Fixpoint chunk_sizes_b (nper : Z) (cs : list (list Z)) : bool :=
  match cs with
  | [] => true
  | [c] => (1 <=? Z.of_nat (length c)) && (Z.of_nat (length c) <=? nper)
  | c :: t => (Z.of_nat (length c) =? nper) && chunk_sizes_b nper t
  end.
Definition splitarray_check (nper : Z) (var : list Z) (cs : list (list Z)) : bool :=
  zlist_eqb (concat cs) var && chunk_sizes_b nper cs.

(* ---- sorts: a non-decreasing permutation, pairs kept together *)
Definition sort_ok {A} (key : A -> Z) (d d' : list A) : Prop :=
  Permutation d d' /\ StronglySorted (fun a b => key a <= key b) d'.

(* checker: sortedness by adjacent comparison; permutation by comparing with an insertion
   sort of both sides under a total order on whole records *)
Fixpoint sorted_b (l : list Z) : bool :=
  match l with
  | [] => true
  | x :: t => match t with [] => true | y :: _ => x <=? y end && sorted_b t
  end.
Fixpoint insert_z (x : Z) (l : list Z) : list Z :=
  match l with [] => [x] | y :: t => if x <=? y then x :: l else y :: insert_z x t end.
Definition isort_z (l : list Z) : list Z := fold_right insert_z [] l.
Definition pair_leb (p q : Z * Z) : bool :=
  (fst p <? fst q) || ((fst p =? fst q) && (snd p <=? snd q)).
Fixpoint insert_p (x : Z * Z) (l : list (Z * Z)) : list (Z * Z) :=
  match l with [] => [x] | y :: t => if pair_leb x y then x :: l else y :: insert_p x t end.
Definition isort_p (l : list (Z * Z)) : list (Z * Z) := fold_right insert_p [] l.
Definition zpair_eqb (p q : Z * Z) := (fst p =? fst q) && (snd p =? snd q).

Definition sort_check (d d' : list Z) : bool :=
  sorted_b d' && zlist_eqb (isort_z d) (isort_z d').
Definition sortkv_check (d d' : list (Z * Z)) : bool :=
  sorted_b (map fst d') && list_eqb zpair_eqb (isort_p d) (isort_p d').

(* ---- progress wrappers: exactly the items, in order, lazily; no exception *)
Definition pbar_ok (items : list Z) (out : list (Z * Z) * option err) : Prop :=
  map fst (fst out) = items
  /\ (forall k, (k < length (fst out))%nat -> snd (nth k (fst out) (0, 0)) = Z.of_nat k + 1)
  /\ snd out = None.
Definition pbar_check (items : list Z) (out : list (Z * Z) * option err) : bool :=
  zlist_eqb (map fst (fst out)) items
  && zlist_eqb (map snd (fst out)) (zseq 1 (length (fst out)))
  && match snd out with None => true | Some _ => false end.

(* ---- pmap: list(map(fn, items)) *)
Definition pmap_ok (f : Z -> Z) (items : list Z) (out : option (list Z)) : Prop :=
  out = Some (map f items).

(* C20 — the boolean checkers DECIDE their properties: completeness (the soundness halves are in Proofs.v), and
   soundness of the schedule-independent meter checker used when mininterval > 0. *)
From Coq Require Import Sorting.Permutation Sorting.Sorted ZifyBool ZifyNat.
From EsVerif.Common Require Import Base.
From EsVerif.C20 Require Import Model Model2 Spec Proofs Proofs2 Exec.
Ltac Zify.zify_post_hook ::= Z.to_euclidean_division_equations.

(* ------------------------------------------------------------------ isplit *)
Lemma chain_b_complete s e l : chain s e l -> chain_b s e l = true.
Proof.
  revert s; induction l as [|[a b] t IH]; intro s; cbn [chain chain_b]; intro H; [lia|].
  destruct H as [H1 H2]. rewrite (IH _ H2). lia.
Qed.
Lemma nonincr_b_complete l : nonincr l -> nonincr_b l = true.
Proof.
  induction l as [|x t IH]; cbn [nonincr nonincr_b]; intro H; [reflexivity|].
  destruct H as [H1 H2]. rewrite (IH H2). destruct t; lia.
Qed.
Lemma isplit_check_complete num nchunks l : isplit_ok num nchunks l -> isplit_check num nchunks l = true.
Proof.
  intros (H1 & H2 & H3 & H4). unfold isplit_check.
  rewrite (chain_b_complete _ _ _ H2), (nonincr_b_complete _ H3).
  assert (F : forallb (fun x => forallb (fun y => (0 <=? y) && (x - y <=? 1)) (sizes l)) (sizes l) = true).
  { apply forallb_forall. intros x Hx. apply forallb_forall. intros y Hy. specialize (H4 x y Hx Hy). lia. }
  rewrite F. lia.
Qed.

(* -------------------------------------------------------------- splitarray *)
Lemma chunk_sizes_b_complete nper cs :
  (forall i, (i < length cs)%nat -> 1 <= Z.of_nat (length (nth i cs [])) <= nper) ->
  (forall i, (S i < length cs)%nat -> Z.of_nat (length (nth i cs [])) = nper) ->
  chunk_sizes_b nper cs = true.
Proof.
  induction cs as [|c t IH]; intros A B; [reflexivity|].
  destruct t as [|c2 t2].
  - specialize (A 0%nat ltac:(cbn; lia)). cbn in A. cbn [chunk_sizes_b]. lia.
  - change (chunk_sizes_b nper (c :: c2 :: t2)) with
      ((Z.of_nat (length c) =? nper) && chunk_sizes_b nper (c2 :: t2)).
    rewrite IH.
    + specialize (B 0%nat ltac:(cbn; lia)). cbn in B. lia.
    + intros i Hi. apply (A (S i)). cbn [length] in *. lia.
    + intros i Hi. apply (B (S i)). cbn [length] in *. lia.
Qed.
Lemma splitarray_check_complete nper var cs : splitarray_ok nper var cs -> splitarray_check nper var cs = true.
Proof.
  intros (H1 & H2 & H3). unfold splitarray_check.
  rewrite (proj2 (zlist_eqb_spec _ _) H1), (chunk_sizes_b_complete _ _ H2 H3). reflexivity.
Qed.

(* -------------------------------------------------------------------- pbar *)
Lemma zseq_nth s n i : (i < n)%nat -> nth i (zseq s n) 0 = s + Z.of_nat i.
Proof.
  revert s i; induction n as [|n IH]; intros s i Hi; [lia|].
  destruct i as [|i]; cbn [zseq nth]; [lia|]. rewrite IH by lia. lia.
Qed.
Lemma pbar_check_complete items out : pbar_ok items out -> pbar_check items out = true.
Proof.
  intros (H1 & H2 & H3). unfold pbar_check.
  rewrite (proj2 (zlist_eqb_spec _ _) H1), H3.
  assert (E : map snd (fst out) = zseq 1 (length (fst out))).
  { apply (nth_ext _ _ 0 0); [rewrite map_length, zseq_length; reflexivity|].
    intros k Hk. rewrite map_length in Hk. rewrite zseq_nth by exact Hk.
    change 0 with (snd (0, 0)) at 1. rewrite map_nth. rewrite (H2 k Hk). ring. }
  rewrite (proj2 (zlist_eqb_spec _ _) E). reflexivity.
Qed.

(* ------------------------------------------------------------------- sorts *)
Lemma insert_z_comm x y l : insert_z x (insert_z y l) = insert_z y (insert_z x l).
Proof.
  induction l as [|z t IH]; cbn [insert_z];
    repeat (match goal with |- context [if ?b then _ else _] => destruct b eqn:? end; cbn [insert_z]);
    try reflexivity; try (exfalso; lia); try (rewrite IH; reflexivity);
    try (assert (x = y) by lia; subst; reflexivity).
Qed.
Lemma isort_z_perm_eq l l' : Permutation l l' -> isort_z l = isort_z l'.
Proof.
  induction 1 as [|x l l' _ IH|x y l|l l' l'' _ IH1 _ IH2]; cbn [isort_z fold_right] in *.
  - reflexivity.
  - unfold isort_z in IH. rewrite IH. reflexivity.
  - apply insert_z_comm.
  - congruence.
Qed.
Lemma sorted_b_complete l : StronglySorted Z.le l -> sorted_b l = true.
Proof.
  induction 1 as [|x t S IH F]; cbn [sorted_b]; [reflexivity|]. rewrite IH.
  destruct t as [|y t2]; [reflexivity|]. inversion F; subst. lia.
Qed.
Lemma sort_check_complete d d' : sort_ok (fun x => x) d d' -> sort_check d d' = true.
Proof.
  intros [P S]. unfold sort_check. rewrite (isort_z_perm_eq _ _ P).
  rewrite sorted_b_complete by exact S.
  rewrite (proj2 (zlist_eqb_spec _ _) eq_refl). reflexivity.
Qed.

Lemma pair_leb_total p q : pair_leb p q = false -> pair_leb q p = true.
Proof. destruct p, q; unfold pair_leb; cbn [fst snd]. lia. Qed.
Lemma pair_leb_antisym p q : pair_leb p q = true -> pair_leb q p = true -> p = q.
Proof. destruct p, q; unfold pair_leb; cbn [fst snd]. intros. f_equal; lia. Qed.
Lemma pair_leb_trans p q r : pair_leb p q = true -> pair_leb q r = true -> pair_leb p r = true.
Proof. destruct p, q, r; unfold pair_leb; cbn [fst snd]. lia. Qed.

Lemma insert_p_comm x y l : insert_p x (insert_p y l) = insert_p y (insert_p x l).
Proof.
  destruct x as [x1 x2], y as [y1 y2].
  induction l as [|[z1 z2] t IH]; cbn [insert_p]; unfold pair_leb; cbn [fst snd];
    repeat (match goal with |- context [if ?b then _ else _] => destruct b eqn:? end; cbn [insert_p]; unfold pair_leb; cbn [fst snd]);
    try reflexivity; try (exfalso; lia); try (unfold pair_leb in IH; cbn [fst snd] in IH; rewrite IH; reflexivity);
    try (assert (x1 = y1 /\ x2 = y2) as [-> ->] by lia; reflexivity).
Qed.
Lemma isort_p_perm_eq l l' : Permutation l l' -> isort_p l = isort_p l'.
Proof.
  induction 1 as [|x l l' _ IH|x y l|l l' l'' _ IH1 _ IH2]; cbn [isort_p fold_right] in *.
  - reflexivity.
  - unfold isort_p in IH. rewrite IH. reflexivity.
  - apply insert_p_comm.
  - congruence.
Qed.
Lemma sorted_b_map_complete {A} (key : A -> Z) l :
  StronglySorted (fun a b => key a <= key b) l -> sorted_b (map key l) = true.
Proof.
  induction 1 as [|x t S IH F]; cbn [map sorted_b]; [reflexivity|]. rewrite IH.
  destruct t as [|y t2]; [reflexivity|]. inversion F; subst. cbn [map]. lia.
Qed.
Lemma list_eqb_refl_p l : list_eqb zpair_eqb l l = true.
Proof. apply (list_eqb_spec zpair_eqb zpair_eqb_eq). reflexivity. Qed.
Lemma sortkv_check_complete d d' : sort_ok fst d d' -> sortkv_check d d' = true.
Proof.
  intros [P S]. unfold sortkv_check. rewrite (isort_p_perm_eq _ _ P).
  rewrite sorted_b_map_complete by exact S. rewrite list_eqb_refl_p. reflexivity.
Qed.

(* ------------------------------------------------- the meter checker used when the schedule is not deterministic *)
Lemma increasing_b_sound a l : increasing_b a l = true -> increasing_from a l.
Proof.
  revert a; induction l as [|p t IH]; intro a; cbn [increasing_b increasing_from]; intro H; [exact I|].
  apply andb_true_iff in H as [H1 H2]. split; [lia|apply IH; exact H2].
Qed.
Lemma popt_eqb_eq a b : popt_eqb a b = true -> a = b.
Proof. destruct a, b; cbn; intro H; try discriminate; [f_equal; lia|reflexivity]. Qed.
Lemma prints_check_sound n leave tot ps : prints_check n leave tot ps = true -> prints_ok n leave tot ps.
Proof.
  unfold prints_check, prints_ok. destruct ps as [|p0 rest]; [discriminate|]. intro H.
  apply andb_true_iff in H as [H H4]. apply andb_true_iff in H as [H H3]. apply andb_true_iff in H as [H1 H2].
  unfold print_eqb in H1. apply andb_true_iff in H1 as [H1a H1b]. apply popt_eqb_eq in H1b.
  cbn [fst snd] in *. exists rest. split; [destruct p0 as [a b]; cbn [fst snd] in *; assert (a = 0) by lia; subst; reflexivity|].
  split; [apply increasing_b_sound; exact H2|]. split.
  - apply Forall_forall. intros p Hp. rewrite forallb_forall in H3. specialize (H3 p Hp).
    apply andb_true_iff in H3 as [A B]. apply popt_eqb_eq in A. split; [exact A|lia].
  - intro L. subst leave. lia.
Qed.

(* C20 — glue evaluated by generated case files: verdict = (model = impl?) + 2*(checker rejects impl) *)
From EsVerif.Common Require Import Base.
From EsVerif.C20 Require Import Model Spec.

Definition zz_eqb := list_eqb zpair_eqb.

(* isplit: impl output is Ok [(start,end)...] or Err class; property is checked when num >= 0, nchunks >= 1 *)
Definition v_isplit (num nchunks : Z) (out : result (list (Z * Z))) : Z :=
  verdict (result_eqb zz_eqb (isplit num nchunks) out)
          (if (0 <=? num) && (1 <=? nchunks)
           then match out with Ok l => isplit_check num nchunks l | Err _ => false end
           else if nchunks <=? 0 then negb (is_ok out) else true).

Definition v_splitarray (nper : Z) (var : list Z) (out : result (list (list Z))) : Z :=
  verdict (result_eqb (list_eqb zlist_eqb) (splitarray nper var) out)
          (if 1 <=? nper then match out with Ok cs => splitarray_check nper var cs | Err _ => false end
           else true).

Definition v_quicksort (d : list Z) (out : result (list Z)) : Z :=
  verdict (match quicksort d, out with Some m, Ok o => zlist_eqb m o | _, _ => false end)
          (match out with Ok o => sort_check d o | Err _ => false end).

Definition v_quicksort_kv (d : list (Z * Z)) (out : result (list (Z * Z))) : Z :=
  verdict (match quicksort_keyvalue d, out with Some m, Ok o => zz_eqb m o | _, _ => false end)
          (match out with Ok o => sortkv_check d o | Err _ => false end).

(* pbar: out = (yielded (item, pulled-so-far) pairs, how iteration ended).  The property is
   required whenever the configuration is not one of the documented-rejection cases. *)
Definition pbar_required (c : pcfg) (items : list Z) : bool :=
  if simple c then
    match eff_total c (Z.of_nat (length items)) with
    | None => false
    | Some t => negb ((t =? 0) && negb (Z.of_nat (length items) =? 0))
    end
  else true.

Definition pout_eqb (a b : list (Z * Z) * option err) : bool :=
  zz_eqb (fst a) (fst b) && option_eqb err_eqb (snd a) (snd b).

Definition v_pbar (c : pcfg) (items : list Z) (out : list (Z * Z) * option err) : Z :=
  verdict (pout_eqb (pbar c items) out)
          (if pbar_required c items then pbar_check items out else true).

(* pmap with task function x |-> a*x*x + b; the model is run with the in-order schedule
   (pmap_all_schedules shows the schedule does not matter) *)
Definition v_pmap (a b : Z) (items : list Z) (chunksize : Z) (out : result (list Z)) : Z :=
  let f := fun x => a * x * x + b in
  let n := length (chunks_of (length items) (Z.to_nat chunksize) items) in
  verdict (match pmap f items chunksize (zseq 0 n), out with Some m, Ok o => zlist_eqb m o | _, _ => false end)
          (match out with Ok o => zlist_eqb o (map f items) | Err _ => false end).

(* exhaustive sweep of isplit's model against its spec on a rectangle (thorough tier) *)
Definition isplit_sweep (nmax cmax : nat) : bool :=
  forallb (fun num => forallb (fun c =>
     match isplit num c with Ok l => isplit_check num c l | Err _ => false end)
     (zseq 1 cmax)) (zseq 0 nmax).

(* C20 — glue evaluated by generated case files: verdict = (model = impl?) + 2*(checker rejects impl) *)
From EsVerif.Common Require Import Base.
From EsVerif.C20 Require Import Model Model2 Spec Proofs Proofs2 Meter Shape.

Definition zz_eqb := list_eqb zpair_eqb.

(* isplit: impl output is Ok [(start,end)...] or Err class; property is checked when num >= 0, nchunks >= 1 *)
Definition v_isplit (num nchunks : Z) (out : result (list (Z * Z))) : Z :=
  verdict (result_eqb zz_eqb (isplit num nchunks) out)
          (if (0 <=? num) && (1 <=? nchunks)
           then match out with Ok l => isplit_check num nchunks l | Err _ => false end
           else if nchunks <=? 0 then negb (is_ok out) else true).

Definition v_splitarray (nper : Z) (var : list Z) (out : result (list (list Z))) : Z :=
  verdict (result_eqb (list_eqb zlist_eqb) (splitarray nper var) out)
          (if 1 <=? nper then match out with Ok cs => splitarray_check nper var cs | Err _ => false end
           else true).

Definition v_quicksort (d : list Z) (out : result (list Z)) : Z :=
  verdict (match quicksort d, out with Some m, Ok o => zlist_eqb m o | _, _ => false end)
          (match out with Ok o => sort_check d o | Err _ => false end).

Definition v_quicksort_kv (d : list (Z * Z)) (out : result (list (Z * Z))) : Z :=
  verdict (match quicksort_keyvalue d, out with Some m, Ok o => zz_eqb m o | _, _ => false end)
          (match out with Ok o => sortkv_check d o | Err _ => false end).

(* pbar: out = (yielded (item, pulled-so-far) pairs, how iteration ended).  The property is
   required whenever the configuration is not one of the documented-rejection cases. *)
Definition pbar_required (c : pcfg) (items : list Z) : bool :=
  if simple c then
    match eff_total c (Z.of_nat (length items)) with
    | None => false
    | Some t => negb ((t =? 0) && negb (Z.of_nat (length items) =? 0))
    end
  else true.

Definition pout_eqb (a b : list (Z * Z) * option err) : bool :=
  zz_eqb (fst a) (fst b) && option_eqb err_eqb (snd a) (snd b).

Definition v_pbar (c : pcfg) (items : list Z) (out : list (Z * Z) * option err) : Z :=
  verdict (pout_eqb (pbar c items) out)
          (if pbar_required c items then pbar_check items out else true).

(* pmap with task function x |-> a*x*x + b; the model is run with the in-order schedule
   (pmap_all_schedules shows the schedule does not matter) *)
Definition v_pmap (a b : Z) (items : list Z) (chunksize : Z) (out : result (list Z)) : Z :=
  let f := fun x => a * x * x + b in
  let n := length (chunks_of (length items) (Z.to_nat chunksize) items) in
  verdict (match pmap f items chunksize (zseq 0 n), out with Some m, Ok o => zlist_eqb m o | _, _ => false end)
          (match out with Ok o => zlist_eqb o (map f items) | Err _ => false end).

(* exhaustive sweep of isplit's model against its spec on a rectangle (thorough tier) *)
Definition isplit_sweep (nmax cmax : nat) : bool :=
  forallb (fun num => forallb (fun c =>
     match isplit num c with Ok l => isplit_check num c l | Err _ => false end)
     (zseq 1 cmax)) (zseq 0 nmax).

(* ================================================================== second layer (Model2.v) *)
(* format_interval: the harness parses the text into its integer fields *)
Definition v_format_interval (t : Z) (out : list Z) : Z :=
  verdict (match format_interval t with Ok (_, fs) => zlist_eqb fs out | Err _ => false end) true.

(* meters written by the full bar: (count shown, total shown or None) per print_status call *)
Definition popt_eqb := option_eqb Z.eqb.
Definition print_eqb (p q : Z * option Z) : bool := (fst p =? fst q) && popt_eqb (snd p) (snd q).
Fixpoint increasing_b (a : Z) (l : list (Z * option Z)) : bool :=
  match l with [] => true | p :: t => (a <? fst p) && increasing_b (fst p) t end.
Definition prints_check (n : Z) (leave : bool) (tot : option Z) (ps : list (Z * option Z)) : bool :=
  match ps with
  | [] => false
  | p0 :: rest =>
      print_eqb p0 (0, meter_total 0 tot) && increasing_b 0 rest
      && forallb (fun p => popt_eqb (snd p) (meter_total (fst p) tot) && (fst p <=? n)) ps
      && (if leave then fst (last ps (0, None)) =? n else true)
  end.

Definition v_meter_total (n : Z) (total shown : option Z) : Z :=
  verdict (popt_eqb (meter_total n total) shown) true.

(* full bar with its meters.  det = the update schedule is deterministic (mininterval = 0): the printed
   sequence must be the model's; otherwise it must satisfy the schedule-independent facts.  The meters are
   compared only when the iteration ended normally. *)
Definition v_pbar_prints (c : pcfg) (miniters : Z) (leave det : bool) (items : list Z)
           (out : list (Z * Z) * option err) (ps : list (Z * option Z)) : Z :=
  let n := Z.of_nat (length items) in
  verdict (pout_eqb (pbar c items) out
           && (if simple c then true
               else if det then list_eqb print_eqb (full_prints miniters leave c items) ps
               else prints_check n leave (eff_total c n) ps))
          (if pbar_required c items then pbar_check items out else true).

Definition v_pbar_nested (co ci : pcfg) (items : list Z) (out : list (Z * Z) * option err) : Z :=
  verdict (pout_eqb (pbar_nested co ci items) out)
          (if pbar_required ci items && pbar_required (as_generator co) items then pbar_check items out else true).

(* prange: real_items = list(range(args...)) computed by python, None when range() raised *)
Definition v_prange (c : pcfg) (args : list Z) (real_items : option (list Z)) (out : list (Z * Z) * option err) : Z :=
  verdict (pout_eqb (prange c args) out
           && match range_args args, real_items with
              | Ok m, Some r => zlist_eqb m r
              | Err _, None => true
              | _, _ => false
              end)
          (match real_items with
           | Some items => if pbar_required (as_sized c) items then pbar_check items out else true
           | None => true
           end).

(* pmap with a task that raises: x |-> ValueError if x mod p = r, KeyError if x mod q = s, else a*x*x + b *)
Definition task_exn (a b p r q s : Z) (x : Z) : result Z :=
  if x mod p =? r then Err EValue else if x mod q =? s then Err EKey else Ok (a * x * x + b).
Definition v_pmap_exn (a b p r q s : Z) (items : list Z) (chunksize : Z)
           (out_end : option err) (out_res : list Z) (yielded pulled : Z) : Z :=
  let f := task_exn a b p r q s in
  let n := length (chunks_of (length items) (Z.to_nat chunksize) items) in
  verdict (match pmap_exn f items chunksize (zseq 0 n) with
           | Some (ys, e) =>
               option_eqb err_eqb e out_end
               && (match e with None => zlist_eqb ys out_res | Some _ => true end)
               && (if yielded <? 0 then true else Z.of_nat (length ys) =? yielded)
               && (pulled =? Z.of_nat (length items))
           | None => false
           end)
          (match seq_run f items with
           | (vs, None) => match out_end with None => zlist_eqb out_res vs | Some _ => false end
           | (_, Some _) => match out_end with None => false | Some _ => true end
           end).

(* ------------------------------------------------------------ exhaustive small scopes (thorough tier) *)
Fixpoint all_lists (k : nat) : list (list Z) :=
  match k with O => [[]] | S k' => flat_map (fun l => [0 :: l; 1 :: l; 2 :: l]) (all_lists k') end.
Definition with_values (l : list Z) : list (Z * Z) := combine l (zseq 100 (length l)).
Definition sort_sweep (kmax : nat) : bool :=
  forallb (fun k => forallb (fun l =>
     match quicksort l with Some o => sort_check l o | None => false end
     && match quicksort_keyvalue (with_values l) with Some o => sortkv_check (with_values l) o | None => false end)
     (all_lists k)) (seq 0 (S kmax)).

Definition splitarray_sweep (nmax pmax : nat) : bool :=
  forallb (fun n => forallb (fun nper =>
     let var := zseq 7 n in
     match splitarray nper var with Ok cs => splitarray_check nper var cs | Err _ => false end)
     (zseq 1 pmax)) (seq 0 (S nmax)).

Fixpoint insert_all (x : Z) (l : list Z) : list (list Z) :=
  match l with [] => [[x]] | y :: t => (x :: l) :: map (cons y) (insert_all x t) end.
Fixpoint perms (l : list Z) : list (list Z) :=
  match l with [] => [[]] | x :: t => flat_map (insert_all x) (perms t) end.
(* every permutation of the chunk numbers, and every permutation with one completion repeated *)
Definition pmap_sweep (nmax : nat) : bool :=
  let f := fun x => 3 * x * x - 1 in
  let g := task_exn 3 (-1) 4 3 5 1 in
  forallb (fun n => forallb (fun cs =>
     let items := zseq (-2) n in
     let nch := length (chunks_of n (Z.to_nat cs) items) in
     forallb (fun sched =>
        match pmap f items cs sched with Some o => zlist_eqb o (map f items) | None => false end
        && match pmap f items cs (sched ++ firstn 1 sched) with Some o => zlist_eqb o (map f items) | None => false end
        && match pmap_exn g items cs sched, ref_chunks g (chunks_of n (Z.to_nat cs) items), seq_run g items with
           | Some (ys, e), (ys', e'), (vs, e'') =>
               zlist_eqb ys ys' && option_eqb err_eqb e e' && option_eqb err_eqb e e''
               && zlist_eqb ys (firstn (length ys) vs)
           | None, _, _ => false
           end)
        (perms (zseq 0 nch)))
     (zseq 1 (S n))) (seq 0 (S nmax)).

Definition pbar_sweep (nmax : nat) : bool :=
  forallb (fun n =>
     let items := zseq 10 n in
     forallb (fun s => forallb (fun h => forallb (fun t =>
        let c := {| simple := s; has_len := h; total := t |} in
        (if pbar_required c items then pbar_check items (pbar c items) else true)
        && pout_eqb (run_skel (if s then sbar_skel else full_skel) c items) (pbar c items)
        && pout_eqb (pbar_on c items None) (pbar c items))
        (None :: map Some (zseq 0 (n + 3)))) [true; false]) [true; false])
     (seq 0 (S nmax)).

(* ================================================================== histories (several calls in one process) *)
(* one verdict for a history: bit 0 if some call disagrees with the model, bit 1 if the checker rejects some output *)
Definition vjoin (l : list Z) : Z :=
  (if existsb Z.odd l then 1 else 0) + (if existsb (fun v => 2 <=? v) l then 2 else 0).
(* a call of a history, also made alone in a fresh process: the two outputs must be identical *)
Definition v_hist (v : Z) (same_as_alone : bool) : Z :=
  if same_as_alone then v else if Z.odd v then v else v + 1.
(* an exhausted generator object iterated again yields nothing and ends normally *)
Definition v_exhausted (out : list (Z * Z) * option err) : Z := verdict (pout_eqb ([], None) out) true.

(* ================================================================== format_meter raising, StatusPrinter *)
(* raised: 0 = returned, 1 = ZeroDivisionError, 2 = another exception *)
Definition v_meter_raises (n : Z) (total : option Z) (el : sgn) (raised : Z) : Z :=
  verdict (if format_meter_raises n total el then raised =? 1 else raised =? 0) true.

Fixpoint status_texts (last : Z) (ss : list (list Z)) : list (list Z) :=
  match ss with
  | [] => []
  | s :: t => let '(text, l') := print_status 32 last s in text :: status_texts l' t
  end.
(* written = the pieces of the output between carriage returns, as character codes *)
Definition v_status (ss written : list (list Z)) : Z :=
  verdict (list_eqb zlist_eqb (status_texts 0 ss) written) true.

(* ================================================================== pmap with progress-bar keywords *)
(* pmap(fn, items, chunksize, nproc, **kw) with kw = simple / total: the model is the source's composition
   (Shape.pmap_kw); the property is required when the bar is defined over a generator *)
Definition v_pmap_kw (c : pcfg) (a b : Z) (items : list Z) (chunksize : Z) (out_end : option err) (out_res : list Z) : Z :=
  let f := fun x => a * x * x + b in
  let n := length (chunks_of (length items) (Z.to_nat chunksize) items) in
  verdict (match pmap_kw c f items chunksize (zseq 0 n) with
           | Some (vs, e) => option_eqb err_eqb e out_end && (match e with None => zlist_eqb vs out_res | Some _ => true end)
           | None => false
           end)
          (if pbar_required (as_generator c) (map f items)
           then match out_end with None => zlist_eqb out_res (map f items) | Some _ => false end
           else true).

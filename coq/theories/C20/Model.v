(* C20 — executable models of esutil.algorithm (isplit, quicksort, quicksort_keyvalue),
   esutil.numpy_util.splitarray, esutil.pbar (pbar/sbar/prange, pmap).  No proofs here. *)
From EsVerif.Common Require Import Base.

(* ---------------------------------------------------------------- isplit *)
(* algorithm.py:24-70.  divmod(num, nchunks) with nchunks > 0 is Coq's floor div/mod;
   section_sizes = [0] + extras*[q+1] + (nchunks-extras)*[q]; cumsum; (start,end) pairs. *)
Fixpoint ranges (s : Z) (sizes : list Z) : list (Z * Z) :=
  match sizes with
  | [] => []
  | x :: t => (s, s + x) :: ranges (s + x) t
  end.

Definition section_sizes (num nchunks : Z) : list Z :=
  let q := num / nchunks in
  let r := num mod nchunks in
  repeat (q + 1) (Z.to_nat r) ++ repeat q (Z.to_nat (nchunks - r)).

Definition isplit (num nchunks : Z) : result (list (Z * Z)) :=
  if nchunks <=? 0 then Err EValue
  else Ok (ranges 0 (section_sizes num nchunks)).

(* ------------------------------------------------------------ splitarray *)
(* numpy_util.py:1825-1837: nchunks = size // nper (+1 if size % nper != 0);
   chunk i = var[i*nper:(i+1)*nper].  nper = 0 divides by zero; nper < 0 gives a non-positive count, hence no chunks (as range() of it). *)
Definition splitarray {A} (nper : Z) (var : list A) : result (list (list A)) :=
  if nper =? 0 then Err EOther
  else
    let size := Z.of_nat (length var) in
    let nchunks := size / nper + (if size mod nper =? 0 then 0 else 1) in
    Ok (map (fun i => firstn (Z.to_nat nper) (skipn (Z.to_nat (i * nper)) var))
            (zseq 0 (Z.to_nat nchunks))).

(* ------------------------------------------------------------- quicksort *)
(* algorithm.py:73-213.  The array is a list of records [A] ordered by an integer key;
   quicksort is the instance A = Z, key = id; quicksort_keyvalue is A = Z*Z, key = fst
   (the two parallel arrays keys[]/data[] are always written at the same index, so they are
   modelled as one array of pairs).  partition is the two-phase hole loop, one index move
   per step; fuel is explicit and theorems show the given fuel always suffices. *)
Section Sort.
  Context {A : Type} (key : A -> Z) (dflt : A).

  Definition aget (d : list A) (i : Z) : A := nth (Z.to_nat i) d dflt.

  Inductive phase := Up | Down.

  Fixpoint part (fuel : nat) (d : list A) (pivot : A) (bottom top : Z) (ph : phase)
    : option (list A * Z) :=
    match fuel with
    | O => None
    | S f =>
      match ph with
      | Up =>
        let bottom := bottom + 1 in
        if bottom =? top then Some (zset d top pivot, top)
        else if key (aget d bottom) >? key pivot
             then part f (zset d top (aget d bottom)) pivot bottom top Down
             else part f d pivot bottom top Up
      | Down =>
        let top := top - 1 in
        if top =? bottom then Some (zset d top pivot, top)
        else if key (aget d top) <? key pivot
             then part f (zset d bottom (aget d top)) pivot bottom top Up
             else part f d pivot bottom top Down
      end
    end.

  Definition partition (d : list A) (start end_ : Z) : option (list A * Z) :=
    part (Z.to_nat (end_ - start + 2)) d (aget d end_) (start - 1) end_ Up.

  Fixpoint qs (fuel : nat) (d : list A) (start end_ : Z) : option (list A) :=
    match fuel with
    | O => None
    | S f =>
      if start <? end_ then
        match partition d start end_ with
        | None => None
        | Some (d1, split) =>
          match qs f d1 start (split - 1) with
          | None => None
          | Some d2 => qs f d2 (split + 1) end_
          end
        end
      else Some d
    end.

  Definition quicksort_gen (d : list A) : option (list A) :=
    qs (S (length d)) d 0 (Z.of_nat (length d) - 1).
End Sort.

Definition quicksort (d : list Z) : option (list Z) := quicksort_gen (fun x => x) 0 d.
Definition quicksort_keyvalue (kv : list (Z * Z)) : option (list (Z * Z)) :=
  quicksort_gen fst (0, 0) kv.

(* ------------------------------------------------------- progress wrappers *)
(* pbar.py.  A wrapped iterable is its finite item list plus whether len() is defined.
   The wrapper is a generator; its observable behaviour is the sequence of yielded items,
   each tagged with how many source items had been pulled when it was yielded (laziness),
   and how iteration ended (exhausted normally, or an exception class).
   - full bar (_pbar_full, simple=False): total defaults to len(iterable) or None;
     every item is yielded; format_meter's arithmetic never raises (see Spec: meter_total).
   - simple bar (sbar): without len and without total it raises RuntimeError on the first
     next() (documented); p = int(i/total*10) divides by the effective total after each item. *)
Record pcfg := { simple : bool; has_len : bool; total : option Z }.

Definition eff_total (c : pcfg) (n : Z) : option Z :=
  match total c with Some t => Some t | None => if has_len c then Some n else None end.

Fixpoint tag_from (k : Z) (items : list Z) : list (Z * Z) :=
  match items with [] => [] | x :: t => (x, k) :: tag_from (k + 1) t end.

Definition pbar (c : pcfg) (items : list Z) : list (Z * Z) * option err :=
  let n := Z.of_nat (length items) in
  if simple c then
    match eff_total c n with
    | None => ([], Some ERuntime)
    | Some t =>
      if (t =? 0) && negb (n =? 0) then (firstn 1 (tag_from 1 items), Some EOther)
      else (tag_from 1 items, None)
    end
  else (tag_from 1 items, None).

(* format_meter's treatment of the total (pbar.py format_meter): unknown totals and totals
   smaller than the count are displayed as "count only". *)
Definition meter_total (n : Z) (total : option Z) : option Z :=
  match total with
  | None => None
  | Some t => if n >? t then None else if t =? 0 then None else Some t
  end.

(* ------------------------------------------------------------------ pmap *)
(* pmap = list(pbar(ProcessPoolExecutor.map(fn, iterable, chunksize))).  Executor model:
   the input is cut into chunks of [chunksize]; workers finish chunks in an arbitrary
   order [schedule] (a list of chunk numbers), each completion stores the chunk's results;
   the consumer retrieves chunk 0, 1, 2, ... in submission order. *)
Fixpoint chunks_of {A} (fuel : nat) (n : nat) (l : list A) : list (list A) :=
  match fuel with
  | O => []
  | S f => match l with [] => [] | _ => firstn n l :: chunks_of f n (skipn n l) end
  end.

Definition store := list (Z * list Z).
Fixpoint lookup (s : store) (k : Z) : option (list Z) :=
  match s with [] => None | (k', v) :: t => if k =? k' then Some v else lookup t k end.

Definition complete (f : Z -> Z) (chunks : list (list Z)) (s : store) (k : Z) : store :=
  (k, map f (nth (Z.to_nat k) chunks [])) :: s.

Fixpoint collect (st : store) (ks : list Z) : option (list Z) :=
  match ks with
  | [] => Some []
  | k :: t => match lookup st k, collect st t with
              | Some v, Some r => Some (v ++ r)
              | _, _ => None
              end
  end.

Definition pmap (f : Z -> Z) (items : list Z) (chunksize : Z) (schedule : list Z) : option (list Z) :=
  let chunks := chunks_of (length items) (Z.to_nat chunksize) items in
  let st := fold_left (complete f chunks) schedule [] in
  collect st (zseq 0 (length chunks)).

(* C20 — property theorems only.  Bodies live in Proofs.v / SortProofs.v. *)
From Coq Require Import Sorting.Permutation Sorting.Sorted.
From EsVerif.Common Require Import Base.
From EsVerif.C20 Require Import Model Model2 Spec Proofs SortProofs Proofs2 Exec History Checkers Meter Opaque Shape Gen Tie.

(* The in-place sorts leave a non-decreasing permutation of their input, key-value pairs kept
   together; the recursion always terminates within the model's fuel. *)
Theorem C20_quicksort : forall d, exists d', quicksort d = Some d' /\ sort_ok (fun x => x) d d'.
Proof. intro d. destruct (quicksort_correct d) as [d' [E [P S]]]. exists d'. split; [exact E|]. split; assumption. Qed.

Theorem C20_quicksort_keyvalue : forall kv, exists kv', quicksort_keyvalue kv = Some kv' /\ sort_ok fst kv kv'.
Proof. intro d. destruct (quicksort_keyvalue_correct d) as [d' [E [P S]]]. exists d'. split; [exact E|]. split; assumption. Qed.

(* Index splitting: nchunks contiguous ranges covering 0..num, sizes differ by <= 1, larger first. *)
Theorem C20_isplit : forall num nchunks, 0 <= num -> 1 <= nchunks ->
  exists l, isplit num nchunks = Ok l /\ isplit_ok num nchunks l.
Proof. exact isplit_spec. Qed.

Theorem C20_isplit_rejects : forall num nchunks, nchunks <= 0 -> isplit num nchunks = Err EValue.
Proof. exact isplit_rejects. Qed.

(* Array splitting: consecutive chunks of exactly nper, last possibly shorter, concatenating to the input. *)
Theorem C20_splitarray : forall nper var, 1 <= nper ->
  exists cs, splitarray nper var = Ok cs /\ splitarray_ok nper var cs.
Proof. exact splitarray_spec. Qed.

(* Progress wrappers yield exactly the items, in order, lazily.  The full statement for every
   configuration; it is false of the simple bar in the two configurations excluded by
   [pbar_defined] (no total at all: documented RuntimeError; total 0 on a non-empty iterable). *)
Theorem C20_pbar : forall c items, pbar_defined c items -> pbar_ok items (pbar c items).
Proof. exact pbar_spec. Qed.

Theorem C20_pbar_full_bar_every_configuration : forall c items, simple c = false -> pbar_ok items (pbar c items).
Proof. exact pbar_full_always. Qed.

Theorem C20_pbar_simple_undefined_refuted :
  exists c items, simple c = true /\ ~ pbar_ok items (pbar c items).
Proof.
  exists {| simple := true; has_len := false; total := None |}, [1; 2]. split; [reflexivity|].
  unfold pbar_ok; simpl. intros [H _]. discriminate.
Qed.

(* Parallel map: for EVERY completion schedule in which each chunk completes (any order, any
   repetition) the in-order retrieval returns list(map(fn, items)). *)
Theorem C20_pmap_all_schedules : forall f items chunksize schedule,
  1 <= chunksize ->
  (forall k, 0 <= k < Z.of_nat (length (chunks_of (length items) (Z.to_nat chunksize) items)) -> In k schedule) ->
  pmap_ok f items (pmap f items chunksize schedule).
Proof. exact pmap_all_schedules. Qed.

(* Checker soundness: what the correspondence run evaluates on the implementation's outputs. *)
Theorem C20_checkers_sound :
  (forall num nchunks l, isplit_check num nchunks l = true -> isplit_ok num nchunks l)
  /\ (forall nper var cs, splitarray_check nper var cs = true -> splitarray_ok nper var cs)
  /\ (forall d d', sort_check d d' = true -> sort_ok (fun x => x) d d')
  /\ (forall d d', sortkv_check d d' = true -> sort_ok fst d d')
  /\ (forall items out, pbar_check items out = true -> pbar_ok items out).
Proof.
  split; [exact isplit_check_sound|]. split; [exact splitarray_check_sound|].
  split; [exact sort_check_sound|]. split; [exact sortkv_check_sound|exact pbar_check_sound].
Qed.

(* ======================================================================================================
   Tie to the source.  C20/Gen.v is regenerated from esutil/algorithm.py, numpy_util.py and pbar.py of the tree
   under check on every run (harness/props/c20_translate.py, fail closed); these theorems say that the
   regenerated definitions ARE the models the theorems above are about, for all inputs. *)
Theorem C20_source_isplit : forall num nchunks, gen_isplit num nchunks = isplit num nchunks.
Proof. exact tie_isplit. Qed.

Theorem C20_source_splitarray : forall (A : Type) nper (var : list A), gen_splitarray nper var = splitarray nper var.
Proof. exact tie_splitarray. Qed.

Theorem C20_source_quicksort : forall d, gen_quicksort (fun x => x) 0 d = quicksort d.
Proof. exact tie_quicksort. Qed.

Theorem C20_source_quicksort_keyvalue : forall kv, gen_quicksort_kv fst (0, 0) kv = quicksort_keyvalue kv.
Proof. exact tie_quicksort_keyvalue. Qed.

Theorem C20_source_format_interval : forall t, gen_format_interval t = format_interval t.
Proof. exact tie_format_interval. Qed.

Theorem C20_source_meter_total : forall n total, gen_meter_total n total = meter_total n total.
Proof. exact tie_meter_total. Qed.

Theorem C20_source_bar_skeletons :
  gen_full_skel = full_skel /\ gen_sbar_skel = sbar_skel
  /\ (forall b, gen_dispatch_simple b = b)
  /\ (forall n, gen_full_n_step n = n_step n)
  /\ (forall i, gen_sbar_i_step i = n_step i)
  /\ (forall n l m, gen_full_iter_test n l m = iter_test n l m)
  /\ (forall n l, gen_full_final_test n l = final_test n l).
Proof. exact tie_bar_skeletons. Qed.

(* the generator skeletons read from the source (fallback of total, loop body in order, dispatch), run by the
   skeleton interpreter, are the pbar model *)
Theorem C20_source_pbar : forall c items,
  run_skel (if gen_dispatch_simple (simple c) then gen_sbar_skel else gen_full_skel) c items = pbar c items.
Proof. exact tie_pbar. Qed.

(* the property clauses stated directly about the regenerated text *)
Theorem C20_isplit_of_source : forall num nchunks, 0 <= num -> 1 <= nchunks ->
  exists l, gen_isplit num nchunks = Ok l /\ isplit_ok num nchunks l.
Proof. exact src_isplit_spec. Qed.

Theorem C20_splitarray_of_source : forall nper (var : list Z), 1 <= nper ->
  exists cs, gen_splitarray nper var = Ok cs /\ splitarray_ok nper var cs.
Proof. exact src_splitarray_spec. Qed.

Theorem C20_pbar_of_source : forall c items, pbar_defined c items ->
  pbar_ok items (run_skel (if gen_dispatch_simple (simple c) then gen_sbar_skel else gen_full_skel) c items).
Proof. exact src_pbar_spec. Qed.

(* ======================================================================================================
   More of the code. *)
(* format_interval never raises; the fields it prints are in range and determine int(t) *)
Theorem C20_format_interval : forall t,
  exists r, format_interval t = Ok r /\ fi_value r = Some t /\ fi_fields_ok r.
Proof. exact format_interval_spec. Qed.

(* meters written by the full bar (mininterval = 0): the first shows 0, counts increase strictly and never
   exceed the number of items, each shows the total format_meter selects, and with leave=True the last one
   shows the number of items -- for every miniters, every total (smaller, larger, zero, absent) *)
Theorem C20_full_bar_meters : forall miniters leave c items,
  prints_ok (Z.of_nat (length items)) leave (eff_total c (Z.of_nat (length items))) (full_prints miniters leave c items).
Proof. exact full_prints_ok. Qed.

(* a wrapped iterable that raises at its end: every item is yielded first, lazily, then that exception *)
Theorem C20_pbar_source_exception : forall c items e,
  pbar_defined c items -> pbar_on c items e = (tag_from 1 items, e).
Proof. exact pbar_on_propagates. Qed.

(* nested bars: pbar(pbar(source)) yields exactly the items, and the SOURCE is still pulled lazily *)
Theorem C20_pbar_nested : forall co ci items,
  pbar_defined ci items -> pbar_defined (as_generator co) items -> pbar_ok items (pbar_nested co ci items).
Proof. exact pbar_nested_spec. Qed.

(* python's range as modelled, and prange(start, stop, step) *)
Theorem C20_py_range : forall start stop step l,
  py_range start stop step = Ok l ->
  step <> 0
  /\ (forall k, (k < length l)%nat -> nth k l 0 = start + Z.of_nat k * step)
  /\ (0 < step -> (forall x, In x l -> start <= x < stop) /\ stop <= start + Z.of_nat (length l) * step)
  /\ (step < 0 -> (forall x, In x l -> stop < x <= start) /\ start + Z.of_nat (length l) * step <= stop).
Proof. exact py_range_spec. Qed.

Theorem C20_prange : forall c args items,
  range_args args = Ok items -> pbar_defined (as_sized c) items -> pbar_ok items (prange c args).
Proof. exact prange_spec. Qed.

Theorem C20_prange_bad_arguments : forall c args e, range_args args = Err e -> prange c args = ([], Some e).
Proof. exact prange_bad_arguments. Qed.

(* pmap when the mapped function raises: for EVERY complete schedule the outcome is the in-order retrieval
   (ref_chunks); it ends with the exception sequential list(map(fn, items)) ends with (the first failing item in
   input order) and the values that went through the bar are a prefix of the sequential ones (all of them when
   nothing raised) *)
Theorem C20_pmap_exn_all_schedules : forall f items chunksize schedule,
  (forall k, 0 <= k < Z.of_nat (length (chunks_of (length items) (Z.to_nat chunksize) items)) -> In k schedule) ->
  pmap_exn f items chunksize schedule = Some (ref_chunks f (chunks_of (length items) (Z.to_nat chunksize) items)).
Proof. exact pmap_exn_all_schedules. Qed.

Theorem C20_pmap_exn_sequential : forall f items chunksize schedule,
  1 <= chunksize ->
  (forall k, 0 <= k < Z.of_nat (length (chunks_of (length items) (Z.to_nat chunksize) items)) -> In k schedule) ->
  exists out, pmap_exn f items chunksize schedule = Some out
    /\ snd out = snd (seq_run f items)
    /\ exists rest, fst (seq_run f items) = fst out ++ rest /\ (snd out = None -> rest = []).
Proof. exact pmap_exn_sequential. Qed.

(* one worker (nproc = 1: the only schedule is the submission order) and one chunk (chunksize >= len) *)
Theorem C20_pmap_single_worker : forall f items chunksize,
  1 <= chunksize ->
  pmap f items chunksize (zseq 0 (length (chunks_of (length items) (Z.to_nat chunksize) items))) = Some (map f items).
Proof. exact pmap_in_order. Qed.

Theorem C20_pmap_one_chunk : forall f items chunksize schedule,
  items <> [] -> Z.of_nat (length items) <= chunksize -> In 0 schedule ->
  pmap f items chunksize schedule = Some (map f items).
Proof. exact pmap_one_chunk. Qed.

Theorem C20_empty_inputs :
  (forall n, 1 <= n -> isplit 0 n = Ok (repeat (0, 0) (Z.to_nat n)))
  /\ (forall nper, nper <> 0 -> splitarray nper (@nil Z) = Ok [])
  /\ quicksort [] = Some [] /\ quicksort_keyvalue [] = Some []
  /\ (forall c, pbar c [] = if simple c && negb (has_len c) && match total c with None => true | Some _ => false end
                            then ([], Some ERuntime) else ([], None))
  /\ (forall f chunksize schedule, pmap f [] chunksize schedule = Some [])
  /\ (forall f chunksize schedule, pmap_exn f [] chunksize schedule = Some ([], None)).
Proof. exact empty_inputs. Qed.

(* ======================================================================================================
   Proof-deepening round. *)
(* the checkers DECIDE their properties (completeness; soundness is C20_checkers_sound) *)
Theorem C20_checkers_complete :
  (forall num nchunks l, isplit_ok num nchunks l -> isplit_check num nchunks l = true)
  /\ (forall nper var cs, splitarray_ok nper var cs -> splitarray_check nper var cs = true)
  /\ (forall d d', sort_ok (fun x => x) d d' -> sort_check d d' = true)
  /\ (forall d d', sort_ok fst d d' -> sortkv_check d d' = true)
  /\ (forall items out, pbar_ok items out -> pbar_check items out = true).
Proof.
  exact (conj isplit_check_complete (conj splitarray_check_complete (conj sort_check_complete
        (conj sortkv_check_complete pbar_check_complete)))).
Qed.

(* the schedule-independent meter checker (used when mininterval > 0) is sound *)
Theorem C20_meter_checker_sound : forall n leave tot ps, prints_check n leave tot ps = true -> prints_ok n leave tot ps.
Proof. exact prints_check_sound. Qed.

(* history: calls on a heap of objects.  Frame: nothing but the named cells is written, the heap only grows at its end *)
Theorem C20_call_frame : forall h c,
  (length h <= length (fst (step h c)) <= S (length h))%nat
  /\ forall b, (b < length h)%nat -> ~ In b (writes c) -> hget (fst (step h c)) b = hget h b.
Proof. exact step_frame. Qed.

(* locality: heaps of equal size that agree on the cells a call reads undergo the same effect *)
Theorem C20_call_depends_only_on_its_arguments : forall h1 h2 c,
  length h1 = length h2 -> (forall a, In a (reads c) -> hget h1 a = hget h2 a) ->
  (valid h1 c = false /\ step h1 c = (h1, AErr EIndex) /\ step h2 c = (h2, AErr EIndex))
  \/ exists e, step h1 c = commit h1 e /\ step h2 c = commit h2 e.
Proof. exact step_local. Qed.

Theorem C20_answer_independent_of_history : forall h1 h2 c,
  length h1 = length h2 -> (forall a, In a (reads c) -> hget h1 a = hget h2 a) -> snd (step h1 c) = snd (step h2 c).
Proof. exact step_answer_local. Qed.

(* no buffer reuse: a returned object did not exist before, and no later call that does not name it changes it *)
Theorem C20_result_is_fresh : forall h c a,
  snd (step h c) = AAddr a -> a = length h /\ length (fst (step h c)) = S (length h).
Proof. exact result_is_fresh. Qed.

Theorem C20_results_unchanged_by_later_calls : forall cs h b,
  (b < length h)%nat -> (forall c, In c cs -> ~ In b (writes c)) -> hget (fst (run h cs)) b = hget h b.
Proof. exact run_frame. Qed.

(* format_meter's bar branch: the divisions read from the source raise exactly when n = 0 and elapsed > 0 (inside the
   branch), and the full bar never makes such a call *)
Theorem C20_source_meter_divisions : gen_meter_divisions = meter_divisions /\ (forall a b, gen_status_pad a b = status_pad a b).
Proof. exact (conj tie_meter_divisions tie_status_pad). Qed.

Theorem C20_format_meter_raises_iff : forall n total el,
  format_meter_raises n total el = true <-> (exists t, meter_total n total = Some t) /\ n = 0 /\ el = SPos.
Proof. exact meter_raises_iff. Qed.

Theorem C20_format_meter_safe_of_source : forall n total el, (n = 0 -> el <> SPos) ->
  match meter_total n total with Some t => divisions_raise gen_meter_divisions n t el | None => false end = false.
Proof. exact src_meter_safe. Qed.

Theorem C20_full_bar_never_divides_by_zero : forall miniters leave c items,
  let tot := eff_total c (Z.of_nat (length items)) in
  exists rest, full_prints miniters leave c items = (0, meter_total 0 tot) :: rest
    /\ format_meter_raises 0 tot SZero = false
    /\ forall p el, In p rest -> format_meter_raises (fst p) tot el = false.
Proof. exact full_bar_meter_calls_safe. Qed.

(* StatusPrinter: after any sequence of print_status calls the terminal line is the last status followed by blanks *)
Theorem C20_status_line_shows_last : forall (A : Type) (blank : A) ss s,
  exists k, fst (run_status blank [] 0 (ss ++ [s])) = s ++ repeat blank k.
Proof. exact @status_line_shows_last. Qed.

(* ======================================================================================================
   Values of the key-value sort are opaque payloads: moved, never inspected. *)
(* naturality: any key-preserving map on the records commutes with the sort *)
Theorem C20_sort_natural : forall (A A' : Type) (key : A -> Z) (key' : A' -> Z) (g : A -> A') (dflt : A),
  (forall a, key' (g a) = key a) ->
  forall d, quicksort_gen key' (g dflt) (map g d) = option_map (map g) (quicksort_gen key dflt d).
Proof. exact @quicksort_gen_natural. Qed.

(* relabelling the values, into ANY payload type (no order, no equality needed), commutes with the key-value sort *)
Theorem C20_keyvalue_payloads_opaque : forall (B C : Type) (g : B -> C) (db : B) (kv : list (Z * B)),
  quicksort_gen fst (0, g db) (map (relabel g) kv) = option_map (map (relabel g)) (quicksort_gen fst (0, db) kv).
Proof. exact @keyvalue_payloads_opaque. Qed.

(* the keys of the result are the plain quicksort of the keys alone *)
Theorem C20_keyvalue_keys_sorted_alone : forall (B : Type) (db : B) (kv : list (Z * B)),
  option_map (map fst) (quicksort_gen fst (0, db) kv) = quicksort (map fst kv).
Proof. exact @keyvalue_keys_sorted_alone. Qed.

(* ======================================================================================================
   Round 6: more of the model regenerated from the source, and exact rejections. *)
(* keyword defaults of pbar / pmap, the literals of the first meter and the counters, the time test and the update of
   last_print_n, and the wrapper expressions of prange and pmap, as read from the source, are the model's *)
Theorem C20_source_shapes :
  gen_pbar_defaults = model_pbar_defaults /\ gen_pmap_defaults = model_pmap_defaults
  /\ gen_full_first_meter = first_meter /\ gen_full_init = full_init
  /\ (forall a b c, gen_full_time_test a b c = time_test a b c)
  /\ (forall n, gen_full_last_update n = last_update n)
  /\ gen_prange_expr = prange_expr /\ gen_pmap_expr = pmap_expr.
Proof. exact tie_shapes. Qed.

(* pmap as the source composes it -- list(pbar(ex.map(fn, iterable, chunksize=chunksize), **kw)) -- evaluated with the
   executor model and the pbar model: list(map(fn, items)) for every complete schedule and every bar configuration in
   which the bar is defined over a generator *)
Theorem C20_pmap_of_source : forall c f items chunksize schedule,
  1 <= chunksize ->
  (forall k, 0 <= k < Z.of_nat (length (chunks_of (length items) (Z.to_nat chunksize) items)) -> In k schedule) ->
  pbar_defined (as_generator c) (map f items) ->
  eval_pmap c f items chunksize schedule gen_pmap_expr = Some (map f items, None).
Proof. exact src_pmap_kw. Qed.

(* option interaction: simple=True forwarded through pmap without total= -- sbar's RuntimeError reaches pmap's caller *)
Theorem C20_pmap_simple_without_total : forall h f items chunksize schedule,
  1 <= chunksize ->
  (forall k, 0 <= k < Z.of_nat (length (chunks_of (length items) (Z.to_nat chunksize) items)) -> In k schedule) ->
  pmap_kw {| simple := true; has_len := h; total := None |} f items chunksize schedule = Some ([], Some ERuntime).
Proof. exact pmap_kw_simple_without_total. Qed.

Theorem C20_prange_of_source : forall c args, eval_prange c args gen_prange_expr = prange c args.
Proof. exact src_prange. Qed.

(* every keyword at its default (as read from the source): the property holds for every iterable, sized or not;
   pmap's default chunksize meets the hypothesis of C20_pmap_all_schedules *)
Theorem C20_pbar_defaults_of_source : forall has_len items, pbar_ok items (pbar (default_cfg gen_pbar_defaults has_len) items).
Proof. exact src_pbar_defaults. Qed.

Theorem C20_pmap_default_chunksize : forall f items schedule,
  (forall k, 0 <= k < Z.of_nat (length (chunks_of (length items) (Z.to_nat (fst model_pmap_defaults)) items)) -> In k schedule) ->
  pmap f items (fst model_pmap_defaults) schedule = Some (map f items).
Proof. exact pmap_default_chunksize. Qed.

(* mininterval = 0 and a clock that does not run backwards: the time test of the meter update always passes *)
Theorem C20_time_test_zero_interval : forall cur last, last <= cur -> time_test cur last 0 = true.
Proof. exact time_test_zero_interval. Qed.

(* exactly which configurations end with an exception, and with which class *)
Theorem C20_pbar_rejections : forall c items e,
  snd (pbar c items) = Some e <->
  simple c = true /\ ((eff_total c (Z.of_nat (length items)) = None /\ e = ERuntime)
                      \/ (eff_total c (Z.of_nat (length items)) = Some 0 /\ items <> [] /\ e = EOther)).
Proof. exact pbar_rejections. Qed.

Theorem C20_splitarray_rejections : forall (A : Type) nper (var : list A),
  (nper = 0 -> splitarray nper var = Err EOther) /\ (nper < 0 -> splitarray nper var = Ok []).
Proof. exact @splitarray_rejections. Qed.

(* total= influences the items only through None / zero / non-zero: floats, numpy scalars and bools may be driven
   against the integer model *)
Theorem C20_pbar_total_only_zeroness : forall s h t1 t2 items,
  t1 <> 0 -> t2 <> 0 ->
  pbar {| simple := s; has_len := h; total := Some t1 |} items = pbar {| simple := s; has_len := h; total := Some t2 |} items.
Proof. exact pbar_total_only_zeroness. Qed.

Definition task_exn_demo (x : Z) : result Z := if x =? 4 then Err EValue else if x =? 5 then Err EKey else Ok (x * x).

(* Non-vacuity: concrete non-trivial instances meet the hypotheses and the conclusions compute. *)
Example C20_nonvacuous :
  isplit 10 3 = Ok [(0, 4); (4, 7); (7, 10)]
  /\ quicksort [3; 1; 2; 3; 0] = Some [0; 1; 2; 3; 3]
  /\ pmap (fun x => x * x) [1; 2; 3; 4; 5] 2 [2; 0; 1] = Some [1; 4; 9; 16; 25]
  /\ pbar_defined {| simple := true; has_len := true; total := None |} [7; 8].
Proof.
  repeat split; try reflexivity. intros _. exists 2. split; [reflexivity|]. intro; discriminate.
Qed.

Example C20_nonvacuous2 :
  py_range 10 0 (-3) = Ok [10; 7; 4; 1]
  /\ format_interval 3725 = Ok (FmtHMS, [1; 2; 5])
  /\ full_prints 2 true {| simple := false; has_len := true; total := Some 3 |} [7; 8; 9; 6; 5]
     = [(0, Some 3); (2, Some 3); (4, None); (5, None)]
  /\ pmap_exn (task_exn_demo) [1; 2; 3; 4; 5; 6] 2 [2; 1; 0] = Some ([1; 4], Some EValue)
  /\ pbar_nested {| simple := true; has_len := true; total := Some 9 |} {| simple := false; has_len := false; total := None |} [5; 6]
     = ([(5, 1); (6, 2)], None).
Proof. repeat split; reflexivity. Qed.

Example C20_nonvacuous3 :
  (* a history: create, sort in place, isplit twice, scribble over the first result: the second is untouched *)
  run [] [CNew [3; 1; 2]; CQuicksort 0; CIsplit 10 3; CIsplit 10 3; CWrite 1 (VPairs [(1000, 997)])]
  = ([VList [1; 2; 3]; VPairs [(1000, 997)]; VPairs [(0, 4); (4, 7); (7, 10)]], [AAddr 0%nat; ANone; AAddr 1%nat; AAddr 2%nat; ANone])
  /\ format_meter_raises 0 (Some 5) SPos = true /\ format_meter_raises 3 (Some 5) SPos = false
  /\ fst (run_status 0 [] 0 [[1; 2; 3; 4]; [7; 8]]) = [7; 8; 0; 0]
  /\ prints_check 5 true (Some 3) [(0, Some 3); (2, Some 3); (5, None)] = true
  /\ sort_check [2; 1; 2] [1; 2; 2] = true.
Proof. repeat split; reflexivity. Qed.

(* payloads without any order (functions): tied keys, the sort goes through *)
Example C20_nonvacuous4 :
  option_map (map (fun p => (fst p, snd p 1))) (quicksort_gen fst (0, fun x : Z => x) [(2, Z.add 10); (1, Z.mul 3); (2, Z.sub 7); (1, Z.add 5)])
  = Some [(1, 6); (1, 3); (2, 6); (2, 11)]
  /\ quicksort_keyvalue (map (relabel (fun v => 2 * v)) [(2, 100); (1, 101); (2, 102); (0, 103); (1, 104)])
     = option_map (map (relabel (fun v => 2 * v))) (quicksort_keyvalue [(2, 100); (1, 101); (2, 102); (0, 103); (1, 104)]).
Proof. split; reflexivity. Qed.

Example C20_nonvacuous5 :
  pmap_kw {| simple := true; has_len := false; total := Some 9 |} (fun x => x + 1) [1; 2; 3; 4; 5] 2 [2; 0; 1] = Some ([2; 3; 4; 5; 6], None)
  /\ pmap_kw {| simple := true; has_len := false; total := None |} (fun x => x + 1) [1; 2; 3] 2 [0; 1] = Some ([], Some ERuntime)
  /\ snd (pbar {| simple := true; has_len := true; total := Some 0 |} [7; 8]) = Some EOther
  /\ splitarray (-2) [1; 2; 3] = Ok [].
Proof. repeat split; reflexivity. Qed.

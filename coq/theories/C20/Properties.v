(* C20 — property theorems only.  Bodies live in Proofs.v / SortProofs.v. *)
From Coq Require Import Sorting.Permutation Sorting.Sorted.
From EsVerif.Common Require Import Base.
From EsVerif.C20 Require Import Model Spec Proofs SortProofs.

(* The in-place sorts leave a non-decreasing permutation of their input, key-value pairs kept
   together; the recursion always terminates within the model's fuel. *)
Theorem C20_quicksort : forall d, exists d', quicksort d = Some d' /\ sort_ok (fun x => x) d d'.
Proof. intro d. destruct (quicksort_correct d) as [d' [E [P S]]]. exists d'. split; [exact E|]. split; assumption. Qed.

Theorem C20_quicksort_keyvalue : forall kv, exists kv', quicksort_keyvalue kv = Some kv' /\ sort_ok fst kv kv'.
Proof. intro d. destruct (quicksort_keyvalue_correct d) as [d' [E [P S]]]. exists d'. split; [exact E|]. split; assumption. Qed.

(* Index splitting: nchunks contiguous ranges covering 0..num, sizes differ by <= 1, larger first. *)
Theorem C20_isplit : forall num nchunks, 0 <= num -> 1 <= nchunks ->
  exists l, isplit num nchunks = Ok l /\ isplit_ok num nchunks l.
Proof. exact isplit_spec. Qed.

Theorem C20_isplit_rejects : forall num nchunks, nchunks <= 0 -> isplit num nchunks = Err EValue.
Proof. exact isplit_rejects. Qed.

(* Array splitting: consecutive chunks of exactly nper, last possibly shorter, concatenating to the input. *)
Theorem C20_splitarray : forall nper var, 1 <= nper ->
  exists cs, splitarray nper var = Ok cs /\ splitarray_ok nper var cs.
Proof. exact splitarray_spec. Qed.

(* Progress wrappers yield exactly the items, in order, lazily.  The full statement for every
   configuration; it is false of the simple bar in the two configurations excluded by
   [pbar_defined] (no total at all: documented RuntimeError; total 0 on a non-empty iterable). *)
Theorem C20_pbar : forall c items, pbar_defined c items -> pbar_ok items (pbar c items).
Proof. exact pbar_spec. Qed.

Theorem C20_pbar_full_bar_every_configuration : forall c items, simple c = false -> pbar_ok items (pbar c items).
Proof. exact pbar_full_always. Qed.

Theorem C20_pbar_simple_undefined_refuted :
  exists c items, simple c = true /\ ~ pbar_ok items (pbar c items).
Proof.
  exists {| simple := true; has_len := false; total := None |}, [1; 2]. split; [reflexivity|].
  unfold pbar_ok; simpl. intros [H _]. discriminate.
Qed.

(* Parallel map: for EVERY completion schedule in which each chunk completes (any order, any
   repetition) the in-order retrieval returns list(map(fn, items)). *)
Theorem C20_pmap_all_schedules : forall f items chunksize schedule,
  1 <= chunksize ->
  (forall k, 0 <= k < Z.of_nat (length (chunks_of (length items) (Z.to_nat chunksize) items)) -> In k schedule) ->
  pmap_ok f items (pmap f items chunksize schedule).
Proof. exact pmap_all_schedules. Qed.

(* Checker soundness: what the correspondence run evaluates on the implementation's outputs. *)
Theorem C20_checkers_sound :
  (forall num nchunks l, isplit_check num nchunks l = true -> isplit_ok num nchunks l)
  /\ (forall nper var cs, splitarray_check nper var cs = true -> splitarray_ok nper var cs)
  /\ (forall d d', sort_check d d' = true -> sort_ok (fun x => x) d d')
  /\ (forall d d', sortkv_check d d' = true -> sort_ok fst d d')
  /\ (forall items out, pbar_check items out = true -> pbar_ok items out).
Proof.
  split; [exact isplit_check_sound|]. split; [exact splitarray_check_sound|].
  split; [exact sort_check_sound|]. split; [exact sortkv_check_sound|exact pbar_check_sound].
Qed.

(* Non-vacuity: concrete non-trivial instances meet the hypotheses and the conclusions compute. *)
Example C20_nonvacuous :
  isplit 10 3 = Ok [(0, 4); (4, 7); (7, 10)]
  /\ quicksort [3; 1; 2; 3; 0] = Some [0; 1; 2; 3; 3]
  /\ pmap (fun x => x * x) [1; 2; 3; 4; 5] 2 [2; 0; 1] = Some [1; 4; 9; 16; 25]
  /\ pbar_defined {| simple := true; has_len := true; total := None |} [7; 8].
Proof.
  repeat split; try reflexivity. intros _. exists 2. split; [reflexivity|]. intro; discriminate.
Qed.

(* C20 — lemmas about the second model layer (Model2.v). *)
From Coq Require Import ZifyBool ZifyNat.
From EsVerif.Common Require Import Base.
From EsVerif.C20 Require Import Model Model2 Spec Proofs.
Ltac Zify.zify_post_hook ::= Z.to_euclidean_division_equations.

(* ------------------------------------------------- generator skeletons = the pbar model *)
Lemma run_loop_all b tot k items :
  run_body b tot false = (true, None) -> run_loop b tot k items = (tag_from k items, None).
Proof.
  intro H. revert k; induction items as [|x t IH]; intro k; cbn [run_loop tag_from]; [reflexivity|].
  rewrite H, IH. reflexivity.
Qed.

Lemma run_skel_full c items : run_skel full_skel c items = (tag_from 1 items, None).
Proof.
  unfold run_skel, full_skel. cbn [sk_fallback sk_body].
  destruct (total c), (has_len c); apply run_loop_all; reflexivity.
Qed.

Lemma run_skel_sbar c items : run_skel sbar_skel c items = pbar {| simple := true; has_len := has_len c; total := total c |} items.
Proof.
  unfold run_skel, sbar_skel, pbar, eff_total. cbn [sk_fallback sk_body simple has_len total].
  set (n := Z.of_nat (length items)).
  assert (G : forall t, run_loop [SYield; SCount; SDivTotal; SOut] (Some t) 1 items =
                        (if (t =? 0) && negb (n =? 0) then (firstn 1 (tag_from 1 items), Some EOther)
                         else (tag_from 1 items, None))).
  { intro t. destruct (t =? 0) eqn:T.
    - destruct items as [|x r]; [reflexivity|].
      assert (n =? 0 = false) as -> by (subst n; cbn [length]; lia).
      cbn [run_loop run_body]. rewrite T. reflexivity.
    - cbn [andb]. apply run_loop_all. cbn [run_body]. rewrite T. reflexivity. }
  destruct (total c) as [t|]; [destruct (has_len c); apply G|].
  destruct (has_len c); [apply G|reflexivity].
Qed.

Lemma run_skel_pbar c items : run_skel (if simple c then sbar_skel else full_skel) c items = pbar c items.
Proof.
  destruct c as [s h t]. cbn [simple]. destruct s.
  - rewrite run_skel_sbar. reflexivity.
  - rewrite run_skel_full. reflexivity.
Qed.

(* ------------------------------------------------- format_interval *)
Definition fi_value (r : ifmt * list Z) : option Z :=
  match r with
  | (FmtMS, [m; s]) => Some (60 * m + s)
  | (FmtHMS, [h; m; s]) => Some (3600 * h + 60 * m + s)
  | _ => None
  end.
Definition fi_fields_ok (r : ifmt * list Z) : Prop :=
  match r with
  | (FmtMS, [m; s]) => 0 <= m < 60 /\ 0 <= s < 60
  | (FmtHMS, [h; m; s]) => h <> 0 /\ 0 <= m < 60 /\ 0 <= s < 60
  | _ => False
  end.

Lemma format_interval_spec t :
  exists r, format_interval t = Ok r /\ fi_value r = Some t /\ fi_fields_ok r.
Proof.
  unfold format_interval. destruct (t / 60 / 60 =? 0) eqn:H; eexists; (split; [reflexivity|]);
    cbn [fi_value fi_fields_ok]; split; try (f_equal; lia); lia.
Qed.

(* ------------------------------------------------- print schedule of the full bar *)
Fixpoint increasing_from (a : Z) (l : list (Z * option Z)) : Prop :=
  match l with [] => True | p :: t => a < fst p /\ increasing_from (fst p) t end.

Definition prints_ok (n : Z) (leave : bool) (tot : option Z) (ps : list (Z * option Z)) : Prop :=
  exists rest, ps = (0, meter_total 0 tot) :: rest
    /\ increasing_from 0 rest
    /\ Forall (fun p => snd p = meter_total (fst p) tot /\ fst p <= n) ps
    /\ (leave = true -> fst (last ps (0, None)) = n).

Lemma last_indep {B} (l : list B) d d' : l <> [] -> List.last l d = List.last l d'.
Proof.
  induction l as [|x t IH]; [congruence|]. intros _. destruct t as [|y t']; [reflexivity|].
  change (List.last (y :: t') d = List.last (y :: t') d'). apply IH. discriminate.
Qed.

Lemma last_cons {B} (l : list B) x d : List.last (x :: l) d = List.last l x.
Proof.
  revert x d; induction l as [|y t IH]; intros x d; [reflexivity|].
  change (List.last (y :: t) d = List.last (y :: t) x). rewrite !IH. reflexivity.
Qed.

Lemma increasing_from_app a l b x :
  increasing_from a l -> fst (List.last l (a, x)) < fst b -> increasing_from a (l ++ [b]).
Proof.
  revert a; induction l as [|p t IH]; intros a H1 H2; cbn [app increasing_from] in *.
  - split; [exact H2|exact I].
  - destruct H1 as [H1 H3]. split; [exact H1|]. apply IH; [exact H3|].
    rewrite last_cons in H2. destruct t as [|q t']; [exact H2|].
    rewrite (last_indep (q :: t') _ p) by discriminate. exact H2.
Qed.

Lemma full_loop_spec m tot items : forall n last ps n' l,
  last <= n -> full_loop m tot n last items = (ps, n', l) ->
  n' = n + Z.of_nat (length items)
  /\ increasing_from n ps
  /\ Forall (fun p => snd p = meter_total (fst p) tot /\ fst p <= n') ps
  /\ l = fst (List.last ps (last, None)) /\ l <= n'.
Proof.
  induction items as [|x t IH]; intros n last ps n' l Hl H; cbn [full_loop] in H.
  - inversion H; subst. cbn [length List.last fst]. repeat split; try lia; constructor.
  - unfold n_step, iter_test in H.
    destruct (n + 1 - last >=? m) eqn:T.
    + destruct (full_loop m tot (n + 1) (n + 1) t) as [[ps1 n1] l1] eqn:F.
      destruct (IH (n + 1) (n + 1) ps1 n1 l1 ltac:(lia) F) as (A1 & A2 & A3 & A4 & A5).
      inversion H; subst.
      cbn [length]. split; [lia|]. split; [cbn [increasing_from fst]; split; [lia|exact A2]|].
      split; [constructor; [cbn [fst snd]; split; [reflexivity|lia]|exact A3]|].
      split; [|lia]. rewrite last_cons. destruct ps1 as [|q r]; [reflexivity|].
      f_equal. apply last_indep. discriminate.
    + destruct (IH (n + 1) last ps n' l ltac:(lia) H) as (A1 & A2 & A3 & A4 & A5).
      cbn [length]. split; [lia|]. split; [|split; [exact A3|split; [exact A4|lia]]].
      clear - A2. destruct ps as [|p r]; [exact I|]. cbn [increasing_from] in *. split; [lia|apply A2].
Qed.

Lemma last_app_one {B} (l : list B) (b d : B) : List.last (l ++ [b]) d = b.
Proof. apply last_last. Qed.

Lemma full_prints_ok miniters leave c items :
  prints_ok (Z.of_nat (length items)) leave (eff_total c (Z.of_nat (length items))) (full_prints miniters leave c items).
Proof.
  unfold full_prints, prints_ok.
  set (tot := eff_total c (Z.of_nat (length items))).
  destruct (full_loop miniters tot 0 0 items) as [[ps n] l] eqn:F.
  destruct (full_loop_spec miniters tot items 0 0 ps n l ltac:(lia) F) as (A1 & A2 & A3 & A4 & A5).
  replace (0 + Z.of_nat (length items)) with (Z.of_nat (length items)) in A1 by lia. subst n.
  eexists; split; [reflexivity|].
  unfold final_test.
  destruct (leave && (l <? Z.of_nat (length items))) eqn:L.
  - split; [|split].
    + apply (increasing_from_app 0 ps _ None); [exact A2|]. cbn [fst]. lia.
    + constructor; [cbn [fst snd]; split; [reflexivity|lia]|].
      apply Forall_app; split; [exact A3|]. constructor; [cbn [fst snd]; split; [reflexivity|lia]|constructor].
    + intros _. rewrite last_cons. rewrite last_app_one. reflexivity.
  - rewrite app_nil_r. split; [exact A2|]. split.
    + constructor; [cbn [fst snd]; split; [reflexivity|lia]|exact A3].
    + intro Lv. subst leave. cbn [andb] in L.
      rewrite last_cons.
      assert (E : fst (List.last ps (0, meter_total 0 tot)) = fst (List.last ps (0, None))).
      { clear. destruct ps as [|p r]; [reflexivity|]. f_equal. apply last_indep. discriminate. }
      rewrite E, <- A4. lia.
Qed.

(* ------------------------------------------------- a source that raises; nested bars *)
Lemma pbar_on_none c items : pbar_on c items None = pbar c items.
Proof. unfold pbar_on. destruct (pbar c items) as [ys [e|]]; reflexivity. Qed.

Lemma pbar_defined_out c items : pbar_defined c items -> pbar c items = (tag_from 1 items, None).
Proof.
  intro D. unfold pbar. destruct (simple c) eqn:S; [|reflexivity].
  destruct (D S) as [t [Et Ht]]. rewrite Et.
  destruct ((t =? 0) && negb (Z.of_nat (length items) =? 0)) eqn:Z0; [|reflexivity].
  apply andb_true_iff in Z0 as [Z1 Z2]. assert (items = []) by (apply Ht; lia). subst items. discriminate.
Qed.

(* a wrapper over a source that raises at the end yields every item, lazily, and then lets that exception through *)
Lemma pbar_on_propagates c items e :
  pbar_defined c items -> pbar_on c items e = (tag_from 1 items, e).
Proof. intro D. unfold pbar_on. rewrite (pbar_defined_out _ _ D). reflexivity. Qed.

Lemma combine_tag k items : combine items (map snd (tag_from k items)) = tag_from k items.
Proof. revert k; induction items as [|x t IH]; intro k; cbn [tag_from map combine snd]; [reflexivity|]. rewrite IH. reflexivity. Qed.

Lemma pbar_nested_spec co ci items :
  pbar_defined ci items -> pbar_defined (as_generator co) items ->
  pbar_ok items (pbar_nested co ci items).
Proof.
  intros Di Do. unfold pbar_nested. rewrite (pbar_defined_out _ _ Di).
  rewrite tag_from_fst. rewrite (pbar_on_propagates _ _ _ Do). rewrite tag_from_fst, combine_tag.
  rewrite <- (pbar_defined_out _ _ Di). apply pbar_spec. exact Di.
Qed.

(* ------------------------------------------------- python range, prange *)
Lemma py_range_spec start stop step l :
  py_range start stop step = Ok l ->
  step <> 0
  /\ (forall k, (k < length l)%nat -> nth k l 0 = start + Z.of_nat k * step)
  /\ (0 < step -> (forall x, In x l -> start <= x < stop) /\ stop <= start + Z.of_nat (length l) * step)
  /\ (step < 0 -> (forall x, In x l -> stop < x <= start) /\ start + Z.of_nat (length l) * step <= stop).
Proof.
  unfold py_range. destruct (step =? 0) eqn:E; [discriminate|]. intro H. inversion H; subst l; clear H.
  set (n := py_range_len start stop step).
  assert (Hlen : length (map (fun i => start + i * step) (zseq 0 (Z.to_nat n))) = Z.to_nat n)
    by (rewrite map_length, zseq_length; reflexivity).
  assert (Hn : 0 <= n).
  { subst n. unfold py_range_len. destruct (0 <? step) eqn:P.
    - destruct (start <? stop) eqn:Q; [|lia]. assert (0 <= (stop - start - 1) / step) by (apply Z.div_pos; lia). lia.
    - destruct (stop <? start) eqn:Q; [|lia]. assert (0 <= (start - stop - 1) / (- step)) by (apply Z.div_pos; lia). lia. }
  assert (Hin : forall x, In x (map (fun i => start + i * step) (zseq 0 (Z.to_nat n))) ->
                          exists i, 0 <= i < n /\ x = start + i * step).
  { intros x Hx. apply in_map_iff in Hx as [i [Hi1 Hi2]]. apply in_zseq in Hi2. exists i. split; [lia|congruence]. }
  split; [lia|]. split; [|split].
  - intros k Hk. rewrite Hlen in Hk. rewrite zseq_map.
    rewrite nth_indep with (d' := (fun j : nat => start + (0 + Z.of_nat j) * step) 0%nat) by (rewrite map_length, seq_length; lia).
    rewrite (map_nth (fun j : nat => start + (0 + Z.of_nat j) * step)). rewrite seq_nth by lia. cbn [Nat.add]. nia.
  - intro P. rewrite Hlen. rewrite Z2Nat.id by lia.
    assert (B : n = if start <? stop then (stop - start - 1) / step + 1 else 0).
    { subst n. unfold py_range_len. destruct (0 <? step) eqn:Q; [reflexivity|lia]. }
    split.
    + intros x Hx. destruct (Hin x Hx) as [i [Hi ->]]. destruct (start <? stop) eqn:Q; [|lia]. nia.
    + destruct (start <? stop) eqn:Q; nia.
  - intro P. rewrite Hlen. rewrite Z2Nat.id by lia.
    assert (B : n = if stop <? start then (start - stop - 1) / (- step) + 1 else 0).
    { subst n. unfold py_range_len. destruct (0 <? step) eqn:Q; [lia|reflexivity]. }
    split.
    + intros x Hx. destruct (Hin x Hx) as [i [Hi ->]]. destruct (stop <? start) eqn:Q; [|lia]. nia.
    + destruct (stop <? start) eqn:Q; nia.
Qed.

Lemma prange_spec c args items :
  range_args args = Ok items -> pbar_defined (as_sized c) items -> pbar_ok items (prange c args).
Proof. intros R D. unfold prange. rewrite R. apply pbar_spec. exact D. Qed.

Lemma prange_bad_arguments c args e : range_args args = Err e -> prange c args = ([], Some e).
Proof. intro R. unfold prange. rewrite R. reflexivity. Qed.

(* ------------------------------------------------- pmap when fn raises *)
Section PmapExn.
  Variable f : Z -> result Z.
  Variable chunks : list (list Z).

  Lemma elookup_complete sched st k :
    In k sched \/ elookup st k = Some (mapM f (nth (Z.to_nat k) chunks [])) ->
    elookup (fold_left (ecomplete f chunks) sched st) k = Some (mapM f (nth (Z.to_nat k) chunks [])).
  Proof.
    revert st; induction sched as [|k0 t IH]; intros st H; simpl.
    - destruct H as [[]|H]; exact H.
    - apply IH. destruct (Z.eq_dec k k0) as [->|N].
      + right. unfold ecomplete. cbn [elookup]. rewrite Z.eqb_refl. reflexivity.
      + destruct H as [[H|H]|H]; [congruence|left; exact H|right].
        unfold ecomplete. cbn [elookup]. apply Z.eqb_neq in N. rewrite N. exact H.
  Qed.

  Lemma ecollect_all st ks :
    (forall k, In k ks -> elookup st k = Some (mapM f (nth (Z.to_nat k) chunks []))) ->
    ecollect st ks = Some (ref_chunks f (map (fun k => nth (Z.to_nat k) chunks []) ks)).
  Proof.
    induction ks as [|k t IH]; intro H; cbn [ecollect map ref_chunks]; [reflexivity|].
    rewrite (H k) by (left; reflexivity).
    destruct (mapM f (nth (Z.to_nat k) chunks [])) as [v|e]; [|reflexivity].
    rewrite IH by (intros k' Hk'; apply H; right; exact Hk').
    destruct (ref_chunks f (map (fun k0 => nth (Z.to_nat k0) chunks []) t)). reflexivity.
  Qed.
End PmapExn.

Lemma nth_zseq_id (chunks : list (list Z)) :
  map (fun k => nth (Z.to_nat k) chunks []) (zseq 0 (length chunks)) = chunks.
Proof. rewrite (map_nth_zseq (fun c => c) chunks). apply map_id. Qed.

Lemma pmap_exn_all_schedules f items chunksize schedule :
  (forall k, 0 <= k < Z.of_nat (length (chunks_of (length items) (Z.to_nat chunksize) items)) -> In k schedule) ->
  pmap_exn f items chunksize schedule = Some (ref_chunks f (chunks_of (length items) (Z.to_nat chunksize) items)).
Proof.
  intro Hs. unfold pmap_exn.
  set (chunks := chunks_of (length items) (Z.to_nat chunksize) items) in *.
  rewrite (ecollect_all f chunks).
  - rewrite nth_zseq_id. reflexivity.
  - intros k Hk. apply elookup_complete. left. apply Hs. apply in_zseq in Hk. lia.
Qed.

(* chunked retrieval vs. the sequential list(map(fn, items)): the same exception (the first failing item in
   input order), and the values that got through are a prefix of the sequential ones *)
Lemma mapM_seq_run f c :
  match mapM f c with
  | Ok v => seq_run f c = (v, None)
  | Err e => exists pre, seq_run f c = (pre, Some e)
  end.
Proof.
  induction c as [|x t IH]; cbn [mapM seq_run]; [reflexivity|].
  destruct (f x) as [y|e]; [|exists []; reflexivity].
  destruct (mapM f t) as [v|e].
  - rewrite IH. reflexivity.
  - destruct IH as [pre IH]. rewrite IH. exists (y :: pre). reflexivity.
Qed.

Lemma seq_run_app f a b :
  seq_run f (a ++ b) = match seq_run f a with
                       | (ra, None) => let '(rb, e) := seq_run f b in (ra ++ rb, e)
                       | (ra, Some e) => (ra, Some e)
                       end.
Proof.
  induction a as [|x t IH]; cbn [app seq_run].
  - destruct (seq_run f b). reflexivity.
  - destruct (f x) as [y|e]; [|reflexivity]. rewrite IH.
    destruct (seq_run f t) as [ra [e|]]; [reflexivity|]. destruct (seq_run f b). reflexivity.
Qed.

Lemma ref_chunks_vs_sequential f chunks :
  snd (ref_chunks f chunks) = snd (seq_run f (concat chunks))
  /\ exists rest, fst (seq_run f (concat chunks)) = fst (ref_chunks f chunks) ++ rest
                  /\ (snd (ref_chunks f chunks) = None -> rest = []).
Proof.
  induction chunks as [|c t IH]; cbn [ref_chunks concat].
  - split; [reflexivity|]. exists []. split; reflexivity.
  - rewrite seq_run_app. pose proof (mapM_seq_run f c) as M.
    destruct (mapM f c) as [v|e].
    + rewrite M. destruct IH as [I1 [rest [I2 I3]]].
      destruct (ref_chunks f t) as [r e]. destruct (seq_run f (concat t)) as [rb eb].
      cbn [fst snd] in *. split; [exact I1|]. exists rest. split; [rewrite I2; apply app_assoc|exact I3].
    + destruct M as [pre M]. rewrite M. cbn [fst snd]. split; [reflexivity|].
      exists pre. split; [reflexivity|discriminate].
Qed.

Lemma pmap_exn_sequential f items chunksize schedule :
  1 <= chunksize ->
  (forall k, 0 <= k < Z.of_nat (length (chunks_of (length items) (Z.to_nat chunksize) items)) -> In k schedule) ->
  exists out, pmap_exn f items chunksize schedule = Some out
    /\ snd out = snd (seq_run f items)
    /\ exists rest, fst (seq_run f items) = fst out ++ rest /\ (snd out = None -> rest = []).
Proof.
  intros Hc Hs. rewrite (pmap_exn_all_schedules _ _ _ _ Hs). eexists; split; [reflexivity|].
  pose proof (ref_chunks_vs_sequential f (chunks_of (length items) (Z.to_nat chunksize) items)) as R.
  rewrite chunks_of_concat in R by lia. exact R.
Qed.

(* a function that never raises: pmap_exn is the old pmap *)
Lemma seq_run_total g l : seq_run (fun x => Ok (g x)) l = (map g l, None).
Proof. induction l as [|x t IH]; cbn [seq_run map]; [reflexivity|]. rewrite IH. reflexivity. Qed.

(* ------------------------------------------------- single worker / one chunk / empty inputs *)
Lemma pmap_in_order f items chunksize :
  1 <= chunksize ->
  pmap f items chunksize (zseq 0 (length (chunks_of (length items) (Z.to_nat chunksize) items))) = Some (map f items).
Proof.
  intro Hc. apply pmap_all_schedules; [exact Hc|]. intros k Hk. apply in_zseq. lia.
Qed.

Lemma chunks_of_one {A} (l : list A) n : l <> [] -> (length l <= n)%nat -> chunks_of (length l) n l = [l].
Proof.
  intros Hl Hn. destruct l as [|x t]; [congruence|]. cbn [length] in Hn. cbn [length chunks_of].
  rewrite firstn_all2 by (cbn [length]; lia). rewrite skipn_all2 by (cbn [length]; lia).
  destruct (length t); reflexivity.
Qed.

Lemma pmap_one_chunk f items chunksize schedule :
  items <> [] -> Z.of_nat (length items) <= chunksize -> In 0 schedule ->
  pmap f items chunksize schedule = Some (map f items).
Proof.
  intros Hi Hc H0. apply pmap_all_schedules; [destruct items; [congruence|cbn [length] in Hc; lia]|].
  rewrite (chunks_of_one items) by (try assumption; lia). cbn [length]. intros k Hk. assert (k = 0) by lia. subst k. exact H0.
Qed.

Lemma empty_inputs :
  (forall n, 1 <= n -> isplit 0 n = Ok (repeat (0, 0) (Z.to_nat n)))
  /\ (forall nper, nper <> 0 -> splitarray nper (@nil Z) = Ok [])
  /\ quicksort [] = Some [] /\ quicksort_keyvalue [] = Some []
  /\ (forall c, pbar c [] = if simple c && negb (has_len c) && match total c with None => true | Some _ => false end
                            then ([], Some ERuntime) else ([], None))
  /\ (forall f chunksize schedule, pmap f [] chunksize schedule = Some [])
  /\ (forall f chunksize schedule, pmap_exn f [] chunksize schedule = Some ([], None)).
Proof.
  split; [|split; [|split; [|split; [|split; [|split]]]]]; try reflexivity.
  - intros n Hn. unfold isplit. destruct (n <=? 0) eqn:E; [lia|]. f_equal.
    unfold section_sizes. rewrite Z.div_0_l, Z.mod_0_l by lia. cbn [Z.to_nat repeat app].
    replace (Z.to_nat (n - 0)) with (Z.to_nat n) by lia.
    generalize (Z.to_nat n). intro k. induction k as [|k IH]; [reflexivity|]. cbn [repeat ranges]. change (0 + 0) with 0. rewrite IH. reflexivity.
  - intros nper Hn. unfold splitarray. destruct (nper =? 0) eqn:E; [lia|]. cbn [length].
    rewrite Z.div_0_l, Z.mod_0_l by lia. reflexivity.
  - intros [s h [t|]]; destruct s, h; cbn; try reflexivity. destruct (t =? 0); reflexivity. destruct (t =? 0); reflexivity.
Qed.

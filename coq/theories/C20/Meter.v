(* C20 — the frame of format_meter's float branch and StatusPrinter's output protocol.
   (1) Every division of the bar branch (`float(n)/total`, `n / elapsed`, `elapsed / n`, `elapsed / n * (total-n)`)
       with the path condition under which it is evaluated, restricted to the tests that mention only the
       parameters (n, total, elapsed); the list is regenerated from the source (Gen.gen_meter_divisions).  A
       division raises ZeroDivisionError iff its path holds and its divisor is zero.  Theorem: no division of
       the branch raises unless n = 0 and elapsed > 0, and the full bar never calls it that way.
       The float elapsed enters only through its sign.
   (2) StatusPrinter.print_status writes '\r' + s + blanks; on a terminal line ('\r' = back to column 0,
       characters overwrite) the visible line is always the last status followed only by blanks. *)
From Coq Require Import ZifyBool ZifyNat.
From EsVerif.Common Require Import Base.
From EsVerif.C20 Require Import Model Model2 Spec Proofs Proofs2.

(* ------------------------------------------------------------------ (1) divisions of the bar branch *)
Inductive sgn := SNeg | SZero | SPos.
Inductive mvar := MTotal | MElapsed | MN.
Inductive matom := ATotalTrue | AElapsedPos | ANTrue.

Definition mvar_zero (v : mvar) (n total : Z) (el : sgn) : bool :=
  match v with
  | MTotal => total =? 0
  | MElapsed => match el with SZero => true | _ => false end
  | MN => n =? 0
  end.
Definition atom_holds (n total : Z) (el : sgn) (a : matom) : bool :=
  match a with
  | ATotalTrue => negb (total =? 0)
  | AElapsedPos => match el with SPos => true | _ => false end
  | ANTrue => negb (n =? 0)
  end.

(* the divisions of the branch `if total:` in source order *)
Definition meter_divisions : list (mvar * list matom) :=
  [ (MTotal, [ATotalTrue]);                       (* frac = float(n) / total *)
    (MElapsed, [ATotalTrue; AElapsedPos]);        (* it_per_second = n / elapsed *)
    (MN, [ATotalTrue; AElapsedPos]);              (* second_per_it = elapsed / n   (also under `not it_per_second > 1`) *)
    (MN, [ATotalTrue; ANTrue]) ].                 (* elapsed / n * (total-n) if n else '?' *)

Definition division_raises (n total : Z) (el : sgn) (d : mvar * list matom) : bool :=
  forallb (atom_holds n total el) (snd d) && mvar_zero (fst d) n total el.
Definition divisions_raise (ds : list (mvar * list matom)) (n total : Z) (el : sgn) : bool :=
  existsb (division_raises n total el) ds.

(* format_meter(n, total, elapsed): ZeroDivisionError? *)
Definition format_meter_raises (n : Z) (total : option Z) (el : sgn) : bool :=
  match meter_total n total with
  | Some t => divisions_raise meter_divisions n t el
  | None => false
  end.

Lemma meter_raises_iff n total el :
  format_meter_raises n total el = true <->
  (exists t, meter_total n total = Some t) /\ n = 0 /\ el = SPos.
Proof.
  unfold format_meter_raises. destruct (meter_total n total) as [t|] eqn:M.
  - assert (T : t <> 0).
    { unfold meter_total in M. destruct total as [t0|]; [|discriminate].
      destruct (n >? t0); [discriminate|]. destruct (t0 =? 0) eqn:Z0; [discriminate|]. inversion M; subst. lia. }
    unfold divisions_raise, meter_divisions, division_raises. cbn [existsb forallb fst snd atom_holds mvar_zero].
    split.
    + intro H. split; [exists t; reflexivity|]. destruct el; destruct (n =? 0) eqn:N; destruct (t =? 0) eqn:T0;
        cbn in H; try discriminate; try lia. split; [lia|reflexivity].
    + intros (_ & -> & ->). destruct (t =? 0) eqn:T0; [lia|]. reflexivity.
  - split; [discriminate|]. intros ([t E] & _). discriminate.
Qed.

Lemma meter_safe n total el : (n = 0 -> el <> SPos) -> format_meter_raises n total el = false.
Proof.
  intro H. destruct (format_meter_raises n total el) eqn:R; [|reflexivity].
  apply meter_raises_iff in R as (_ & N & E). exfalso. exact (H N E).
Qed.

(* the calls the full bar makes: the first meter is format_meter(0, total, 0) (literal elapsed 0, pinned by the
   translator's template), every later one shows a count >= 1 *)
Lemma increasing_from_pos a l : 0 <= a -> increasing_from a l -> Forall (fun p => 0 < fst p) l.
Proof.
  revert a; induction l as [|p t IH]; intros a Ha H; [constructor|]. cbn [increasing_from] in H. destruct H as [H1 H2].
  constructor; [lia|]. apply (IH (fst p)); [lia|exact H2].
Qed.

Lemma full_bar_meter_calls_safe miniters leave c items :
  let tot := eff_total c (Z.of_nat (length items)) in
  exists rest, full_prints miniters leave c items = (0, meter_total 0 tot) :: rest
    /\ format_meter_raises 0 tot SZero = false
    /\ forall p el, In p rest -> format_meter_raises (fst p) tot el = false.
Proof.
  cbv zeta. destruct (full_prints_ok miniters leave c items) as (rest & E & I & _).
  exists rest. split; [exact E|]. split; [apply meter_safe; intros _; discriminate|].
  intros p el Hp. apply meter_safe. intro N. exfalso.
  pose proof (increasing_from_pos 0 rest ltac:(lia) I) as F. rewrite Forall_forall in F. specialize (F p Hp). lia.
Qed.

(* ------------------------------------------------------------------ (2) StatusPrinter *)
Section Status.
  Context {A : Type} (blank : A).

  Definition status_pad (last len : Z) : Z := Z.max (last - len) 0.
  (* what print_status(s) writes after the '\r', and the new last_printed_len *)
  Definition print_status (last : Z) (s : list A) : list A * Z :=
    (s ++ repeat blank (Z.to_nat (status_pad last (Z.of_nat (length s)))), Z.of_nat (length s)).
  (* a terminal line: text written from column 0 overwrites what was there *)
  Definition overwrite (line text : list A) : list A := text ++ skipn (length text) line.

  Fixpoint run_status (line : list A) (last : Z) (ss : list (list A)) : list A * Z :=
    match ss with
    | [] => (line, last)
    | s :: t => let '(text, last') := print_status last s in run_status (overwrite line text) last' t
    end.

  Lemma skipn_app_blanks (cur : list A) k m :
    (length cur <= m)%nat -> skipn m (cur ++ repeat blank k) = repeat blank (k - (m - length cur)).
  Proof.
    intro H. rewrite skipn_app. rewrite skipn_all2 by exact H. cbn [app].
    generalize (m - length cur)%nat. clear. intro j. revert j; induction k as [|k IH]; intro j.
    - rewrite skipn_nil. reflexivity.
    - destruct j as [|j]; [reflexivity|]. cbn [repeat skipn]. rewrite IH. reflexivity.
  Qed.

  (* one step keeps the invariant "line = current status ++ blanks, last = its length" *)
  Lemma print_status_line cur k s :
    exists k', overwrite (cur ++ repeat blank k) (fst (print_status (Z.of_nat (length cur)) s)) = s ++ repeat blank k'.
  Proof.
    unfold print_status, overwrite, status_pad. cbn [fst].
    set (p := Z.to_nat (Z.max (Z.of_nat (length cur) - Z.of_nat (length s)) 0)).
    rewrite app_length, repeat_length.
    rewrite skipn_app_blanks by (subst p; lia).
    rewrite <- app_assoc, <- repeat_app. eexists. reflexivity.
  Qed.

  Lemma run_status_line ss : forall cur k,
    exists k', fst (run_status (cur ++ repeat blank k) (Z.of_nat (length cur)) ss) = last ss cur ++ repeat blank k'
               /\ snd (run_status (cur ++ repeat blank k) (Z.of_nat (length cur)) ss) = Z.of_nat (length (last ss cur)).
  Proof.
    induction ss as [|s t IH]; intros cur k.
    - exists k. split; reflexivity.
    - cbn [run_status]. destruct (print_status_line cur k s) as [k1 E].
      unfold print_status in *. cbn [fst] in E. rewrite E.
      destruct (IH s k1) as [k2 [I1 I2]]. exists k2.
      rewrite (last_cons t s cur). split; [exact I1|exact I2].
  Qed.

  (* from an empty line: after any sequence of print_status calls the line shows the last status, then blanks only *)
  Lemma status_line_shows_last ss s :
    exists k, fst (run_status [] 0 (ss ++ [s])) = s ++ repeat blank k.
  Proof.
    destruct (run_status_line (ss ++ [s]) [] 0%nat) as [k [E _]]. cbn [app repeat length] in E.
    change (Z.of_nat 0) with 0 in E. exists k. rewrite E. rewrite last_last. reflexivity.
  Qed.
End Status.

(* C20 — the definitions regenerated from the source (Gen.v) ARE the hand model, for all inputs.
   Gen.v is rewritten from esutil/algorithm.py, numpy_util.py and pbar.py on every run; when the source
   changes, these proofs are re-checked against the new text. *)
From Coq Require Import ZifyBool ZifyNat.
From EsVerif.Common Require Import Base.
From EsVerif.C20 Require Import Model Model2 Spec Proofs Proofs2 Meter Shape Gen.
Ltac Zify.zify_post_hook ::= Z.to_euclidean_division_equations.

(* ------------------------------------------------------------------ isplit *)
Lemma zseq_shift {B} (g : Z -> B) a n : map g (zseq (a + 1) n) = map (fun j => g (j + 1)) (zseq a n).
Proof. revert a; induction n as [|n IH]; intro a; simpl; [reflexivity|]. f_equal. apply IH. Qed.

Lemma zget_cons x l j : 0 <= j -> zget (x :: l) (j + 1) = zget l j.
Proof.
  intro H. unfold zget. replace (Z.to_nat (j + 1)) with (S (Z.to_nat j)) by lia. reflexivity.
Qed.

Lemma ranges_as_div_points S s :
  map (fun i => (zget (s :: cumsum_from s S) i, zget (s :: cumsum_from s S) (i + 1))) (zseq 0 (length S))
  = ranges s S.
Proof.
  revert s; induction S as [|x t IH]; intro s; [reflexivity|].
  cbn [length zseq map ranges cumsum_from]. f_equal.
  change (zseq (0 + 1) (length t)) with (zseq (0 + 1) (length t)).
  rewrite (zseq_shift (fun i => (zget (s :: s + x :: cumsum_from (s + x) t) i,
                                  zget (s :: s + x :: cumsum_from (s + x) t) (i + 1))) 0 (length t)).
  rewrite <- IH. apply map_ext_in. intros j Hj. apply in_zseq in Hj.
  rewrite !zget_cons by lia. reflexivity.
Qed.

Theorem tie_isplit : forall num nchunks, gen_isplit num nchunks = isplit num nchunks.
Proof.
  intros num n. unfold gen_isplit, gen_isplit_core, isplit.
  destruct (n <=? 0) eqn:E; [reflexivity|].
  destruct (n =? 0) eqn:E0; [lia|].
  cbn [app]. unfold cumsum. cbn [cumsum_from]. f_equal.
  change (repeat (num / n + 1) (Z.to_nat (num mod n)) ++ repeat (num / n) (Z.to_nat (n - num mod n)))
    with (section_sizes num n).
  replace (0 + 0) with 0 by lia.
  replace (Z.to_nat n) with (length (section_sizes num n)).
  - apply ranges_as_div_points.
  - unfold section_sizes. rewrite app_length, !repeat_length. lia.
Qed.

(* -------------------------------------------------------------- splitarray *)
Lemma pyslice_chunk {A} (l : list A) a w :
  0 <= a -> 0 < w -> pyslice l a (a + w) = firstn (Z.to_nat w) (skipn (Z.to_nat a) l).
Proof.
  intros Ha Hw. unfold pyslice, clip_index. cbv zeta.
  set (n := Z.of_nat (length l)).
  assert (Hn : 0 <= n) by (subst n; lia).
  assert (E1 : (a <? 0) = false) by lia. assert (E2 : (a + w <? 0) = false) by lia.
  rewrite !E1, !E2. cbv iota. rewrite ?E1, ?E2. cbv iota.
  destruct (n <? a) eqn:E3.
  - destruct (n <? a + w) eqn:E4; [|lia].
    replace (Z.to_nat (n - n)) with 0%nat by lia. cbn [firstn].
    assert (S : skipn (Z.to_nat a) l = []) by (apply skipn_all2; subst n; lia).
    rewrite S, firstn_nil. reflexivity.
  - destruct (n <? a + w) eqn:E4.
    + rewrite !firstn_all2; [reflexivity| |]; rewrite skipn_length; subst n; lia.
    + f_equal. lia.
Qed.

Theorem tie_splitarray : forall (A : Type) nper (var : list A), gen_splitarray nper var = splitarray nper var.
Proof.
  intros A nper var. unfold gen_splitarray, gen_splitarray_core, splitarray.
  destruct (nper =? 0) eqn:E0; [reflexivity|].
  set (size := Z.of_nat (length var)).
  assert (Hs : 0 <= size) by (subst size; lia).
  set (k := if negb (size mod nper =? 0) then size / nper + 1 else size / nper).
  assert (Hk : k = size / nper + (if size mod nper =? 0 then 0 else 1)).
  { subst k. destruct (size mod nper =? 0); simpl; lia. }
  rewrite <- Hk. f_equal. apply map_ext_in. intros i Hi. apply in_zseq in Hi.
  assert (0 < nper).
  { destruct (Z_lt_le_dec 0 nper) as [P|P]; [exact P|]. exfalso.
    assert (k <= 0); [|lia]. rewrite Hk. destruct (size mod nper =? 0) eqn:M; nia. }
  replace ((i + 1) * nper) with (i * nper + nper) by lia.
  apply pyslice_chunk; nia.
Qed.

(* ------------------------------------------------------------------- sorts *)
Section TieSort.
  Context {A : Type} (key : A -> Z) (dflt : A).

  Lemma tie_part : forall fuel d pivot bottom top ph,
    gen_part key dflt fuel d pivot bottom top ph = part key dflt fuel d pivot bottom top ph.
  Proof.
    induction fuel as [|f IH]; intros; [reflexivity|].
    cbn [gen_part part]. destruct ph; rewrite ?IH; reflexivity.
  Qed.

  Lemma tie_partition d s e : gen_partition key dflt d s e = partition key dflt d s e.
  Proof. unfold gen_partition, partition. apply tie_part. Qed.

  Lemma tie_qs : forall fuel d s e, gen_qs key dflt fuel d s e = qs key dflt fuel d s e.
  Proof.
    induction fuel as [|f IH]; intros; [reflexivity|].
    cbn [gen_qs qs]. rewrite tie_partition.
    destruct (s <? e); [|reflexivity].
    destruct (partition key dflt d s e) as [[d1 split]|]; [|reflexivity].
    rewrite IH. destruct (qs key dflt f d1 s (split - 1)); [apply IH|reflexivity].
  Qed.

  Lemma tie_quicksort_gen d : gen_quicksort key dflt d = quicksort_gen key dflt d.
  Proof. unfold gen_quicksort, quicksort_gen. apply tie_qs. Qed.

  Lemma tie_part_kv : forall fuel d pivot bottom top ph,
    gen_part_kv key dflt fuel d pivot bottom top ph = part key dflt fuel d pivot bottom top ph.
  Proof.
    induction fuel as [|f IH]; intros; [reflexivity|].
    cbn [gen_part_kv part]. destruct ph; rewrite ?IH; reflexivity.
  Qed.

  Lemma tie_partition_kv d s e : gen_partition_kv key dflt d s e = partition key dflt d s e.
  Proof. unfold gen_partition_kv, partition. apply tie_part_kv. Qed.

  Lemma tie_qs_kv : forall fuel d s e, gen_qs_kv key dflt fuel d s e = qs key dflt fuel d s e.
  Proof.
    induction fuel as [|f IH]; intros; [reflexivity|].
    cbn [gen_qs_kv qs]. rewrite tie_partition_kv.
    destruct (s <? e); [|reflexivity].
    destruct (partition key dflt d s e) as [[d1 split]|]; [|reflexivity].
    rewrite IH. destruct (qs key dflt f d1 s (split - 1)); [apply IH|reflexivity].
  Qed.

  Lemma tie_quicksort_gen_kv d : gen_quicksort_kv key dflt d = quicksort_gen key dflt d.
  Proof. unfold gen_quicksort_kv, quicksort_gen. apply tie_qs_kv. Qed.
End TieSort.

Theorem tie_quicksort : forall d, gen_quicksort (fun x => x) 0 d = quicksort d.
Proof. intro d. apply tie_quicksort_gen. Qed.

Theorem tie_quicksort_keyvalue : forall kv, gen_quicksort_kv fst (0, 0) kv = quicksort_keyvalue kv.
Proof. intro kv. apply tie_quicksort_gen_kv. Qed.

(* -------------------------------------------------------------------- pbar *)
Theorem tie_format_interval : forall t, gen_format_interval t = format_interval t.
Proof.
  intro t. unfold gen_format_interval, format_interval.
  destruct (t / 60 / 60 =? 0); reflexivity.
Qed.

Theorem tie_meter_total : forall n total, gen_meter_total n total = meter_total n total.
Proof.
  intros n [t|]; [|reflexivity]. unfold gen_meter_total, meter_total.
  destruct (n >? t); [reflexivity|]. destruct (t =? 0); reflexivity.
Qed.

Theorem tie_bar_skeletons :
  gen_full_skel = full_skel /\ gen_sbar_skel = sbar_skel
  /\ (forall b, gen_dispatch_simple b = b)
  /\ (forall n, gen_full_n_step n = n_step n)
  /\ (forall i, gen_sbar_i_step i = n_step i)
  /\ (forall n l m, gen_full_iter_test n l m = iter_test n l m)
  /\ (forall n l, gen_full_final_test n l = final_test n l).
Proof. repeat split. Qed.

(* what the dispatch of pbar() does with the two generators read from the source: the model *)
Theorem tie_pbar : forall c items,
  run_skel (if gen_dispatch_simple (simple c) then gen_sbar_skel else gen_full_skel) c items = pbar c items.
Proof.
  intros c items. destruct tie_bar_skeletons as (E1 & E2 & E3 & _). rewrite E1, E2, E3.
  apply run_skel_pbar.
Qed.

(* ------------------------------------------------- the property theorems, stated about the regenerated text *)
Theorem src_isplit_spec : forall num nchunks, 0 <= num -> 1 <= nchunks ->
  exists l, gen_isplit num nchunks = Ok l /\ isplit_ok num nchunks l.
Proof. intros. rewrite tie_isplit. apply isplit_spec; assumption. Qed.

Theorem src_splitarray_spec : forall nper (var : list Z), 1 <= nper ->
  exists cs, gen_splitarray nper var = Ok cs /\ splitarray_ok nper var cs.
Proof. intros. rewrite tie_splitarray. apply splitarray_spec; assumption. Qed.

Theorem src_pbar_spec : forall c items, pbar_defined c items ->
  pbar_ok items (run_skel (if gen_dispatch_simple (simple c) then gen_sbar_skel else gen_full_skel) c items).
Proof. intros. rewrite tie_pbar. apply pbar_spec; assumption. Qed.

(* ------------------------------------------------- proof-deepening round: meter divisions, StatusPrinter padding *)
Theorem tie_meter_divisions : gen_meter_divisions = meter_divisions.
Proof. reflexivity. Qed.

Theorem tie_status_pad : forall last len, gen_status_pad last len = status_pad last len.
Proof. intros. reflexivity. Qed.

(* no division of format_meter's bar branch, as read from the source, raises unless n = 0 and elapsed > 0 *)
Theorem src_meter_safe : forall n total el, (n = 0 -> el <> SPos) ->
  match meter_total n total with Some t => divisions_raise gen_meter_divisions n t el | None => false end = false.
Proof. intros n total el H. rewrite tie_meter_divisions. exact (meter_safe n total el H). Qed.

(* ------------------------------------------------- round 6: defaults, literals, time test, wrapper expressions *)
Theorem tie_shapes :
  gen_pbar_defaults = model_pbar_defaults /\ gen_pmap_defaults = model_pmap_defaults
  /\ gen_full_first_meter = first_meter /\ gen_full_init = full_init
  /\ (forall a b c, gen_full_time_test a b c = time_test a b c)
  /\ (forall n, gen_full_last_update n = last_update n)
  /\ gen_prange_expr = prange_expr /\ gen_pmap_expr = pmap_expr.
Proof. repeat split. Qed.

(* pmap and prange as composed in the source, evaluated: the models *)
Theorem src_pmap_kw : forall c f items chunksize schedule,
  1 <= chunksize ->
  (forall k, 0 <= k < Z.of_nat (length (chunks_of (length items) (Z.to_nat chunksize) items)) -> In k schedule) ->
  pbar_defined (as_generator c) (map f items) ->
  eval_pmap c f items chunksize schedule gen_pmap_expr = Some (map f items, None).
Proof. intros. destruct tie_shapes as (_ & _ & _ & _ & _ & _ & _ & ->). apply pmap_kw_spec; assumption. Qed.

Theorem src_prange : forall c args, eval_prange c args gen_prange_expr = prange c args.
Proof. intros. destruct tie_shapes as (_ & _ & _ & _ & _ & _ & -> & _). reflexivity. Qed.

Theorem src_pbar_defaults : forall has_len items, pbar_ok items (pbar (default_cfg gen_pbar_defaults has_len) items).
Proof. intros. destruct tie_shapes as (-> & _). apply pbar_defaults_ok. Qed.

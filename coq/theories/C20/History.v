(* C20 — the history dimension as a model: calls act on a heap of objects.
   Arguments are addresses of objects the caller owns.  The EFFECT of a call is computed from the call and the
   contents of the cells it reads, nothing else (locality holds by construction and is stated as a theorem);
   the in-place sorts write their argument(s) and nothing else; isplit / splitarray / pmap ALLOCATE their result
   (a cell that did not exist before) and write nothing; pbar only reads.
   Theorems: frame (no other cell changes), locality, no buffer reuse (a result cell is never changed by a later
   call that does not name it; a returned address never existed before).
   Not modelled: aliasing between the chunks returned by splitarray and its ndarray argument (they are views),
   quicksort_keyvalue with the same object as keys and values or with different lengths (answer AUnmodelled). *)
From Coq Require Import ZifyBool ZifyNat.
From EsVerif.Common Require Import Base.
From EsVerif.C20 Require Import Model Model2 Spec Proofs.

Inductive value := VList (l : list Z) | VPairs (l : list (Z * Z)) | VChunks (l : list (list Z)).
Definition heap := list value.
Definition vdflt : value := VList [].
Definition hget (h : heap) (a : nat) : value := nth a h vdflt.

Inductive call :=
| CNew (l : list Z)                              (* the caller creates an array *)
| CWrite (a : nat) (v : value)                   (* the caller overwrites object a in place (also: scribbles over a result) *)
| CQuicksort (a : nat)
| CQuicksortKV (k v : nat)
| CIsplit (num nchunks : Z)
| CSplitarray (nper : Z) (a : nat)
| CPbar (c : pcfg) (a : nat)
| CPmap (fa fb : Z) (a : nat) (chunksize : Z) (schedule : list Z).

Inductive answer :=
| ANone                                           (* returns None (in-place operations, caller's own writes) *)
| AAddr (a : nat)                                 (* returns the object at this address *)
| AErr (e : err)
| AYield (out : list (Z * Z) * option err)
| AUnmodelled.

(* the cells a call reads / may write (addresses it was given) *)
Definition reads (c : call) : list nat :=
  match c with
  | CNew _ | CWrite _ _ | CIsplit _ _ => []
  | CQuicksort a | CSplitarray _ a | CPbar _ a | CPmap _ _ a _ _ => [a]
  | CQuicksortKV k v => [k; v]
  end.
Definition writes (c : call) : list nat :=
  match c with
  | CWrite a _ | CQuicksort a => [a]
  | CQuicksortKV k v => [k; v]
  | _ => []
  end.

(* effect = (cells written with their new contents, newly allocated object, answer when nothing is allocated) *)
Definition effect := (list (nat * value) * option value * answer)%type.
Definition no_effect (a : answer) : effect := ([], None, a).

Definition eff (c : call) (args : list value) : effect :=
  match c, args with
  | CNew l, _ => ([], Some (VList l), ANone)
  | CWrite a v, _ => ([(a, v)], None, ANone)
  | CQuicksort a, [VList l] =>
      match quicksort l with Some l' => ([(a, VList l')], None, ANone) | None => no_effect (AErr EFuel) end
  | CQuicksortKV k v, [VList ks; VList vs] =>
      if (k =? v)%nat || negb (length ks =? length vs)%nat then no_effect AUnmodelled
      else match quicksort_keyvalue (combine ks vs) with
           | Some kv => ([(k, VList (map fst kv)); (v, VList (map snd kv))], None, ANone)
           | None => no_effect (AErr EFuel)
           end
  | CIsplit num nchunks, _ =>
      match isplit num nchunks with Ok l => ([], Some (VPairs l), ANone) | Err e => no_effect (AErr e) end
  | CSplitarray nper _, [VList l] =>
      match splitarray nper l with Ok cs => ([], Some (VChunks cs), ANone) | Err e => no_effect (AErr e) end
  | CPbar c _, [VList l] => no_effect (AYield (pbar c l))
  | CPmap fa fb _ chunksize schedule, [VList l] =>
      match pmap (fun x => fa * x * x + fb) l chunksize schedule with
      | Some r => ([], Some (VList r), ANone)
      | None => no_effect AUnmodelled
      end
  | _, _ => no_effect (AErr EType)
  end.

Definition write_all (h : heap) (ws : list (nat * value)) : heap :=
  fold_left (fun h p => set_nth h (fst p) (snd p)) ws h.

Definition commit (h : heap) (e : effect) : heap * answer :=
  let '(ws, new, ans) := e in
  let h' := write_all h ws in
  match new with
  | Some v => (h' ++ [v], AAddr (length h'))
  | None => (h', ans)
  end.

Definition valid (h : heap) (c : call) : bool :=
  forallb (fun a => (a <? length h)%nat) (reads c ++ writes c).

Definition step (h : heap) (c : call) : heap * answer :=
  if valid h c then commit h (eff c (map (hget h) (reads c))) else (h, AErr EIndex).

Fixpoint run (h : heap) (cs : list call) : heap * list answer :=
  match cs with
  | [] => (h, [])
  | c :: t => let '(h2, r) := run (fst (step h c)) t in (h2, snd (step h c) :: r)
  end.

(* ------------------------------------------------------------------ frame *)
Lemma write_all_length h ws : length (write_all h ws) = length h.
Proof.
  revert h; induction ws as [|p t IH]; intro h; cbn [write_all fold_left]; [reflexivity|].
  change (length (write_all (set_nth h (fst p) (snd p)) t) = length h). rewrite IH. apply set_nth_length.
Qed.

Lemma write_all_other h ws b : (forall p, In p ws -> fst p <> b) -> hget (write_all h ws) b = hget h b.
Proof.
  revert h; induction ws as [|p t IH]; intros h H; cbn [write_all fold_left]; [reflexivity|].
  change (hget (write_all (set_nth h (fst p) (snd p)) t) b = hget h b).
  rewrite IH by (intros q Hq; apply H; right; exact Hq).
  unfold hget. apply nth_set_nth_neq. apply H. left. reflexivity.
Qed.

Lemma eff_writes_named c args p : In p (fst (fst (eff c args))) -> In (fst p) (writes c).
Proof.
  destruct c as [l|a v|a|k v|num n|nper a|c a|fa fb a cs sch]; cbn [eff writes].
  - cbn [fst snd no_effect In]. intros [].
  - cbn [fst snd no_effect In]. intros [<-|[]]. left. reflexivity.
  - destruct args as [|[l| |] [|? ?]]; cbn [fst snd no_effect In]; try (intros []).
    destruct (quicksort l); cbn [fst snd no_effect In]; [intros [<-|[]]; left; reflexivity|intros []].
  - destruct args as [|[ks| |] [|[vs| |] [|? ?]]]; cbn [fst snd no_effect In]; try (intros []).
    destruct ((k =? v)%nat || negb (length ks =? length vs)%nat); cbn [fst snd no_effect In]; [intros []|].
    destruct (quicksort_keyvalue (combine ks vs)); cbn [fst snd no_effect In]; [|intros []].
    intros [<-|[<-|[]]]; [left|right; left]; reflexivity.
  - destruct (isplit num n); cbn [fst snd no_effect In]; intros [].
  - destruct args as [|[l| |] [|? ?]]; cbn [fst snd no_effect In]; try (intros []). destruct (splitarray nper l); cbn [fst snd no_effect In]; intros [].
  - destruct args as [|[l| |] [|? ?]]; cbn [fst snd no_effect In]; intros [].
  - destruct args as [|[l| |] [|? ?]]; cbn [fst snd no_effect In]; try (intros []). destruct (pmap _ l cs sch); cbn [fst snd no_effect In]; intros [].
Qed.

(* a call changes no existing cell except the ones it names in [writes]; the heap never shrinks and grows by
   at most one cell, at the end *)
Lemma step_frame h c :
  (length h <= length (fst (step h c)) <= S (length h))%nat
  /\ forall b, (b < length h)%nat -> ~ In b (writes c) -> hget (fst (step h c)) b = hget h b.
Proof.
  unfold step. destruct (valid h c); cbn [fst]; [|split; [lia|reflexivity]].
  pose proof (eff_writes_named c (map (hget h) (reads c))) as W.
  destruct (eff c (map (hget h) (reads c))) as [[ws new] ans]. cbn [fst] in W. unfold commit.
  assert (O : forall b, ~ In b (writes c) -> hget (write_all h ws) b = hget h b).
  { intros b N. apply write_all_other. intros p Hp E. apply N. rewrite <- E. apply W. exact Hp. }
  destruct new as [v|]; cbn [fst].
  - rewrite app_length, write_all_length. cbn [length]. split; [lia|]. intros b L N.
    unfold hget at 1. rewrite app_nth1 by (rewrite write_all_length; exact L). apply O. exact N.
  - rewrite write_all_length. split; [lia|]. intros b _ N. apply O. exact N.
Qed.

(* ------------------------------------------------------------------ locality *)
(* two heaps of the same size that agree on the cells a call reads undergo THE SAME EFFECT: same answer, same
   contents written to the named cells, same newly allocated object *)
Lemma step_local h1 h2 c :
  length h1 = length h2 ->
  (forall a, In a (reads c) -> hget h1 a = hget h2 a) ->
  (valid h1 c = false /\ step h1 c = (h1, AErr EIndex) /\ step h2 c = (h2, AErr EIndex))
  \/ exists e, step h1 c = commit h1 e /\ step h2 c = commit h2 e.
Proof.
  intros L R. unfold step, valid. rewrite <- L.
  destruct (forallb (fun a => (a <? length h1)%nat) (reads c ++ writes c)) eqn:V.
  - right. exists (eff c (map (hget h1) (reads c))). split; [reflexivity|].
    f_equal. f_equal. apply map_ext_in. intros a Ha. symmetry. apply R. exact Ha.
  - left. repeat split.
Qed.

Lemma commit_answer h1 h2 e : length h1 = length h2 -> snd (commit h1 e) = snd (commit h2 e).
Proof.
  intro L. destruct e as [[ws new] ans]. unfold commit. destruct new; cbn [snd]; [|reflexivity].
  rewrite !write_all_length, L. reflexivity.
Qed.

Lemma step_answer_local h1 h2 c :
  length h1 = length h2 -> (forall a, In a (reads c) -> hget h1 a = hget h2 a) ->
  snd (step h1 c) = snd (step h2 c).
Proof.
  intros L R. destruct (step_local h1 h2 c L R) as [(_ & E1 & E2)|[e [E1 E2]]]; rewrite E1, E2; [reflexivity|].
  apply commit_answer. exact L.
Qed.

(* ------------------------------------------------------------------ no buffer reuse *)
(* an object handed out as a result did not exist before the call *)
Lemma result_is_fresh h c a :
  snd (step h c) = AAddr a -> a = length h /\ length (fst (step h c)) = S (length h).
Proof.
  unfold step. destruct (valid h c); cbn [snd fst]; [|discriminate].
  destruct (eff c (map (hget h) (reads c))) as [[ws new] ans] eqn:E. unfold commit.
  destruct new as [v|]; cbn [snd fst].
  - intro H. inversion H. rewrite app_length, write_all_length. cbn [length]. split; [reflexivity|lia].
  - intro H. subst ans. exfalso.
    destruct c as [l|a0 v|a0|k v|num n|nper a0|c a0|fa fb a0 cs sch]; cbn [eff reads map] in E.
    + discriminate.
    + inversion E.
    + destruct (hget h a0) as [l| |]; try (inversion E; fail). destruct (quicksort l); inversion E.
    + destruct (hget h k) as [ks| |]; try (inversion E; fail). destruct (hget h v) as [vs| |]; try (inversion E; fail).
      destruct ((k =? v)%nat || negb (length ks =? length vs)%nat); [inversion E|].
      destruct (quicksort_keyvalue (combine ks vs)); inversion E.
    + destruct (isplit num n); inversion E.
    + destruct (hget h a0) as [l| |]; try (inversion E; fail). destruct (splitarray nper l); inversion E.
    + destruct (hget h a0) as [l| |]; inversion E.
    + destruct (hget h a0) as [l| |]; try (inversion E; fail). destruct (pmap _ l cs sch); inversion E.
Qed.

Lemma run_length_mono h cs : (length h <= length (fst (run h cs)))%nat.
Proof.
  revert h; induction cs as [|c t IH]; intro h; cbn [run]; [cbn; lia|].
  specialize (IH (fst (step h c))). destruct (run (fst (step h c)) t) as [h2 r]. cbn [fst] in *.
  pose proof (step_frame h c) as [F _]. lia.
Qed.

(* whatever is called later: a cell that no later call names in [writes] keeps its contents (in particular an
   earlier RESULT that the caller does not modify itself) *)
Lemma run_frame cs : forall h b,
  (b < length h)%nat -> (forall c, In c cs -> ~ In b (writes c)) -> hget (fst (run h cs)) b = hget h b.
Proof.
  induction cs as [|c t IH]; intros h b L N; cbn [run]; [reflexivity|].
  pose proof (step_frame h c) as [F1 F2].
  specialize (IH (fst (step h c)) b ltac:(lia) (fun c' H => N c' (or_intror H))).
  destruct (run (fst (step h c)) t) as [h2 r]. cbn [fst] in *.
  rewrite IH. apply F2; [exact L|]. apply N. left. reflexivity.
Qed.

(* the contents of a result are the model function of the argument contents at call time *)
Lemma isplit_result h num nchunks l :
  isplit num nchunks = Ok l -> step h (CIsplit num nchunks) = (h ++ [VPairs l], AAddr (length h)).
Proof. intro E. unfold step, valid. cbn [reads writes app forallb map eff]. rewrite E. reflexivity. Qed.

Lemma quicksort_effect h a l l' :
  (a < length h)%nat -> hget h a = VList l -> quicksort l = Some l' ->
  step h (CQuicksort a) = (set_nth h a (VList l'), ANone).
Proof.
  intros L G Q. unfold step, valid. cbn [reads writes app forallb map eff].
  assert ((a <? length h)%nat = true) as -> by lia. cbn [andb]. rewrite G, Q. reflexivity.
Qed.

(* C20 — correctness of the hole-based in-place quicksort model (Model.v, Section Sort):
   the fuel given by the model always suffices (the result is never None), the output is a
   permutation of the input, and it is sorted by key. *)
From Coq Require Import ZArith List Bool Lia ZifyBool.
From Coq Require Import Sorting.Permutation Sorting.Sorted.
From EsVerif.Common Require Import Base.
From EsVerif.C20 Require Import Model.
Local Open Scope Z_scope.

(* ------------------------------------------------------------ generic list facts *)
Section ListFacts.
  Context {A : Type} (dflt : A).

  Lemma zset_length (l : list A) (i : Z) (v : A) : length (zset l i v) = length l.
  Proof.
    unfold zset. destruct (i <? 0); [reflexivity | apply set_nth_length].
  Qed.

  Lemma aget_zset_eq (l : list A) (i : Z) (v : A) :
    0 <= i < Z.of_nat (length l) -> aget dflt (zset l i v) i = v.
  Proof.
    intros Hi. unfold aget, zset. destruct (Z.ltb_spec i 0) as [Hneg | Hnn]; [lia|].
    apply nth_set_nth_eq. lia.
  Qed.

  Lemma aget_zset_neq (l : list A) (i j : Z) (v : A) :
    i <> j -> 0 <= j -> aget dflt (zset l i v) j = aget dflt l j.
  Proof.
    intros Hij Hj. unfold aget, zset. destruct (Z.ltb_spec i 0) as [Hneg | Hnn]; [reflexivity|].
    apply nth_set_nth_neq. lia.
  Qed.

  (* two lists that agree everywhere except that cells i and j are exchanged *)
  Lemma perm_swap (l l' : list A) (i j : nat) :
    length l' = length l -> (i < length l)%nat -> (j < length l)%nat ->
    nth i l' dflt = nth j l dflt -> nth j l' dflt = nth i l dflt ->
    (forall k, k <> i -> k <> j -> nth k l' dflt = nth k l dflt) ->
    Permutation l l'.
  Proof.
    intros Hlen Hi Hj Hij Hji Hk.
    apply (Permutation_nth l l' dflt). split; [exact Hlen|].
    exists (fun x => if Nat.eqb x i then j else if Nat.eqb x j then i else x).
    unfold FinFun.bFun, FinFun.bInjective. split; [|split].
    - intros x Hx. destruct (Nat.eqb_spec x i); [lia|]. destruct (Nat.eqb_spec x j); lia.
    - intros x y Hx Hy.
      destruct (Nat.eqb_spec x i), (Nat.eqb_spec y i), (Nat.eqb_spec x j), (Nat.eqb_spec y j); lia.
    - intros x Hx. destruct (Nat.eqb_spec x i) as [->|Hxi]; [exact Hij|].
      destruct (Nat.eqb_spec x j) as [->|Hxj]; [exact Hji|]. apply Hk; assumption.
  Qed.

  Lemma perm_swap_z (l l' : list A) (i j : Z) :
    length l' = length l ->
    0 <= i < Z.of_nat (length l) -> 0 <= j < Z.of_nat (length l) ->
    aget dflt l' i = aget dflt l j -> aget dflt l' j = aget dflt l i ->
    (forall k, 0 <= k -> k <> i -> k <> j -> aget dflt l' k = aget dflt l k) ->
    Permutation l l'.
  Proof.
    intros Hlen Hi Hj Hij Hji Hk.
    apply (perm_swap l l' (Z.to_nat i) (Z.to_nat j)); try assumption; try lia.
    intros k Hki Hkj. specialize (Hk (Z.of_nat k)). unfold aget in Hk.
    rewrite Nat2Z.id in Hk. apply Hk; lia.
  Qed.

  Lemma sorted_nth_SS (R : A -> A -> Prop) (l : list A) :
    (forall i j, (i < j)%nat -> (j < length l)%nat -> R (nth i l dflt) (nth j l dflt)) ->
    StronglySorted R l.
  Proof.
    induction l as [|a l IH]; intros H; constructor.
    - apply IH. intros i j Hij Hj. apply (H (S i) (S j)); cbn [length]; lia.
    - apply Forall_forall. intros x Hx.
      destruct (In_nth l x dflt Hx) as (n & Hn & Hnx). subst x.
      apply (H O (S n)); cbn [length]; lia.
  Qed.
End ListFacts.

(* ------------------------------------------------------------------ quicksort *)
Section SortProofs.
  Context {A : Type} (key : A -> Z) (dflt : A).
  Local Notation ag := (aget dflt).

  Definition hole (ph : phase) (bottom top : Z) : Z :=
    match ph with Up => top | Down => bottom end.

  (* loop invariant of the two-phase partition loop, relative to the original list d0 *)
  Record PInv (d0 : list A) (start end_ : Z) (pivot : A)
              (d : list A) (bottom top : Z) (ph : phase) : Prop := {
    pi_len : length d = length d0;
    pi_bt : bottom < top;
    pi_lo : match ph with Up => start - 1 <= bottom | Down => start <= bottom end;
    pi_hi : top <= end_;
    pi_perm : Permutation d0 (zset d (hole ph bottom top) pivot);
    pi_low : forall i, start <= i <= bottom -> i <> hole ph bottom top ->
                       key (ag d i) <= key pivot;
    pi_high : forall i, top <= i <= end_ -> i <> hole ph bottom top ->
                        key pivot <= key (ag d i);
    pi_out : forall i, 0 <= i -> i < start \/ end_ < i -> ag d i = ag d0 i;
    pi_mem : forall i, start <= i <= end_ ->
                       exists j, start <= j <= end_ /\ ag d i = ag d0 j
  }.

  Record PPost (d0 : list A) (start end_ : Z) (d1 : list A) (split : Z) : Prop := {
    pp_len : length d1 = length d0;
    pp_split : start <= split <= end_;
    pp_perm : Permutation d0 d1;
    pp_low : forall i, start <= i < split -> key (ag d1 i) <= key (ag d1 split);
    pp_high : forall i, split < i <= end_ -> key (ag d1 split) <= key (ag d1 i);
    pp_out : forall i, 0 <= i -> i < start \/ end_ < i -> ag d1 i = ag d0 i;
    pp_mem : forall i, start <= i <= end_ ->
                       exists j, start <= j <= end_ /\ ag d1 i = ag d0 j
  }.

  Ltac simp_ag :=
    repeat first
      [ rewrite aget_zset_eq by (rewrite ?zset_length; lia)
      | rewrite aget_zset_neq by lia ].

  Lemma part_spec (d0 : list A) (start end_ : Z) (pivot : A) :
    0 <= start -> end_ < Z.of_nat (length d0) ->
    (exists j, start <= j <= end_ /\ pivot = ag d0 j) ->
    forall (fuel : nat) (d : list A) (bottom top : Z) (ph : phase),
      PInv d0 start end_ pivot d bottom top ph ->
      top - bottom <= Z.of_nat fuel ->
      exists d1 split,
        part key dflt fuel d pivot bottom top ph = Some (d1, split)
        /\ PPost d0 start end_ d1 split.
  Proof.
    intros Hs He Hpiv. induction fuel as [|f IH]; intros d bottom top ph Inv Hfuel.
    - destruct Inv. lia.
    - destruct Inv as [Hlen Hbt Hlo Hhi Hperm Hlow Hhigh Hout Hmem].
      destruct ph; cbn [part hole] in *.
      + (* Up: the hole is at top *)
        destruct (Z.eqb_spec (bottom + 1) top) as [Heq | Hne].
        * subst top. exists (zset d (bottom + 1) pivot), (bottom + 1).
          split; [reflexivity|]. constructor.
          -- rewrite zset_length. exact Hlen.
          -- lia.
          -- exact Hperm.
          -- intros i Hi. simp_ag. apply Hlow; lia.
          -- intros i Hi. simp_ag. apply Hhigh; lia.
          -- intros i Hi0 Hi. simp_ag. apply Hout; lia.
          -- intros i Hi. destruct (Z.eq_dec i (bottom + 1)) as [->|Hib].
             ++ simp_ag. exact Hpiv.
             ++ simp_ag. apply Hmem; lia.
        * destruct (key (ag d (bottom + 1)) >? key pivot) eqn:Hcmp.
          -- apply IH; [|lia]. constructor; cbn [hole].
             ++ rewrite zset_length. exact Hlen.
             ++ lia.
             ++ lia.
             ++ exact Hhi.
             ++ eapply Permutation_trans; [exact Hperm|].
                apply (perm_swap_z dflt _ _ top (bottom + 1)).
                ** rewrite !zset_length. reflexivity.
                ** rewrite zset_length. lia.
                ** rewrite zset_length. lia.
                ** simp_ag. reflexivity.
                ** simp_ag. reflexivity.
                ** intros k Hk0 Hk1 Hk2. simp_ag. reflexivity.
             ++ intros i Hi Hih. simp_ag. apply Hlow; lia.
             ++ intros i Hi Hih. destruct (Z.eq_dec i top) as [->|Hit].
                ** simp_ag. lia.
                ** simp_ag. apply Hhigh; lia.
             ++ intros i Hi0 Hi. simp_ag. apply Hout; lia.
             ++ intros i Hi. destruct (Z.eq_dec i top) as [->|Hit].
                ** simp_ag. apply Hmem; lia.
                ** simp_ag. apply Hmem; lia.
          -- apply IH; [|lia]. constructor; cbn [hole].
             ++ exact Hlen.
             ++ lia.
             ++ lia.
             ++ exact Hhi.
             ++ exact Hperm.
             ++ intros i Hi Hih. destruct (Z.eq_dec i (bottom + 1)) as [->|Hib].
                ** lia.
                ** apply Hlow; lia.
             ++ exact Hhigh.
             ++ exact Hout.
             ++ exact Hmem.
      + (* Down: the hole is at bottom *)
        destruct (Z.eqb_spec (top - 1) bottom) as [Heq | Hne].
        * subst bottom. exists (zset d (top - 1) pivot), (top - 1).
          split; [reflexivity|]. constructor.
          -- rewrite zset_length. exact Hlen.
          -- lia.
          -- exact Hperm.
          -- intros i Hi. simp_ag. apply Hlow; lia.
          -- intros i Hi. simp_ag. apply Hhigh; lia.
          -- intros i Hi0 Hi. simp_ag. apply Hout; lia.
          -- intros i Hi. destruct (Z.eq_dec i (top - 1)) as [->|Hib].
             ++ simp_ag. exact Hpiv.
             ++ simp_ag. apply Hmem; lia.
        * destruct (key (ag d (top - 1)) <? key pivot) eqn:Hcmp.
          -- apply IH; [|lia]. constructor; cbn [hole].
             ++ rewrite zset_length. exact Hlen.
             ++ lia.
             ++ lia.
             ++ lia.
             ++ eapply Permutation_trans; [exact Hperm|].
                apply (perm_swap_z dflt _ _ bottom (top - 1)).
                ** rewrite !zset_length. reflexivity.
                ** rewrite zset_length. lia.
                ** rewrite zset_length. lia.
                ** simp_ag. reflexivity.
                ** simp_ag. reflexivity.
                ** intros k Hk0 Hk1 Hk2. simp_ag. reflexivity.
             ++ intros i Hi Hih. destruct (Z.eq_dec i bottom) as [->|Hib].
                ** simp_ag. lia.
                ** simp_ag. apply Hlow; lia.
             ++ intros i Hi Hih. simp_ag. apply Hhigh; lia.
             ++ intros i Hi0 Hi. simp_ag. apply Hout; lia.
             ++ intros i Hi. destruct (Z.eq_dec i bottom) as [->|Hib].
                ** simp_ag. apply Hmem; lia.
                ** simp_ag. apply Hmem; lia.
          -- apply IH; [|lia]. constructor; cbn [hole].
             ++ exact Hlen.
             ++ lia.
             ++ lia.
             ++ lia.
             ++ exact Hperm.
             ++ exact Hlow.
             ++ intros i Hi Hih. destruct (Z.eq_dec i (top - 1)) as [->|Hit].
                ** lia.
                ** apply Hhigh; lia.
             ++ exact Hout.
             ++ exact Hmem.
  Qed.

  Lemma partition_spec (d : list A) (start end_ : Z) :
    0 <= start -> start < end_ -> end_ < Z.of_nat (length d) ->
    exists d1 split,
      partition key dflt d start end_ = Some (d1, split) /\ PPost d start end_ d1 split.
  Proof.
    intros Hs Hlt He. unfold partition.
    apply part_spec; try lia.
    - exists end_. split; [lia | reflexivity].
    - constructor; cbn [hole].
      + reflexivity.
      + lia.
      + lia.
      + lia.
      + apply (perm_swap_z dflt _ _ end_ end_).
        * rewrite zset_length. reflexivity.
        * lia.
        * lia.
        * simp_ag. reflexivity.
        * simp_ag. reflexivity.
        * intros k Hk0 Hk1 Hk2. simp_ag. reflexivity.
      + intros i Hi Hih. lia.
      + intros i Hi Hih. lia.
      + intros i Hi0 Hi. reflexivity.
      + intros i Hi. exists i. split; [lia | reflexivity].
  Qed.

  Definition sorted_win (d : list A) (s e : Z) : Prop :=
    forall i j, s <= i -> i < j -> j <= e -> key (ag d i) <= key (ag d j).

  Record QPost (d : list A) (start end_ : Z) (d' : list A) : Prop := {
    qp_len : length d' = length d;
    qp_perm : Permutation d d';
    qp_out : forall i, 0 <= i -> i < start \/ end_ < i -> ag d' i = ag d i;
    qp_mem : forall i, start <= i <= end_ ->
                       exists j, start <= j <= end_ /\ ag d' i = ag d j;
    qp_sorted : sorted_win d' start end_
  }.

  Lemma qs_spec : forall (fuel : nat) (d : list A) (start end_ : Z),
    0 <= start -> end_ < Z.of_nat (length d) ->
    end_ - start < Z.of_nat fuel -> (0 < fuel)%nat ->
    exists d', qs key dflt fuel d start end_ = Some d' /\ QPost d start end_ d'.
  Proof.
    induction fuel as [|f IH]; intros d start end_ Hs He Hf Hpos; [lia|].
    cbn [qs]. destruct (Z.ltb_spec start end_) as [Hlt | Hge].
    - destruct (partition_spec d start end_ Hs Hlt He) as (d1 & split & Hp & P1).
      rewrite Hp.
      destruct P1 as [Hlen1 Hsplit Hperm1 Hlow1 Hhigh1 Hout1 Hmem1].
      destruct (IH d1 start (split - 1)) as (d2 & H2 & Q2); try lia.
      rewrite H2.
      destruct Q2 as [Hlen2 Hperm2 Hout2 Hmem2 Hsort2].
      destruct (IH d2 (split + 1) end_) as (d3 & H3 & Q3); try lia.
      destruct Q3 as [Hlen3 Hperm3 Hout3 Hmem3 Hsort3].
      exists d3. split; [exact H3|].
      (* the three facts that drive sortedness of the combined window *)
      assert (Hmid : ag d3 split = ag d1 split).
      { rewrite Hout3 by lia. apply Hout2; lia. }
      assert (HL : forall i, start <= i < split -> key (ag d3 i) <= key (ag d1 split)).
      { intros i Hi. rewrite Hout3 by lia.
        destruct (Hmem2 i) as (j & Hj & Hij); [lia|]. rewrite Hij. apply Hlow1; lia. }
      assert (HR : forall i, split < i <= end_ -> key (ag d1 split) <= key (ag d3 i)).
      { intros i Hi. destruct (Hmem3 i) as (j & Hj & Hij); [lia|]. rewrite Hij.
        rewrite Hout2 by lia. apply Hhigh1; lia. }
      constructor.
      + lia.
      + eapply Permutation_trans; [exact Hperm1|].
        eapply Permutation_trans; [exact Hperm2| exact Hperm3].
      + intros i Hi0 Hi. rewrite Hout3 by lia. rewrite Hout2 by lia. apply Hout1; lia.
      + intros i Hi.
        destruct (Z_lt_le_dec split i) as [Hgt | Hle].
        * destruct (Hmem3 i) as (j & Hj & Hij); [lia|]. rewrite Hij.
          rewrite Hout2 by lia.
          destruct (Hmem1 j) as (j' & Hj' & Hjj'); [lia|]. exists j'. split; [lia|exact Hjj'].
        * rewrite Hout3 by lia.
          destruct (Z_lt_le_dec i split) as [Hlt' | Hge'].
          -- destruct (Hmem2 i) as (j & Hj & Hij); [lia|]. rewrite Hij.
             destruct (Hmem1 j) as (j' & Hj' & Hjj'); [lia|]. exists j'. split; [lia|exact Hjj'].
          -- rewrite Hout2 by lia. apply Hmem1; lia.
      + intros i j Hi Hij Hj.
        destruct (Z_lt_le_dec j split) as [Hjs | Hjs].
        * (* both in the left window *)
          rewrite (Hout3 i) by lia. rewrite (Hout3 j) by lia. apply Hsort2; lia.
        * destruct (Z_lt_le_dec split i) as [His | His].
          -- (* both in the right window *) apply Hsort3; lia.
          -- destruct (Z.eq_dec i split) as [Hie | Hine];
               destruct (Z.eq_dec j split) as [Hje | Hjne].
             ++ lia.
             ++ subst i. rewrite Hmid. apply HR; lia.
             ++ subst j. rewrite Hmid. apply HL; lia.
             ++ apply Z.le_trans with (key (ag d1 split)); [apply HL | apply HR]; lia.
    - exists d. split; [reflexivity|]. constructor.
      + reflexivity.
      + apply Permutation_refl.
      + intros i Hi0 Hi. reflexivity.
      + intros i Hi. exists i. split; [lia | reflexivity].
      + intros i j Hi Hij Hj. lia.
  Qed.
End SortProofs.

(* -------------------------------------------------------------- main theorems *)
Theorem quicksort_gen_correct :
  forall (A : Type) (key : A -> Z) (dflt : A) (d : list A),
    exists d', quicksort_gen key dflt d = Some d'
               /\ Permutation d d'
               /\ StronglySorted (fun a b => key a <= key b) d'.
Proof.
  intros A key dflt d. unfold quicksort_gen.
  destruct (qs_spec key dflt (S (length d)) d 0 (Z.of_nat (length d) - 1))
    as (d' & Hq & Q); try lia.
  destruct Q as [Hlen Hperm Hout Hmem Hsort].
  exists d'. split; [exact Hq|]. split; [exact Hperm|].
  apply (sorted_nth_SS dflt). intros i j Hij Hj.
  specialize (Hsort (Z.of_nat i) (Z.of_nat j)). unfold aget in Hsort.
  rewrite !Nat2Z.id in Hsort. apply Hsort; lia.
Qed.

Corollary quicksort_correct :
  forall d, exists d', quicksort d = Some d' /\ Permutation d d' /\ StronglySorted Z.le d'.
Proof.
  intros d. unfold quicksort.
  destruct (quicksort_gen_correct Z (fun x => x) 0 d) as (d' & Hq & Hperm & Hsort).
  exists d'. split; [exact Hq|]. split; [exact Hperm|]. exact Hsort.
Qed.

Corollary quicksort_keyvalue_correct :
  forall kv, exists kv', quicksort_keyvalue kv = Some kv' /\ Permutation kv kv'
                         /\ StronglySorted (fun a b => fst a <= fst b) kv'.
Proof.
  intros kv. unfold quicksort_keyvalue.
  destruct (quicksort_gen_correct (Z * Z) fst (0, 0) kv) as (kv' & Hq & Hperm & Hsort).
  exists kv'. split; [exact Hq|]. split; [exact Hperm|]. exact Hsort.
Qed.

Print Assumptions quicksort_gen_correct.
Print Assumptions quicksort_correct.
Print Assumptions quicksort_keyvalue_correct.

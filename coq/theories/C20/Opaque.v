(* C20 — the values of a key-value sort are OPAQUE PAYLOADS: the model never inspects them.
   Naturality of the sort in the record type: for every map g on records that preserves keys
   (key' (g a) = key a), sorting the mapped array is mapping the sorted array.  Consequences: relabelling the
   payloads (any function on values, any payload type) commutes with quicksort_keyvalue; the keys of the result
   are quicksort of the keys alone.  An implementation that compares two VALUES (e.g. sorting (key, value) tuples,
   which falls through to the values on tied keys) cannot satisfy this for payload types without an order. *)
From EsVerif.Common Require Import Base.
From EsVerif.C20 Require Import Model.

Lemma set_nth_map {A B} (g : A -> B) (l : list A) n v : set_nth (map g l) n (g v) = map g (set_nth l n v).
Proof. revert n; induction l as [|x t IH]; intros [|n]; cbn [map set_nth]; try reflexivity. rewrite IH. reflexivity. Qed.

Section Natural.
  Context {A A' : Type} (key : A -> Z) (key' : A' -> Z) (g : A -> A') (dflt : A).
  Hypothesis Hkey : forall a, key' (g a) = key a.

  Lemma aget_map d i : aget (g dflt) (map g d) i = g (aget dflt d i).
  Proof. unfold aget. apply map_nth. Qed.

  Lemma zset_map d i v : zset (map g d) i (g v) = map g (zset d i v).
  Proof. unfold zset. destruct (i <? 0); [reflexivity|apply set_nth_map]. Qed.

  Definition lift (r : option (list A * Z)) : option (list A' * Z) :=
    match r with Some (d, s) => Some (map g d, s) | None => None end.

  Lemma part_natural : forall fuel d pivot bottom top ph,
    part key' (g dflt) fuel (map g d) (g pivot) bottom top ph = lift (part key dflt fuel d pivot bottom top ph).
  Proof.
    induction fuel as [|f IH]; intros d pivot bottom top ph; [reflexivity|].
    cbn [part]. destruct ph.
    - destruct (bottom + 1 =? top); [cbn [lift]; rewrite zset_map; reflexivity|].
      rewrite aget_map, !Hkey. destruct (key (aget dflt d (bottom + 1)) >? key pivot).
      + rewrite zset_map. apply IH.
      + apply IH.
    - destruct (top - 1 =? bottom); [cbn [lift]; rewrite zset_map; reflexivity|].
      rewrite aget_map, !Hkey. destruct (key (aget dflt d (top - 1)) <? key pivot).
      + rewrite zset_map. apply IH.
      + apply IH.
  Qed.

  Lemma partition_natural d s e :
    partition key' (g dflt) (map g d) s e = lift (partition key dflt d s e).
  Proof. unfold partition. rewrite aget_map. apply part_natural. Qed.

  Lemma qs_natural : forall fuel d s e,
    qs key' (g dflt) fuel (map g d) s e = option_map (map g) (qs key dflt fuel d s e).
  Proof.
    induction fuel as [|f IH]; intros d s e; [reflexivity|].
    cbn [qs]. destruct (s <? e); [|reflexivity].
    rewrite partition_natural. destruct (partition key dflt d s e) as [[d1 split]|]; cbn [lift]; [|reflexivity].
    rewrite IH. destruct (qs key dflt f d1 s (split - 1)) as [d2|]; cbn [option_map]; [apply IH|reflexivity].
  Qed.

  Theorem quicksort_gen_natural d :
    quicksort_gen key' (g dflt) (map g d) = option_map (map g) (quicksort_gen key dflt d).
  Proof. unfold quicksort_gen. rewrite map_length. apply qs_natural. Qed.
End Natural.

(* relabelling the payloads, into any payload type, commutes with the key-value sort *)
Definition relabel {B C} (g : B -> C) (p : Z * B) : Z * C := (fst p, g (snd p)).

Theorem keyvalue_payloads_opaque {B C} (g : B -> C) (db : B) (kv : list (Z * B)) :
  quicksort_gen fst (0, g db) (map (relabel g) kv) = option_map (map (relabel g)) (quicksort_gen fst (0, db) kv).
Proof. apply (quicksort_gen_natural fst fst (relabel g) (0, db)). intros [k v]. reflexivity. Qed.

Corollary quicksort_keyvalue_relabel (g : Z -> Z) (kv : list (Z * Z)) :
  g 0 = 0 -> quicksort_keyvalue (map (relabel g) kv) = option_map (map (relabel g)) (quicksort_keyvalue kv).
Proof. intro G. unfold quicksort_keyvalue. rewrite <- (keyvalue_payloads_opaque g 0 kv). rewrite G. reflexivity. Qed.

(* the keys of the result are the plain quicksort of the keys: values have no influence on the order *)
Theorem keyvalue_keys_sorted_alone {B} (db : B) (kv : list (Z * B)) :
  option_map (map fst) (quicksort_gen fst (0, db) kv) = quicksort (map fst kv).
Proof.
  unfold quicksort. symmetry.
  apply (quicksort_gen_natural fst (fun x => x) fst (0, db)). reflexivity.
Qed.

(* C20 — shapes read from the source in round 6 and their meaning:
   keyword defaults of pbar / pmap, the literals of _pbar_full's first meter and counters, the time test of the meter
   update, and the WRAPPER EXPRESSIONS of prange (`pbar(range( *args), **kwargs)`) and pmap
   (`list(pbar(ex.map(fn, iterable, chunksize=chunksize), **kw))`) as terms with an evaluator; plus the exact
   rejection behaviour of pbar and splitarray. *)
From Coq Require Import ZifyBool ZifyNat.
From EsVerif.Common Require Import Base.
From EsVerif.C20 Require Import Model Model2 Spec Proofs Proofs2.

(* ------------------------------------------------------------------ keyword defaults *)
Record pbar_defaults := { d_total : option Z; d_leave : bool; d_mininterval : Z * Z (* numerator, denominator *);
                          d_miniters : Z; d_n_bars : Z; d_simple : bool }.
Definition model_pbar_defaults : pbar_defaults :=
  {| d_total := None; d_leave := true; d_mininterval := (1, 2); d_miniters := 1; d_n_bars := 20; d_simple := false |}.
Definition model_pmap_defaults : Z * Z := (1, 1).      (* chunksize, nproc *)

(* pbar(iterable) with every keyword left at its default *)
Definition default_cfg (d : pbar_defaults) (has_len : bool) : pcfg :=
  {| simple := d_simple d; has_len := has_len; total := d_total d |}.

Lemma pbar_defaults_ok has_len items : pbar_ok items (pbar (default_cfg model_pbar_defaults has_len) items).
Proof. apply pbar_full_always. reflexivity. Qed.

(* pmap(fn, items) with chunksize left at its default meets the hypothesis of pmap_all_schedules *)
Lemma pmap_default_chunksize f items schedule :
  (forall k, 0 <= k < Z.of_nat (length (chunks_of (length items) (Z.to_nat (fst model_pmap_defaults)) items)) -> In k schedule) ->
  pmap f items (fst model_pmap_defaults) schedule = Some (map f items).
Proof. intro H. apply pmap_all_schedules; [cbn; lia|exact H]. Qed.

(* ------------------------------------------------------------------ _pbar_full: literals and the time test *)
Definition first_meter : Z * Z := (0, 0).        (* format_meter(0, total, 0): count shown, elapsed passed *)
Definition full_init : Z * Z := (0, 0).          (* n = 0, last_print_n = 0 *)
Definition time_test (cur_t last_print_t mininterval : Z) : bool := cur_t - last_print_t >=? mininterval.
Definition last_update (n : Z) : Z := n.

(* with mininterval = 0 and a clock that does not run backwards the time test always passes: the meter schedule
   is the deterministic one of full_prints *)
Lemma time_test_zero_interval cur last : last <= cur -> time_test cur last 0 = true.
Proof. unfold time_test. lia. Qed.
(* and with a positive interval it fails when no time has passed: only the counter test and the final meter remain *)
Lemma time_test_no_time cur mininterval : 0 < mininterval -> time_test cur cur mininterval = false.
Proof. unfold time_test. lia. Qed.

(* ------------------------------------------------------------------ wrapper expressions *)
Inductive wchunk := ChunkParam | ChunkDefault.
Inductive wexpr :=
| WArgIterable                              (* the parameter `iterable` *)
| WRangeOfArgs                              (* range( *args) *)
| WExMap (c : wchunk) (e : wexpr)           (* ex.map(fn, e[, chunksize=chunksize]) *)
| WPbar (e : wexpr)                         (* pbar(e, **kw): the caller's keywords are forwarded *)
| WList (e : wexpr).                        (* list(e) *)

Definition prange_expr : wexpr := WPbar WRangeOfArgs.
Definition pmap_expr : wexpr := WList (WPbar (WExMap ChunkParam WArgIterable)).

(* pmap: the values an expression produces and how its evaluation ends; None = the executor never delivers.
   c = the caller's progress-bar keywords; the bar wraps a generator (ex.map's result has no len()) *)
Fixpoint eval_pmap (c : pcfg) (f : Z -> Z) (items : list Z) (chunksize : Z) (schedule : list Z) (e : wexpr)
  : option (list Z * option err) :=
  match e with
  | WArgIterable => Some (items, None)
  | WRangeOfArgs => None
  | WExMap ck e' =>
      match eval_pmap c f items chunksize schedule e' with
      | Some (l, None) =>
          match pmap f l (match ck with ChunkParam => chunksize | ChunkDefault => fst model_pmap_defaults end) schedule with
          | Some r => Some (r, None)
          | None => None
          end
      | other => other
      end
  | WPbar e' =>
      match eval_pmap c f items chunksize schedule e' with
      | Some (l, src_end) => let '(ys, e) := pbar_on (as_generator c) l src_end in Some (map fst ys, e)
      | None => None
      end
  | WList e' => eval_pmap c f items chunksize schedule e'
  end.

(* pmap(fn, items, chunksize, **kw) as the source composes it *)
Definition pmap_kw (c : pcfg) (f : Z -> Z) (items : list Z) (chunksize : Z) (schedule : list Z) :=
  eval_pmap c f items chunksize schedule pmap_expr.

Lemma pmap_kw_spec c f items chunksize schedule :
  1 <= chunksize ->
  (forall k, 0 <= k < Z.of_nat (length (chunks_of (length items) (Z.to_nat chunksize) items)) -> In k schedule) ->
  pbar_defined (as_generator c) (map f items) ->
  pmap_kw c f items chunksize schedule = Some (map f items, None).
Proof.
  intros Hc Hs D. unfold pmap_kw, pmap_expr. cbn [eval_pmap].
  rewrite (pmap_all_schedules f items chunksize schedule Hc Hs).
  rewrite (pbar_on_propagates _ _ None D). cbn [fst snd]. rewrite tag_from_fst. reflexivity.
Qed.

(* the simple bar without total= over the executor's generator: pmap raises RuntimeError (sbar's documented
   rejection reaches the caller of pmap) *)
Lemma pmap_kw_simple_without_total h f items chunksize schedule :
  1 <= chunksize ->
  (forall k, 0 <= k < Z.of_nat (length (chunks_of (length items) (Z.to_nat chunksize) items)) -> In k schedule) ->
  pmap_kw {| simple := true; has_len := h; total := None |} f items chunksize schedule = Some ([], Some ERuntime).
Proof.
  intros Hc Hs. unfold pmap_kw, pmap_expr. cbn [eval_pmap].
  rewrite (pmap_all_schedules f items chunksize schedule Hc Hs). reflexivity.
Qed.

(* prange: only the two compositions that denote pbar over range( *args) are given a meaning *)
Definition eval_prange (c : pcfg) (args : list Z) (e : wexpr) : list (Z * Z) * option err :=
  match e with
  | WPbar WRangeOfArgs | WPbar (WList WRangeOfArgs) => prange c args
  | _ => ([], Some EOther)
  end.
Lemma eval_prange_expr c args : eval_prange c args prange_expr = prange c args.
Proof. reflexivity. Qed.

(* ------------------------------------------------------------------ exact rejections *)
(* pbar ends with an exception in exactly two situations, with exactly these classes *)
Lemma pbar_rejections c items e :
  snd (pbar c items) = Some e <->
  simple c = true /\ ((eff_total c (Z.of_nat (length items)) = None /\ e = ERuntime)
                      \/ (eff_total c (Z.of_nat (length items)) = Some 0 /\ items <> [] /\ e = EOther)).
Proof.
  unfold pbar. destruct (simple c); [|cbn [snd]; split; [discriminate|intros [H _]; discriminate]].
  destruct (eff_total c (Z.of_nat (length items))) as [t|].
  - destruct ((t =? 0) && negb (Z.of_nat (length items) =? 0)) eqn:T; cbn [snd].
    + split.
      * intro H. inversion H. split; [reflexivity|]. right. split; [f_equal; lia|]. split; [|reflexivity].
        intro E. subst items. cbn in T. lia.
      * intros [_ [[H _]|[H [_ ->]]]]; [discriminate|reflexivity].
    + split; [discriminate|]. intros [_ [[H _]|[H [N _]]]]; [discriminate|].
      inversion H; subst t. exfalso. destruct items; [congruence|]. cbn [length] in T. lia.
  - cbn [snd]. split.
    + intro H. inversion H. split; [reflexivity|]. left. split; reflexivity.
    + intros [_ [[_ ->]|[H _]]]; [reflexivity|discriminate].
Qed.

(* splitarray: nper = 0 divides by zero; a negative nper yields no chunks at all *)
Lemma splitarray_rejections {A} nper (var : list A) :
  (nper = 0 -> splitarray nper var = Err EOther) /\ (nper < 0 -> splitarray nper var = Ok []).
Proof.
  unfold splitarray. split; intro H.
  - subst. reflexivity.
  - destruct (nper =? 0) eqn:E; [lia|]. f_equal.
    set (size := Z.of_nat (length var)). assert (0 <= size) by (subst size; lia).
    assert (K : size / nper + (if size mod nper =? 0 then 0 else 1) <= 0).
    { destruct (size mod nper =? 0) eqn:M; nia. }
    replace (Z.to_nat (size / nper + (if size mod nper =? 0 then 0 else 1))) with 0%nat by lia. reflexivity.
Qed.

(* ------------------------------------------------------------------ total= enters only through None / zero / non-zero *)
(* (what justifies driving total= as floats, numpy scalars and bools against an integer model: any two non-zero totals
   give the same items, pulls and ending) *)
Lemma pbar_total_only_zeroness s h t1 t2 items :
  t1 <> 0 -> t2 <> 0 ->
  pbar {| simple := s; has_len := h; total := Some t1 |} items = pbar {| simple := s; has_len := h; total := Some t2 |} items.
Proof.
  intros H1 H2. unfold pbar, eff_total. cbn [simple has_len total]. destruct s; [|reflexivity].
  destruct (t1 =? 0) eqn:E1; [lia|]. destruct (t2 =? 0) eqn:E2; [lia|]. reflexivity.
Qed.

From Coq Require Import Sorting.Permutation Sorting.Sorted ZifyBool ZifyNat.
From EsVerif.Common Require Import Base.
From EsVerif.C20 Require Import Model Spec.
Ltac Zify.zify_post_hook ::= Z.to_euclidean_division_equations.

(* ------------------------------------------------------------------ isplit *)
Lemma zsum_app a b : zsum (a ++ b) = zsum a + zsum b.
Proof. induction a as [|x t IH]; simpl; [reflexivity|]. unfold zsum in *. simpl. lia. Qed.

Lemma zsum_repeat x n : zsum (repeat x n) = x * Z.of_nat n.
Proof. induction n as [|n IH]; [unfold zsum; simpl; lia|]. change (zsum (repeat x (S n))) with (x + zsum (repeat x n)). lia. Qed.

Lemma chain_ranges s l : chain s (s + zsum l) (ranges s l).
Proof.
  revert s; induction l as [|x t IH]; intro s; simpl.
  - unfold zsum; simpl; lia.
  - split; [reflexivity|]. change (zsum (x :: t)) with (x + zsum t).
    replace (s + (x + zsum t)) with ((s + x) + zsum t) by lia. apply IH.
Qed.

Lemma sizes_ranges s l : sizes (ranges s l) = l.
Proof.
  revert s; induction l as [|x t IH]; intro s; simpl; [reflexivity|].
  unfold sizes in *. simpl. rewrite IH. f_equal. lia.
Qed.

Lemma ranges_length s l : length (ranges s l) = length l.
Proof. revert s; induction l as [|x t IH]; intro s; simpl; auto. Qed.

Lemma nonincr_repeat x n : nonincr (repeat x n).
Proof. induction n as [|n IH]; simpl; [exact I|]. split; [|exact IH]. destruct n; simpl; [exact I|lia]. Qed.

Lemma nonincr_app_repeat a b n m : b <= a -> nonincr (repeat a n ++ repeat b m).
Proof.
  intro H. induction n as [|n IH]; simpl; [apply nonincr_repeat|].
  split; [|exact IH]. destruct n; simpl; [destruct m; simpl; [exact I|exact H]|lia].
Qed.

Lemma section_sizes_sum num n : 0 < n -> zsum (section_sizes num n) = num.
Proof.
  intro H. unfold section_sizes. rewrite zsum_app, !zsum_repeat.
  rewrite !Z2Nat.id by lia. nia.
Qed.

Lemma isplit_spec num nchunks :
  0 <= num -> 1 <= nchunks ->
  exists l, isplit num nchunks = Ok l /\ isplit_ok num nchunks l.
Proof.
  intros Hn Hc. unfold isplit. destruct (nchunks <=? 0) eqn:E; [lia|].
  eexists; split; [reflexivity|]. unfold isplit_ok.
  rewrite sizes_ranges, ranges_length.
  split; [unfold section_sizes; rewrite app_length, !repeat_length; lia|].
  split.
  { pose proof (chain_ranges 0 (section_sizes num nchunks)) as C.
    rewrite section_sizes_sum in C by lia. exact C. }
  split; [unfold section_sizes; apply nonincr_app_repeat; lia|].
  intros x y Hx Hy. unfold section_sizes in *. apply in_app_or in Hx, Hy.
  destruct Hx as [Hx|Hx]; apply repeat_spec in Hx; destruct Hy as [Hy|Hy]; apply repeat_spec in Hy; subst; nia.
Qed.

Lemma isplit_rejects num nchunks : nchunks <= 0 -> isplit num nchunks = Err EValue.
Proof. intro H. unfold isplit. destruct (nchunks <=? 0) eqn:E; [reflexivity|lia]. Qed.

Lemma chain_b_sound s e l : chain_b s e l = true -> chain s e l.
Proof.
  revert s; induction l as [|[a b] t IH]; intro s; simpl; intro H; [lia|].
  apply andb_true_iff in H as [H1 H2]. split; [lia|apply IH; exact H2].
Qed.
Lemma nonincr_b_sound l : nonincr_b l = true -> nonincr l.
Proof.
  induction l as [|x t IH]; simpl; intro H; [exact I|].
  apply andb_true_iff in H as [H1 H2]. split; [destruct t; [exact I|lia]|apply IH; exact H2].
Qed.
Lemma isplit_check_sound num nchunks l : isplit_check num nchunks l = true -> isplit_ok num nchunks l.
Proof.
  unfold isplit_check, isplit_ok. intro H.
  apply andb_true_iff in H as [H H4]. apply andb_true_iff in H as [H H3]. apply andb_true_iff in H as [H1 H2].
  split; [lia|]. split; [apply chain_b_sound; assumption|]. split; [apply nonincr_b_sound; assumption|].
  intros x y Hx Hy. rewrite forallb_forall in H4. specialize (H4 x Hx).
  rewrite forallb_forall in H4. specialize (H4 y Hy). lia.
Qed.

(* -------------------------------------------------------------- splitarray *)
Lemma firstn_skipn_add {A} (l : list A) a b : firstn a l ++ firstn b (skipn a l) = firstn (a + b) l.
Proof.
  revert l; induction a as [|a IH]; intro l; simpl; [reflexivity|].
  destruct l as [|x t]; simpl; [rewrite firstn_nil; reflexivity|]. f_equal. apply IH.
Qed.

Lemma zseq_map {B} (f : Z -> B) s k : map f (zseq s k) = map (fun j => f (s + Z.of_nat j)) (seq 0 k).
Proof.
  revert s; induction k as [|k IH]; intro s; simpl; [reflexivity|].
  f_equal; [f_equal; lia|]. rewrite IH. rewrite <- seq_shift, map_map.
  apply map_ext. intro j. f_equal. lia.
Qed.

Lemma zseq_length s k : length (zseq s k) = k.
Proof. revert s; induction k as [|k IH]; intro s; simpl; auto. Qed.

Lemma concat_chunks {A} (l : list A) n k :
  concat (map (fun j => firstn n (skipn (j * n) l)) (seq 0 k)) = firstn (k * n) l.
Proof.
  induction k as [|k IH]; [reflexivity|].
  rewrite seq_S, map_app, concat_app, IH. simpl. rewrite app_nil_r.
  rewrite firstn_skipn_add. f_equal. lia.
Qed.

Lemma splitarray_spec nper var :
  1 <= nper -> exists cs, splitarray nper var = Ok cs /\ splitarray_ok nper var cs.
Proof.
  intro Hn. unfold splitarray. destruct (nper =? 0) eqn:E; [lia|].
  eexists; split; [reflexivity|].
  set (size := Z.of_nat (length var)).
  set (nchunks := size / nper + (if size mod nper =? 0 then 0 else 1)).
  assert (Hk : 0 <= nchunks /\ size <= nchunks * nper /\ (nchunks - 1) * nper < size \/ (size = 0 /\ nchunks = 0)).
  { subst nchunks. assert (H1 : 0 <= size) by (subst size; lia).
    pose proof (Z.div_mod size nper ltac:(lia)) as D. pose proof (Z.mod_pos_bound size nper ltac:(lia)) as B.
    pose proof (Z.div_pos size nper H1 ltac:(lia)) as P.
    set (q := size / nper) in *. set (r := size mod nper) in *.
    destruct (r =? 0) eqn:M.
    - destruct (Z.eq_dec size 0); [right; nia|left; nia].
    - left. nia. }
  assert (Hk0 : 0 <= nchunks) by lia.
  rewrite zseq_map. unfold splitarray_ok.
  assert (EQ : map (fun j : nat => firstn (Z.to_nat nper) (skipn (Z.to_nat ((0 + Z.of_nat j) * nper)) var)) (seq 0 (Z.to_nat nchunks))
             = map (fun j : nat => firstn (Z.to_nat nper) (skipn (j * Z.to_nat nper) var)) (seq 0 (Z.to_nat nchunks))).
  { apply map_ext. intro j. do 2 f_equal. lia. }
  rewrite EQ. clear EQ.
  split; [|split].
  - rewrite concat_chunks. apply firstn_all2. subst size. nia.
  - intros i Hi. rewrite map_length, seq_length in Hi.
    rewrite nth_indep with (d' := firstn (Z.to_nat nper) (skipn (0 * Z.to_nat nper) var)) by (rewrite map_length, seq_length; lia).
    rewrite (map_nth (fun j => firstn (Z.to_nat nper) (skipn (j * Z.to_nat nper) var)) (seq 0 (Z.to_nat nchunks)) 0%nat i).
    rewrite seq_nth by lia. simpl (0 + i)%nat.
    rewrite firstn_length, skipn_length. subst size. nia.
  - intros i Hi. rewrite map_length, seq_length in Hi.
    rewrite nth_indep with (d' := firstn (Z.to_nat nper) (skipn (0 * Z.to_nat nper) var)) by (rewrite map_length, seq_length; lia).
    rewrite (map_nth (fun j => firstn (Z.to_nat nper) (skipn (j * Z.to_nat nper) var)) (seq 0 (Z.to_nat nchunks)) 0%nat i).
    rewrite seq_nth by lia. simpl (0 + i)%nat.
    rewrite firstn_length, skipn_length. subst size. nia.
Qed.

Lemma chunk_sizes_b_sound nper cs :
  chunk_sizes_b nper cs = true ->
  (forall i, (i < length cs)%nat -> 1 <= Z.of_nat (length (nth i cs [])) <= nper)
  /\ (forall i, (S i < length cs)%nat -> Z.of_nat (length (nth i cs [])) = nper).
Proof.
  induction cs as [|c t IH]; intro H.
  - split; intros i Hi; simpl in Hi; lia.
  - destruct t as [|c2 t2].
    + simpl in H. split; intros i Hi; simpl in Hi; [|lia].
      destruct i; [simpl; lia|lia].
    + change (chunk_sizes_b nper (c :: c2 :: t2)) with
        ((Z.of_nat (length c) =? nper) && chunk_sizes_b nper (c2 :: t2)) in H.
      apply andb_true_iff in H as [H1 H2]. destruct (IH H2) as [IHa IHb].
      assert (P : 1 <= nper). { specialize (IHa 0%nat). simpl in IHa. lia. }
      split; intros i Hi.
      * destruct i as [|i]; [simpl; lia|]. apply (IHa i). simpl in *. lia.
      * destruct i as [|i]; [simpl; lia|]. apply (IHb i). simpl in *. lia.
Qed.

Lemma splitarray_check_sound nper var cs : splitarray_check nper var cs = true -> splitarray_ok nper var cs.
Proof.
  unfold splitarray_check, splitarray_ok. intro H. apply andb_true_iff in H as [H1 H2].
  apply zlist_eqb_spec in H1. split; [exact H1|]. apply chunk_sizes_b_sound. exact H2.
Qed.

(* ------------------------------------------------------------------- pbar *)
Lemma tag_from_fst k items : map fst (tag_from k items) = items.
Proof. revert k; induction items as [|x t IH]; intro k; simpl; [reflexivity|]. f_equal. apply IH. Qed.

Lemma tag_from_length k items : length (tag_from k items) = length items.
Proof. revert k; induction items as [|x t IH]; intro k; simpl; auto. Qed.

Lemma tag_from_snd k items i :
  (i < length items)%nat -> snd (nth i (tag_from k items) (0, 0)) = k + Z.of_nat i.
Proof.
  revert k i; induction items as [|x t IH]; intros k i Hi; simpl in Hi; [lia|].
  destruct i as [|i]; simpl; [lia|]. rewrite IH by lia. lia.
Qed.

(* the only configurations in which the wrapper does not yield everything: the simple bar
   without any total (documented RuntimeError) or with an effective total of zero on a
   non-empty iterable (division by zero after the first item) *)
Definition pbar_defined (c : pcfg) (items : list Z) : Prop :=
  simple c = true ->
  exists t, eff_total c (Z.of_nat (length items)) = Some t /\ (t = 0 -> items = []).

Lemma pbar_spec c items : pbar_defined c items -> pbar_ok items (pbar c items).
Proof.
  intro D. unfold pbar.
  assert (G : pbar_ok items (tag_from 1 items, None)).
  { unfold pbar_ok; simpl. split; [apply tag_from_fst|]. split; [|reflexivity].
    intros k Hk. rewrite tag_from_length in Hk. rewrite tag_from_snd by exact Hk. lia. }
  destruct (simple c) eqn:S; [|exact G]. fold (simple c) in D.
  destruct (D S) as [t [Et Ht]]. rewrite Et.
  destruct ((t =? 0) && negb (Z.of_nat (length items) =? 0)) eqn:Z0; [|exact G].
  apply andb_true_iff in Z0 as [Z1 Z2]. assert (items = []) by (apply Ht; lia). subst items. simpl in Z2. discriminate.
Qed.

Lemma pbar_full_always c items : simple c = false -> pbar_ok items (pbar c items).
Proof. intro S. apply pbar_spec. intro S2. congruence. Qed.

Lemma pbar_check_sound items out : pbar_check items out = true -> pbar_ok items out.
Proof.
  unfold pbar_check, pbar_ok. intro H. apply andb_true_iff in H as [H H3]. apply andb_true_iff in H as [H1 H2].
  apply zlist_eqb_spec in H1, H2. split; [exact H1|]. split; [|destruct (snd out); [discriminate|reflexivity]].
  intros k Hk. change (snd (nth k (fst out) (0, 0))) with (snd (nth k (fst out) (0, 0))).
  rewrite <- (map_nth snd (fst out) (0, 0) k). rewrite H2.
  assert (Z : forall s n i, (i < n)%nat -> nth i (zseq s n) (snd (0, 0)) = s + Z.of_nat i).
  { clear. intros s n; revert s; induction n as [|n IH]; intros s i Hi; [lia|].
    destruct i as [|i]; simpl; [lia|]. rewrite IH by lia. lia. }
  rewrite Z by exact Hk. lia.
Qed.

(* ------------------------------------------------------------------- pmap *)
Section Pmap.
  Variable f : Z -> Z.
  Variable chunks : list (list Z).

  Lemma lookup_complete sched st k :
    In k sched \/ lookup st k = Some (map f (nth (Z.to_nat k) chunks [])) ->
    lookup (fold_left (complete f chunks) sched st) k = Some (map f (nth (Z.to_nat k) chunks [])).
  Proof.
    revert st; induction sched as [|k0 t IH]; intros st H; simpl.
    - destruct H as [[]|H]; exact H.
    - apply IH. destruct (Z.eq_dec k k0) as [->|N].
      + right. unfold complete. cbn [lookup]. rewrite Z.eqb_refl. reflexivity.
      + destruct H as [[H|H]|H]; [congruence|left; exact H|right].
        unfold complete. cbn [lookup]. apply Z.eqb_neq in N. rewrite N. exact H.
  Qed.

  Lemma collect_all st ks :
    (forall k, In k ks -> lookup st k = Some (map f (nth (Z.to_nat k) chunks []))) ->
    collect st ks = Some (concat (map (fun k => map f (nth (Z.to_nat k) chunks [])) ks)).
  Proof.
    induction ks as [|k t IH]; intro H; simpl; [reflexivity|].
    rewrite (H k) by (left; reflexivity). rewrite IH by (intros k' Hk'; apply H; right; exact Hk'). reflexivity.
  Qed.
End Pmap.

Lemma chunks_of_concat {A} fuel n (l : list A) :
  (0 < n)%nat -> (length l <= fuel)%nat -> concat (chunks_of fuel n l) = l.
Proof.
  intro Hn. revert l; induction fuel as [|fuel IH]; intros l Hl.
  - destruct l; [reflexivity|simpl in Hl; lia].
  - simpl. destruct l as [|x t]; [reflexivity|].
    cbn [concat]. rewrite IH; [apply firstn_skipn|].
    rewrite skipn_length. cbn [length] in *. lia.
Qed.

Lemma map_nth_zseq {B} (g : list Z -> B) (chunks : list (list Z)) :
  map (fun k => g (nth (Z.to_nat k) chunks [])) (zseq 0 (length chunks)) = map g chunks.
Proof.
  rewrite zseq_map.
  transitivity (map g (map (fun j => nth j chunks []) (seq 0 (length chunks)))).
  - rewrite map_map. apply map_ext. intro j. do 2 f_equal. lia.
  - f_equal. clear. induction chunks as [|c t IH]; [reflexivity|].
    simpl. f_equal. rewrite <- seq_shift, map_map. exact IH.
Qed.

Lemma in_zseq k s n : In k (zseq s n) <-> s <= k < s + Z.of_nat n.
Proof.
  revert s; induction n as [|n IH]; intro s; simpl; [lia|]. rewrite IH. lia.
Qed.

Lemma pmap_all_schedules f items chunksize schedule :
  1 <= chunksize ->
  (forall k, 0 <= k < Z.of_nat (length (chunks_of (length items) (Z.to_nat chunksize) items)) -> In k schedule) ->
  pmap_ok f items (pmap f items chunksize schedule).
Proof.
  intros Hc Hs. unfold pmap_ok, pmap.
  set (chunks := chunks_of (length items) (Z.to_nat chunksize) items) in *.
  rewrite (collect_all f chunks).
  - f_equal. rewrite (map_nth_zseq (map f) chunks). rewrite <- concat_map. f_equal.
    subst chunks. apply chunks_of_concat; lia.
  - intros k Hk. apply lookup_complete. left. apply Hs. apply in_zseq in Hk. lia.
Qed.

(* ------------------------------------------------------------ sort checkers *)
Lemma insert_z_perm x l : Permutation (x :: l) (insert_z x l).
Proof.
  induction l as [|y t IH]; simpl; [apply Permutation_refl|].
  destruct (x <=? y); [apply Permutation_refl|].
  eapply perm_trans; [apply perm_swap|]. apply perm_skip. exact IH.
Qed.
Lemma isort_z_perm l : Permutation l (isort_z l).
Proof.
  induction l as [|x t IH]; simpl; [apply perm_nil|].
  eapply perm_trans; [apply perm_skip; exact IH|]. apply insert_z_perm.
Qed.
Lemma insert_p_perm x l : Permutation (x :: l) (insert_p x l).
Proof.
  induction l as [|y t IH]; simpl; [apply Permutation_refl|].
  destruct (pair_leb x y); [apply Permutation_refl|].
  eapply perm_trans; [apply perm_swap|]. apply perm_skip. exact IH.
Qed.
Lemma isort_p_perm l : Permutation l (isort_p l).
Proof.
  induction l as [|x t IH]; simpl; [apply perm_nil|].
  eapply perm_trans; [apply perm_skip; exact IH|]. apply insert_p_perm.
Qed.

Lemma sorted_b_sound {A} (key : A -> Z) (l : list A) :
  sorted_b (map key l) = true -> StronglySorted (fun a b => key a <= key b) l.
Proof.
  intro H. apply Sorted_StronglySorted; [intros a b c; lia|].
  induction l as [|x t IH]; [constructor|].
  simpl in H. apply andb_true_iff in H as [H1 H2]. constructor; [apply IH; exact H2|].
  destruct t as [|y t2]; constructor. simpl in H1. lia.
Qed.

Lemma sort_check_sound d d' : sort_check d d' = true -> sort_ok (fun x => x) d d'.
Proof.
  unfold sort_check, sort_ok. intro H. apply andb_true_iff in H as [H1 H2].
  apply zlist_eqb_spec in H2. split.
  - eapply perm_trans; [apply isort_z_perm|]. rewrite H2. apply Permutation_sym, isort_z_perm.
  - apply (sorted_b_sound (fun x => x)). rewrite map_id. exact H1.
Qed.

Lemma zpair_eqb_eq p q : zpair_eqb p q = true <-> p = q.
Proof. destruct p, q; unfold zpair_eqb; simpl. split; intro H; [f_equal; lia|inversion H; lia]. Qed.

Lemma sortkv_check_sound d d' : sortkv_check d d' = true -> sort_ok fst d d'.
Proof.
  unfold sortkv_check, sort_ok. intro H. apply andb_true_iff in H as [H1 H2].
  apply (list_eqb_spec zpair_eqb zpair_eqb_eq) in H2. split.
  - eapply perm_trans; [apply isort_p_perm|]. rewrite H2. apply Permutation_sym, isort_p_perm.
  - apply sorted_b_sound. exact H1.
Qed.

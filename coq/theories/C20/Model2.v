(* C20 — second layer of executable models (no proofs here):
   - vocabulary used by the regenerated C20/Gen.v (cumsum, python slicing, generator skeletons, format ids),
   - pbar.format_interval, the print schedule of the full bar, a wrapped iterable that raises, nested bars,
     prange(start, stop, step) over a model of python's range, pmap when the mapped function raises. *)
From EsVerif.Common Require Import Base.
From EsVerif.C20 Require Import Model.

(* ------------------------------------------------------------ numpy cumsum, python slicing *)
Fixpoint cumsum_from (acc : Z) (l : list Z) : list Z :=
  match l with [] => [] | x :: t => (acc + x) :: cumsum_from (acc + x) t end.
Definition cumsum (l : list Z) : list Z := cumsum_from 0 l.

(* l[a:b] for python ints a, b (step None): negative bounds count from the end, both are clipped to [0, len] *)
Definition clip_index (n i : Z) : Z :=
  let i := if i <? 0 then i + n else i in
  if i <? 0 then 0 else if n <? i then n else i.
Definition pyslice {A} (l : list A) (a b : Z) : list A :=
  let n := Z.of_nat (length l) in
  let a' := clip_index n a in
  let b' := clip_index n b in
  firstn (Z.to_nat (b' - a')) (skipn (Z.to_nat a') l).

(* ------------------------------------------------------------ pbar.format_interval *)
(* format_interval(t): the argument here is int(t).  The result is the format chosen and the integers printed:
   FmtHMS = '%d:%02d:%02d' % (h, m, s), FmtMS = '%02d:%02d' % (m, s). *)
Inductive ifmt := FmtMS | FmtHMS.
Definition ifmt_eqb (a b : ifmt) : bool :=
  match a, b with FmtMS, FmtMS | FmtHMS, FmtHMS => true | _, _ => false end.

Definition format_interval (t : Z) : result (ifmt * list Z) :=
  let mins := t / 60 in
  let s := t mod 60 in
  let h := mins / 60 in
  let m := mins mod 60 in
  if h =? 0 then Ok (FmtMS, [m; s]) else Ok (FmtHMS, [h; m; s]).

(* ------------------------------------------------------------ generator skeletons *)
(* What the `except TypeError` handler after `total = len(iterable)` does, and the statements of the loop body
   `for [i,] obj in [enumerate](iterable):` in source order.  SDivTotal is `p = int(i / total * 10)`, the only
   statement of a loop body that can raise (ZeroDivisionError when total == 0; TypeError when total is None). *)
Inductive fallback := FbNone | FbRaise (e : err).
Inductive ystmt := SYield | SCount | SDivTotal | SMeter | SOut.
Record bar_skel := { sk_fallback : fallback; sk_body : list ystmt }.

Fixpoint run_body (b : list ystmt) (tot : option Z) (yielded : bool) : bool * option err :=
  match b with
  | [] => (yielded, None)
  | SYield :: t => run_body t tot true
  | SDivTotal :: t =>
      match tot with
      | None => (yielded, Some EType)
      | Some z => if z =? 0 then (yielded, Some EOther) else run_body t tot yielded
      end
  | _ :: t => run_body t tot yielded
  end.

(* k = number of source items pulled when the current item is processed *)
Fixpoint run_loop (b : list ystmt) (tot : option Z) (k : Z) (items : list Z) : list (Z * Z) * option err :=
  match items with
  | [] => ([], None)
  | x :: t =>
      match run_body b tot false with
      | (y, Some e) => ((if y then [(x, k)] else []), Some e)
      | (y, None) => let '(r, e) := run_loop b tot (k + 1) t in ((if y then (x, k) :: r else r), e)
      end
  end.

Definition run_skel (sk : bar_skel) (c : pcfg) (items : list Z) : list (Z * Z) * option err :=
  match total c, has_len c, sk_fallback sk with
  | None, false, FbRaise e => ([], Some e)
  | _, _, _ => run_loop (sk_body sk) (eff_total c (Z.of_nat (length items))) 1 items
  end.

Definition full_skel : bar_skel := {| sk_fallback := FbNone; sk_body := [SYield; SCount; SMeter] |}.
Definition sbar_skel : bar_skel := {| sk_fallback := FbRaise ERuntime; sk_body := [SYield; SCount; SDivTotal; SOut] |}.

(* ------------------------------------------------------------ print schedule of the full bar *)
(* _pbar_full with mininterval = 0 and a clock that does not run backwards: one entry per meter written,
   (count shown, total shown or None = "count only").  iter_test / final_test are the two integer tests of
   the source; n_step is `n += 1`. *)
Definition n_step (n : Z) : Z := n + 1.
Definition iter_test (n last_print_n miniters : Z) : bool := n - last_print_n >=? miniters.
Definition final_test (n last_print_n : Z) : bool := last_print_n <? n.

Fixpoint full_loop (miniters : Z) (tot : option Z) (n last : Z) (items : list Z) : list (Z * option Z) * Z * Z :=
  match items with
  | [] => ([], n, last)
  | _ :: t =>
      let n := n_step n in
      if iter_test n last miniters
      then let '(ps, n', l) := full_loop miniters tot n n t in ((n, meter_total n tot) :: ps, n', l)
      else full_loop miniters tot n last t
  end.

Definition full_prints (miniters : Z) (leave : bool) (c : pcfg) (items : list Z) : list (Z * option Z) :=
  let tot := eff_total c (Z.of_nat (length items)) in
  let '(ps, n, last) := full_loop miniters tot 0 0 items in
  (0, meter_total 0 tot) :: ps ++ (if leave && final_test n last then [(n, meter_total n tot)] else []).

(* ------------------------------------------------------------ a source that raises; nested bars *)
(* the wrapped iterable yields [items] and then raises [src_end] instead of stopping (None = stops normally) *)
Definition pbar_on (c : pcfg) (items : list Z) (src_end : option err) : list (Z * Z) * option err :=
  let '(ys, e) := pbar c items in
  match e with Some _ => (ys, e) | None => (ys, src_end) end.

(* pbar(pbar(source, inner options), outer options): the outer bar wraps a generator (no len()); the pull count
   observed at the outer bar's k-th yield is the one of the inner bar's k-th yield *)
Definition as_generator (c : pcfg) : pcfg := {| simple := simple c; has_len := false; total := total c |}.
Definition pbar_nested (co ci : pcfg) (items : list Z) : list (Z * Z) * option err :=
  let '(ys, e) := pbar ci items in
  let '(zs, e') := pbar_on (as_generator co) (map fst ys) e in
  (combine (map fst zs) (map snd ys), e').

(* ------------------------------------------------------------ prange *)
(* python's range(start, stop, step) *)
Definition py_range_len (start stop step : Z) : Z :=
  if 0 <? step then (if start <? stop then (stop - start - 1) / step + 1 else 0)
  else (if stop <? start then (start - stop - 1) / (- step) + 1 else 0).
Definition py_range (start stop step : Z) : result (list Z) :=
  if step =? 0 then Err EValue
  else Ok (map (fun i => start + i * step) (zseq 0 (Z.to_nat (py_range_len start stop step)))).
Definition range_args (args : list Z) : result (list Z) :=
  match args with
  | [a] => py_range 0 a 1
  | [a; b] => py_range a b 1
  | [a; b; c] => py_range a b c
  | _ => Err EType
  end.
Definition as_sized (c : pcfg) : pcfg := {| simple := simple c; has_len := true; total := total c |}.
(* prange(args..., kw...) = pbar(range(args...), kw...); range() is evaluated when prange is called *)
Definition prange (c : pcfg) (args : list Z) : list (Z * Z) * option err :=
  match range_args args with
  | Err e => ([], Some e)
  | Ok items => pbar (as_sized c) items
  end.

(* ------------------------------------------------------------ pmap when fn raises *)
(* fn x is Ok y or raises.  A chunk is processed by one worker as [fn(x) for x in chunk]: the first raise
   loses the whole chunk.  Results are retrieved in submission order through the progress bar; the first chunk
   whose processing raised re-raises in the parent.  Result: (values that went through the bar, how it ended). *)
Fixpoint mapM (f : Z -> result Z) (l : list Z) : result (list Z) :=
  match l with
  | [] => Ok []
  | x :: t => match f x with
              | Err e => Err e
              | Ok y => match mapM f t with Err e => Err e | Ok r => Ok (y :: r) end
              end
  end.

Definition estore := list (Z * result (list Z)).
Fixpoint elookup (s : estore) (k : Z) : option (result (list Z)) :=
  match s with [] => None | (k', v) :: t => if k =? k' then Some v else elookup t k end.
Definition ecomplete (f : Z -> result Z) (chunks : list (list Z)) (s : estore) (k : Z) : estore :=
  (k, mapM f (nth (Z.to_nat k) chunks [])) :: s.
Fixpoint ecollect (st : estore) (ks : list Z) : option (list Z * option err) :=
  match ks with
  | [] => Some ([], None)
  | k :: t => match elookup st k with
              | None => None
              | Some (Err e) => Some ([], Some e)
              | Some (Ok v) => match ecollect st t with
                               | None => None
                               | Some (r, e) => Some (v ++ r, e)
                               end
              end
  end.
Definition pmap_exn (f : Z -> result Z) (items : list Z) (chunksize : Z) (schedule : list Z)
  : option (list Z * option err) :=
  let chunks := chunks_of (length items) (Z.to_nat chunksize) items in
  let st := fold_left (ecomplete f chunks) schedule [] in
  ecollect st (zseq 0 (length chunks)).

(* the same retrieval without a store: what every complete schedule must produce *)
Fixpoint ref_chunks (f : Z -> result Z) (chunks : list (list Z)) : list Z * option err :=
  match chunks with
  | [] => ([], None)
  | c :: t => match mapM f c with
              | Err e => ([], Some e)
              | Ok v => let '(r, e) := ref_chunks f t in (v ++ r, e)
              end
  end.
(* sequential list(map(fn, items)): values before the first raise, and that raise *)
Fixpoint seq_run (f : Z -> result Z) (l : list Z) : list Z * option err :=
  match l with
  | [] => ([], None)
  | x :: t => match f x with
              | Err e => ([], Some e)
              | Ok y => let '(r, e) := seq_run f t in (y :: r, e)
              end
  end.

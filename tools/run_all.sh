#!/bin/bash
# run_all.sh [tier] [seed] [jobs] — every claimed check of MANIFEST.json on /repo's working tree; summary on stdout,
# full logs under /var/tmp/run_all.<seed>/
tier=${1:-quick}; seed=${2:-20260926}; jobs=${3:-2}
out=/var/tmp/run_all.$seed; mkdir -p $out
cd /verif
props=$(/venv/bin/python -c "import json;print(' '.join(c['property_id'] for c in json.load(open('MANIFEST.json'))['checks']))")
run1() { p=$1; s=$(date +%s); VERIF_SEED=$3 ./check $p --tier $2 > $4/$p.log 2>&1; rc=$?; e=$(date +%s); echo "$p rc=$rc $((e-s))s $(grep -c '^VIOLATION' $4/$p.log) violation(s) | $(tail -1 $4/$p.log)"; }
export -f run1
echo $props | tr ' ' '\n' | xargs -P $jobs -I{} bash -c "run1 {} $tier $seed $out"

#!/bin/bash
# try_seed.sh <seed-dir-name> <property> [tier]  — run ./check <property> against a scratch copy of /repo with the
# seeded change applied (the copy is removed afterwards; /repo itself is not touched).  Prints CAUGHT / MISSED.
seed=$1; prop=$2; tier=${3:-quick}
d=/var/tmp/seedtry-$seed-$$
rm -rf $d; mkdir -p $d
rsync -a --exclude '*.so' --exclude build --exclude __pycache__ /repo/ $d/
( cd $d && git apply /verif/seeded/$seed/patch.diff 2>/dev/null || patch -p1 -F3 -s --no-backup-if-mismatch < /verif/seeded/$seed/patch.diff ) || { echo "ERROR $seed: patch does not apply to current /repo HEAD"; rm -rf $d; exit 2; }
cd /verif && VERIF_REPO=$d ./check $prop --tier $tier > /var/tmp/seedtry-$seed-$prop.log 2>&1; rc=$?
rm -rf $d
if grep -q "^VIOLATION property=$prop" /var/tmp/seedtry-$seed-$prop.log; then echo "CAUGHT $seed by $prop ($tier) rc=$rc: $(grep -A1 '^VIOLATION' /var/tmp/seedtry-$seed-$prop.log | head -2 | tr '\n' ' ')"; else echo "MISSED $seed by $prop ($tier) rc=$rc: $(tail -1 /var/tmp/seedtry-$seed-$prop.log)"; fi

#!/usr/bin/env python3
"""mark_seed.py <seed-id> <caught_by text | MISSED text> — record in seeded/<id>/meta.json which check catches the change"""
import json, sys
p = "/verif/seeded/%s/meta.json" % sys.argv[1]
m = json.load(open(p)); m["caught_by"] = sys.argv[2]
json.dump(m, open(p, "w"), indent=1); print(sys.argv[1], "->", sys.argv[2])

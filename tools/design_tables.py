#!/usr/bin/env python3
"""Rewrite the generated tables of DESIGN.md section 11 (between BEGIN/END markers) from
tools/claims.json, known_findings.json, seeded/*/meta.json and coq/theories/*/Properties.v."""
import glob, json, os, re
V = os.path.dirname(os.path.dirname(os.path.abspath(__file__)))
claims = json.load(open(V + "/tools/claims.json"))["claimed"]
kf = json.load(open(V + "/known_findings.json"))["findings"]
props = [json.loads(l) for l in open(V + "/properties.jsonl")]


def nthm(p):
    n = 0
    for f in glob.glob(V + "/coq/theories/%s/*Properties.v" % p):
        txt = open(f).read()
        n += len(re.findall(r"^\s*(?:Theorem|Corollary)\s", txt, re.M))
    return n


def nfiles(p):
    fs = glob.glob(V + "/coq/theories/%s/*.v" % p)
    return len(fs), sum(len(open(f).read().splitlines()) for f in fs)


rows = ["| Prop | theorems in `*Properties.v` | Coq files / lines | source tie | fixed defects (`fix:` commits) | known findings | builder's report |",
        "|---|---|---|---|---|---|---|"]
TIE = {
 "C01": "Gen.v regenerated (constants, `_count_nrows`, `_get_slice_nrows`, `process_slice`, `process_nrows`) + correspondence on file bytes / headers / layouts",
 "C02": "Gen.v regenerated (T-int: `_process_slice`, `_slice2rows`, `_fix_range`, `_get_slice_nrows`), proofs re-run against it + correspondence over 10 access styles",
 "C03": "10 structural facts extracted from `sfile.py`/`records.cpp` + correspondence on histories (answers and file bytes after every op)",
 "C04": "Gen.v regenerated (print precisions; scan conversions compared) + correspondence on file text / header / array, printf & strtod models compared with glibc per cell",
 "C05": "16 constants/decisions regenerated from `util.py`/`chist_pywrap.c` + bit-exact correspondence on hist/rev/sort index, both engines",
 "C06": "Gen.v regenerated (50+ operators/constants/polarities/defaults/exception classes of match, match_multi, unique, rem_dup), Tie.v: skeleton(Gen) = model, small-scope evaluation of skeleton(Gen) in Coq + correspondence (argsort as monitored oracle)",
 "C07": "Gen.v regenerated (isinstance tuples, guard operators, filter polarity, allocator, dims, defaults, exception classes), Tie.v: skeleton(Gen) = model + correspondence",
 "C08": "Gen.v/Src.v/SrcF.v regenerated (constants + all four function bodies, R and binary64 readings) + bit-exact replay of every call + interval certificates",
 "C09": "Gen.v regenerated (12 rotation rows, constants, operators, latitude-shape flags, x/y/z formulas), theorems re-proved + interval certificates per output",
 "C10": "Gen.v regenerated (module tables, arithmetic of 6 methods, control flow of image2sky/sky2image) proved identical to the model + interval certificates + rational checkers",
 "C11": "Gen.v regenerated (constants, defaults, `extract_parms`, copy, `_pars`) proved equal to the model + bit-exact correspondence (PrimFloat) + interval/integral certificates",
 "C12": "Gen.v/GenR.v regenerated (matcher decisions, loop headers, size checks, file format, gcirc body, cover pad) re-proved + correspondence vs brute force (60-digit oracle audited by Interval)",
 "C13": "translator shape-checks every modelled statement, regenerates bin-number function / margin / gEpsilon / saveDepth + bit-exact ids (depth 0..20) + brute-force bincount",
 "C14": "assignment tables and constants of `calc_stats` re-read by ast and compared in Coq with the model's + correspondence (structure bit-exact, statistics exact rationals)",
 "C15": "318 effect skeletons regenerated from the sources (one `frame_ok` lemma each), inventory + C entry-point table + records.cpp store scan (fail closed) + dynamic snapshots compared in Coq",
 "C16": "Gen.v regenerated (bodies of 10 byte-order functions + keyword defaults, python ast -> Gallina), Tie.v: Gen = model for both endiannesses + correspondence incl. views, nested, recfile to_native",
 "C17": "40 assignments re-emitted from `cgauleg_pywrap.c`/`integrate/util.py` (`gen_X = F.X` by reflexivity), control skeleton compared + bit-exact correspondence + moment certificates",
 "C18": "Gen.v regenerated (34 definitions: formulas, comparison operators, defaults, clamps), tie theorems + correspondence on exact rationals",
 "C19": "formula chains of randsphere/randcap/rotate/interplin regenerated and proved equal to the model, other statements pinned by text + interval certificates + exact-rational verdicts",
 "C20": "Gen.v regenerated (isplit, splitarray, sort loop skeletons, format_interval, meter total, bar skeletons), Tie.v: Gen = model + correspondence over 10 entry points",
}
for pr in props:
    p = pr["id"]
    fx = [f for f in kf if f["property"] == p and f["status"] == "fixed"]
    kn = [f for f in kf if f["property"] == p and f["status"] == "known"]
    nf, nl = nfiles(p)
    rows.append("| %s | %d | %d / %d | %s | %s | %s | %s |" % (
        p, nthm(p), nf, nl, TIE.get(p, ""),
        ", ".join("%s (%s)" % (f["id"], f["commit"]) for f in fx) or "—",
        ", ".join("%s (class `%s`)" % (f["id"], f["class"]) for f in kn) or "—",
        "`docs/reports/%s.md`" % p if os.path.exists(V + "/docs/reports/%s.md" % p) else "—"))
status = "\n".join(rows)

srows = ["| seeded change | what it is / needs to manifest | result |", "|---|---|---|"]
for d in sorted(glob.glob(V + "/seeded/*/meta.json")):
    m = json.load(open(d))
    notes = os.path.join(os.path.dirname(d), "notes.md")
    first = ""
    if os.path.exists(notes):
        for l in open(notes):
            l = l.strip()
            if l.startswith("#"):
                first = l.lstrip("# ").strip()
                break
    srows.append("| %s | %s | %s |" % (m["id"], first.replace("|", "\\|")[:160], (m.get("caught_by") or "not yet run").replace("|", "\\|")))
seeds = "\n".join(srows)

arows = ["| Prop | `Print Assumptions` over the theorems of its Properties files (last quick run on /repo) |", "|---|---|"]
for f in sorted(glob.glob(V + "/evidence/*.json")):
    e = json.load(open(f))
    arows.append("| %s | %s |" % (e["property_id"], "; ".join(a.replace("|", "\\|") for a in e.get("assumptions", []) if a.startswith("Print Assumptions"))))
axioms = "\n".join(arows)

txt = open(V + "/DESIGN.md").read()
for name, body in (("status", status), ("seeds", seeds), ("axioms", axioms)):
    b, e = "<!-- BEGIN:%s -->" % name, "<!-- END:%s -->" % name
    assert b in txt and e in txt, name
    txt = txt[:txt.index(b) + len(b)] + "\n" + body + "\n" + txt[txt.index(e):]
open(V + "/DESIGN.md", "w").write(txt)
print("DESIGN.md tables rewritten:", len(rows) - 2, "properties,", len(srows) - 2, "seeds")

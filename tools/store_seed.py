#!/usr/bin/env python3
"""store_seed.py <prop> <x> <worktree> — copy a confirmed seeded change into /verif/seeded/<prop>-<x>/"""
import json, os, shutil, sys
prop, x, wt = sys.argv[1:4]
name = sys.argv[4] if len(sys.argv) > 4 else x
src = os.path.join(wt, "out", x)
dst = "/verif/seeded/%s-%s" % (prop, name)
os.makedirs(dst, exist_ok=True)
for f in ("patch.diff", "demo.py", "notes.md"):
    shutil.copy(os.path.join(src, f), os.path.join(dst, f))
notes = open(os.path.join(src, "notes.md")).read()
tests = open(os.path.join(src, "confirm_tests.log")).read().strip().splitlines()[-1]
demo = open(os.path.join(src, "confirm_demo.log")).read().strip().splitlines()[-3:]
meta = {"property": prop, "id": "%s-%s" % (prop, name),
        "author": "fresh sub-agent given only the property text and a scratch worktree of /repo",
        "needs_to_manifest": "see notes.md",
        "confirmed_by": "tools/confirm_seed.sh: demo exits 0 on the clean worktree; with patch.diff applied the extension builds, "
                        "the whole existing test-suite passes and the demo exits non-zero",
        "tests_with_change": tests, "demo_with_change_tail": demo,
        "base_commit": os.popen("git -C %s rev-parse --short HEAD" % wt).read().strip(),
        "caught_by": None}
json.dump(meta, open(os.path.join(dst, "meta.json"), "w"), indent=1)
print("stored", dst)

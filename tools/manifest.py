#!/usr/bin/env python3
"""Regenerate /verif/MANIFEST.json from tools/claims.json (one entry per claimed property).
Properties without an entry are listed under not_applicable with the reason given in
claims.json["unclaimed"] (or a default)."""
import json
import os

V = os.path.dirname(os.path.dirname(os.path.abspath(__file__)))
props = [json.loads(l) for l in open(os.path.join(V, "properties.jsonl"))]
claims = json.load(open(os.path.join(V, "tools", "claims.json")))
C = claims["claimed"]
m = {
    "version": 1,
    "setup_cmd": "/verif/tools/setup.sh",
    "hooks": {
        "guard": "ESUTIL_VERIF",
        "enable": "no hooks are needed: every check builds /repo's working tree unmodified in a scratch directory "
                  "(harness/core.py build_impl) and imports esutil from there; ESUTIL_VERIF=1 is exported by ./check "
                  "for uniformity and is read by nothing in /repo",
        "baseline_off_cmd": "cd /repo && /venv/bin/python -m pytest -ra -q -p no:cacheprovider --timeout=900 --continue-on-collection-errors",
        "source_commits": [],
        "add_only": True,
    },
    "engines": [{
        "name": "coq-proof+correspondence", "path": "check", "serves_properties": sorted(C),
        "kind_free_text": "Coq 8.16.1 theorems about executable Gallina models (coq/theories/Cnn), tied to /repo on every "
                          "run by regenerated constant tables/skeletons where a translator exists and otherwise by a "
                          "correspondence check that evaluates the model and a verified property checker inside Coq "
                          "(vm_compute / interval certificates) on the real implementation's outputs"}],
    "checks": [],
    "notes": "see DESIGN.md; known_findings.json lists genuine defects (fixed by 'fix:' commits in /repo, or recorded)",
    "not_applicable": [],
}
import glob, re


def nthm(i):
    n = 0
    for f in glob.glob(os.path.join(V, "coq", "theories", i, "*Properties.v")):
        n += len(re.findall(r"^\s*(?:Theorem|Corollary)\s", open(f).read(), re.M))
    return n


for p in props:
    i = p["id"]
    if i in C:
        c = dict(C[i])
        # the leading theorem count of a claim text is kept equal to what the Properties files contain
        c["text"] = re.sub(r"^\d+ theorems", "%d theorems" % nthm(i), c["text"])
        m["checks"].append({
            "property_id": i,
            "quick_cmd": "./check %s --tier quick" % i,
            "thorough_cmd": "./check %s --tier thorough" % i,
            "evidence_file": "/verif/evidence/%s.json" % i,
            "replay_cmd_template": "./check %s --replay {path}" % i,
            "engine": "coq-proof+correspondence",
            "level_claimed": {"category": "proof", "text": c["text"], "design_ref": "DESIGN.md section 7 / %s and section 11" % i},
            "level_note": c["note"],
            "technique": c.get("technique", "machine-checked proof in Coq (Rocq) of an executable model + model/implementation correspondence check"),
        })
    else:
        m["not_applicable"].append({"property_id": i, "reason": claims.get("unclaimed", {}).get(
            i, "not yet built in this round (planned: DESIGN.md section 7); no claim is made")})
json.dump(m, open(os.path.join(V, "MANIFEST.json"), "w"), indent=1)
print("claimed:", sorted(C), "unclaimed:", [x["property_id"] for x in m["not_applicable"]])

#!/bin/bash
# confirm_seed.sh <worktree> <x>   — confirm a seeded change: demo passes on the clean worktree, the change
# builds, the whole existing test-suite passes with it, the demo fails with it.  Prints CONFIRMED or REJECTED.
wt=$1; x=$2; out=$wt/out/$x
cd $wt || exit 2
git checkout -q -- . ; rm -f demo.py
needs_build=0; grep -qE '^\+\+\+ b/.*\.(c|cc|cpp|h|hpp)$' $out/patch.diff && needs_build=1
build() { /venv/bin/python setup.py build_ext --inplace -j8 >/dev/null 2>&1; }
ls esutil/*/*.so >/dev/null 2>&1 || build
cp $out/demo.py demo.py
PYTHONDONTWRITEBYTECODE=1 /venv/bin/python demo.py >/dev/null 2>&1; clean_rc=$?
git apply $out/patch.diff || { echo "REJECTED $wt $x: patch does not apply"; exit 1; }
[ $needs_build = 1 ] && { build || { echo "REJECTED $wt $x: does not build"; git checkout -q -- .; exit 1; }; }
find esutil -name '__pycache__' -prune -exec rm -rf {} + 2>/dev/null
PYTHONDONTWRITEBYTECODE=1 /venv/bin/python -m pytest -q -p no:cacheprovider --timeout=900 esutil/tests > $out/confirm_tests.log 2>&1; test_rc=$?
PYTHONDONTWRITEBYTECODE=1 /venv/bin/python demo.py > $out/confirm_demo.log 2>&1; mut_rc=$?
git checkout -q -- . ; rm -f demo.py
[ $needs_build = 1 ] && build
find esutil -name '__pycache__' -prune -exec rm -rf {} + 2>/dev/null
if [ $clean_rc = 0 ] && [ $test_rc = 0 ] && [ $mut_rc != 0 ]; then echo "CONFIRMED $wt $x (tests: $(tail -1 $out/confirm_tests.log))"; else echo "REJECTED $wt $x clean_demo_rc=$clean_rc tests_rc=$test_rc mutated_demo_rc=$mut_rc"; fi

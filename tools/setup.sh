#!/bin/bash
# MANIFEST.setup_cmd: full .vo build of the Coq development (never -vos/-vok).
# Everything listed in coq/_CoqProject that exists is built (make -k, so that a package still
# under construction cannot block the others); the exit status is that of the targets of the
# properties CLAIMED in MANIFEST.json (their Properties.vo and Exec.vo must be built and current).
cd "$(dirname "$0")/.." || exit 2
exec /venv/bin/python - <<'PY'
import json, os, sys
sys.path.insert(0, os.getcwd())
from harness import core
ok, log = core.coq_make((), timeout=5000, keep_going=True)
open(os.path.join(core.COQDIR, ".setup.log"), "w").write(log)
status = 0
for c in json.load(open("MANIFEST.json"))["checks"]:
    p = c["property_id"]
    for t in ("Properties", "Exec"):
        vo = os.path.join(core.COQDIR, "theories", p, t + ".vo")
        v = vo[:-1]
        if not os.path.exists(vo) or os.path.getmtime(vo) < os.path.getmtime(v):
            print("setup: %s did not build" % vo)
            status = 1
if not ok:
    import re
    errs = re.findall(r"(File \"[^\"]+\", line \d+[^\n]*\n(?:[^\n]*\n){0,6})", log)
    print("setup: make -k reported errors (packages under construction?):")
    for e in errs[:10]:
        print(e)
print("setup: exit %d" % status)
sys.exit(status)
PY

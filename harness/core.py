"""
Shared machinery of the esutil proof checks (see DESIGN.md section 2).

  build_impl()      scratch copy of /repo's working tree + build_ext, cached by content hash
  coq_make()        (re)build the Coq development (full .vo build, under flock + timeout)
  coq_eval()        evaluate generated case files inside Coq (vm_compute), sharded, parallel
  assumptions()     Print Assumptions of every property theorem, checked against an allow-list
  Ctx               per-run bookkeeping: PRNG, counters, samples, violations, evidence
"""
import fcntl
import hashlib
import json
import os
import random
import re
import shutil
import subprocess
import sys
import time
from concurrent.futures import ThreadPoolExecutor

VERIF = os.path.dirname(os.path.dirname(os.path.abspath(__file__)))
REPO = os.environ.get("VERIF_REPO") or "/repo"
SCRATCH_ROOT = os.environ.get("VERIF_SCRATCH", "/var/tmp")
COQDIR = os.path.join(VERIF, "coq")
PY = "/venv/bin/python"
DEFAULT_SEED = 20260926
NCPU = min(16, os.cpu_count() or 4)

# ----------------------------------------------------------------------------
# implementation build
# ----------------------------------------------------------------------------

_SRC_EXT = (".py", ".c", ".cc", ".cpp", ".h", ".hpp", ".hxx", ".i", ".toml", ".in")


def _tree_hash(root):
    h = hashlib.sha256()
    for d, dirs, files in os.walk(root):
        dirs[:] = sorted(x for x in dirs if x not in (".git", "build", "__pycache__", "tmp")
                         and not x.endswith(".egg-info"))
        for f in sorted(files):
            if f.endswith(_SRC_EXT):
                p = os.path.join(d, f)
                h.update(os.path.relpath(p, root).encode())
                with open(p, "rb") as fh:
                    h.update(hashlib.sha256(fh.read()).digest())
    return h.hexdigest()[:20]


def build_impl(log=None):
    """Build /repo's *current working tree* in a scratch directory and return its path.

    The build is cached under $VERIF_SCRATCH/esutil-verif-cache/<hash of all sources>; the
    cache is only a shortcut (a missing entry is rebuilt), old entries are pruned."""
    cache = os.path.join(SCRATCH_ROOT, "esutil-verif-cache")
    os.makedirs(cache, exist_ok=True)
    key = _tree_hash(REPO)
    dst = os.path.join(cache, key)
    with open(os.path.join(cache, ".lock"), "w") as lk:
        fcntl.flock(lk, fcntl.LOCK_EX)
        if not os.path.exists(os.path.join(dst, ".built")):
            shutil.rmtree(dst, ignore_errors=True)
            subprocess.run(["rsync", "-a", "--exclude", ".git", "--exclude", "*.so", "--exclude", "build",
                            "--exclude", "*.egg-info", "--exclude", "__pycache__", "--exclude", "tmp",
                            REPO + "/", dst + "/"], check=True)
            r = subprocess.run([PY, "setup.py", "build_ext", "--inplace", "-j", str(NCPU)], cwd=dst,
                               stdout=subprocess.PIPE, stderr=subprocess.STDOUT, text=True, timeout=900)
            if r.returncode != 0:
                sys.stdout.write(r.stdout[-4000:])
                shutil.rmtree(dst, ignore_errors=True)
                raise RuntimeError("build_ext failed on the working tree")
            shutil.rmtree(os.path.join(dst, "build"), ignore_errors=True)
            shutil.rmtree(os.path.join(dst, "tmp"), ignore_errors=True)
            open(os.path.join(dst, ".built"), "w").write(str(time.time()))
        os.utime(dst)
        # prune: keep the 16 most recently used builds, never one used within the last 2 hours
        ents = [os.path.join(cache, e) for e in os.listdir(cache) if not e.startswith(".")]
        ents.sort(key=lambda p: os.path.getmtime(p), reverse=True)
        for p in ents[16:]:
            if time.time() - os.path.getmtime(p) > 7200:
                shutil.rmtree(p, ignore_errors=True)
    return dst


# ----------------------------------------------------------------------------
# Coq
# ----------------------------------------------------------------------------

COQFLAGS = ["-Q", os.path.join(COQDIR, "theories"), "EsVerif"]


def coq_make(targets=(), timeout=3000, keep_going=False):
    """Full .vo build of the requested targets (all when empty). Returns (ok, log)."""
    with open(os.path.join(COQDIR, ".lock"), "w") as lk:
        fcntl.flock(lk, fcntl.LOCK_EX)
        # the Makefile is generated from _CoqProject restricted to files that exist (a package under
        # construction may have listed files it has not written yet; that must not break other properties)
        proj = open(os.path.join(COQDIR, "_CoqProject")).read().splitlines()
        eff = [l for l in proj if not l.strip().endswith(".v") or os.path.exists(os.path.join(COQDIR, l.strip()))]
        efftxt = "\n".join(eff) + "\n"
        effp = os.path.join(COQDIR, ".CoqProject.effective")
        confp = os.path.join(COQDIR, "Makefile.conf")
        by_hand = not os.path.exists(confp) or ".CoqProject.effective" not in open(confp).read(400)
        if (not os.path.exists(os.path.join(COQDIR, "Makefile")) or not os.path.exists(effp)
                or open(effp).read() != efftxt or by_hand):
            open(effp, "w").write(efftxt)
            subprocess.run(["coq_makefile", "-f", ".CoqProject.effective", "-o", "Makefile"], cwd=COQDIR, check=True,
                           stdout=subprocess.DEVNULL)
        cmd = ["timeout", str(timeout), "make", "-j", str(NCPU)] + (["-k"] if keep_going else []) + list(targets)
        r = subprocess.run(cmd, cwd=COQDIR, stdout=subprocess.PIPE, stderr=subprocess.STDOUT, text=True)
    return r.returncode == 0, r.stdout


_RETRY_LOCK = None


def coqc_file(path, timeout=600, flags=None):
    """coqc on one file.  A coqc that was KILLED (out-of-memory killer, signal) says nothing about the file:
    it is retried, alone (serialised across the threads of this process), up to two more times."""
    global _RETRY_LOCK
    import threading
    if _RETRY_LOCK is None:
        _RETRY_LOCK = threading.Lock()
    cmd = ["timeout", str(timeout), "coqc"] + (flags or COQFLAGS) + [path]
    r = subprocess.run(cmd, stdout=subprocess.PIPE, stderr=subprocess.STDOUT, text=True, cwd=os.path.dirname(path))
    tries = 0
    while tries < 2 and (r.returncode in (137, 139, -9, -11, 134) or
                         (r.returncode not in (0, 124) and "Error" not in r.stdout and "rror:" not in r.stdout
                          and ("Killed" in r.stdout or "Out of memory" in r.stdout or "Stack overflow" in r.stdout
                               or not r.stdout.strip()))):
        tries += 1
        time.sleep(5 * tries)
        with _RETRY_LOCK:
            r = subprocess.run(cmd, stdout=subprocess.PIPE, stderr=subprocess.STDOUT, text=True,
                               cwd=os.path.dirname(path))
    return r.returncode, r.stdout


_HDR = "Set Printing Width 100000000. Set Printing Depth 100000000.\n"


def coq_eval(workdir, preamble, terms, ty="Z", shard=400, timeout=900, tag="cases", flags=None):
    """Evaluate each Coq term (of type `ty`, default Z) with vm_compute; returns the list of
    printed values (strings), or raises CoqEvalError naming the shard that failed to compile."""
    os.makedirs(workdir, exist_ok=True)
    shards = [terms[i:i + shard] for i in range(0, len(terms), shard)]
    files = []
    for k, sh in enumerate(shards):
        p = os.path.join(workdir, "%s_%d.v" % (tag, k))
        with open(p, "w") as f:
            f.write(preamble + "\n" + _HDR)
            for j, t in enumerate(sh):
                f.write("Definition c%d : %s := %s.\n" % (j, ty, t))
            f.write("Definition all_cases : list (%s) := [%s].\n" % (ty, "; ".join("c%d" % j for j in range(len(sh)))))
            f.write("Eval vm_compute in all_cases.\n")
        files.append(p)

    def one(p):
        return coqc_file(p, timeout, flags)

    out = []
    with ThreadPoolExecutor(NCPU) as ex:
        res = list(ex.map(one, files))
    for p, (rc, txt), sh in zip(files, res, shards):
        if rc != 0:
            raise CoqEvalError(p, txt)
        m = re.search(r"^\s*= \[(.*)\]\s*$\s*: list", txt, re.S | re.M)
        if not m:
            raise CoqEvalError(p, txt)
        vals = split_top(m.group(1))
        if len(vals) != len(sh):
            raise CoqEvalError(p, "expected %d values, got %d\n%s" % (len(sh), len(vals), txt[-2000:]))
        out.extend(vals)
    return out


def split_top(s, sep=";"):
    """split a printed Coq list body at top-level separators"""
    out, depth, cur, instr = [], 0, [], False
    for ch in s:
        if ch == '"':
            instr = not instr
        if not instr:
            if ch in "([{":
                depth += 1
            elif ch in ")]}":
                depth -= 1
            elif ch == sep and depth == 0:
                out.append("".join(cur).strip())
                cur = []
                continue
        cur.append(ch)
    last = "".join(cur).strip()
    if last:
        out.append(last)
    return out


def coq_lemmas(workdir, preamble, lemmas, shard=12, timeout=900, tag="lem", flags=None):
    """Compile generated lemmas (per-case certificates, e.g. closed by `interval`).
    lemmas: list of (statement, proof_script).  Returns list of (ok: bool, message).
    A shard that fails to compile is re-run lemma by lemma so that every failure is attributed."""
    os.makedirs(workdir, exist_ok=True)

    def write(p, items):
        with open(p, "w") as f:
            f.write(preamble + "\n")
            for j, (st, pr) in items:
                f.write("Lemma case_%d : %s.\nProof. %s Qed.\n" % (j, st, pr))

    idx = list(enumerate(lemmas))
    shards = [idx[i:i + shard] for i in range(0, len(idx), shard)]
    files = []
    for k, sh in enumerate(shards):
        p = os.path.join(workdir, "%s_%d.v" % (tag, k))
        write(p, sh)
        files.append(p)
    with ThreadPoolExecutor(NCPU) as ex:
        res = list(ex.map(lambda p: coqc_file(p, timeout, flags), files))
    out = [None] * len(lemmas)
    redo = []
    for (rc, txt), sh in zip(res, shards):
        if rc == 0:
            for j, _ in sh:
                out[j] = (True, "")
        else:
            redo.extend(sh)
    if redo:
        files = []
        for j, item in redo:
            p = os.path.join(workdir, "%s_single_%d.v" % (tag, j))
            write(p, [(j, item)])
            files.append(p)
        with ThreadPoolExecutor(NCPU) as ex:
            res = list(ex.map(lambda p: coqc_file(p, timeout, flags), files))
        for (j, _), (rc, txt) in zip(redo, res):
            out[j] = (rc == 0, txt[-1500:])
    return out


class CoqEvalError(Exception):
    def __init__(self, path, text):
        Exception.__init__(self, "coqc failed on %s:\n%s" % (path, text[-3000:]))
        self.path, self.text = path, text


def coq_show(workdir, preamble, term, timeout=300):
    """Evaluate one term of any type and return Coq's printed answer (for replays)."""
    p = os.path.join(workdir, "show_%d.v" % (abs(hash(term)) % 10**9))
    os.makedirs(workdir, exist_ok=True)
    with open(p, "w") as f:
        f.write(preamble + "\n" + _HDR + "Eval vm_compute in (%s).\n" % term)
    rc, txt = coqc_file(p, timeout)
    return txt.strip()[-6000:]


# Axioms that a property theorem may depend on (all declared by the standard library or by
# libraries shipped with the image; none by us).  Matched by prefix of the qualified name.
ALLOW_DISCRETE = ()
ALLOW_REALS = (
    "ClassicalDedekindReals.sig_forall_dec", "ClassicalDedekindReals.sig_not_dec",
    "FunctionalExtensionality.functional_extensionality_dep", "Classical_Prop.classic",
)
ALLOW_INTERVAL = ALLOW_REALS + (
    "FloatAxioms.", "Uint63.", "PrimFloat.", "PrimInt63.", "Uint63Axioms.", "FloatOps.", "FloatLemmas.",
    "ProofIrrelevance.proof_irrelevance", "ClassicalEpsilon.constructive_indefinite_description",
    "float", "int", "Sint63.",
)
ALLOW_FLOAT = ("PrimFloat.", "PrimInt63.", "float", "int", "FloatAxioms.", "Uint63.", "Uint63Axioms.")


def assumptions(workdir, module, theorems, allow, timeout=600):
    """Print Assumptions for each theorem of EsVerif.<module>; returns
    (results: {thm: [axiom names]}, bad: [(thm, axiom)], raw text)."""
    os.makedirs(workdir, exist_ok=True)
    p = os.path.join(workdir, "assume_%s.v" % module.replace(".", "_"))
    with open(p, "w") as f:
        f.write("Require Import EsVerif.%s.\n" % module)
        for t in theorems:
            f.write('Goal True. idtac "@@THM %s". exact I. Qed.\nPrint Assumptions %s.\n' % (t, t))
    rc, txt = coqc_file(p, timeout)
    if rc != 0:
        return None, [("<compile>", txt[-2000:])], txt
    res, bad, cur = {}, [], None
    for line in txt.splitlines():
        m = re.match(r"@@THM (\S+)", line)
        if m:
            cur = m.group(1)
            res[cur] = []
            continue
        if cur is None:
            continue
        if line.strip() in ("Axioms:", "Closed under the global context", ""):
            continue
        # an axiom is printed as `Qualified.name : type`; long names put the `: type` on the next (indented) line
        m = re.match(r"^([A-Za-z_][\w.']*)\s*(:|$)", line)
        if m and not line.startswith(" "):
            ax = m.group(1)
            res[cur].append(ax)
            if not any(ax.startswith(a) or ("." + a) in ("." + ax) for a in allow):
                bad.append((cur, ax))
    missing = [t for t in theorems if t not in res]
    for t in missing:
        bad.append((t, "<no Print Assumptions output>"))
    return res, bad, txt


FORBIDDEN = re.compile(r"\b(Admitted|admit|Axiom|Axioms|Parameter|Parameters|Conjecture|Admit Obligations|"
                       r"Unset Guard Checking|Unset Positivity Checking|Unset Universe Checking|bypass_check|"
                       r"type-in-type|impredicative-set|native_compute)\b")


def grep_forbidden():
    """No Admitted/admit/Axiom/Parameter/... anywhere in the development (comments are stripped)."""
    hits = []
    for d, _, files in os.walk(os.path.join(COQDIR, "theories")):
        for f in files:
            if f.endswith(".v"):
                p = os.path.join(d, f)
                txt = open(p).read()
                txt = strip_coq_comments(txt)
                depth = 0
                for i, line in enumerate(txt.splitlines(), 1):
                    if FORBIDDEN.search(line):
                        hits.append("%s:%d: %s" % (os.path.relpath(p, VERIF), i, line.strip()))
                    # a Variable / Hypothesis / Context outside a Section declares an axiom
                    ls = line.strip()
                    if re.match(r"^Section\s+\w+", ls):
                        depth += 1
                    elif re.match(r"^End\s+\w+\s*\.", ls) and depth > 0:
                        depth -= 1
                    elif depth == 0 and re.match(r"^(Local\s+|Global\s+)?(Variable|Variables|Hypothesis|Hypotheses|Context)\b", ls):
                        hits.append("%s:%d: outside a Section: %s" % (os.path.relpath(p, VERIF), i, ls))
    for p in (os.path.join(COQDIR, "_CoqProject"),):
        for i, line in enumerate(open(p), 1):
            if FORBIDDEN.search(line):
                hits.append("%s:%d: %s" % (os.path.relpath(p, VERIF), i, line.strip()))
    return hits


def strip_coq_comments(txt):
    out, depth, i, n, instr = [], 0, 0, len(txt), False
    while i < n:
        if not instr and txt.startswith("(*", i):
            depth += 1
            i += 2
            continue
        if not instr and depth and txt.startswith("*)", i):
            depth -= 1
            i += 2
            continue
        ch = txt[i]
        if depth == 0:
            if ch == '"':
                instr = not instr
            out.append(ch)
        elif ch == "\n":
            out.append(ch)
        i += 1
    return "".join(out)


def theorems_in(path):
    txt = strip_coq_comments(open(path).read())
    return re.findall(r"^\s*(?:Theorem|Corollary)\s+([\w']+)", txt, re.M)


# ----------------------------------------------------------------------------
# literal printers (python value -> Coq term text)
# ----------------------------------------------------------------------------

def cz(n):
    n = int(n)
    return "(%d)%%Z" % n if n < 0 else "%d%%Z" % n


def cnat(n):
    return "%d%%nat" % int(n)


def cbool(b):
    return "true" if b else "false"


def clist(xs, f=cz):
    return "[" + "; ".join(f(x) for x in xs) + "]"


def copt(x, f=cz):
    return "None" if x is None else "(Some %s)" % f(x)


def cpair(a, b):
    return "(%s, %s)" % (a, b)


def cstr(s):
    """Coq string literal (ASCII only; '"' doubled)"""
    assert all(32 <= ord(c) < 127 for c in s), s
    return '"' + s.replace('"', '""') + '"%string'


def chex(b):
    """bytes -> Coq term (list byte) via the hex decoder of Common/Bytes.v"""
    return '(unhex "%s")' % bytes(b).hex()


def cfloat(x):
    """python float -> PrimFloat literal, bit exact (nan payloads are not preserved)"""
    import math
    if math.isnan(x):
        return "nan"
    if math.isinf(x):
        return "infinity" if x > 0 else "neg_infinity"
    h = float(x).hex()
    return "(%s)%%float" % h


def cq(fr):
    """fractions.Fraction -> Coq Q literal"""
    return "(%d # %d)%%Q" % (fr.numerator, fr.denominator)


def dyadic(x):
    """exact value of a finite python float as (numerator, denominator) integers"""
    from fractions import Fraction
    fr = Fraction(float(x))
    return fr.numerator, fr.denominator


def cR(x):
    """finite python float -> Coq real-number term denoting EXACTLY that binary64 value"""
    n, d = dyadic(x)
    if d == 1:
        return "(%d)%%R" % n if n >= 0 else "(- %d)%%R" % (-n)
    return "(%d / %d)%%R" % (n, d) if n >= 0 else "(- %d / %d)%%R" % (-n, d)


def cQ(x):
    """finite python float -> Coq Q literal denoting exactly that binary64 value"""
    n, d = dyadic(x)
    return "(%d # %d)%%Q" % (n, d)


def cresult(r, f):
    """('ok', v) | ('err', 'EValue')"""
    if r[0] == "ok":
        return "(Ok %s)" % f(r[1])
    return "(Err %s)" % r[1]


ERRMAP = [(ValueError, "EValue"), (IndexError, "EIndex"), (RuntimeError, "ERuntime"), (TypeError, "EType"),
          (KeyError, "EKey"), (AssertionError, "EOther")]


def errclass(e):
    for k, v in ERRMAP:
        if isinstance(e, k):
            return v
    return "EOther"


def guarded(f, *a, **k):
    try:
        return ("ok", f(*a, **k))
    except Exception as e:  # noqa
        return ("err", errclass(e), "%s: %s" % (type(e).__name__, str(e)[:200]))


# ----------------------------------------------------------------------------
# per-run context
# ----------------------------------------------------------------------------

class Ctx:
    def __init__(self, pid, tier, seed):
        self.pid, self.tier, self.seed = pid, tier, seed
        self.rng = random.Random("%s/%d" % (pid, seed))
        self.t0 = time.time()
        self.work = os.path.join(SCRATCH_ROOT, "esutil-verif-run.%s.%d" % (pid, os.getpid()))
        shutil.rmtree(self.work, ignore_errors=True)
        os.makedirs(self.work)
        self.impl = None
        self.evaluations = 0
        self.nontrivial = set()
        self.dist = {}
        self.samples = []
        self.obligations = []          # (name, ok)
        self.violations = []           # dicts
        self.known_hits = {}           # finding id -> count
        self.trusted = []
        self.assumptions_txt = []
        self.checker_cmds = []
        self.rule = ""
        self.notes = []
        self.exhaustive = False
        self.findings = [f for f in load_findings() if f["property"] == pid]

    # --- bookkeeping
    def quick(self):
        return self.tier == "quick"

    def n(self, quick, thorough):
        return quick if self.tier == "quick" else thorough

    def count(self, key, k=1):
        self.dist[key] = self.dist.get(key, 0) + k

    def case(self, canon, nontrivial, family=None, sample=None):
        self.evaluations += 1
        if family:
            self.count("family:" + family)
        if nontrivial:
            self.nontrivial.add(hashlib.sha1(json.dumps(canon, sort_keys=True, default=str).encode()).hexdigest())
        if sample is not None and len(self.samples) < 8 and (family is None or
                                                             sum(1 for s in self.samples if s.get("family") == family) < 2):
            self.samples.append({"family": family, "case": sample})

    def obligation(self, name, ok, detail=""):
        self.obligations.append((name, bool(ok)))
        if not ok:
            self.notes.append("obligation failed: %s %s" % (name, detail[:500]))

    # --- reporting
    def violation(self, what, replay, found_input=True):
        """Report a violation unless a *known* finding lists this class."""
        cls = replay.get("class")
        for f in self.findings:
            if f.get("status") == "known" and cls is not None and f.get("class") == cls:
                self.known_hits[f["id"]] = self.known_hits.get(f["id"], 0) + 1
                return False
        os.makedirs(os.path.join(VERIF, "replays"), exist_ok=True)
        replay = dict(replay, property=self.pid, what=what, seed=self.seed, tier=self.tier,
                      failing_input_found=bool(found_input))
        h = hashlib.sha1(json.dumps(replay, sort_keys=True, default=str).encode()).hexdigest()[:10]
        path = os.path.join(VERIF, "replays", "%s-%s.json" % (self.pid, h))
        with open(path, "w") as f:
            json.dump(replay, f, indent=1, default=str)
        self.violations.append({"what": what, "replay": path, "found": bool(found_input)})
        return True

    def finish(self, level="proof"):
        for f in self.findings:
            if f.get("status") == "known":
                print("KNOWN-FINDING: property=%s %s [%s; hit %d time(s) in this run]" % (
                    self.pid, f["what"], f["id"], self.known_hits.get(f["id"], 0)))
        nob = len(self.obligations)
        ndis = sum(1 for _, ok in self.obligations if ok)
        ev = {
            "property_id": self.pid, "tier": self.tier, "seed": self.seed, "level": level,
            "coverage": {
                "obligations": nob, "discharged": ndis,
                "checker_cmd": " && ".join(self.checker_cmds) or "make -C coq",
                "trusted_base": self.trusted,
                "evaluations": self.evaluations,
                "distinct_nontrivial": len(self.nontrivial),
                "rule": self.rule,
                "samples": self.samples,
                "distribution": dict(sorted(self.dist.items())),
                "obligation_names": [n for n, _ in self.obligations][:400],
                "failed_obligations": [n for n, ok in self.obligations if not ok],
                "known_findings_hit": self.known_hits,
                "exhaustive": self.exhaustive,
                "notes": self.notes[:50],
            },
            "assumptions": self.assumptions_txt,
            "wall_s": round(time.time() - self.t0, 2),
            "violations": len(self.violations),
        }
        # evidence/<id>.json describes a run against /repo itself; runs against another tree (VERIF_REPO=<clone>:
        # seeded changes, mutation self-tests, the as-found tree) must not overwrite it
        evdir = os.path.join(VERIF, "evidence") if os.path.realpath(REPO) == "/repo" else \
            os.path.join(SCRATCH_ROOT, "esutil-verif-evidence-other-trees")
        ev["repo"] = os.path.realpath(REPO)
        os.makedirs(evdir, exist_ok=True)
        with open(os.path.join(evdir, self.pid + ".json"), "w") as f:
            json.dump(ev, f, indent=1, default=str)
        shutil.rmtree(self.work, ignore_errors=True)
        # one VIOLATION line per distinct kind, failing inputs first
        seen = set()
        for v in sorted(self.violations, key=lambda v: not v["found"]):
            key = v["what"]
            if key in seen:
                continue
            seen.add(key)
            print("VIOLATION property=%s replay=%s%s" % (self.pid, v["replay"],
                                                          "" if v["found"] else " no-failing-input-found"))
            print("  -> " + v["what"][:300])
        print("%s %s: %d evaluations, %d distinct non-trivial, %d/%d obligations, %d violation(s), %.1fs" % (
            self.pid, self.tier, self.evaluations, len(self.nontrivial), ndis, nob, len(self.violations),
            time.time() - self.t0))
        return 1 if self.violations else 0


def load_findings():
    p = os.path.join(VERIF, "known_findings.json")
    if not os.path.exists(p):
        return []
    return json.load(open(p))["findings"]


# ----------------------------------------------------------------------------
# standard steps shared by every property
# ----------------------------------------------------------------------------

def proof_step(ctx, prop_dir, allow, extra_targets=()):
    """(1) the Coq development is built from the sources on disk (full .vo build);
       (2) no forbidden vernacular anywhere; (3) Print Assumptions of every theorem in
       <prop_dir>/Properties.v is within the allow-list.  Each theorem is one obligation."""
    tgt = ["theories/%s/Properties.vo" % prop_dir, "theories/%s/Exec.vo" % prop_dir] + list(extra_targets)
    ok, log = coq_make(tgt)
    ctx.checker_cmds.append("make -C coq " + " ".join(tgt))
    hits = grep_forbidden()
    ctx.obligation("no Admitted/admit/Axiom/Parameter/unset-checks, no Variable/Hypothesis outside a Section in coq/theories", not hits, "; ".join(hits[:5]))
    thms = theorems_in(os.path.join(COQDIR, "theories", prop_dir, "Properties.v"))
    if not ok:
        for t in thms:
            ctx.obligation("%s.%s" % (prop_dir, t), False, "build failed")
        tail = log[-3000:]
        ctx.violation("proof obligations of %s do not build" % prop_dir,
                      {"kind": "proof-build", "theorems": thms, "log_tail": tail}, found_input=False)
        return False
    res, bad, raw = assumptions(ctx.work, prop_dir + ".Properties", thms, allow)
    ctx.checker_cmds.append("coqc Print Assumptions <each theorem of %s/Properties.v>" % prop_dir)
    badthm = set(t for t, _ in bad)
    axs = set()
    for t in thms:
        ctx.obligation("%s.%s" % (prop_dir, t), t not in badthm)
        for a in (res or {}).get(t, []):
            axs.add(a)
    ctx.assumptions_txt.append("Print Assumptions over %d theorems of %s/Properties.v: %s" % (
        len(thms), prop_dir, ("axioms used: " + ", ".join(sorted(axs))) if axs else "all closed under the global context"))
    if bad:
        ctx.violation("theorem depends on an axiom outside the allow-list: %s" % bad[:3],
                      {"kind": "assumptions", "bad": bad}, found_input=False)
        return False
    if ctx.tier == "thorough" and not os.environ.get("VERIF_NO_COQCHK"):
        return coqchk_step(ctx, prop_dir, allow)
    return True


def own_modules(prop_dir):
    """logical names of every EsVerif module that <prop_dir>/Properties.vo depends on (from coq_makefile's
    dependency file), Properties itself included, in dependency order of discovery"""
    deps = {}
    dfile = os.path.join(COQDIR, ".Makefile.d")
    for line in open(dfile):
        if ":" not in line:
            continue
        lhs, rhs = line.split(":", 1)
        tg = [t for t in lhs.split() if t.endswith(".vo")]
        if not tg:
            continue
        deps[tg[0]] = [t for t in rhs.split() if t.endswith(".vo") and t.startswith("theories/")]
    start = "theories/%s/Properties.vo" % prop_dir
    seen, stack = [], [start]
    while stack:
        t = stack.pop()
        if t in seen:
            continue
        seen.append(t)
        stack.extend(deps.get(t, []))
    return ["EsVerif." + t[len("theories/"):-3].replace("/", ".") for t in seen]


def coqchk_step(ctx, prop_dir, allow, timeout=2400):
    """Thorough tier: re-check <prop_dir>/Properties.vo and everything it depends on with the independent
    checker.  Obligation: coqchk exits 0 and nothing relies on type-in-type, unsafe (co)fixpoints or assumed
    positivity.  The axioms it lists (those of every LOADED library, a superset of what the theorems use) are
    recorded in the evidence; one that is outside the property's allow-list and declared under EsVerif is a
    violation (none may be declared by this development)."""
    mod = "EsVerif.%s.Properties" % prop_dir
    heavy = any(a in allow for a in ALLOW_REALS)
    if heavy and not os.environ.get("VERIF_COQCHK_FULL"):
        # developments over the reals load Interval / Flocq / Coquelicot / mathcomp: re-checking those libraries
        # takes tens of minutes.  Every module of THIS development that Properties.vo depends on is re-checked
        # (-norec each), the installed libraries they load are admitted as compiled (stated in the trusted base).
        own = own_modules(prop_dir)
        cmd = ["timeout", str(timeout), "coqchk", "-silent", "-o"] + COQFLAGS
        for m in own:
            cmd += ["-norec", m]
        mode = "own modules re-checked (%d), installed libraries admitted" % len(own)
        ctx.checker_cmds.append("coqchk -silent -o -Q coq/theories EsVerif " + " ".join("-norec " + m for m in own))
    else:
        cmd = ["timeout", str(timeout), "coqchk", "-silent", "-o"] + COQFLAGS + [mod]
        mode = "everything it depends on re-checked"
        ctx.checker_cmds.append("coqchk -silent -o -Q coq/theories EsVerif " + mod)
    r = subprocess.run(cmd, stdout=subprocess.PIPE, stderr=subprocess.STDOUT, text=True, cwd=COQDIR)
    if r.returncode in (137, -9, 139, -11):      # killed: says nothing; once more
        time.sleep(10)
        r = subprocess.run(cmd, stdout=subprocess.PIPE, stderr=subprocess.STDOUT, text=True, cwd=COQDIR)
    ctx.notes.append("coqchk mode: " + mode)
    txt = r.stdout
    sect = {}
    cur = None
    for line in txt.splitlines():
        m = re.match(r"^\* (.*?):\s*(.*)$", line)
        if m:
            cur = m.group(1)
            sect[cur] = [m.group(2).strip()] if m.group(2).strip() else []
        elif cur is not None and line.strip():
            sect[cur].append(line.strip())
    unsafe = []
    for k, v in sect.items():
        if k.startswith("Constants/Inductives relying") or k.startswith("Inductives whose positivity"):
            if v != ["<none>"]:
                unsafe.append((k, v[:5]))
    axioms = [a for a in sect.get("Axioms", []) if a != "<none>"]
    ours = [a for a in axioms if a.startswith("EsVerif.")]
    ok = r.returncode == 0 and not unsafe and not ours and "Axioms" in sect
    ctx.obligation("coqchk -o %s: accepted; no type-in-type / unsafe fixpoints / assumed positivity; no axiom declared by this development" % mod,
                   ok, txt[-600:])
    ctx.assumptions_txt.append("coqchk -o %s: axioms of all loaded libraries: %s" % (
        mod, ", ".join(axioms) if axioms else "<none>"))
    if not ok:
        ctx.violation("coqchk does not accept %s/Properties.vo (or it relies on switched-off checks / own axioms)" % prop_dir,
                      {"kind": "coqchk", "returncode": r.returncode, "unsafe": unsafe, "own_axioms": ours,
                       "log_tail": txt[-2000:]}, found_input=False)
    return ok


VERDICT_TXT = {0: "agree", 1: "model != implementation (property checker accepts the implementation's output)",
               2: "property checker rejects the implementation's output (model agrees with it)",
               3: "property checker rejects the implementation's output and model != implementation"}

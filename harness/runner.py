"""
Generic differential loop used by the discrete properties (DESIGN.md 2.1 step 4, section 5).

An Entry describes one implementation entry point:
    name                      identifier
    cases(ctx)             -> list of JSON-able case dicts (corpus + adversarial families + seeded random)
    impl(case)             -> canonical JSON-able output of the REAL code on that case (run in the scratch build)
    term(case, out)        -> Coq term : Z   (0 agree+ok, +1 model<>impl, +2 property checker rejects impl output)
    nontrivial(case, out)  -> bool
    family(case)           -> str            (for the measured input distribution)
    show(case)             -> Coq term printing the model's answer (any type) for the replay file
    classify(case, out, v) -> name of a known-finding class, or None
"""
import json
import os
import time

from . import core


class Entry:
    name = "entry"
    search_rounds = 3

    def cases(self, ctx, round=0):
        return []

    def impl(self, case):
        raise NotImplementedError

    def term(self, case, out):
        raise NotImplementedError

    def nontrivial(self, case, out):
        return True

    def family(self, case):
        return case.get("family", self.name)

    def show(self, case):
        return None

    def classify(self, case, out, verdict):
        return None


def corpus_cases(pid, entry_name):
    d = os.path.join(core.VERIF, "corpus", pid)
    out = []
    if os.path.isdir(d):
        for f in sorted(os.listdir(d)):
            if f.endswith(".json"):
                for c in json.load(open(os.path.join(d, f))):
                    if c.get("entry") == entry_name:
                        c = dict(c)
                        c.setdefault("family", "corpus")
                        out.append(c)
    return out


def run_entry(ctx, preamble, entry, cases, tag):
    """returns list of (case, out, verdict)"""
    outs = []
    for c in cases:
        outs.append(entry.impl(c))
    terms = [entry.term(c, o) for c, o in zip(cases, outs)]
    try:
        vals = core.coq_eval(os.path.join(ctx.work, tag), preamble, terms, tag=tag)
    except core.CoqEvalError as e:
        ctx.violation("case file of entry %s does not evaluate in Coq" % entry.name,
                      {"kind": "case-file", "entry": entry.name, "error": str(e)[-3000:]}, found_input=False)
        return []
    res = []
    for c, o, v in zip(cases, outs, vals):
        v = int(v.replace("%Z", "").strip("() "))
        res.append((c, o, v))
    return res


def differential(ctx, preamble, entries, replay_case=None):
    """Run every entry; triage; search on disagreement; report."""
    for ent in entries:
        t0 = time.time()
        if replay_case is not None:
            if replay_case.get("entry") != ent.name:
                continue
            cases = [replay_case["case"]]
        else:
            cases = corpus_cases(ctx.pid, ent.name) + list(ent.cases(ctx, 0))
        for c in cases:
            c.setdefault("entry", ent.name)
        res = run_entry(ctx, preamble, ent, cases, "d_" + ent.name)
        failing = [(c, o, v) for c, o, v in res if v >= 2]
        disagree = [(c, o, v) for c, o, v in res if v == 1]
        for c, o, v in res:
            ctx.case([ent.name, c], ent.nontrivial(c, o), ent.family(c), sample={"entry": ent.name, "input": c, "impl_output": o})
            ctx.count("verdict:%s:%d" % (ent.name, v))
        # search: more seeds around a disagreement when no failing input is known yet
        if disagree and not failing and replay_case is None:
            for r in range(1, ent.search_rounds + 1):
                extra = list(ent.cases(ctx, r))
                for c in extra:
                    c.setdefault("entry", ent.name)
                res2 = run_entry(ctx, preamble, ent, extra, "s%d_%s" % (r, ent.name))
                ctx.count("search_cases:" + ent.name, len(res2))
                failing = [(c, o, v) for c, o, v in res2 if v >= 2]
                if failing:
                    break
        reported = set()
        for c, o, v in sorted(failing, key=lambda t: len(json.dumps(t[0], default=str)))[:40]:
            cls = ent.classify(c, o, v)
            if cls in reported:
                continue
            reported.add(cls)
            shown = None
            if ent.show(c) is not None and len(reported) <= 3:
                shown = core.coq_show(ctx.work, preamble, ent.show(c))
            ctx.violation("%s: %s" % (ent.name, core.VERDICT_TXT[v]),
                          {"kind": "failing-input", "entry": ent.name, "case": c, "impl_output": o,
                           "verdict": v, "model_output": shown, "class": cls}, found_input=True)
        # failing cases of a recorded KNOWN class do not count as "a failing input was found": a pure
        # model/implementation disagreement must not hide behind them
        known_cls = set(f.get("class") for f in ctx.findings if f.get("status") == "known")
        failing_new = [t for t in failing if ent.classify(*t) not in known_cls or ent.classify(*t) is None]
        if disagree and not failing_new:
            c, o, v = min(disagree, key=lambda t: len(json.dumps(t[0], default=str)))
            cls = ent.classify(c, o, v)
            shown = core.coq_show(ctx.work, preamble, ent.show(c)) if ent.show(c) is not None else None
            ctx.violation("%s: correspondence model<->implementation broken on %d case(s); the property checker "
                          "accepted every implementation output explored" % (ent.name, len(disagree)),
                          {"kind": "correspondence", "entry": ent.name, "case": c, "impl_output": o, "verdict": v,
                           "model_output": shown, "class": cls,
                           "no_longer_checks": "correspondence %s.%s (model = implementation)" % (ctx.pid, ent.name)},
                          found_input=False)
        ctx.count("wall_s:" + ent.name, round(time.time() - t0, 1))

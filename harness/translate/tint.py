"""
T-int: fail-closed translator from small pure integer Python functions to Gallina (DESIGN.md 4.1).

Subset: assignment to a name, if/elif/else, return, raise, pass; expressions + - * // %, unary -,
comparisons, and/or/not, `x is None` / `x is not None`, integer constants, names, attribute reads
(`self.nrows` -> parameter `self_nrows`, `arg.start` -> `arg_start`), calls listed in `calls`.
Python ints are Coq Z (unbounded on both sides); `//` and `%` are Z.div / Z.modulo (both floor,
sign of the divisor — the same convention as Python's).  The function returns `result T`:
`return e` is `Ok e`, `raise X(...)` is `Err <class>`, falling off the end is `Err EOther`.

Anything outside the subset raises Untranslatable — the caller reports a broken tie.
"""
import ast
import textwrap

ERR = {"ValueError": "EValue", "IndexError": "EIndex", "RuntimeError": "ERuntime", "TypeError": "EType",
       "KeyError": "EKey"}


class Untranslatable(Exception):
    pass


def find_function(src, name, cls=None):
    tree = ast.parse(src)
    body = tree.body
    if cls is not None:
        for n in body:
            if isinstance(n, ast.ClassDef) and n.name == cls:
                body = n.body
                break
        else:
            raise Untranslatable("class %s not found" % cls)
    for n in body:
        if isinstance(n, ast.FunctionDef) and n.name == name:
            return n
    raise Untranslatable("function %s not found" % name)


def _attrname(e):
    if isinstance(e, ast.Name):
        return e.id
    if isinstance(e, ast.Attribute):
        return _attrname(e.value) + "_" + e.attr
    raise Untranslatable("unsupported attribute base " + ast.dump(e))


def _dotted(e):
    if isinstance(e, ast.Name):
        return e.id
    if isinstance(e, ast.Attribute):
        return _dotted(e.value) + "." + e.attr
    raise Untranslatable("unsupported call target " + ast.dump(e))


class T:
    def __init__(self, calls=None):
        self.calls = calls or {}

    # ---------------------------------------------------------------- expressions
    def expr(self, e, env):
        if isinstance(e, ast.Constant):
            if isinstance(e.value, bool):
                return "true" if e.value else "false"
            if isinstance(e.value, int):
                return "(%d)" % e.value
            raise Untranslatable("constant %r" % (e.value,))
        if isinstance(e, (ast.Name, ast.Attribute)):
            n = _attrname(e)
            if n not in env:
                raise Untranslatable("unknown name %s" % n)
            if env[n] == "optZ":
                raise Untranslatable("optional %s used as a number" % n)
            return n
        if isinstance(e, ast.UnaryOp):
            if isinstance(e.op, ast.USub):
                return "(- %s)" % self.expr(e.operand, env)
            if isinstance(e.op, ast.Not):
                return "(negb %s)" % self.bexpr(e.operand, env)
        if isinstance(e, ast.BinOp):
            ops = {ast.Add: "+", ast.Sub: "-", ast.Mult: "*", ast.FloorDiv: "/", ast.Mod: "mod"}
            if type(e.op) in ops:
                return "(%s %s %s)" % (self.expr(e.left, env), ops[type(e.op)], self.expr(e.right, env))
        if isinstance(e, ast.Tuple):
            return "(" + ", ".join(self.expr(x, env) for x in e.elts) + ")"
        if isinstance(e, ast.Call):
            tgt = _dotted(e.func)
            if tgt in self.calls:
                args = [self.expr(a, env) for a in e.args]
                kw = {k.arg: self.expr(k.value, env) for k in e.keywords if k.arg in self.calls[tgt].get("kw", ())}
                return self.calls[tgt]["emit"](args, kw)
        raise Untranslatable("expression " + ast.dump(e)[:120])

    def bexpr(self, e, env):
        if isinstance(e, ast.BoolOp):
            op = " && " if isinstance(e.op, ast.And) else " || "
            return "(" + op.join(self.bexpr(v, env) for v in e.values) + ")"
        if isinstance(e, ast.UnaryOp) and isinstance(e.op, ast.Not):
            return "(negb %s)" % self.bexpr(e.operand, env)
        if isinstance(e, ast.Compare) and len(e.ops) == 1:
            a, b = self.expr(e.left, env), self.expr(e.comparators[0], env)
            op = e.ops[0]
            m = {ast.Lt: "(%s <? %s)", ast.LtE: "(%s <=? %s)", ast.Gt: "(%s >? %s)", ast.GtE: "(%s >=? %s)",
                 ast.Eq: "(%s =? %s)", ast.NotEq: "(negb (%s =? %s))"}
            if type(op) in m:
                return m[type(op)] % (a, b)
        if isinstance(e, (ast.Name, ast.Attribute)) and env.get(_attrname(e)) == "bool":
            return _attrname(e)
        if isinstance(e, ast.Constant) and isinstance(e.value, bool):
            return "true" if e.value else "false"
        raise Untranslatable("condition " + ast.dump(e)[:120])

    @staticmethod
    def none_test(e, env):
        """returns (name, is_none: bool) for `x is None` / `x is not None` on an optional"""
        if isinstance(e, ast.Compare) and len(e.ops) == 1 and isinstance(e.ops[0], (ast.Is, ast.IsNot)) \
                and isinstance(e.comparators[0], ast.Constant) and e.comparators[0].value is None:
            n = _attrname(e.left)
            if env.get(n) != "optZ":
                raise Untranslatable("`is None` on non-optional %s" % n)
            return n, isinstance(e.ops[0], ast.Is)
        return None

    # ---------------------------------------------------------------- statements
    @staticmethod
    def exits(stmts):
        for s in stmts:
            if isinstance(s, (ast.Return, ast.Raise)):
                return True
            if isinstance(s, ast.If) and (T.exits(s.body) or T.exits(s.orelse)):
                return True
        return False

    @staticmethod
    def assigned(stmts):
        out = []
        for s in stmts:
            if isinstance(s, ast.Assign):
                for t in s.targets:
                    if not isinstance(t, ast.Name):
                        raise Untranslatable("assignment target")
                    if t.id not in out:
                        out.append(t.id)
            elif isinstance(s, ast.If):
                for v in T.assigned(s.body) + T.assigned(s.orelse):
                    if v not in out:
                        out.append(v)
        return out

    def value_block(self, stmts, env, outs):
        """straight-line / nested-if code without exits, as an expression computing the tuple `outs`"""
        env = dict(env)
        if not stmts:
            for v in outs:
                if env.get(v) != "Z":
                    raise Untranslatable("variable %s not defined (as a number) on every path" % v)
            return outs[0] if len(outs) == 1 else "(" + ", ".join(outs) + ")"
        s, rest = stmts[0], stmts[1:]
        if isinstance(s, ast.Pass) or (isinstance(s, ast.Expr) and isinstance(s.value, ast.Constant)):
            return self.value_block(rest, env, outs)
        if isinstance(s, ast.Assign):
            n = s.targets[0].id
            e = self.expr(s.value, env)
            env[n] = "Z"
            return "let %s := %s in %s" % (n, e, self.value_block(rest, env, outs))
        if isinstance(s, ast.If):
            inner = self.assigned([s])
            nt = self.none_test(s.test, env)
            if nt:
                x, isnone = nt
                nb, sb = (s.body, s.orelse) if isnone else (s.orelse, s.body)
                envn = dict(env)
                envn.pop(x)
                envs = dict(env)
                envs[x] = "Z"
                vn = self.value_block(nb, envn, inner)
                vs = self.value_block(sb, envs, inner if x in inner else inner)
                if x not in inner:
                    raise Untranslatable("optional %s not resolved in its None branch" % x)
                pat = inner[0] if len(inner) == 1 else "'(" + ", ".join(inner) + ")"
                for v in inner:
                    env[v] = "Z"
                return "let %s := match %s with None => %s | Some %s => %s end in %s" % (
                    pat, x, vn, x, vs, self.value_block(rest, env, outs))
            c = self.bexpr(s.test, env)
            for v in inner:
                if env.get(v) != "Z":
                    # defined on both paths?
                    if not (v in self.assigned(s.body) and v in self.assigned(s.orelse)):
                        raise Untranslatable("variable %s assigned on one path only" % v)
            v1 = self.value_block(s.body, env, inner)
            v2 = self.value_block(s.orelse, env, inner)
            pat = inner[0] if len(inner) == 1 else "'(" + ", ".join(inner) + ")"
            for v in inner:
                env[v] = "Z"
            return "let %s := if %s then %s else %s in %s" % (pat, c, v1, v2, self.value_block(rest, env, outs))
        raise Untranslatable("statement " + type(s).__name__)

    def block(self, stmts, env):
        env = dict(env)
        if not stmts:
            return "Err EOther"
        s, rest = stmts[0], stmts[1:]
        if isinstance(s, ast.Pass) or (isinstance(s, ast.Expr) and isinstance(s.value, ast.Constant)):
            return self.block(rest, env)
        if isinstance(s, ast.Assign):
            if len(s.targets) != 1 or not isinstance(s.targets[0], ast.Name):
                raise Untranslatable("assignment target")
            n = s.targets[0].id
            if isinstance(s.value, (ast.Name, ast.Attribute)) and env.get(_attrname(s.value)) in ("optZ", "bool"):
                env[n] = env[_attrname(s.value)]      # copy of an optional / flag keeps its type
                return "let %s := %s in\n%s" % (n, _attrname(s.value), self.block(rest, env))
            e = self.expr(s.value, env)
            env[n] = "Z"
            return "let %s := %s in\n%s" % (n, e, self.block(rest, env))
        if isinstance(s, ast.Return):
            if s.value is None:
                raise Untranslatable("bare return")
            return "Ok %s" % self.expr(s.value, env)
        if isinstance(s, ast.Raise):
            exc = s.exc.func.id if isinstance(s.exc, ast.Call) else s.exc.id
            return "Err %s" % ERR.get(exc, "EOther")
        if isinstance(s, ast.If):
            if not self.exits([s]):
                inner = self.assigned([s])
                if not inner:
                    return self.block(rest, env)
                v = self.value_block([s], env, inner)
                # value_block ends with the tuple expression; rebind and continue
                pat = inner[0] if len(inner) == 1 else "'(" + ", ".join(inner) + ")"
                for x in inner:
                    env[x] = "Z"
                return "let %s := %s in\n%s" % (pat, v, self.block(rest, env))
            nt = self.none_test(s.test, env)
            if nt:
                x, isnone = nt
                nb, sb = (s.body, s.orelse) if isnone else (s.orelse, s.body)
                envn = dict(env)
                envn.pop(x)
                envs = dict(env)
                envs[x] = "Z"
                return "match %s with\n| None => %s\n| Some %s => %s\nend" % (
                    x, self.block(nb + rest, envn), x, self.block(sb + rest, envs))
            c = self.bexpr(s.test, env)
            return "if %s then (%s)\nelse (%s)" % (c, self.block(s.body + rest, env), self.block(s.orelse + rest, env))
        raise Untranslatable("statement " + type(s).__name__)


def translate(src, name, cls, coq_name, params, ret_type, calls=None):
    """params: list of (python name as flattened, 'Z' | 'optZ' | 'bool').  Returns Coq text."""
    fn = find_function(src, name, cls)
    t = T(calls)
    env = {p: ty for p, ty in params}
    body = t.block(fn.body, env)
    tys = {"Z": "Z", "optZ": "option Z", "bool": "bool"}
    sig = " ".join("(%s : %s)" % (p, tys[ty]) for p, ty in params)
    return "Definition %s %s : result (%s) :=\n%s.\n" % (coq_name, sig, ret_type, textwrap.indent(body, "  "))

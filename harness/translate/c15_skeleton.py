"""
C15 — effect-skeleton extractor (DESIGN.md section 7, C15; trusted, validated dynamically).

Turns a *driver* (a few lines of Python that call one public esutil function with one option
valuation) into a skeleton of the IR of coq/theories/C15/Model.v:

    stmt := SBind x Fresh | SBind x (MayAlias ys) | SWrite x | SIf s1 s2 | SLoop body

by walking the python `ast` of the driver and of every esutil function/method it (transitively)
calls in the sources of the SCRATCH BUILD (calls are inlined; all reasoning about the result
happens in Coq).  Flow-sensitive, with constant propagation for the option flags (bool / None /
str / int constants, kwargs dictionaries with known keys, object fields).  FAIL CLOSED: syntax or
callees the extractor does not know become a write through every name involved plus a
MayAlias of all of them, and a note that is printed into the evidence.

Abstraction choices (all over-approximations unless listed under LIMITATIONS in C15.py):
  * a container (list/tuple/dict) is identified with its elements: it "may alias" whatever was put in;
  * an object of an esutil class has one pseudo-variable per attribute / constant key that was
    assigned through a stable name (strong updates) plus a weak summary variable;
  * conditions are dropped unless they fold to a constant; loops run any number of times;
  * return / raise / break / continue: code that follows a statement that may jump is optional
    (SIf rest []), code after a branch that always jumps goes into the other branch.
"""
import ast
import os

# --------------------------------------------------------------------------------------------
# trusted tables
# --------------------------------------------------------------------------------------------

# numpy functions whose result may share memory with an argument
NP_ALIAS = {
    "asarray", "asanyarray", "atleast_1d", "atleast_2d", "atleast_3d", "ascontiguousarray",
    "asfortranarray", "ravel", "reshape", "squeeze", "transpose", "swapaxes", "moveaxis", "rollaxis",
    "broadcast_to", "broadcast_arrays", "diagonal", "diag", "real", "imag", "expand_dims", "split", "array_split",
    "hsplit", "vsplit", "dsplit", "require", "nan_to_num", "asmatrix", "asfarray", "real_if_close",
    "rot90", "flip", "fliplr", "flipud", "tril", "triu", "trim_zeros", "matrix", "ndarray", "frombuffer", "lib.stride_tricks.as_strided",
    "array",  # special-cased on copy=
}
# numpy functions that only read their arguments and return new memory (or scalars)
NP_FRESH = {
    "zeros", "ones", "empty", "full", "zeros_like", "ones_like", "empty_like", "full_like", "arange", "linspace",
    "logspace", "eye", "identity", "where", "nonzero", "argsort", "sort", "argmax", "argmin", "unique", "searchsorted",
    "concatenate", "hstack", "vstack", "dstack", "stack", "column_stack", "append", "tile", "repeat", "meshgrid", "mgrid", "ogrid", "indices",
    "cross", "dot", "inner", "outer", "matmul", "tensordot", "einsum", "kron", "convolve", "correlate",
    "sum", "prod", "mean", "std", "var", "median", "percentile", "quantile", "average", "min", "max", "amin", "amax",
    "nanmin", "nanmax", "nansum", "nanmean", "nanstd", "ptp", "cumsum", "cumprod", "diff", "gradient", "histogram",
    "histogram2d", "bincount", "digitize", "interp", "polyfit", "polyval", "any", "all", "isscalar", "ndim", "shape", "size",
    "isfinite", "isnan", "isinf", "iscomplexobj", "isrealobj", "array_equal", "allclose", "isclose", "count_nonzero",
    "dtype", "finfo", "iinfo", "result_type", "can_cast", "promote_types", "issubdtype", "vectorize", "copy",
    "int8", "int16", "int32", "int64", "uint8", "uint16", "uint32", "uint64", "float32", "float64", "float16", "float128",
    "complex64", "complex128", "bool_", "str_", "bytes_", "object_", "intp", "int_", "float_",
    "random.RandomState", "random.default_rng", "random.random", "random.uniform", "random.normal", "random.seed",
    "random.randint", "random.permutation", "random.randn", "random.rand", "random.standard_normal", "random.random_sample", "random.lognormal", "linalg.inv", "linalg.solve", "linalg.lstsq", "linalg.det", "linalg.eig", "linalg.cholesky",
    "linalg.norm", "linalg.svd", "linalg.pinv", "fromstring", "fromfile", "fromiter", "loadtxt", "savetxt", "save", "load", "tril_indices",
    "triu_indices", "array_str", "array_repr", "array2string", "lexsort", "in1d", "isin", "intersect1d", "union1d", "setdiff1d",
    "flatnonzero", "argwhere", "extract", "compress", "choose", "select", "take", "trace", "roll", "delete", "insert", "resize", "pad",
    "round", "around", "fix", "memmap", "format_float_positional", "errstate", "seterr", "geterr", "iterable", "sctype2char",
    "core.records.fromarrays", "rec.fromarrays", "rec.array",
}
# ufuncs: number of inputs; a further positional argument (or out=) is an OUTPUT array
NP_UFUNC = {
    **{n: 1 for n in ("sqrt", "sin", "cos", "tan", "arcsin", "arccos", "arctan", "sinh", "cosh", "tanh", "arcsinh", "arccosh",
                      "arctanh", "exp", "exp2", "expm1", "log", "log2", "log10", "log1p", "abs", "absolute", "fabs", "negative",
                      "positive", "sign", "floor", "ceil", "trunc", "rint", "square", "cbrt", "reciprocal", "deg2rad", "rad2deg",
                      "degrees", "radians", "conj", "conjugate", "isfinite", "isnan", "isinf", "logical_not", "invert", "signbit", "spacing")},
    **{n: 2 for n in ("add", "subtract", "multiply", "divide", "true_divide", "floor_divide", "power", "float_power", "mod", "fmod",
                      "remainder", "arctan2", "hypot", "maximum", "minimum", "fmax", "fmin", "greater", "greater_equal", "less",
                      "less_equal", "equal", "not_equal", "logical_and", "logical_or", "logical_xor", "bitwise_and", "bitwise_or",
                      "bitwise_xor", "left_shift", "right_shift", "copysign", "nextafter", "ldexp", "heaviside")},
    "clip": 3,
}
# numpy functions that write into argument number k (0-based)
NP_WRITES = {"copyto": 0, "put": 0, "place": 0, "putmask": 0, "fill_diagonal": 0, "put_along_axis": 0,
             "random.shuffle": 0, "add.at": 0, "subtract.at": 0, "multiply.at": 0, "maximum.at": 0, "minimum.at": 0}

# attributes of an (unknown, probably ndarray/dtype) value
ATTR_ALIAS = {"T", "real", "imag", "flat", "base", "data", "mT", "H", "A", "A1", "ctypes", "__array_interface__"}
ATTR_FRESH = {"shape", "size", "ndim", "dtype", "names", "itemsize", "nbytes", "strides", "flags", "byteorder", "descr", "fields",
              "kind", "char", "str", "name", "type", "subdtype", "num", "isnative", "hasobject", "alignment", "c_contiguous",
              "f_contiguous", "contiguous", "writeable", "owndata", "__name__", "__class__", "__doc__", "__len__", "mode", "closed",
              "maxsize", "version_info", "platform"}
# assigning to one of these attributes of an array rewrites its interpretation in place
ATTR_META_WRITE = {"dtype", "shape", "strides", "flags", "real", "imag", "flat", "data", "writeable"}

# methods of an unknown receiver (ndarray / dtype / str / file / container ...)
METH_ALIAS = {"view", "reshape", "ravel", "squeeze", "transpose", "swapaxes", "diagonal", "getfield", "newbyteorder",
              "__getitem__", "get", "setdefault", "items", "values", "keys", "__iter__", "__array__", "item_alias", "flatten_alias",
              "astype"  # special-cased on copy=
              }
METH_FRESH = {"copy", "sum", "mean", "std", "var", "min", "max", "argmin", "argmax", "argsort", "nonzero", "any", "all", "tolist",
              "tostring", "tobytes", "cumsum", "cumprod", "prod", "round", "searchsorted", "dot", "flatten", "conj", "conjugate",
              "item", "clip", "repeat", "take", "compress", "trace", "ptp", "choose", "dump", "dumps", "tofile",
              # str / bytes
              "format", "join", "split", "rsplit", "splitlines", "strip", "lstrip", "rstrip", "lower", "upper", "startswith", "endswith", "replace", "find",
              "rfind", "count", "index", "encode", "decode", "isdigit", "isalpha", "ljust", "rjust", "center", "zfill", "title", "capitalize",
              "partition_str", "expandtabs",
              # files / streams / misc objects
              "write", "writelines", "read", "readline", "readlines", "seek", "tell", "close", "flush", "fileno", "isatty",
              "match", "search", "group", "groups", "compile", "sub", "findall",
              # random generators
              "random", "uniform", "normal", "random_sample", "rand", "randn", "randint", "integers", "standard_normal", "seed", "choice", "permutation",
              "has_key", "__contains__", "__len__", "isoformat", "total_seconds"}
METH_WRITE = {"sort", "fill", "resize", "partition", "setfield", "itemset", "put", "setflags", "byteswap",  # byteswap special-cased on its flag
              "__setitem__", "shuffle"}
# container mutators: the receiver afterwards may hold the arguments (no memory is written)
METH_CONTAINER = {"append", "extend", "insert", "update", "add", "pop", "clear", "remove", "popitem", "reverse", "discard"}

BUILTIN_FRESH = {"len", "range", "xrange", "isinstance", "issubclass", "hasattr", "int", "float", "str", "bool", "complex", "bytes", "abs", "sum",
                 "print", "type", "repr", "round", "id", "callable", "format", "ord", "chr", "divmod", "pow", "any", "all", "open", "eval",
                 "hash", "hex", "oct", "bin", "input", "globals", "locals", "vars", "dir", "object", "slice", "Exception", "ValueError",
                 "RuntimeError", "TypeError", "IndexError", "KeyError", "IOError", "OSError", "NotImplementedError", "AttributeError",
                 "ImportError", "StopIteration", "ZeroDivisionError", "AssertionError", "DeprecationWarning", "UserWarning", "unicode", "long", "basestring",
                 "memoryview_len"}
BUILTIN_ALIAS = {"list", "tuple", "dict", "set", "frozenset", "zip", "enumerate", "sorted", "reversed", "iter", "next", "map", "filter",
                 "getattr", "min", "max", "OrderedDict", "memoryview", "bytearray"}
# external (non-esutil, non-numpy) callables, by dotted-name prefix: read-only on their arguments
EXT_FRESH_PREFIX = ("os.", "sys.", "math.", "pprint.", "re.", "time.", "datetime.", "tempfile.", "glob.", "shutil.", "subprocess.",
                    "warnings.", "json.", "pickle.", "cPickle.", "string.", "struct.", "itertools.", "functools.", "collections.", "pydoc.",
                    "stdout.", "stderr.", "stdin.", "copy.deepcopy", "scipy.", "yaml.", "bz2.", "gzip.", "logging.", "numbers.", "platform.", "socket.")
EXT_ALIAS = {"copy.copy"}
# external functions that call a callback argument (argument index of the callback)
EXT_CALLBACK = {"scipy.optimize.fsolve": 0, "scipy.optimize.leastsq": 0, "leastsq": 0, "fsolve": 0}

# C / C++ extension entry points reachable from the listed functions: which positional arguments they
# WRITE (0-based, not counting self); every other array argument is read through const-style accessors
# only (hand review of stat/chist_pywrap.c, cosmology/cosmolib_pywrap.c, htm/htmc.cc, recfile/records.cpp).
# The result never shares memory with an argument.
C_MODULES = {"_chist", "_cosmolib", "htmc", "records", "_gauleg", "_cgauleg", "_stat_util"}
C_TABLE = {
    "_chist.chist": (4, 5),                      # (data, dmin, sortind, binsize, hist OUT, revind OUT)
    "_cgauleg.cgauleg": (),                      # (x1, x2, npts) scalars -> two new arrays
    "_cosmolib.cosmo": (),                       # constructor, scalars only
    "_cosmolib.cosmo.*": (),                     # Dc/Dm/Da/Dl/scinv [_vec1/_vec2/_2vec], dV[_vec], V, ez_inverse[_vec], ez_inverse_integral, DH, ...
    "htmc.HTMC": (),                             # constructor(depth)
    "htmc.HTMC.lookup_id": (2,),                 # (ra, dec, htm_ids OUT)
    "htmc.HTMC.intersect": (),                   # scalars -> new array
    "htmc.HTMC.cbincount": (),                   # inputs read only -> new array
    "htmc.HTMC.get_depth": (), "htmc.HTMC.depth": (), "htmc.HTMC.init": (), "htmc.HTMC.cmatch": (),
    "htmc.Matcher": (),                          # constructor(depth, ra, dec): copies into its own vectors
    "htmc.Matcher.match": (),                    # (ra, dec, radius, maxmatch, filename) -> new arrays
    "htmc.Matcher.get_depth": (), "htmc.Matcher.depth": (), "htmc.Matcher.init_hmap": (),   # private helper of the constructor
    "records.Records": (),                       # constructor(filename, mode=, delim=, dtype=, ...)
    "records.Records.Write": (),                 # reads the array through PyArray_DATA / GETPTR only
    "records.Records.write_header_and_update_offset": (), "records.Records.update_row_count": (),
    "records.Records.close": (), "records.Records.Close": (), "records.Records.read_sfile_header": (),
    "records.Records.Read": (), "records.Records.ReadSlice": (0,), "records.Records.read_columns": (0,), "records.Records.read_column": (0,),
    "records.Records.read_rows": (0,), "records.Records.read_slice": (0,), "records.Records.read_binary_slice": (0,),
}


class Const:
    """wrapper for a known python constant (so that None is a value)"""
    __slots__ = ("v",)

    def __init__(self, v):
        self.v = v

    def __eq__(self, o):
        try:
            return isinstance(o, Const) and type(self.v) is type(o.v) and self.v == o.v
        except Exception:
            return False

    def __hash__(self):
        return 0

    def __repr__(self):
        return "Const(%r)" % (self.v,)


class KDict:
    """a kwargs dictionary whose KEY SET is known; values are abstract values"""
    def __init__(self, items):
        self.items = dict(items)

    def __eq__(self, o):
        return isinstance(o, KDict) and self.items.keys() == o.items.keys() and all(
            av_same(self.items[k], o.items[k]) for k in self.items)

    def __hash__(self):
        return 1

    def __repr__(self):
        return "KDict(%s)" % sorted(self.items)


class AV:
    """abstract value of an expression"""
    __slots__ = ("alias", "const", "obj", "elts", "kind", "ref", "nn")

    def __init__(self, alias=(), const=None, obj=None, elts=None, kind=None, ref=None, nn=False):
        self.nn = nn            # known not to be None
        self.alias = tuple(dict.fromkeys(alias))
        self.const = const      # Const | KDict-wrapping Const | None
        self.obj = obj          # (path, classinfo) | None
        self.elts = elts        # list[AV] | None  (tuple/list with known elements)
        self.kind = kind        # 'container' | 'index' | None
        self.ref = ref          # callable reference (tuple) | None


def av_same(a, b):
    return a.alias == b.alias and a.const == b.const and a.obj == b.obj


FRESH = AV()


def union(avs, **kw):
    al = []
    for a in avs:
        al.extend(a.alias)
    return AV(al, **kw)


class ClassInfo:
    def __init__(self, name, node, mod):
        self.name, self.node, self.mod = name, node, mod
        self.methods = {m.name: m for m in node.body if isinstance(m, ast.FunctionDef)}
        self.bases = node.bases
        self.cname = None       # for C classes: dotted name in C_TABLE

    def __repr__(self):
        return "<class %s.%s>" % (self.mod.name if self.mod else "C", self.name)


class CClass:
    """class implemented in a C/C++ extension (methods summarised by C_TABLE)"""
    def __init__(self, cname):
        self.cname = cname
        self.name = cname
        self.methods = {}
        self.bases = []
        self.mod = None

    def __eq__(self, o):
        return isinstance(o, CClass) and o.cname == self.cname

    def __hash__(self):
        return hash(self.cname)

    def __repr__(self):
        return "<cclass %s>" % self.cname


class ModuleInfo:
    def __init__(self, name, path, src, is_pkg):
        self.name, self.path, self.is_pkg = name, path, is_pkg
        self.src = src
        self.tree = ast.parse(src)
        self.funcs, self.classes, self.imports, self.consts, self.star, self.aliases = {}, {}, {}, {}, [], {}
        self._scan(self.tree.body)

    def package(self):
        return self.name if self.is_pkg else self.name.rsplit(".", 1)[0]

    def _rel(self, level, module):
        if level == 0:
            return module
        base = self.package().split(".")
        base = base[:len(base) - (level - 1)]
        return ".".join(base + ([module] if module else []))

    def _scan(self, body):
        for n in body:
            if isinstance(n, ast.FunctionDef):
                self.funcs[n.name] = n
            elif isinstance(n, ast.ClassDef):
                self.classes[n.name] = ClassInfo(n.name, n, self)
            elif isinstance(n, ast.Import):
                for a in n.names:
                    self.imports[a.asname or a.name.split(".")[0]] = ("module", a.name if a.asname else a.name.split(".")[0])
            elif isinstance(n, ast.ImportFrom):
                src = self._rel(n.level, n.module)
                for a in n.names:
                    if a.name == "*":
                        self.star.append(src)
                    else:
                        self.imports[a.asname or a.name] = ("from", src, a.name)
            elif isinstance(n, ast.Assign) and len(n.targets) == 1 and isinstance(n.targets[0], ast.Name) and isinstance(n.value, ast.Name) \
                    and (n.value.id in self.funcs or n.value.id in self.classes):
                self.aliases[n.targets[0].id] = n.value.id
            elif isinstance(n, ast.Assign) and len(n.targets) == 1 and isinstance(n.targets[0], ast.Name):
                try:
                    self.consts[n.targets[0].id] = Const(ast.literal_eval(n.value))
                except Exception:
                    self.consts.pop(n.targets[0].id, None)
            elif isinstance(n, (ast.Try, ast.If)):
                # module-level try/if (optional imports): scan every arm, constants become unknown
                before = dict(self.consts)
                for blk in [n.body, n.orelse] + ([h.body for h in n.handlers] + [n.finalbody] if isinstance(n, ast.Try) else []):
                    self._scan(blk)
                for k in list(self.consts):
                    if k not in before or before[k] != self.consts[k]:
                        del self.consts[k]


# --------------------------------------------------------------------------------------------
# flow-sensitive facts about IR variables
# --------------------------------------------------------------------------------------------
class State:
    """facts about IR variables on the current path.  `defined` = variables bound on this path: at a
    join, a fact about a variable that is NOT defined on the other path is kept, because reading
    an unbound name / missing attribute raises (and every prefix of an execution is covered)."""
    FIELDS = ("consts", "objs", "kinds", "refs", "nn")

    def __init__(self):
        self.consts, self.objs, self.kinds, self.refs, self.nn = {}, {}, {}, {}, {}
        self.defined = set()

    def copy(self):
        s = State()
        for f in State.FIELDS:
            setattr(s, f, dict(getattr(self, f)))
        s.defined = set(self.defined)
        return s

    @staticmethod
    def merge(a, b):
        s = State()
        none = Const(None)
        for f in State.FIELDS:
            da, db, out = getattr(a, f), getattr(b, f), getattr(s, f)
            for x, dx, y, dy in ((a, da, b, db), (b, db, a, da)):
                for k, v in dx.items():
                    if k in dy:
                        if dy[k] == v:
                            out[k] = v
                    elif k not in y.defined:
                        out[k] = v
                    elif f == "objs" and y.consts.get(k) == none:
                        # "an object of class C" joined with "None" stays "C (or None)": using it as C is
                        # sound, because using None raises
                        out[k] = v
        # a constant survives only if both paths agree (or one path does not define the variable);
        # "C or None" has no constant
        for k in list(s.consts):
            if k in s.objs and ((k in a.defined and k not in a.objs) or (k in b.defined and k not in b.objs)):
                del s.consts[k]
        s.defined = a.defined | b.defined
        return s

    def same(self, o):
        return all(getattr(self, f) == getattr(o, f) for f in State.FIELDS) and self.defined == o.defined


class Frame:
    def __init__(self, mod, cls, pre, fdef):
        self.mod, self.cls, self.pre, self.fdef = mod, cls, pre, fdef
        self.imports = {}
        self.retvar = pre + "<ret>"
        self.arity = set()
        self.locals = set()
        if fdef is not None:
            a = fdef.args
            for x in a.posonlyargs + a.args + a.kwonlyargs + ([a.vararg] if a.vararg else []) + ([a.kwarg] if a.kwarg else []):
                self.locals.add(x.arg)
            body = fdef.body if isinstance(fdef.body, list) else [fdef.body]
            glob = set()
            for st in body:
                for n in ast.walk(st):
                    if isinstance(n, ast.Name) and isinstance(n.ctx, (ast.Store, ast.Del)):
                        self.locals.add(n.id)
                    elif isinstance(n, (ast.Import, ast.ImportFrom)):
                        for al in n.names:
                            self.locals.add(al.asname or al.name.split(".")[0])
                    elif isinstance(n, ast.Global):
                        glob.update(n.names)
                    elif isinstance(n, (ast.FunctionDef, ast.ClassDef)) and n is not fdef:
                        self.locals.add(n.name)
            self.locals -= glob

    def var(self, name):
        return self.pre + name


class Unknown(Exception):
    pass


MAX_DEPTH = 14
MAX_SAME = 2        # a function may appear at most this many times on the inline stack


class Extractor:
    def __init__(self, root):
        self.root = root
        self.mods = {}
        self.notes = []
        self.nframe = 0
        self.ntmp = 0
        self.stack = []
        self.out = []
        self.st = State()
        self.bound = set()
        self.quiet = 0

    # ------------------------------------------------------------------ modules
    def mod(self, name):
        if name in self.mods:
            return self.mods[name]
        m = None
        if name == "esutil" or name.startswith("esutil."):
            base = os.path.join(self.root, *name.split("."))
            for path, pkg in ((base + ".py", False), (os.path.join(base, "__init__.py"), True)):
                if os.path.exists(path):
                    m = ModuleInfo(name, path, open(path).read(), pkg)
                    break
        self.mods[name] = m
        return m

    def add_module(self, name, src):
        m = ModuleInfo(name, "<driver>", src, False)
        self.mods[name] = m
        return m

    def note(self, msg, node=None, fr=None):
        if self.quiet:
            return
        where = ""
        if fr is not None and node is not None and hasattr(node, "lineno"):
            where = " [%s:%d]" % (os.path.basename(fr.mod.path) if fr.mod else "?", node.lineno)
        s = msg + where
        if s not in self.notes:
            self.notes.append(s)

    # ------------------------------------------------------------------ IR emission
    def tmp(self, fr, tag="t"):
        self.ntmp += 1
        return "%s<%s%d>" % (fr.pre if fr else "", tag, self.ntmp)

    def emit(self, s):
        self.out.append(s)

    def capture(self, fn):
        saved = self.out
        self.out = []
        try:
            r = fn()
            return self.out, r
        finally:
            self.out = saved

    def bind(self, var, av):
        self.emit(("bind", var, list(av.alias) if av.alias else None))
        st = self.st
        for d, v in ((st.consts, av.const), (st.objs, av.obj), (st.kinds, av.kind), (st.refs, av.ref), (st.nn, av.nn or None)):
            if v is None:
                d.pop(var, None)
            else:
                d[var] = v
        self.bound.add(var)
        st.defined.add(var)

    def weak_bind(self, var, av):
        """var may now (also) refer to what av refers to"""
        self.emit(("bind", var, list(dict.fromkeys((var,) + tuple(av.alias)))))
        self.st.consts.pop(var, None)
        self.bound.add(var)
        self.st.defined.add(var)

    def var_av(self, v):
        st = self.st
        return AV([v], const=st.consts.get(v), obj=st.objs.get(v), kind=st.kinds.get(v), ref=st.refs.get(v), nn=bool(st.nn.get(v)))

    def write(self, av, fr=None):
        """memory reachable through av is written"""
        if not av.alias:
            return
        if len(av.alias) == 1:
            self.emit(("write", av.alias[0]))
        else:
            t = self.tmp(fr, "w")
            self.emit(("bind", t, list(av.alias)))
            self.emit(("write", t))

    def snapshot(self, av, fr):
        """freeze the alias set of av in a temporary (evaluation order)"""
        if not av.alias:
            return av
        t = self.tmp(fr, "s")
        self.emit(("bind", t, list(av.alias)))
        return AV([t], const=av.const, obj=av.obj, elts=av.elts, kind=av.kind, ref=av.ref, nn=av.nn)

    def conservative(self, what, avs, node, fr, readonly=()):
        """fail closed: every argument may be written, the result may alias all of them (and the values in `readonly`)"""
        self.note("UNKNOWN %s: treated as writing and aliasing all its operands" % what, node, fr)
        for a in avs:
            self.write(a, fr)
        return union(list(avs) + list(readonly))

    # ------------------------------------------------------------------ name resolution
    def resolve_import(self, ent, depth=0):
        if depth > 6:
            return None
        if ent[0] == "module":
            d = ent[1]
            if d == "numpy" or d.startswith("numpy."):
                return ("npmod", d[6:])
            if self.mod(d) is not None:
                return ("esmod", d)
            return ("extmod", d)
        _, src, name = ent
        if src == "numpy" or src.startswith("numpy."):
            pfx = src[6:]
            return ("np", (pfx + "." if pfx else "") + name)
        m = self.mod(src) if src else None
        if m is not None:
            if name in C_MODULES:
                return ("cmod", name)
            if self.mod(src + "." + name) is not None:
                return ("esmod", src + "." + name)
            r = self.module_attr(m, name, depth + 1)
            if r is not None:
                return r
            return ("ext", src + "." + name)
        if name in C_MODULES:
            return ("cmod", name)
        return ("ext", (src + "." if src else "") + name)

    def module_attr(self, m, name, depth=0):
        """what `name` means at module scope of m: a reference tuple, an AV, or None"""
        name = m.aliases.get(name, name)
        if name in m.funcs:
            return ("es", m, m.funcs[name], None, None)
        if name in m.classes:
            return ("class", m.classes[name])
        if name in m.imports:
            return self.resolve_import(m.imports[name], depth)
        if name in m.consts:
            return AV(const=m.consts[name])
        for s in m.star:
            sm = self.mod(s)
            if sm is not None and depth < 6:
                r = self.module_attr(sm, name, depth + 1)
                if r is not None:
                    return r
        if m.is_pkg and self.mod(m.name + "." + name) is not None:
            return ("esmod", m.name + "." + name)
        return None

    def lookup_name(self, name, fr, node=None):
        if name in fr.imports:
            r = self.resolve_import(fr.imports[name])
            return r if isinstance(r, AV) else AV(ref=r)
        if name in fr.locals:
            return self.var_av(fr.var(name))
        r = self.module_attr(fr.mod, name)
        if r is not None:
            return self.mutable_global(fr.mod.name, name, r) if isinstance(r, AV) else AV(ref=r)
        if name in BUILTIN_FRESH or name in BUILTIN_ALIAS or name == "super":
            return AV(ref=("builtin", name))
        # a module-level variable we know nothing about (table, cache, flag)
        return AV(["g:%s.%s" % (fr.mod.name, name)])

    def mutable_global(self, modname, name, av):
        """a module-level list / dict / set is STATE that calls can change (a cache, a registry): it is a variable of the skeleton
        (`g:module.name`), so that what one call stores in it is what a later call finds there; its initial literal is forgotten"""
        c = av.const
        if not av.alias and av.ref is None and av.obj is None and isinstance(c, Const) and isinstance(c.v, (list, dict, set, KDict)):
            return AV(["g:%s.%s" % (modname, name)], kind="container")
        return av

    # ------------------------------------------------------------------ classes
    def base_refs(self, cls):
        out = []
        if isinstance(cls, CClass):
            return out
        fr = Frame(cls.mod, None, "", None)
        for b in cls.bases:
            try:
                self.quiet += 1
                av = self.eval(b, fr)
            except Exception:
                av = FRESH
            finally:
                self.quiet -= 1
            r = av.ref
            if r and r[0] == "class":
                out.append(r[1])
            elif r and r[0] == "c":
                out.append(CClass(r[1]))
            elif r and r[0] == "builtin":
                out.append(r[1])
        return out

    def find_method(self, cls, name, skip_self=False):
        """('py', fdef, owner) | ('c', cclass) | ('builtin', basename) | None"""
        if isinstance(cls, CClass):
            return ("c", cls)
        if not skip_self and name in cls.methods:
            return ("py", cls.methods[name], cls)
        for b in self.base_refs(cls):
            if isinstance(b, str):
                if b in ("dict", "list", "OrderedDict"):
                    return ("builtin", b)
                continue
            r = self.find_method(b, name)
            if r is not None:
                return r
        return None

    def is_dictlike(self, cls):
        if isinstance(cls, CClass):
            return False
        return any(b in ("dict", "OrderedDict") if isinstance(b, str) else self.is_dictlike(b) for b in self.base_refs(cls))

    # ------------------------------------------------------------------ expressions
    def truth(self, av):
        c = av.const
        if isinstance(c, Const):
            try:
                return bool(c.v.items) if isinstance(c.v, KDict) else bool(c.v)
            except Exception:
                return None
        return None

    def eval(self, e, fr):
        m = getattr(self, "e_" + type(e).__name__, None)
        if m is None:
            names = [self.eval(n, fr) for n in ast.walk(e) if isinstance(n, ast.Name) and isinstance(n.ctx, ast.Load)]
            return self.conservative("expression %s" % type(e).__name__, names, e, fr)
        return m(e, fr)

    def e_Constant(self, e, fr):
        return AV(const=Const(e.value))

    def e_Name(self, e, fr):
        return self.lookup_name(e.id, fr, e)

    def e_JoinedStr(self, e, fr):
        for v in e.values:
            self.eval(v, fr)
        return FRESH

    def e_FormattedValue(self, e, fr):
        self.eval(e.value, fr)
        return FRESH

    def e_Slice(self, e, fr):
        for p in (e.lower, e.upper, e.step):
            if p is not None:
                self.eval(p, fr)
        return AV(kind="slice")

    def e_Starred(self, e, fr):
        a = self.eval(e.value, fr)
        return AV(a.alias, kind=a.kind)

    def e_Tuple(self, e, fr):
        el = [self.eval(x, fr) for x in e.elts]
        c = None
        if all(isinstance(a.const, Const) and not isinstance(a.const.v, KDict) for a in el) and not any(isinstance(x, ast.Starred) for x in e.elts):
            c = Const(tuple(a.const.v for a in el) if isinstance(e, ast.Tuple) else [a.const.v for a in el])
        return union(el, elts=None if any(isinstance(x, ast.Starred) for x in e.elts) else el, kind="container", const=c)

    e_List = e_Tuple

    def e_Set(self, e, fr):
        return union([self.eval(x, fr) for x in e.elts], kind="container")

    def e_Dict(self, e, fr):
        avs = []
        for k, v in zip(e.keys, e.values):
            if k is not None:
                self.eval(k, fr)
            avs.append(self.eval(v, fr))
        return union(avs, kind="container")

    def e_UnaryOp(self, e, fr):
        a = self.eval(e.operand, fr)
        if isinstance(a.const, Const) and not isinstance(a.const.v, KDict):
            try:
                v = a.const.v
                return AV(const=Const({ast.Not: lambda: not v, ast.USub: lambda: -v, ast.UAdd: lambda: +v, ast.Invert: lambda: ~v}[type(e.op)]()))
            except Exception:
                pass
        if isinstance(e.op, ast.Not):
            t = self.truth(a)
            if t is not None:
                return AV(const=Const(not t))
        return FRESH

    def e_BinOp(self, e, fr):
        a, b = self.eval(e.left, fr), self.eval(e.right, fr)
        if isinstance(a.const, Const) and isinstance(b.const, Const):
            try:
                import operator as op
                f = {ast.Add: op.add, ast.Sub: op.sub, ast.Mult: op.mul, ast.Div: op.truediv, ast.FloorDiv: op.floordiv,
                     ast.Mod: op.mod, ast.Pow: op.pow}.get(type(e.op))
                if f is not None and not isinstance(a.const.v, KDict) and not isinstance(b.const.v, KDict):
                    v = f(a.const.v, b.const.v)
                    if isinstance(v, (int, float, str, tuple, list, bool)) and (not hasattr(v, "__len__") or len(v) < 200):
                        return AV(const=Const(v), kind="container" if isinstance(v, (tuple, list)) else None)
            except Exception:
                pass
        # list/tuple concatenation or repetition keeps the element references
        if a.kind == "container" or b.kind == "container":
            return union([a, b], kind="container")
        return AV(kind="index" if isinstance(e.op, (ast.BitAnd, ast.BitOr, ast.BitXor)) and (a.kind == "index" or b.kind == "index") else None)

    def e_BoolOp(self, e, fr):
        # `a and b` / `a or b` evaluate to one of the operands
        avs = []
        for v in e.values:
            a = self.eval(v, fr)
            t = self.truth(a)
            avs.append(a)
            if t is not None:
                if isinstance(e.op, ast.And) and not t:
                    return a if len(avs) == 1 else union(avs) if any(x.alias for x in avs[:-1]) and False else a
                if isinstance(e.op, ast.Or) and t:
                    return a if all(self.truth(x) is False for x in avs[:-1]) else union(avs)
                if len(avs) > 1 or True:
                    avs.pop()      # a known-true operand of `and` / known-false operand of `or` is skipped
                    avs.append(None)
        real = [a for a in avs if a is not None]
        if not real:
            return AV(const=Const(isinstance(e.op, ast.And)))
        if len(real) == 1 and avs[-1] is not None:
            return real[0]
        return union(real)

    def e_Compare(self, e, fr):
        avs = [self.eval(e.left, fr)] + [self.eval(c, fr) for c in e.comparators]
        if len(avs) == 2:
            a, b = avs
            op = e.ops[0]
            ca, cb = a.const, b.const
            if isinstance(ca, Const) and isinstance(cb, Const):
                try:
                    va, vb = ca.v, cb.v
                    if isinstance(vb, KDict):
                        vb = vb.items
                    if isinstance(va, KDict):
                        raise Unknown()
                    r = {ast.Eq: lambda: va == vb, ast.NotEq: lambda: va != vb, ast.Is: lambda: va is vb or (va == vb and type(va) is type(vb) and isinstance(va, (bool, type(None), str, int))),
                         ast.IsNot: lambda: not (va is vb or (va == vb and type(va) is type(vb) and isinstance(va, (bool, type(None), str, int)))),
                         ast.In: lambda: va in vb, ast.NotIn: lambda: va not in vb, ast.Lt: lambda: va < vb, ast.LtE: lambda: va <= vb,
                         ast.Gt: lambda: va > vb, ast.GtE: lambda: va >= vb}[type(op)]()
                    return AV(const=Const(bool(r)))
                except Exception:
                    pass
            # an object of a known class / a container literal is not None
            if isinstance(op, (ast.Is, ast.IsNot)):
                for x, y in ((a, b), (b, a)):
                    if isinstance(y.const, Const) and y.const.v is None and x.nn:
                        return AV(const=Const(isinstance(op, ast.IsNot)))
        return AV(kind="index")

    def e_IfExp(self, e, fr):
        t = self.truth(self.eval(e.test, fr))
        if t is True:
            return self.eval(e.body, fr)
        if t is False:
            return self.eval(e.orelse, fr)
        a, b = self.eval(e.body, fr), self.eval(e.orelse, fr)
        return union([a, b], const=a.const if a.const == b.const else None, kind=a.kind if a.kind == b.kind else None)

    def e_Lambda(self, e, fr):
        return AV(ref=("lambda", e, fr))

    def e_NamedExpr(self, e, fr):
        a = self.eval(e.value, fr)
        self.assign(e.target, a, fr)
        return a

    def e_Attribute(self, e, fr):
        base = self.eval(e.value, fr)
        return self.attr(base, e.attr, e, fr)

    def attr(self, base, name, node, fr):
        r = base.ref
        if r is not None and not base.alias:
            k = r[0]
            if k == "esmod":
                x = self.module_attr(self.mod(r[1]), name)
                if x is None:
                    return AV(["g:%s.%s" % (r[1], name)])
                return self.mutable_global(r[1], name, x) if isinstance(x, AV) else AV(ref=x)
            if k == "npmod":
                return AV(ref=("np", (r[1] + "." if r[1] else "") + name))
            if k == "np":
                return AV(ref=("np", r[1] + "." + name))
            if k == "cmod":
                return AV(ref=("c", r[1] + "." + name))
            if k == "c":
                return AV(ref=("c", r[1] + "." + name))
            if k == "extmod":
                return AV(ref=("ext", r[1] + "." + name))
            if k == "ext":
                return AV(ref=("ext", r[1] + "." + name))
            if k == "super":
                _, cls, selfav = r
                m = self.find_method(cls, name, skip_self=True)
                if m is None or m[0] == "builtin":
                    return AV(ref=("umeth", selfav, name))
                if m[0] == "py":
                    return AV(ref=("es", m[2].mod, m[1], m[2], selfav))
                return AV(ref=("cbound", selfav, m[1], name))
            if k == "class":
                cls = r[1]
                m = self.find_method(cls, name)
                if m is not None and m[0] == "py":
                    return AV(ref=("es", m[2].mod, m[1], None, None))      # unbound: self passed explicitly
                if m is not None and m[0] == "c":
                    return AV(ref=("c", m[1].cname + "." + name))
                return FRESH
        if base.obj is not None:
            path, cls = base.obj
            pv = "%s.%s" % (path, name)
            if pv in self.bound:
                return self.var_av(pv)
            m = self.find_method(cls, name)
            if m is not None:
                if m[0] == "py":
                    fdef = m[1]
                    if any(isinstance(d, ast.Name) and d.id == "property" for d in fdef.decorator_list):
                        return self.inline(m[2].mod, fdef, m[2], [base], {}, None, node, fr)
                    return AV(ref=("es", m[2].mod, fdef, m[2], base))
                if m[0] == "c":
                    return AV(ref=("cbound", base, m[1], name))
                return AV(ref=("umeth", base, name))
            return AV([path])
        c = base.const
        if isinstance(c, Const) and isinstance(c.v, (str, bytes, int, float, tuple, list, KDict)) or c is not None and isinstance(c.v, type(None)):
            return AV(ref=("umeth", base, name))
        if name in ATTR_FRESH:
            return FRESH
        if name in ATTR_ALIAS:
            return AV(base.alias)
        # method or unknown attribute of an unknown value: decided when (if) it is called
        return AV(base.alias, ref=("umeth", base, name))

    def is_fancy(self, idx_node, idx):
        if idx.kind == "index":
            return True
        if isinstance(idx_node, (ast.List, ast.ListComp, ast.Compare)):
            return True
        if isinstance(idx_node, ast.Tuple):
            return False
        return False

    def e_Subscript(self, e, fr):
        base = self.eval(e.value, fr)
        idx = self.eval(e.slice, fr)
        return self.subscript(base, idx, e, fr)

    def subscript(self, base, idx, e, fr):
        c, ci = base.const, idx.const
        if isinstance(c, Const) and isinstance(ci, Const):
            try:
                if isinstance(c.v, KDict):
                    if ci.v in c.v.items:
                        return c.v.items[ci.v]
                elif isinstance(c.v, (str, tuple, list)) and isinstance(ci.v, int):
                    return AV(base.alias, const=Const(c.v[ci.v]))
            except Exception:
                pass
        if base.elts is not None and isinstance(ci, Const) and isinstance(ci.v, int) and -len(base.elts) <= ci.v < len(base.elts):
            return base.elts[ci.v]
        if base.obj is not None:
            path, cls = base.obj
            m = self.find_method(cls, "__getitem__")
            if m is not None and m[0] == "py":
                return self.inline(m[2].mod, m[1], m[2], [base, idx], {}, None, e, fr)
            if m is not None and m[0] == "builtin":
                names = []
                if isinstance(ci, Const):
                    pv = "%s[%r]" % (path, ci.v)
                    if pv in self.bound:
                        names.append(pv)
                else:
                    names += [v for v in sorted(self.bound) if v.startswith(path + "[")]
                if (path + "{*}") in self.bound:
                    names.append(path + "{*}")
                if len(names) == 1:
                    return self.var_av(names[0])
                return AV(names) if names else AV([path])
            return AV([path])
        if self.is_fancy(getattr(e, "slice", None), idx):
            return AV(kind="index" if base.kind == "index" else None)
        return AV(base.alias, kind=base.kind if base.kind == "index" else None)

    def comp(self, e, fr, elts):
        """comprehensions: a loop that binds the targets and evaluates the element"""
        res = self.tmp(fr, "c")
        self.emit(("bind", res, None))

        def gen(i):
            if i == len(e.generators):
                avs = [self.eval(x, fr) for x in elts]
                self.weak_bind(res, union(avs))
                return
            g = e.generators[i]
            it = self.eval(g.iter, fr)

            def body():
                self.assign(g.target, AV(it.alias), fr)
                for c in g.ifs:
                    self.eval(c, fr)
                gen(i + 1)
            self.loop(body)
        gen(0)
        return AV([res], kind="container")

    def e_ListComp(self, e, fr):
        return self.comp(e, fr, [e.elt])

    e_SetComp = e_GeneratorExp = e_ListComp

    def e_DictComp(self, e, fr):
        return self.comp(e, fr, [e.key, e.value])

    def _translation_local(self, name, nframe0, ntmp0):
        """names created by the current translation of a loop body (callee frames, temporaries):
        a re-translation creates new ones, they are never referred to across iterations"""
        import re
        m = re.match(r"(\d+):", name)
        if m and int(m.group(1)) > nframe0:
            return True
        return any(int(x) > ntmp0 for x in re.findall(r"<[^<>]*?(\d+)>", name))

    def loop(self, body_fn):
        """translate a loop body under facts that hold at the start of EVERY iteration (fixpoint); emits SLoop"""
        entry = self.st.copy()
        ir = r = None
        for _ in range(10):
            nframe0, ntmp0 = self.nframe, self.ntmp
            self.st = entry.copy()
            ir, r = self.capture(body_fn)
            end = self.st
            merged = State.merge(entry, end)
            cand = State()
            for f in State.FIELDS:
                d = getattr(merged, f)
                setattr(cand, f, {k: v for k, v in d.items() if k in entry.defined})
            # variables first bound inside the body are bound, with unknown value, when the next iteration starts
            newdef = {k for k in end.defined - entry.defined if not self._translation_local(k, nframe0, ntmp0)}
            cand.defined = entry.defined | newdef
            if cand.same(entry):
                self.st = merged
                break
            entry = cand
        else:
            self.note("loop facts did not stabilise; all constants dropped")
            keep = self.st.defined
            self.st = State()
            self.st.defined = set(keep) | set(self.bound)
            ir, r = self.capture(body_fn)
            self.st = State.merge(self.st, self.st)
        self.emit(("loop", ir))
        return r

    def optional(self, fn):
        """effects of fn happen or not (short-circuit evaluation)"""
        s0 = self.st.copy()
        ir, r = self.capture(fn)
        if ir:
            self.emit(("if", ir, []))
        self.st = State.merge(s0, self.st)
        return r

    def e_BoolOp(self, e, fr):     # noqa: F811  (replaces the draft above)
        is_and = isinstance(e.op, ast.And)
        cand = []
        n = len(e.values)
        for i, v in enumerate(e.values):
            a = self.eval(v, fr) if i == 0 else self.optional(lambda v=v: self.eval(v, fr))
            t = self.truth(a)
            if t is None:
                cand.append(a)
            elif t != is_and:          # false in `and`, true in `or`: evaluation stops with this operand
                cand.append(a)
                break
            elif i == n - 1:
                cand.append(a)
        if len(cand) == 1:
            return cand[0]
        return union(cand)

    def e_IfExp(self, e, fr):      # noqa: F811
        t = self.truth(self.eval(e.test, fr))
        if t is True:
            return self.eval(e.body, fr)
        if t is False:
            return self.eval(e.orelse, fr)
        s0 = self.st.copy()
        ira, a = self.capture(lambda: self.eval(e.body, fr))
        sa = self.st
        self.st = s0.copy()
        irb, b = self.capture(lambda: self.eval(e.orelse, fr))
        if ira or irb:
            self.emit(("if", ira, irb))
        self.st = State.merge(sa, self.st)
        return union([a, b], const=a.const if a.const == b.const else None, kind=a.kind if a.kind == b.kind else None)

    # ------------------------------------------------------------------ calls
    def e_Call(self, e, fr):
        f = self.eval(e.func, fr)
        # arguments, in evaluation order
        pos, kw, star_unknown = [], {}, []
        later_calls = [any(isinstance(n, ast.Call) for a in list(e.args[i + 1:]) + [k.value for k in e.keywords] for n in ast.walk(a))
                       for i in range(len(e.args))]
        for i, a in enumerate(e.args):
            if isinstance(a, ast.Starred):
                av = self.eval(a.value, fr)
                if av.elts is not None:
                    pos.extend(av.elts)
                else:
                    star_unknown.append(AV(av.alias))
            else:
                av = self.eval(a, fr)
                if later_calls[i]:
                    av = self.snapshot(av, fr)
                pos.append(av)
        for k in e.keywords:
            av = self.eval(k.value, fr)
            if k.arg is None:
                if isinstance(av.const, Const) and isinstance(av.const.v, KDict):
                    for kk, vv in av.const.v.items.items():
                        kw.setdefault(kk, vv)
                else:
                    star_unknown.append(AV(av.alias))
            else:
                kw[k.arg] = av
        return self.call(f, pos, kw, star_unknown, e, fr)

    def call(self, f, pos, kw, star_unknown, e, fr):
        r = f.ref
        allargs = list(pos) + list(kw.values()) + list(star_unknown)
        if r is None:
            if f.obj is not None:      # calling an instance: __call__
                m = self.find_method(f.obj[1], "__call__")
                if m is not None and m[0] == "py":
                    return self.inline(m[2].mod, m[1], m[2], [f] + pos, kw, star_unknown, e, fr)
            # the CALLED value itself is not an operand that can be written: an ndarray (or a container of arrays) is not
            # callable (the call raises TypeError before anything happens) and a function object owns no array buffer; bound
            # methods of unknown receivers are "umeth" references and never reach this point.  The result may still alias it.
            return self.conservative("call of %s" % self.src(e.func), allargs, e, fr, readonly=[f])
        k = r[0]
        if k == "es":
            _, mod, fdef, cls, selfav = r
            return self.inline(mod, fdef, cls, ([selfav] if selfav is not None else []) + pos, kw, star_unknown, e, fr)
        if k == "class":
            return self.construct(r[1], pos, kw, star_unknown, e, fr)
        if k == "np":
            return self.call_np(r[1], pos, kw, star_unknown, e, fr)
        if k == "c":
            return self.call_c(r[1], pos, kw, star_unknown, e, fr, is_ctor=True)
        if k == "cbound":
            _, selfav, ccls, name = r
            return self.call_c(ccls.cname + "." + name, pos, kw, star_unknown, e, fr)
        if k == "ext":
            return self.call_ext(r[1], pos, kw, star_unknown, e, fr)
        if k == "builtin":
            return self.call_builtin(r[1], pos, kw, star_unknown, e, fr)
        if k == "umeth":
            return self.call_umeth(r[1], r[2], pos, kw, star_unknown, e, fr)
        if k == "lambda":
            _, lam, lfr = r
            return self.inline(lfr.mod, lam, lfr.cls, pos, kw, star_unknown, e, fr, outer=lfr)
        if k == "callback":
            return self.callback(r[1], allargs, e, fr)
        return self.conservative("call of %s" % self.src(e.func), allargs, e, fr)

    def src(self, node):
        try:
            return ast.unparse(node)[:60]
        except Exception:
            return type(node).__name__

    def callback(self, fav, args, e, fr):
        """fav is called some number of times with arguments drawn from args (or new memory)"""
        r = fav.ref
        if r is None or r[0] not in ("es", "lambda"):
            return self.conservative("callback %s" % (r,), [fav] + args, e, fr)
        pool = union(args)

        def body():
            if r[0] == "es":
                _, mod, fdef, cls, selfav = r
                n = len(fdef.args.args) - (1 if selfav is not None else 0)
                self.inline(mod, fdef, cls, ([selfav] if selfav is not None else []) + [AV(pool.alias)] * n, {}, [], e, fr)
            else:
                _, lam, lfr = r
                self.inline(lfr.mod, lam, lfr.cls, [AV(pool.alias)] * len(lam.args.args), {}, [], e, fr, outer=lfr)
        self.loop(body)
        return FRESH

    def out_kw(self, kw, fr):
        """out= : the named array is written and is the result"""
        o = kw.get("out")
        if o is not None and not (isinstance(o.const, Const) and o.const.v is None):
            self.write(o, fr)
            return AV(o.alias)
        return None

    def call_np(self, name, pos, kw, su, e, fr):
        allargs = list(pos) + list(kw.values()) + list(su)
        short = name.split(".")[-1]
        o = self.out_kw(kw, fr)
        if name in NP_WRITES:
            if pos:
                self.write(pos[NP_WRITES[name]], fr)
            return FRESH
        if name in NP_UFUNC and "." not in name:
            nin = NP_UFUNC[name]
            if len(pos) > nin:
                tgt = pos[nin]
                if not (isinstance(tgt.const, Const) and tgt.const.v is None):
                    self.write(tgt, fr)
                    return AV(tgt.alias)
            if su:
                return self.conservative("numpy.%s with *args" % name, allargs, e, fr)
            if o is not None:
                return o
            return AV(kind="index" if name in ("logical_and", "logical_or", "logical_not", "greater", "less", "equal", "isfinite", "isnan") else None)
        if o is not None:
            return o
        if name in ("isscalar", "ndim") and len(pos) == 1 and isinstance(pos[0].const, Const) and isinstance(pos[0].const.v, (int, float, str, bool, complex)):
            return AV(const=Const(True if name == "isscalar" else 0))
        if name == "array" or name == "core.records.array":
            c = kw.get("copy")
            if c is None and len(pos) >= 3:
                c = pos[2]
            if c is None or (isinstance(c.const, Const) and c.const.v is True):
                return FRESH
            return union(pos[:1])
        if name in ("astype",):
            return FRESH
        if name in NP_ALIAS or short in ("view",):
            return union(allargs)
        if name in NP_FRESH:
            if name == "vectorize" and pos and pos[0].ref is not None:
                return AV(ref=("callback", pos[0]))
            return AV(kind="index" if short in ("where", "nonzero", "argsort", "arange", "searchsorted", "flatnonzero", "lexsort", "argwhere",
                                                 "argmax", "argmin", "digitize", "isfinite", "isnan", "isinf", "in1d", "isin") else None)
        if not pos and not kw and not su:
            return FRESH
        return self.conservative("numpy function numpy.%s" % name, allargs, e, fr)

    def call_c(self, cname, pos, kw, su, e, fr, is_ctor=False):
        allargs = list(pos) + list(kw.values()) + list(su)
        if cname.endswith(".__init__"):
            cname = cname[:-9]
        ent = C_TABLE.get(cname)
        if ent is None and "." in cname:
            ent = C_TABLE.get(cname.rsplit(".", 1)[0] + ".*")
        if ent is None:
            return self.conservative("C entry point %s (not in the table)" % cname, allargs, e, fr)
        self.centries.add(cname)
        for i in ent:
            if i < len(pos):
                self.write(pos[i], fr)
        if su and ent:
            for a in su:
                self.write(a, fr)
        if is_ctor and (cname + ".*" in C_TABLE or any(k.startswith(cname + ".") for k in C_TABLE)):
            path = self.tmp(fr, "cobj")
            self.emit(("bind", path, None))
            self.bound.add(path)
            return AV([path], obj=(path, CClass(cname)), nn=True)
        return FRESH

    def call_ext(self, name, pos, kw, su, e, fr):
        allargs = list(pos) + list(kw.values()) + list(su)
        if name in EXT_CALLBACK or name.split(".")[-1] in EXT_CALLBACK:
            i = EXT_CALLBACK.get(name, EXT_CALLBACK.get(name.split(".")[-1]))
            if i < len(pos):
                self.callback(pos[i], [a for j, a in enumerate(pos) if j != i] + list(kw.values()), e, fr)
                return FRESH
        if name in EXT_ALIAS:
            return union(allargs)
        if any(name.startswith(p) or name == p.rstrip(".") for p in EXT_FRESH_PREFIX):
            return FRESH
        return self.conservative("external function %s" % name, allargs, e, fr)

    def call_builtin(self, name, pos, kw, su, e, fr):
        allargs = list(pos) + list(kw.values()) + list(su)
        if name == "super":
            cls, selfav = fr.cls, None
            if fr.fdef is not None and fr.fdef.args.args:
                selfav = self.var_av(fr.var(fr.fdef.args.args[0].arg))
            if cls is None or selfav is None:
                return self.conservative("super() outside a method", allargs, e, fr)
            return AV(ref=("super", cls, selfav))
        if name == "getattr" and len(pos) >= 2 and isinstance(pos[1].const, Const) and isinstance(pos[1].const.v, str):
            return self.attr(pos[0], pos[1].const.v, e, fr)
        if name in ("len",) and pos and isinstance(pos[0].const, Const):
            try:
                v = pos[0].const.v
                return AV(const=Const(len(v.items if isinstance(v, KDict) else v)))
            except Exception:
                return FRESH
        if name in ("str", "int", "float", "bool") and len(pos) == 1 and isinstance(pos[0].const, Const) and isinstance(pos[0].const.v, (str, int, float, bool)):
            try:
                return AV(const=Const({"str": str, "int": int, "float": float, "bool": bool}[name](pos[0].const.v)))
            except Exception:
                return FRESH
        if name == "dict" and not pos and not su:
            return union(list(kw.values()), kind="container", const=Const(KDict(kw)))
        if name == "isinstance" and len(pos) == 2 and pos[0].kind == "ndarray" and len(e.args) == 2:
            names = {n.id if isinstance(n, ast.Name) else n.attr for n in ast.walk(e.args[1]) if isinstance(n, (ast.Name, ast.Attribute))}
            if names and names <= {"FunctionType", "MethodType", "LambdaType", "BuiltinFunctionType", "BuiltinMethodType", "types"}:
                return AV(const=Const(False))          # an ndarray is not a function
        if name in BUILTIN_FRESH:
            return FRESH
        if name in BUILTIN_ALIAS:
            if name in ("list", "tuple") and len(pos) == 1 and pos[0].elts is not None:
                return AV(pos[0].alias, elts=pos[0].elts, kind="container", const=pos[0].const if name == "tuple" else None)
            if name in ("map", "filter") and pos and pos[0].ref is not None:
                self.callback(pos[0], pos[1:], e, fr)
            return union(allargs, kind="container")
        return self.conservative("builtin %s" % name, allargs, e, fr)

    def call_umeth(self, base, name, pos, kw, su, e, fr):
        allargs = list(pos) + list(kw.values()) + list(su)
        c = base.const
        # constant folding on known strings / kwargs dictionaries
        if isinstance(c, Const):
            v = c.v
            if isinstance(v, KDict):
                if name == "get" and pos and isinstance(pos[0].const, Const):
                    if pos[0].const.v in v.items:
                        return v.items[pos[0].const.v]
                    return pos[1] if len(pos) > 1 else AV(const=Const(None))
                if name in ("keys", "items", "values", "copy"):
                    return AV(base.alias, kind="container", const=c if name == "copy" else None)
                if name in ("pop",) and pos and isinstance(pos[0].const, Const):
                    # strong update of the known dictionary on every name that holds it
                    k = pos[0].const.v
                    res = v.items.get(k, pos[1] if len(pos) > 1 else FRESH)
                    new = Const(KDict({kk: vv for kk, vv in v.items.items() if kk != k}))
                    for a in base.alias:
                        if self.st.consts.get(a) == c:
                            self.st.consts[a] = new
                    return res
            elif isinstance(v, (str, bytes)) and not su and not kw and all(isinstance(a.const, Const) and isinstance(a.const.v, (str, bytes, int, tuple)) for a in pos):
                if name in ("lower", "upper", "strip", "lstrip", "rstrip", "startswith", "endswith", "split", "replace", "format", "join",
                            "encode", "decode", "title", "find", "count", "isdigit"):
                    try:
                        res = getattr(v, name)(*[a.const.v for a in pos])
                        return AV(const=Const(res))
                    except Exception:
                        return FRESH
        o = self.out_kw(kw, fr)
        if name == "byteswap":
            flag = pos[0] if pos else kw.get("inplace")
            if flag is None or (isinstance(flag.const, Const) and not flag.const.v):
                return FRESH
            self.write(base, fr)
            return AV(base.alias)
        if name == "astype":
            cp = kw.get("copy")
            if cp is None or (isinstance(cp.const, Const) and cp.const.v is True):
                return FRESH
            return AV(base.alias)
        if name == "copy":
            if base.kind == "container" or (isinstance(c, Const) and isinstance(c.v, KDict)):
                return AV(base.alias, kind="container", const=c)
            return FRESH
        if name == "clip" and len(pos) >= 3:
            self.write(pos[2], fr)
            return AV(pos[2].alias)
        if o is not None:
            return o
        if name in METH_WRITE:
            self.write(base, fr)
            return AV(base.alias)
        if name in METH_CONTAINER:
            extra = union(allargs)
            for a in base.alias:
                self.weak_bind(a, extra)
                self.st.kinds[a] = "container"
            return AV(tuple(base.alias) + tuple(extra.alias) if name in ("pop", "popitem") else ())
        if name in METH_ALIAS:
            return AV(tuple(base.alias) + tuple(union(allargs).alias), kind=base.kind if name in ("view", "reshape", "ravel") else "container" if name in (
                "items", "values", "keys") else None)
        if name in METH_FRESH:
            if name in ("write", "writelines", "dump", "tofile") and union(allargs).alias and base.obj is None:
                # ASSUMPTION made visible: the receiver's class is not known (e.g. lost at a control-flow join); the method is taken to
                # be a file-like write that only reads its argument.  If it is an esutil writer (Recfile.write, SFile.write) its body
                # is NOT in this skeleton: the alias trace of the dynamic run reports the locals of that body.
                self.note("ASSUMED .%s() of a receiver of unknown class only reads its array argument" % name, e, fr)
            return AV(kind="index" if name in ("argsort", "nonzero", "searchsorted", "argmax", "argmin") else None)
        return self.conservative("method .%s()" % name, [base] + allargs, e, fr)

    # ------------------------------------------------------------------ inlining
    def construct(self, cls, pos, kw, su, e, fr):
        if isinstance(cls, CClass):
            return self.call_c(cls.cname, pos, kw, su, e, fr, is_ctor=True)
        path = self.tmp(fr, "obj:" + cls.name)
        self.emit(("bind", path, None))
        self.bound.add(path)
        selfav = AV([path], obj=(path, cls), nn=True)
        m = self.find_method(cls, "__init__")
        if m is not None and m[0] == "py":
            self.inline(m[2].mod, m[1], m[2], [selfav] + pos, kw, su, e, fr)
        elif m is not None and m[0] == "c":
            self.call_c(m[1].cname, pos, kw, su, e, fr)
        elif pos or kw or su:
            # dict(...)-like base constructor: the object holds its arguments
            self.weak_bind(path, union(list(pos) + list(kw.values()) + list(su)))
        return selfav

    def default_av(self, node, mod):
        try:
            return AV(const=Const(ast.literal_eval(node)), kind="container" if isinstance(node, (ast.Dict, ast.List, ast.Tuple)) else None)
        except Exception:
            pass
        fr = Frame(mod, None, "", None)
        self.quiet += 1
        try:
            ir, av = self.capture(lambda: self.eval(node, fr))
        finally:
            self.quiet -= 1
        return AV(av.alias, const=av.const, kind=av.kind, ref=av.ref)

    def inline(self, mod, fdef, cls, pos, kw, su, e, fr, outer=None):
        su = su or []
        key = id(fdef)
        name = getattr(fdef, "name", "<lambda>")
        if len(self.stack) >= MAX_DEPTH or self.stack.count(key) >= MAX_SAME:
            return self.conservative("recursive / too deep call of %s" % name, list(pos) + list(kw.values()) + list(su), e, fr)
        self.nframe += 1
        nf = Frame(mod, cls, "%d:" % self.nframe, fdef)
        if outer is not None:        # lambda: free variables are the enclosing frame's
            nf.pre = outer.pre
            nf.locals = set(outer.locals) | {a.arg for a in fdef.args.args}
            nf.imports = outer.imports
            nf.retvar = "%d:<ret>" % self.nframe
        a = fdef.args
        params = [x.arg for x in a.posonlyargs + a.args]
        ndef = len(a.defaults)
        defaults = dict(zip(params[len(params) - ndef:], a.defaults))
        for x, d in zip(a.kwonlyargs, a.kw_defaults):
            if d is not None:
                defaults[x.arg] = d
        kw = dict(kw)
        unknown = union(su) if su else None
        bound_vals = {}
        for i, p in enumerate(params):
            if i < len(pos):
                bound_vals[p] = pos[i]
            elif p in kw:
                bound_vals[p] = kw.pop(p)
            elif unknown is not None:
                bound_vals[p] = AV(unknown.alias)          # may come from *args / **kwargs we cannot see into
            elif p in defaults:
                bound_vals[p] = self.default_av(defaults[p], mod)
            else:
                bound_vals[p] = FRESH
        for x in a.kwonlyargs:
            p = x.arg
            if p in kw:
                bound_vals[p] = kw.pop(p)
            elif unknown is not None:
                bound_vals[p] = AV(unknown.alias)
            elif p in defaults:
                bound_vals[p] = self.default_av(defaults[p], mod)
            else:
                bound_vals[p] = FRESH
        if a.vararg:
            rest = list(pos[len(params):])
            bound_vals[a.vararg.arg] = union(rest + list(su), elts=rest if not su else None, kind="container")
        elif len(pos) > len(params):
            self.note("too many positional arguments for %s" % name, e, fr)
        if a.kwarg:
            if unknown is None:
                bound_vals[a.kwarg.arg] = union(list(kw.values()), kind="container", const=Const(KDict(kw)))
            else:
                bound_vals[a.kwarg.arg] = union(list(kw.values()) + [unknown], kind="container")
        elif kw:
            self.note("unexpected keyword arguments %s for %s" % (sorted(kw), name), e, fr)
        for p, av in bound_vals.items():
            self.bind(nf.var(p), av)
        self.bind(nf.retvar, AV(const=Const(None)))
        self.stack.append(key)
        try:
            if isinstance(fdef, ast.Lambda):
                av = self.eval(fdef.body, nf)
                self.bind(nf.retvar, av)
            else:
                ir, _ = self.capture(lambda: self.block(fdef.body, nf))
                self.out.extend(ir)
        finally:
            self.stack.pop()
        res = self.var_av(nf.retvar)
        if len(nf.arity) == 1 and None not in nf.arity:
            n = next(iter(nf.arity))
            res.elts = [self.var_av("%s#%d" % (nf.retvar, i)) for i in range(n)]
            res.kind = "container"
        return res

    # ------------------------------------------------------------------ assignment
    def assign(self, target, av, fr):
        if isinstance(target, ast.Name):
            if target.id in fr.locals:
                self.bind(fr.var(target.id), av)
            else:
                self.bind("g:%s.%s" % (fr.mod.name, target.id), av)
        elif isinstance(target, (ast.Tuple, ast.List)):
            n = len(target.elts)
            if av.elts is not None and len(av.elts) == n and not any(isinstance(t, ast.Starred) for t in target.elts):
                snaps = [self.snapshot(x, fr) for x in av.elts]
                for t, x in zip(target.elts, snaps):
                    self.assign(t, x, fr)
            elif (isinstance(av.const, Const) and isinstance(av.const.v, (list, tuple)) and len(av.const.v) == n
                  and not any(isinstance(t, ast.Starred) for t in target.elts)
                  and all(isinstance(v, (str, int, float, bool, type(None))) for v in av.const.v)):
                # unpacking a known constant sequence (`units_in, units_out = units` with units=["deg", "deg"])
                for t, v in zip(target.elts, av.const.v):
                    self.assign(t, AV(const=Const(v)), fr)
            else:
                for t in target.elts:
                    self.assign(t.value if isinstance(t, ast.Starred) else t, AV(av.alias, kind=av.kind), fr)
        elif isinstance(target, ast.Starred):
            self.assign(target.value, AV(av.alias, kind="container"), fr)
        elif isinstance(target, ast.Attribute):
            base = self.eval(target.value, fr)
            if base.obj is not None:
                path = base.obj[0]
                self.bind("%s.%s" % (path, target.attr), av)
                if av.alias:
                    self.weak_bind(path, av)
            elif target.attr in ATTR_META_WRITE:
                self.write(base, fr)
            else:
                for a in base.alias:
                    self.weak_bind(a, av)
        elif isinstance(target, ast.Subscript):
            base = self.eval(target.value, fr)
            idx = self.eval(target.slice, fr)
            self.store_item(base, idx, av, target, fr)
        else:
            self.conservative("assignment target %s" % type(target).__name__, [av], target, fr)

    def store_item(self, base, idx, av, node, fr):
        c = base.const
        if base.obj is not None:
            path, cls = base.obj
            m = self.find_method(cls, "__setitem__")
            if m is not None and m[0] == "py":
                self.inline(m[2].mod, m[1], m[2], [base, idx, av], {}, None, node, fr)
                return
            if m is not None and m[0] == "builtin":
                if isinstance(idx.const, Const):
                    self.bind("%s[%r]" % (path, idx.const.v), av)
                else:
                    if (path + "{*}") not in self.bound:
                        self.bind(path + "{*}", FRESH)
                    self.weak_bind(path + "{*}", av)
                if av.alias:
                    self.weak_bind(path, av)
                return
            self.write(base, fr)
            return
        if isinstance(c, Const) and isinstance(c.v, KDict):
            # a kwargs dictionary with a known key set
            if isinstance(idx.const, Const):
                new = Const(KDict(dict(c.v.items, **{idx.const.v: av})))
                for a in base.alias:
                    self.emit(("bind", a, list(dict.fromkeys((a,) + tuple(av.alias)))))
                    if self.st.consts.get(a) == c:
                        self.st.consts[a] = new
                    else:
                        self.st.consts.pop(a, None)
            else:
                for a in base.alias:
                    self.weak_bind(a, av)
            return
        if base.kind == "container":
            for a in base.alias:
                self.weak_bind(a, av)
                self.st.kinds[a] = "container"
            return
        # an array (or something we do not know to be a list/dict): VALUES are copied into its memory
        self.write(base, fr)

    # ------------------------------------------------------------------ statements
    # block() returns (jumps, always): the kinds of jump ('ret' = return/raise, 'loop' = break/continue)
    # that may leave the block, and whether every path through the block jumps.
    def block(self, stmts, fr):
        jumps = set()
        for i, s in enumerate(stmts):
            j, always, consumed = self.stmt(s, stmts[i + 1:], fr)
            jumps |= j
            if always:
                return jumps, True
            if consumed:
                return jumps, False
            if j:
                # s may have jumped: what follows is optional
                rest = stmts[i + 1:]
                if rest:
                    s0 = self.st.copy()
                    ir, (j2, _) = self.capture(lambda: self.block(rest, fr))
                    self.emit(("if", ir, []))
                    self.st = State.merge(s0, self.st)
                    jumps |= j2
                return jumps, False
        return jumps, False

    def stmt(self, s, rest, fr):
        m = getattr(self, "s_" + type(s).__name__, None)
        if m is None:
            names = [self.eval(n, fr) for n in ast.walk(s) if isinstance(n, ast.Name) and isinstance(n.ctx, ast.Load)]
            self.conservative("statement %s" % type(s).__name__, names, s, fr)
            return set(), False, False
        r = m(s, rest, fr)
        return r if r is not None else (set(), False, False)

    def s_Expr(self, s, rest, fr):
        self.eval(s.value, fr)

    def s_Pass(self, s, rest, fr):
        pass

    s_Global = s_Nonlocal = s_Pass

    def s_Import(self, s, rest, fr):
        for a in s.names:
            fr.imports[a.asname or a.name.split(".")[0]] = ("module", a.name if a.asname else a.name.split(".")[0])

    def s_ImportFrom(self, s, rest, fr):
        src = fr.mod._rel(s.level, s.module)
        for a in s.names:
            fr.imports[a.asname or a.name] = ("from", src, a.name)

    def s_FunctionDef(self, s, rest, fr):
        v = fr.var(s.name)
        self.bind(v, AV(ref=("es", fr.mod, s, None, None)))
        self.note("nested function %s: inlined at its calls without its closure" % s.name, s, fr)

    def s_Assert(self, s, rest, fr):
        self.eval(s.test, fr)

    def s_Delete(self, s, rest, fr):
        for t in s.targets:
            if isinstance(t, ast.Name) and t.id in fr.locals:
                self.bind(fr.var(t.id), FRESH)
            elif not isinstance(t, ast.Name):
                self.eval(t.value, fr)

    def s_Assign(self, s, rest, fr):
        av = self.eval(s.value, fr)
        if len(s.targets) > 1:
            av = self.snapshot(av, fr)
        for t in s.targets:
            self.assign(t, av, fr)

    def s_AnnAssign(self, s, rest, fr):
        if s.value is not None:
            self.assign(s.target, self.eval(s.value, fr), fr)

    def s_AugAssign(self, s, rest, fr):
        val = self.eval(s.value, fr)
        t = s.target
        if isinstance(t, ast.Name):
            cur = self.lookup_name(t.id, fr)
            if isinstance(cur.const, Const) and isinstance(cur.const.v, (int, float, str, bool, tuple)):
                # an immutable python value: `x += e` rebinds x
                self.assign(t, AV(cur.alias if isinstance(cur.const.v, tuple) else ()), fr)
                return
            # ndarray: in place.  list: extended in place (it then also holds val)
            self.write(cur, fr)
            if val.alias and (cur.kind == "container" or val.kind == "container"):
                for a in cur.alias:
                    self.weak_bind(a, val)
            for a in cur.alias:
                self.st.consts.pop(a, None)
        else:
            base = self.eval(t.value, fr)
            if isinstance(t, ast.Subscript):
                idx = self.eval(t.slice, fr)
                if base.obj is not None or base.kind == "container" or (isinstance(base.const, Const) and isinstance(base.const.v, KDict)):
                    cur = self.subscript(base, idx, t, fr)
                    # element of a container updated: treat as in-place on the element, then stored back
                    self.write(cur, fr)
                    self.store_item(base, idx, AV(cur.alias), t, fr)
                else:
                    self.write(base, fr)
            else:
                cur = self.attr(base, t.attr, t, fr)
                self.write(cur, fr)
                if base.obj is None and t.attr in ATTR_META_WRITE:
                    self.write(base, fr)

    def s_Return(self, s, rest, fr):
        if s.value is None:
            self.bind(fr.retvar, AV(const=Const(None)))
            fr.arity.add(None)
        else:
            av = self.eval(s.value, fr)
            if isinstance(s.value, ast.Tuple) and av.elts is not None:
                fr.arity.add(len(av.elts))
                for i, x in enumerate(av.elts):
                    self.bind("%s#%d" % (fr.retvar, i), x)
            elif av.elts is not None and av.kind == "container":
                fr.arity.add(len(av.elts))
                for i, x in enumerate(av.elts):
                    self.bind("%s#%d" % (fr.retvar, i), x)
            else:
                fr.arity.add(None)
            self.bind(fr.retvar, AV(av.alias, const=av.const, obj=av.obj, kind=av.kind, ref=av.ref, nn=av.nn))
        return {"ret"}, True, False

    def s_Raise(self, s, rest, fr):
        if s.exc is not None:
            self.eval(s.exc, fr)
        return {"ret"}, True, False

    def s_Break(self, s, rest, fr):
        return {"loop"}, True, False

    s_Continue = s_Break

    def s_If(self, s, rest, fr):
        t = self.truth(self.eval(s.test, fr))
        if t is True:
            j, alw = self.block(s.body, fr)
            return j, alw, False
        if t is False:
            j, alw = self.block(s.orelse, fr)
            return j, alw, False
        s0 = self.st.copy()
        ira, (ja, alwa) = self.capture(lambda: self.block(s.body, fr))
        sa = self.st
        self.st = s0.copy()
        irb, (jb, alwb) = self.capture(lambda: self.block(s.orelse, fr))
        sb = self.st
        if alwa and alwb:
            self.emit(("if", ira, irb))
            self.st = State.merge(sa, sb)
            return ja | jb, True, True
        if alwa or alwb:
            # the rest of the enclosing block continues the branch that does not jump
            self.st = sb if alwa else sa
            irr, (jr, alwr) = self.capture(lambda: self.block(rest, fr))
            if alwa:
                self.emit(("if", ira, irb + irr))
                self.st = State.merge(sa, self.st)
            else:
                self.emit(("if", ira + irr, irb))
                self.st = State.merge(sb, self.st)
            return ja | jb | jr, alwr, True
        self.emit(("if", ira, irb))
        self.st = State.merge(sa, sb)
        return ja | jb, False, False

    def s_For(self, s, rest, fr):
        it = self.eval(s.iter, fr)
        jumps = set()

        def body():
            # iterating an array yields views of it; iterating a container yields its elements
            self.assign(s.target, AV(it.alias, kind="index" if it.kind == "index" else None), fr)
            j, _ = self.block(s.body, fr)
            jumps.update(j)
        self.loop(body)
        if s.orelse:
            self.optional(lambda: jumps.update(self.block(s.orelse, fr)[0]))
        return (jumps - {"loop"}), False, False

    def s_While(self, s, rest, fr):
        jumps = set()
        t0 = self.truth(self.eval(s.test, fr))
        if t0 is False:
            return set(), False, False

        def body():
            j, _ = self.block(s.body, fr)
            jumps.update(j)
            self.eval(s.test, fr)
        self.loop(body)
        if s.orelse:
            self.optional(lambda: jumps.update(self.block(s.orelse, fr)[0]))
        return (jumps - {"loop"}), False, False

    def s_With(self, s, rest, fr):
        exits = []
        for item in s.items:
            av = self.eval(item.context_expr, fr)
            res = av
            if av.obj is not None:
                m = self.find_method(av.obj[1], "__enter__")
                if m is not None and m[0] == "py":
                    res = self.inline(m[2].mod, m[1], m[2], [av], {}, None, s, fr)
                x = self.find_method(av.obj[1], "__exit__")
                if x is not None and x[0] == "py":
                    exits.append((x, av))
            if item.optional_vars is not None:
                self.assign(item.optional_vars, res, fr)
        j, alw = self.block(s.body, fr)
        for x, av in reversed(exits):
            self.inline(x[2].mod, x[1], x[2], [av, FRESH, FRESH, FRESH], {}, None, s, fr)
        return j, alw, False

    def prefix_closed(self, ir):
        """every prefix of ir (at every nesting level) is a possible execution"""
        if not ir:
            return []
        h = ir[0]
        if h[0] == "if":
            h = ("if", self.prefix_closed(h[1]), self.prefix_closed(h[2]))
        elif h[0] == "loop":
            h = ("loop", self.prefix_closed(h[1]))
        r = self.prefix_closed(ir[1:])
        return [h] + ([("if", r, [])] if r else [])

    def s_Try(self, s, rest, fr):
        s0 = self.st.copy()
        ir, (j, _) = self.capture(lambda: self.block(s.body, fr))
        jumps = set(j)
        if s.handlers:
            # an exception may leave the body after any prefix
            self.out.extend(self.prefix_closed(ir))
            self.st = State.merge(s0, self.st)
            # facts established inside the body are not relied upon in the handlers
            base = State.merge(s0, self.st)
            ends = [self.st]
            for h in s.handlers:
                self.st = base.copy()

                def hb(h=h):
                    if h.type is not None:
                        self.eval(h.type, fr)
                    if h.name:
                        self.bind(fr.var(h.name), FRESH)
                    jj, _ = self.block(h.body, fr)
                    jumps.update(jj)
                hir, _ = self.capture(hb)
                self.emit(("if", hir, []))
                ends.append(self.st)
            st = ends[0]
            for x in ends[1:]:
                st = State.merge(st, x)
            self.st = st
        else:
            self.out.extend(ir)
        if s.orelse:
            self.optional(lambda: jumps.update(self.block(s.orelse, fr)[0]))
        if s.finalbody:
            jf, _ = self.block(s.finalbody, fr)
            jumps |= jf
        return jumps, False, False

    # ------------------------------------------------------------------ drivers
    def run_driver(self, mod, fname, params):
        """skeleton of function `fname` of module `mod` (a driver); params = names of the array
        parameters that must not change.  Returns dict(ir, params, names, notes, centries)."""
        self.notes, self.nframe, self.ntmp, self.stack, self.out = [], 0, 0, [], []
        self.st, self.bound, self.centries = State(), set(), set()
        fdef = mod.funcs[fname]
        fr = Frame(mod, None, "0:", fdef)
        # the driver's own parameters are the initial environment (not bound by the skeleton)
        for a in fdef.args.args:
            v = fr.var(a.arg)
            self.bound.add(v)
            self.st.defined.add(v)
            if a.annotation is not None and isinstance(a.annotation, ast.Name) and a.annotation.id == "str":
                # fixture: a LOCAL file name with extension .rec (the dynamic run uses such names)
                self.st.consts[v] = Const(DRIVER_FNAME)
                self.st.nn[v] = True
            elif a.annotation is None:
                # an unannotated driver parameter IS a numpy array (that is what the dynamic run passes): kind "ndarray" travels with
                # plain name loads and argument passing and lets `isinstance(x, (FunctionType, MethodType))` fold to False
                self.st.kinds[v] = "ndarray"
                self.st.nn[v] = True
        self.stack.append(id(fdef))
        self.block(fdef.body, fr)
        ir = self.out
        names = {}

        def num(v):
            if v not in names:
                names[v] = len(names) + 1
            return names[v]
        pids = [num(fr.var(p)) for p in params]
        others = [num(fr.var(a.arg)) for a in fdef.args.args if a.arg not in params]

        def conv(l):
            out = []
            for s in l:
                if s[0] == "bind":
                    out.append(("bind", num(s[1]), None if s[2] is None else [num(y) for y in s[2]]))
                elif s[0] == "write":
                    out.append(("write", num(s[1])))
                elif s[0] == "if":
                    out.append(("if", conv(s[1]), conv(s[2])))
                else:
                    out.append(("loop", conv(s[1])))
            return out
        cir = conv(ir)
        return {"ir": cir, "params": pids, "names": {v: k for k, v in names.items()}, "notes": list(self.notes),
                "centries": sorted(self.centries), "size": ir_size(cir)}


def ir_size(ir):
    n = 0
    for s in ir:
        n += 1
        if s[0] == "if":
            n += ir_size(s[1]) + ir_size(s[2])
        elif s[0] == "loop":
            n += ir_size(s[1])
    return n


def ir_writes(ir):
    n = 0
    for s in ir:
        if s[0] == "write":
            n += 1
        elif s[0] == "if":
            n += ir_writes(s[1]) + ir_writes(s[2])
        elif s[0] == "loop":
            n += ir_writes(s[1])
    return n


def simplify(ir):
    """drop empty SIf/SLoop (no effect in the semantics or the analysis)"""
    out = []
    for s in ir:
        if s[0] == "if":
            a, b = simplify(s[1]), simplify(s[2])
            if a or b:
                out.append(("if", a, b))
        elif s[0] == "loop":
            b = simplify(s[1])
            if b:
                out.append(("loop", b))
        else:
            out.append(s)
    return out


def coq_ir(ir):
    parts = []
    for s in ir:
        if s[0] == "bind":
            parts.append("SBind %d Fresh" % s[1] if s[2] is None else "SBind %d (MayAlias [%s])" % (s[1], "; ".join(map(str, s[2]))))
        elif s[0] == "write":
            parts.append("SWrite %d" % s[1])
        elif s[0] == "if":
            parts.append("SIf %s %s" % (coq_ir(s[1]), coq_ir(s[2])))
        else:
            parts.append("SLoop %s" % coq_ir(s[1]))
    return "[" + "; ".join(parts) + "]"


def pretty(ir, names, ind=0):
    out = []
    for s in ir:
        p = "  " * ind
        if s[0] == "bind":
            out.append("%s%s := %s" % (p, names[s[1]], "fresh" if s[2] is None else "alias{" + ", ".join(names[y] for y in s[2]) + "}"))
        elif s[0] == "write":
            out.append("%sWRITE %s" % (p, names[s[1]]))
        elif s[0] == "if":
            out.append(p + "if:")
            out += pretty(s[1], names, ind + 1)
            out.append(p + "else:")
            out += pretty(s[2], names, ind + 1)
        else:
            out.append(p + "loop:")
            out += pretty(s[1], names, ind + 1)
    return out


DRIVER_FNAME = "/c15-scratch/c15_file.rec"

DRIVER_PRELUDE = """
import numpy as np
import numpy
import esutil
from esutil import numpy_util, stat, coords, wcsutil, cosmology, htm, sfile, recfile, io
from esutil.recfile import Recfile
from esutil.sfile import SFile
"""


def extract(root, driver_src, fname, params, prelude=DRIVER_PRELUDE):
    ex = Extractor(root)
    mod = ex.add_module("esutil._c15_driver", prelude + "\n" + driver_src)
    mod.is_pkg = False
    res = ex.run_driver(mod, fname, params)
    res["ir"] = simplify(res["ir"])
    res["size"] = ir_size(res["ir"])
    res["coq"] = coq_ir(res["ir"])
    return res
